(* Instances for the eager = reading theorem: a typed toy kernel semantics (a value is (is_float, number); Add / Mul /
   Less / Div / Mod refuse operands of different types, as onnxruntime's type constraints do) that satisfies every
   kernel law of EagerProofs.eager_eq_script; a program of the class with an attribute parameter (promoted and
   forwarded), a literal variable, if / for / while / break; and the witnesses of the places where eager mode and
   the reading differ by construction (each replayed on the real code by harness/c01_eager.py). *)
From Coq Require Import List String ZArith Bool Lia.
Require Import OV.Graph.Syntax OV.Graph.Sem OV.Script.Syntax OV.Script.Sets OV.Gen.Analysis OV.Gen.ScriptTables OV.Script.Translate
               OV.Script.PySem OV.Script.Eager OV.Script.PySemAttrs OV.Script.EagerClass OV.Script.EagerProofs.
Import ListNotations.
Local Open Scope string_scope.

Definition tv : Type := (bool * Z)%type.

Definition same2 (f : bool -> Z -> Z -> option tv) (args : list (option tv)) : option (list tv) :=
  match args with
  | [Some (fa, a); Some (fb, b)] => if Bool.eqb fa fb then option_map (fun r => [r]) (f fa a b) else None
  | _ => None
  end.

Definition has_fmod (attrs : list (string * attrv)) : bool :=
  match attrs with [("fmod", AInt 1%Z)] => true | _ => false end.

Definition ty_sem (dom op : string) (attrs : list (string * attrv)) (args : list (option tv)) : option (list tv) :=
  if negb (String.eqb dom "") then None
  else if String.eqb op "Constant" then
    match attrs, args with
    | [(_, ATensor dt [] [z])], [] => Some [(Z.eqb dt 1, z)]
    | [(_, AFloat b)], [] => Some [(true, b)]
    | [(_, AInt z)], [] => Some [(false, z)]
    | _, _ => None
    end
  else if String.eqb op "Cast" then match args with [Some (_, a)] => Some [(false, a)] | _ => None end
  else if String.eqb op "CastLike" then match args with [Some (_, a); Some (fb, _)] => Some [(fb, a)] | _ => None end
  else if String.eqb op "Add" then same2 (fun f a b => Some (f, a + b)%Z) args
  else if String.eqb op "Sub" then same2 (fun f a b => Some (f, a - b)%Z) args
  else if String.eqb op "Mul" then same2 (fun f a b => Some (f, a * b)%Z) args
  else if String.eqb op "Div" then same2 (fun f a b => if Z.eqb b 0 then None else Some (f, a / b)%Z) args
  else if String.eqb op "Mod" then
    same2 (fun f a b => if Z.eqb b 0 then None else Some (f, if has_fmod attrs then Z.rem a b else Z.modulo a b)) args
  else if String.eqb op "Less" then same2 (fun _ a b => Some (false, if Z.ltb a b then 1 else 0)%Z) args
  else if String.eqb op "Neg" then match args with [Some (f, a)] => Some [(f, - a)%Z] | _ => None end
  else if String.eqb op "Scale" then
    match attrs, args with [("alpha", AFloat k)], [Some (f, a)] => Some [(f, a * k)%Z] | _, _ => None end
  else None.

Definition ty_truth (v : tv) : option bool := Some (negb (Z.eqb (snd v) 0)).
Definition ty_trip (v : tv) : option nat := if fst v then None else Some (Z.to_nat (snd v)).
Definition ty_of_nat (n : nat) : tv := (false, Z.of_nat n).
Definition lit_num (l : lit) : option Z :=
  match l with LInt z => Some z | LFloat b => Some b | LBool b => Some (if b then 1 else 0)%Z | LInts _ => None end.
Definition lit_float (l : lit) : bool := match l with LFloat _ => true | _ => false end.
Definition ty_dyn_cast (l : lit) (tgt : option tv) : option tv :=
  match lit_num l with
  | None => None
  | Some z => Some (match tgt with Some (f, _) => f | None => lit_float l end, z)
  end.
Definition ty_fun_cast (l : lit) : option tv := ty_dyn_cast l None.
Definition ty_is_float (v : tv) : bool := fst v.

(* the kernel laws hold of this semantics, for every attribute binding *)
Lemma ty_laws : forall avals,
  let sem := sem_res avals ty_sem in
  (forall d o attrs args, sem d o (map (resolve1 avals) attrs) args = sem d o attrs args) /\
  (forall l c, const_val tv sem l = Some c -> ty_dyn_cast l None = Some c) /\
  (forall l c y r, const_val tv sem l = Some c -> sem1 tv sem "" "CastLike" [] [Some c; Some y] = Some r -> ty_dyn_cast l (Some y) = Some r) /\
  (forall a k l c, lookup_assoc a avals = Some l -> kind_ok k l = true -> attr_tensor tv sem a k = Some c -> const_val tv sem l = Some c).
Proof.
  intros avals sem. split; [|split; [|split]].
  - intros. apply sem_res_resolves.
  - intros l c H. destruct l as [z|b|b|zs]; cbv in H; inversion H; subst; reflexivity.
  - intros l c [fy y] r Hc H. destruct l as [z|b|b|zs]; cbv in Hc; inversion Hc; subst; cbv in H; inversion H; subst; reflexivity.
  - intros a k l c Hl Hk H. unfold attr_tensor, sem, sem_res in H. cbn [map] in H. unfold resolve1 in H. cbn [snd fst] in H.
    rewrite Hl in H. destruct k, l; try discriminate; cbv in H; inversion H; subst; try reflexivity.
Qed.

(* def f(x, n, alpha: float):  y = x + alpha;  z = op.Scale(y, alpha=alpha);  k = 2
       for i in range(n):
           y = y + 1.0;  c = y < 9.0
           if c: y = k * y
           else: y = y - alpha
       b = y < z
       while b:
           y = y + z;  b = y < 30.0;  t = z < y
           if t: break
       return y, z                                   (x: float tensor, n: int tensor) *)
Definition exe_f : func :=
  {| f_name := "f"; f_tparams := ["x"; "n"]; f_aparams := [("alpha", AKFloat, false)];
     f_body := [SAssign "y" (EBin "Add" (EVar "x") (EVar "alpha"));
                SAssign "z" (ECall (COp "Scale") [Some (EVar "y")] [("alpha", KName "alpha")]);
                SAssign "k" (ELit (LInt 2));
                SFor "i" (EVar "n")
                     [SAssign "y" (EBin "Add" (EVar "y") (ELit (LFloat 1)));
                      SAssign "c" (ECmp "Lt" (EVar "y") (ELit (LFloat 9)));
                      SIf (EVar "c") [SAssign "y" (EBin "Mult" (EVar "k") (EVar "y"))]
                                     [SAssign "y" (EBin "Sub" (EVar "y") (EVar "alpha"))]];
                SAssign "b" (ECmp "Lt" (EVar "y") (EVar "z"));
                SWhile "b"
                       [SAssign "y" (EBin "Add" (EVar "y") (EVar "z"));
                        SAssign "b" (ECmp "Lt" (EVar "y") (ELit (LFloat 30)));
                        SAssign "t" (ECmp "Lt" (EVar "z") (EVar "y"));
                        SIf (EVar "t") [SBreak] []];
                SReturn [EVar "y"; EVar "z"]] |}.

Definition exe_avals : list (string * lit) := [("alpha", LFloat 3)].
Definition exe_script (xs : list tv) : option (list tv) :=
  eval_script_attrs tv (sem_res exe_avals ty_sem) ty_truth ty_trip ty_of_nat 10 [] 6 exe_f xs exe_avals.
Definition exe_eager (xs : list tv) : option (list tv) :=
  eval_eager tv (sem_res exe_avals ty_sem) ty_truth ty_trip 10 [] ty_dyn_cast ty_fun_cast ty_is_float 6 exe_f xs exe_avals.

Lemma exe_hyps :
  let S := scalar_names [] exe_f in
  attr_names exe_f = ["alpha"] /\ (forall a, In a ["alpha"] -> In a S) /\
  block_eok S (loop_vars 40 (f_body exe_f)) ["alpha"] (f_body exe_f) = true /\ globals_in S [] = true /\
  eager_class [] exe_f = true /\
  exe_script [(true, 1); (false, 2)]%Z = Some [(true, 20); (true, 12)]%Z /\
  exe_eager [(true, 1); (false, 2)]%Z = Some [(true, 20); (true, 12)]%Z /\
  exe_script [(true, 1); (false, 0)]%Z = Some [(true, 16); (true, 12)]%Z /\
  exe_eager [(true, 1); (false, 0)]%Z = Some [(true, 16); (true, 12)]%Z.
Proof.
  cbv zeta. split; [reflexivity|]. split; [intros a [<-|[]]; vm_compute; auto 10|].
  repeat split; vm_compute; reflexivity.
Qed.

(* ---------------------------------------------------------------- differences by construction *)

Definition run_script (f : func) (xs : list tv) : option (list tv) :=
  eval_script_attrs tv ty_sem ty_truth ty_trip ty_of_nat 10 [] 6 f xs [].
Definition run_eager (f : func) (xs : list tv) : option (list tv) :=
  eval_eager tv ty_sem ty_truth ty_trip 10 [] ty_dyn_cast ty_fun_cast ty_is_float 6 f xs [].

(* (e1) for i in range(n): y = y + i  with y a float tensor: the reading (and the graph) add an INT64 tensor to a float
   tensor (no value); eagerly i is a Python int promoted to float *)
Definition d_loopvar : func :=
  {| f_name := "d1"; f_tparams := ["y"; "n"]; f_aparams := [];
     f_body := [SFor "i" (EVar "n") [SAssign "y" (EBin "Add" (EVar "y") (EVar "i"))]; SReturn [EVar "y"]] |}.
(* (e3) 2.0 / x: Tensor has no __rtruediv__ *)
Definition d_rdiv : func :=
  {| f_name := "d2"; f_tparams := ["x"]; f_aparams := []; f_body := [SReturn [EBin "Div" (ELit (LFloat 8)) (EVar "x")]] |}.
(* (e4) a returned Python value *)
Definition d_retscalar : func :=
  {| f_name := "d3"; f_tparams := ["x"]; f_aparams := [];
     f_body := [SAssign "k" (ELit (LFloat 2)); SReturn [EBin "Add" (EVar "x") (ELit (LFloat 1)); EVar "k"]] |}.
(* (e2) x % 2.0 with x an integer tensor: the converter sets fmod=1 (C remainder), Tensor.__mod__ does not (floor modulo) *)
Definition d_mod : func :=
  {| f_name := "d4"; f_tparams := ["x"]; f_aparams := []; f_body := [SReturn [EBin "Mod" (EVar "x") (ELit (LFloat 2))]] |}.

Lemma eager_differs_by_construction :
  (run_script d_loopvar [(true, 1); (false, 3)]%Z = None /\ run_eager d_loopvar [(true, 1); (false, 3)]%Z = Some [(true, 4)%Z]) /\
  (run_script d_rdiv [(true, 2)%Z] = Some [(true, 4)%Z] /\
   run_eager d_rdiv [(true, 2)%Z] = if bin_refl_ok "Div" then Some [(true, 4)%Z] else None) /\
  (run_script d_retscalar [(true, 2)%Z] = Some [(true, 3); (true, 2)]%Z /\ run_eager d_retscalar [(true, 2)%Z] = None) /\
  (run_script d_mod [(false, -3)%Z] = Some [(false, -1)%Z] /\ run_eager d_mod [(false, -3)%Z] = Some [(false, 1)%Z]) /\
  eager_class [] d_loopvar = false /\ eager_class [] d_rdiv = bin_refl_ok "Div" /\ eager_class [] d_retscalar = false /\ eager_class [] d_mod = false.
Proof. repeat split; vm_compute; reflexivity. Qed.
