(* C05, family _fuse_pad_into_conv.py: property theorems (statements only, closed by `exact`). *)
From Coq Require Import ZArith List.
Require Import OV.Rules.PadConv OV.Rules.PadConvProofs.
Import ListNotations.
Open Scope Z_scope.

(* fill_pads_with_axes implements ONNX Pad's `axes`: axis axes[t] gets (pads[t], pads[t+N]), every other axis (0, 0) *)
Theorem C05_padconv_fill_pads_with_axes : forall pads axes rank,
  NoDup axes -> (forall a, In a axes -> (a < rank)%nat) ->
  let f := fill_pads_with_axes pads axes rank in
  length f = (2 * rank)%nat /\
  (forall t, (t < length axes)%nat ->
     nth (nth t axes O) f 0 = nth t pads 0 /\ nth (nth t axes O + rank) f 0 = nth (t + length axes) pads 0) /\
  (forall j, (forall a, In a axes -> a <> j /\ (a + rank)%nat <> j) -> nth j f 0 = 0).
Proof. exact fill_pads_spec. Qed.
Print Assumptions C05_padconv_fill_pads_with_axes.

Theorem C05_padconv_fill_pads_default_axes : forall pads rank,
  length pads = (2 * rank)%nat -> fill_pads_with_axes pads (seq 0 rank) rank = pads.
Proof. exact fill_pads_default_axes. Qed.
Print Assumptions C05_padconv_fill_pads_default_axes.

(* the spatial slice emitted as Conv pads: begins of axes 2.., then ends of axes 2.. *)
Theorem C05_padconv_spatial_slice : forall l rank, length l = (2 * rank)%nat -> (2 <= rank)%nat ->
  length (spatial l rank) = (2 * (rank - 2))%nat /\
  forall j, (j < rank - 2)%nat ->
    nth j (spatial l rank) 0 = nth (j + 2) l 0 /\
    nth (j + (rank - 2)) (spatial l rank) 0 = nth (rank + (j + 2)) l 0.
Proof. exact spatial_spec. Qed.
Print Assumptions C05_padconv_spatial_slice.

(* wherever the modelled rule fires, the side conditions of the algebraic theorem below hold *)
Theorem C05_padconv_fires_side_conditions : forall p out, fuse_impl p = Some out ->
  fp_mode_constant p = true /\ fp_cval_zero p = true /\ fp_auto_pad_notset p = true /\
  exists axes,
    (match fp_axes p with Some a => norm_axes (fp_rank p) a | None => Some (seq 0 (fp_rank p)) end) = Some axes /\
    let filled := fill_pads_with_axes (fp_pads p) axes (fp_rank p) in
    (forall j, 0 <= nth j filled 0) /\
    (forall j, (j < 2)%nat -> nth j filled 0 = 0 /\ nth (fp_rank p + j) filled 0 = 0) /\
    out = match fp_conv_pads p with Some cp => zipadd cp (spatial filled (fp_rank p)) | None => spatial filled (fp_rank p) end.
Proof. exact fuse_impl_fires_side_conditions. Qed.
Print Assumptions C05_padconv_fires_side_conditions.

(* PARTIAL: stated for ONE spatial axis (1-D signals); the n-D operator pads every axis independently, that product structure
   is not formalised (measured by the oracle on 1-3 spatial axes).
   Conv(Pad_0(x; b1,e1); pads b2,e2) = Conv(x; pads b1+b2, e1+e2): every kernel, stride, dilation, signal, output index *)
Theorem C05_padconv_fuse_sound_partial : forall w k s d b1 e1 b2 e2 x, 0 <= b1 -> 0 <= e1 ->
  conv_pads_len k s d b2 e2 (pad0 b1 e1 x) = conv_pads_len k s d (b1 + b2) (e1 + e2) x /\
  forall j, conv_pads_at w k s d b2 e2 (pad0 b1 e1 x) j = conv_pads_at w k s d (b1 + b2) (e1 + e2) x j.
Proof. exact fuse_pad_conv_sound. Qed.
Print Assumptions C05_padconv_fuse_sound_partial.

(* the two conjuncts of `check` that the theorem needs are necessary *)
Theorem C05_padconv_negative_pads_refuted : exists w k s d b1 e1 b2 e2 x j,
  conv_pads_at w k s d b2 e2 (pad0 b1 e1 x) j <> conv_pads_at w k s d (b1 + b2) (e1 + e2) x j.
Proof. exact fuse_pad_conv_negative_refuted. Qed.
Print Assumptions C05_padconv_negative_pads_refuted.

Theorem C05_padconv_nonzero_value_refuted : exists c w k s d b1 e1 x j,
  conv_pads_at w k s d 0 0 (padc c b1 e1 x) j <> conv_pads_at w k s d b1 e1 x j.
Proof. exact fuse_pad_conv_nonzero_value_refuted. Qed.
Print Assumptions C05_padconv_nonzero_value_refuted.

(* ConvInteger: sound when x_zero_point = 0 ... *)
Theorem C05_padconv_convinteger_zero_point_0_partial : forall w k s d b1 e1 b2 e2 x j, 0 <= b1 -> 0 <= e1 ->
  convint_host_at w k s d b1 e1 b2 e2 0 x j = convint_pads_at w k s d (b1 + b2) (e1 + e2) 0 x j.
Proof. exact fuse_pad_convinteger_sound_zero_point_0. Qed.
Print Assumptions C05_padconv_convinteger_zero_point_0_partial.

(* ... and NOT otherwise; `check` as read does not look at x_zero_point (finding C05:padconv:convinteger-nonzero-zero-point) *)
Theorem C05_padconv_convinteger_zero_point_refuted : exists w k s d b1 e1 zp x j,
  convint_host_at w k s d b1 e1 0 0 zp x j <> convint_pads_at w k s d b1 e1 zp x j.
Proof. exact fuse_pad_convinteger_zero_point_refuted. Qed.
Print Assumptions C05_padconv_convinteger_zero_point_refuted.

Theorem C05_padconv_fixed_rule_refines : forall p out, fuse_fixed p = Some out ->
  fuse_impl p = Some out /\ (fp_integer p = true -> fp_xzp_zero p = true).
Proof. exact fuse_fixed_refines_impl. Qed.
Print Assumptions C05_padconv_fixed_rule_refines.

(* auto_pad normalisation: explicit pads of the ONNX SAME_* total give output ceil(x/s), split as the operator document says *)
Theorem C05_padconv_same_pads_output : forall x k s d upper, 0 < x -> 0 < s -> 0 < k -> 0 < d ->
  let '(b, e) := split_pads upper (total_spec x k s d) in
  0 <= b /\ 0 <= e /\ b + e = total_spec x k s d /\ conv_out_len x k s d b e = cdiv x s.
Proof. exact same_pads_output_len. Qed.
Print Assumptions C05_padconv_same_pads_output.

Theorem C05_padconv_compute_pads_no_dilation : forall x k s, 0 < s ->
  total_impl x (cdiv x s) k s = total_spec x k s 1.
Proof. exact compute_pads_no_dilation. Qed.
Print Assumptions C05_padconv_compute_pads_no_dilation.

(* compute_pads as read ignores dilations (finding C05:padconv:normalize-auto-pad-ignores-dilations) *)
Theorem C05_padconv_compute_pads_dilation_refuted : exists x k s d,
  0 < x /\ 0 < s /\ 0 < k /\ 0 < d /\
  total_impl x (cdiv x s) k s <> total_spec x k s d /\
  let '(b, e) := split_pads true (total_impl x (cdiv x s) k s) in conv_out_len x k s d b e <> cdiv x s.
Proof. exact compute_pads_dilation_refuted. Qed.
Print Assumptions C05_padconv_compute_pads_dilation_refuted.

Theorem C05_padconv_compute_pads_impl_ok_iff : forall x k s d, 0 < s ->
  0 < (cdiv x s - 1) * s + keff k d - x ->
  (total_impl x (cdiv x s) k s = total_spec x k s d <-> (d = 1 \/ k = 1)).
Proof. exact compute_pads_impl_ok_iff. Qed.
Print Assumptions C05_padconv_compute_pads_impl_ok_iff.

Theorem C05_padconv_compute_pads_fixed : forall x k s d, 0 < s ->
  total_fixed x (cdiv x s) k s d = total_spec x k s d.
Proof. exact compute_pads_fixed_sound. Qed.
Print Assumptions C05_padconv_compute_pads_fixed.

Theorem C05_padconv_same_pads_list : forall fixed upper xs ys ks ss ds j,
  (j < length xs)%nat -> length ys = length xs -> length ks = length xs -> length ss = length xs ->
  nth j (same_pads_list fixed upper xs ys ks ss ds) (0, 0) =
  split_pads upper (if fixed then total_fixed (nth j xs 0) (nth j ys 0) (nth j ks 0) (nth j ss 0) (nth j ds 1)
                    else total_impl (nth j xs 0) (nth j ys 0) (nth j ks 0) (nth j ss 0)).
Proof. exact same_pads_list_nth. Qed.
Print Assumptions C05_padconv_same_pads_list.
