(* stub, replaced below *)
Require Import OV.ExtData.Save OV.Gen.C20Guard.
Theorem C20_stub : guard_all_graphs = guard_all_graphs.
Proof. exact eq_refl. Qed.
Print Assumptions C20_stub.
