(* Model of the ModelProto / ir.Model wrappers (C15): onnxscript/optimizer/__init__.py (optimize, fold_constants,
   remove_unused_nodes, remove_unused_functions), rewriter/__init__.py (rewrite), version_converter/__init__.py
   (convert_version), utils/replace.py (replace_functions).  Each proto-form wrapper is
       deserialize -> pass on the IR model -> serialize -> copy-back discipline
   and the discipline found in the source is regenerated into Gen/C15Wrappers.v by the harness.
   A ModelProto is split into the parts that the disciplines distinguish.  No proofs here. *)
From Coq Require Import List Bool.
Import ListNotations.

Section Wrappers.
  Variables G Fs O R : Type.                (* graph, functions, opset_import, every other ModelProto field *)
  Record proto := { p_graph : G; p_funcs : Fs; p_opset : O; p_rest : R }.
  Variable no_funcs : Fs.                    (* `del model_proto.functions[:]` *)

  (* how the transformed model gets back to the caller *)
  Inductive copyback :=
  | NewProto                                 (* a new ModelProto is returned, the argument is not written to *)
  | ClearCopyFrom                            (* model_proto.Clear(); model_proto.CopyFrom(new_proto) *)
  | FieldsOnly (copy_funcs copy_opset : bool). (* graph.Clear(); graph.CopyFrom(new graph); functions deleted, then
                                                  optionally functions / opset_import copied from the new proto *)
  Inductive ret := RetNone | RetArg | RetNew (p : proto) | RetOther.
  Record effect := { arg_after : proto; returned : ret }.
  (* where the caller finds the transformed model *)
  Definition result_of (e : effect) : proto := match returned e with RetNew p => p | _ => arg_after e end.

  (* M = argument before the call, S = serialize(pass(deserialize M)); `other` = the function returns a non-model
     result object (fold_constants) instead of None *)
  Definition run_core (w : copyback) (other : bool) (M S : proto) : effect :=
    match w with
    | NewProto => {| arg_after := M; returned := RetNew S |}
    | ClearCopyFrom => {| arg_after := S; returned := if other then RetOther else RetNone |}
    | FieldsOnly cf co =>
        {| arg_after := {| p_graph := p_graph S;
                           p_funcs := if cf then p_funcs S else no_funcs;
                           p_opset := if co then p_opset S else p_opset M;
                           p_rest := p_rest M |};
           returned := if other then RetOther else RetNone |}
    end.
  (* rewrite(model, []) : `elif not pattern_rewrite_rules: return model` *)
  Definition run_empty_rules (M : proto) : effect := {| arg_after := M; returned := RetArg |}.

  Variable IR : Type.
  Variables (ser : IR -> proto) (deser : proto -> IR).
  Definition run_proto (w : copyback) (other : bool) (f : IR -> IR) (M : proto) : effect :=
    run_core w other M (ser (f (deser M))).

  (* IR form: the pass mutates the ir.Model it is given; the function returns the same object, None, or a result object *)
  Inductive iret := IRetNone | IRetArg | IRetOther.
  Record ieffect := { iarg_after : IR; ireturned : iret }.
  Definition run_ir (r : iret) (f : IR -> IR) (m : IR) : ieffect := {| iarg_after := f m; ireturned := r |}.
  Definition run_ir_empty_rules (m : IR) : ieffect := {| iarg_after := m; ireturned := IRetArg |}.

  Definition N (M : proto) : proto := ser (deser M).
End Wrappers.

Arguments RetNone {G Fs O R}.
Arguments RetArg {G Fs O R}.
Arguments RetOther {G Fs O R}.
Arguments RetNew {G Fs O R} p.

(* ---- correspondence: parts of a proto are interned byte strings (equal number = equal bytes) *)
Definition nproto := proto nat nat nat nat.
Definition np (g f o r : nat) : nproto := {| p_graph := g; p_funcs := f; p_opset := o; p_rest := r |}.
Definition nproto_eqb (a b : nproto) : bool :=
  Nat.eqb (p_graph _ _ _ _ a) (p_graph _ _ _ _ b) && Nat.eqb (p_funcs _ _ _ _ a) (p_funcs _ _ _ _ b) &&
  Nat.eqb (p_opset _ _ _ _ a) (p_opset _ _ _ _ b) && Nat.eqb (p_rest _ _ _ _ a) (p_rest _ _ _ _ b).
(* observed: argument after the call; what was returned: 0 None, 1 the argument itself, 2 a new proto (given), 3 another object *)
Definition obs_matches (e : effect nat nat nat nat) (arg_after_obs : nproto) (ret_kind : nat) (ret_obs : nproto) : bool :=
  nproto_eqb (arg_after _ _ _ _ e) arg_after_obs &&
  match returned _ _ _ _ e, ret_kind with
  | RetNone, 0 => true
  | RetArg, 1 => true
  | RetNew p, 2 => nproto_eqb p ret_obs
  | RetOther, 3 => true
  | _, _ => false
  end.
Fixpoint disagreeing (i : nat) (cs : list bool) : list nat :=
  match cs with [] => [] | c :: t => (if c then [] else [i]) ++ disagreeing (S i) t end.
