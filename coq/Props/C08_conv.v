(* C08 property theorems, convolution attribute handling (core.py: aten_convolution, aten_conv1d / 2d / 3d): statements only.

   The strides / pads / dilations / output_padding attributes handed to Conv / ConvTranspose = PyTorch's expanded parameter
   lists (expand_param_if_needed) with pads = [begin..., end...] = padding twice, the node is accepted (attribute lengths,
   1-D bias), and the operator documents' output extents equal conv_output_size / conv_input_size for every extent.
   NOT covered: the convolution values (kernel; direct oracle on exact data), padding given as a string, complex variants,
   output_padding >= stride (legal in PyTorch when < dilation; onnxruntime's ConvTranspose refuses it). *)
From Coq Require Import ZArith List Bool.
Require Import OV.Torch.Onnx OV.Torch.Onnx2 OV.Torch.Onnx3 OV.Torch.Spec OV.Torch.Spec2 OV.Torch.Spec3 OV.Torch.Aten OV.Torch.Aten2
               OV.Torch.Aten3 OV.Torch.ScatterConvProofs OV.Torch.Examples3.
Import ListNotations.
Local Open Scope Z_scope.

Theorem C08_conv_output_extent : forall n k s p d, conv_out n k s p p d = torch_conv_out n k s p d.
Proof. exact conv_out_correct. Qed.
Print Assumptions C08_conv_output_extent.
Theorem C08_conv_transpose_output_extent : forall n k s p d op, convT_out n k s p p d op = torch_convT_out n k s p d op.
Proof. exact convT_out_correct. Qed.
Print Assumptions C08_conv_transpose_output_extent.

Definition C08_convolution_attrs_full : Prop := forall e stride padding dilation transposed output_padding st pd dl op,
  0 <= e -> torch_conv_params e stride padding dilation output_padding = Some (st, pd, dl, op) ->
  aten_convolution_attrs e stride padding dilation transposed output_padding = Some (st, (pd ++ pd)%list, dl, op).
(* missing: a transposed convolution whose output_padding list has one entry for e >= 2 spatial dimensions (false of the code) *)
Theorem C08_convolution_attrs_partial : forall e stride padding dilation transposed output_padding st pd dl op,
  0 <= e -> torch_conv_params e stride padding dilation output_padding = Some (st, pd, dl, op) ->
  (transposed = false \/ zlen output_padding = e) ->
  aten_convolution_attrs e stride padding dilation transposed output_padding = Some (st, (pd ++ pd)%list, dl, output_padding)
  /\ (zlen output_padding = e -> output_padding = op).
Proof. exact convolution_attrs_correct. Qed.
Print Assumptions C08_convolution_attrs_partial.
Theorem C08_convolution_one_entry_output_padding_refuted : exists e stride padding dilation output_padding p,
  torch_conv_params e stride padding dilation output_padding = Some p /\
  aten_convolution_attrs e stride padding dilation true output_padding = None.
Proof. exact convolution_one_entry_output_padding_refuted. Qed.
Print Assumptions C08_convolution_one_entry_output_padding_refuted.
Theorem C08_convolution_attrs_fixed : forall e stride padding dilation transposed output_padding st pd dl op,
  0 <= e -> torch_conv_params e stride padding dilation output_padding = Some (st, pd, dl, op) ->
  aten_convolution_attrs_fixed e stride padding dilation transposed output_padding = Some (st, (pd ++ pd)%list, dl, op).
Proof. exact convolution_attrs_fixed_correct. Qed.
Print Assumptions C08_convolution_attrs_fixed.

(* conv1d / conv2d / conv3d: full-length lists; conv3d only with a bias *)
Theorem C08_convnd_attrs_partial : forall e stride padding dilation has_bias,
  zlen stride = e -> zlen padding = e -> zlen dilation = e -> (has_bias = true \/ e <> 3) ->
  aten_convnd_attrs e stride padding dilation has_bias = Some (stride, (padding ++ padding)%list, dilation, [])
  /\ torch_conv_params e stride padding dilation [0] = Some (stride, padding, dilation, repeat 0 (Z.to_nat e)).
Proof. exact convnd_attrs_partial. Qed.
Print Assumptions C08_convnd_attrs_partial.
Theorem C08_convnd_one_entry_list_refuted : exists e stride padding dilation p,
  torch_conv_params e stride padding dilation [0] = Some p /\ aten_convnd_attrs e stride padding dilation true = None.
Proof. exact convnd_one_entry_refuted. Qed.
Print Assumptions C08_convnd_one_entry_list_refuted.
(* genuine defect: aten_conv3d without bias builds a zero bias of shape [C_out, 2] (copied from the complex variant) *)
Theorem C08_conv3d_bias_omitted_refuted : exists stride padding dilation p,
  torch_conv_params 3 stride padding dilation [0] = Some p /\ aten_convnd_attrs 3 stride padding dilation false = None
  /\ aten_convnd_attrs 3 stride padding dilation true <> None.
Proof. exact conv3d_bias_omitted_refuted. Qed.
Print Assumptions C08_conv3d_bias_omitted_refuted.
Theorem C08_convnd_attrs_fixed : forall e stride padding dilation has_bias st pd dl op,
  0 <= e -> torch_conv_params e stride padding dilation [0] = Some (st, pd, dl, op) ->
  aten_convnd_attrs_fixed e stride padding dilation has_bias = Some (st, (pd ++ pd)%list, dl, []).
Proof. exact convnd_attrs_fixed_correct. Qed.
Print Assumptions C08_convnd_attrs_fixed.

(* the flagged variants evaluated by the correspondence checker: false = the code as read, true = proposed_fixes/ready/C08_11..13 *)
Theorem C08_convolution_attrs_v_fixed : forall e stride padding dilation transposed output_padding st pd dl op,
  0 <= e -> torch_conv_params e stride padding dilation output_padding = Some (st, pd, dl, op) ->
  aten_convolution_attrs_v true e stride padding dilation transposed output_padding = Some (st, (pd ++ pd)%list, dl, op).
Proof. exact convolution_attrs_v_fixed. Qed.
Print Assumptions C08_convolution_attrs_v_fixed.
Theorem C08_convnd_attrs_v_fixed : forall e stride padding dilation has_bias st pd dl op,
  0 <= e -> torch_conv_params e stride padding dilation [0] = Some (st, pd, dl, op) ->
  aten_convnd_attrs_v true true e stride padding dilation has_bias = Some (st, (pd ++ pd)%list, dl, []).
Proof. exact convnd_attrs_v_fixed. Qed.
Print Assumptions C08_convnd_attrs_v_fixed.
Theorem C08_convnd_attrs_v_as_read : forall e stride padding dilation has_bias,
  aten_convnd_attrs_v false false e stride padding dilation has_bias = aten_convnd_attrs e stride padding dilation has_bias.
Proof. exact convnd_attrs_v_as_read. Qed.
Print Assumptions C08_convnd_attrs_v_as_read.
