(* C18 -- the literal operands of the trace theorem derived from the C12 specification.

   In C18_build_computes_trace_cf_partial/_checked (Props/C18.v) the operand a Python literal becomes -- a constant of
   some element type (OLit) or CastLike(constant, like-value) (OLitCast) -- is an input of the model.  Here it is derived
   inside Coq: a TYPED call (schema from the regenerated registry Gen/Schemas; per operand: value id + element type +
   "type known to the builder" | Python literal | omitted) is run through C12's model of tape_builder._cast_inputs
   (Autocast.promote_builder) by TraceLit.promote_call.  Tie: harness/c18_lits.py evaluates TraceLit.lits_by_specb
   on every operator call with a literal operand that the real GraphBuilder executes (observed node operands). *)
From Coq Require Import String List Bool Arith ZArith NArith.
Require OV.Autocast.Autocast OV.Autocast.AutocastProofs OV.Gen.Schemas.
Require Import OV.Graph.Syntax OV.Graph.Sem.
Require Import OV.Builder.Trace OV.Builder.TraceProofs OV.Builder.TraceCF OV.Builder.TraceCFProofs OV.Builder.TraceLit OV.Builder.TraceLitProofs.
Import ListNotations.
Local Open Scope list_scope.

(* (a) For every schema accepted by C12's schema_okb (every schema of the registry: AutocastProofs.registry_well_formed)
   and every typed call on which promote_call succeeds (it fails exactly when the real builder raises: more actuals
   than formals of a non-variadic schema): tensors and omitted inputs pass through unchanged; at every literal position
   the derived operand is
     - OLit tagged with d       when the binding sibling (first ir.Value operand at a position with the literal's
                                type_str) has a type known to the builder, d = that type;
     - OLitCast (tagged with the literal's own Python-type dtype) like   exactly when the binding sibling's type is
                                unknown, like = that sibling's id, d = its run-time type;
     - OLit tagged int64 / float32 / bool by Python type   when no value binds the type_str,
   and in every case d is a dtype C12's specification assigns: spec_dtype others l p d (by AutocastProofs.builder_eq_spec).
   Not covered: the payload (shape, bytes) and the cache key of the constant stay observed (C12: np_cast,
   cache_never_conflates); a literal the builder cannot convert (C12's Overflow finding) is outside promote_call.
   `named` is C12's variant flag of the builder (Autocast.promote_builder_v: true after repo fix 4f6059b, uncached
   constants get a generated name instead of raising); the statement holds for both variants.  Literal positions are
   characterised for PLAIN literals (C12's plainb: a scalar or homogeneous list whose ir.tensor dtype is the
   Python-type default), exactly the restriction of C12_builder_eq_spec; a non-plain literal (e.g. [1.5, 2]) is
   compared with C12's model by the tie only. *)
Theorem C18_promoted_constant_dtype_by_spec : forall named c ops,
  A.schema_okb (tc_schema c) = true ->
  promote_call named c = Some ops ->
  exists slots tps,
    slots_of c = A.OK slots /\ tps = combine (tc_args c) (map snd slots) /\
    List.length ops = List.length (tc_args c) /\
    (forall i id d kn, nth_error (tc_args c) i = Some (TVal id d kn) -> nth_error ops i = Some (OVal id)) /\
    (forall i, nth_error (tc_args c) i = Some TNone -> nth_error ops i = Some ONone) /\
    (forall i t, nth_error (tc_args c) i = Some (TLit t) -> A.plainb (tl_lit t) = true ->
       exists pre p post,
         slots = pre ++ (A.ALit (tl_lit t), p) :: post /\ List.length pre = i /\
         match binder tps p with
         | Some (id, d, true) =>
             nth_error ops i = Some (OLit (mk_lit t d)) /\ A.spec_dtype (pre ++ post) (tl_lit t) p d
         | Some (id, d, false) =>
             nth_error ops i = Some (OLitCast (mk_lit t (A.default_dtype (tl_lit t))) id) /\
             A.spec_dtype (pre ++ post) (tl_lit t) p d
         | None =>
             nth_error ops i = Some (OLit (mk_lit t (A.default_dtype (tl_lit t)))) /\
             A.spec_dtype (pre ++ post) (tl_lit t) p (A.default_dtype (tl_lit t))
         end).
Proof. exact promoted_constant_dtype_by_spec. Qed.
Print Assumptions C18_promoted_constant_dtype_by_spec.

(* which sibling wins: the FIRST ir.Value operand whose position carries the literal's identifier type_str *)
Theorem C18_binder_is_first_occurrence : forall tps p id d kn,
  binder tps p = Some (id, d, kn) ->
  exists k pre q post, A.p_bkey p = Some k /\ A.has_paren k = false /\
    tps = pre ++ (TVal id d kn, q) :: post /\ A.p_bkey q = Some k /\
    forall id' d' kn' q', In (TVal id' d' kn', q') pre -> A.p_bkey q' <> Some k.
Proof. exact binder_is_first_occurrence. Qed.
Print Assumptions C18_binder_is_first_occurrence.

(* every schema the lookup (name, opset) can return satisfies the hypothesis of (a) *)
Theorem C18_looked_up_schema_ok : forall name opset s,
  find_schema name opset None OV.Gen.Schemas.all = Some s -> A.schema_okb s = true.
Proof. exact schema_at_ok. Qed.
Print Assumptions C18_looked_up_schema_ok.

(* the operands the reading `creplay` uses at a derived call are the typed reading `targs`: a literal is
   `tensor (spec_fn slots l p) payload` -- the constant of the element type C12's executable specification assigns --,
   or, next to a binding sibling of unknown type, CastLike(tensor <Python-type dtype> payload, sibling).
   Hypotheses: well-formed schema, well-typed call (C12's `uniform`), plain literals (C12's plainb), a literal tagged (d, payload) denotes `tensor d payload`. *)
Theorem C18_derived_call_reads_typed :
  forall V sem (tensor : A.dtype -> string -> V) lit_val,
  (forall d p, lit_val (lit_tag d p) = tensor d p) ->
  forall named c slots ops,
  A.schema_okb (tc_schema c) = true -> slots_of c = A.OK slots -> A.uniform slots ->
  all_plain c = true ->
  promote_call named c = Some ops ->
  forall E, cargs V sem lit_val E ops = targs V sem tensor E c.
Proof. exact derived_reads_typed. Qed.
Print Assumptions C18_derived_call_reads_typed.

(* (b) composition with C18_build_computes_trace_cf_checked: for a trace whose every operator call, at every nesting
   depth (If / Loop bodies built through builder.subgraph), has the operands promote_call derives for a well-typed call
   of a well-formed schema, and whose decidable hypotheses cf_hypsb hold: whenever the reading of the trace is defined,
   the graph GraphBuilder builds evaluates to it, and at every call that reading reads the operands as the typed reading
   does -- each literal the constant of the C12-assigned element type.
   _partial: what is missing for build_computes_typed_trace_full is (i) the converse direction (reading undefined =>
   evaluation fails), inherited from build_computes_trace_cf_full, and (ii) a reading defined on the typed trace alone
   (a `treplay` over typed calls with typed nested bodies): here the typed reading is stated per call (`reads_typed`:
   forall environments, cargs = targs), the control-flow skeleton is still read by creplay. *)
Theorem C18_build_computes_typed_trace_partial :
  forall V sem truth trip of_nat of_bool lim (tensor : A.dtype -> string -> V) lit_val cf fuel ins tr outs args r,
  (forall d p, lit_val (lit_tag d p) = tensor d p) ->
  every_calls derived tr ->
  cf_hypsb cf ins tr = true ->
  List.length args = List.length ins ->
  creplay V sem truth trip of_nat of_bool lim lit_val fuel tr args outs = Some r ->
  eval_graph V sem truth trip of_nat of_bool lim (S fuel)
             (init_env V lit_val (b_cache (fst (build_state cf ins tr)))) (build cf ins tr outs) args = Some r /\
  every_calls (reads_typed V sem tensor lit_val) tr.
Proof. exact build_computes_typed_trace_partial. Qed.
Print Assumptions C18_build_computes_typed_trace_partial.

(* ------------------------------------------------------------------ non-vacuity *)
(* Add(x: float known, 2) -> float32 constant *)
Example C18_lits_add_known :
  promote_call true (TC (s_of "Add") [TVal 0 A.FLOAT true; TLit (tl two "const_2_f32" "const_2_f32" "():00000040")]) =
  Some [OVal 0; OLit (Lit "const_2_f32" (LNFixed "const_2_f32") "float32:():00000040")].
Proof. exact ex_add_known. Qed.

(* Add(x: type unknown, 2) -> CastLike(int64 constant, x) *)
Example C18_lits_add_unknown :
  promote_call true (TC (s_of "Add") [TVal 3 A.FLOAT false; TLit (tl two "const_2_i64" "const_2_i64" "():0200000000000000")]) =
  Some [OVal 3; OLitCast (Lit "const_2_i64" (LNFixed "const_2_i64") "int64:():0200000000000000") 3].
Proof. exact ex_add_unknown. Qed.

(* Max, homogeneous variadic, literals at the first / a middle / the last position: the first value binds *)
Example C18_lits_max_positions :
  promote_call true (TC (s_of "Max") [TLit (tl two "a" "a" "p"); TVal 5 A.FLOAT false; TLit (tl half "b" "b" "q"); TVal 1 A.FLOAT true;
                                 TLit (tl (A.LScalar (A.SBool true)) "c" "c" "r")]) =
  Some [OLitCast (Lit "a" (LNFixed "a") "int64:p") 5; OVal 5; OLitCast (Lit "b" (LNFixed "b") "float32:q") 5; OVal 1;
        OLitCast (Lit "c" (LNFixed "c") "bool:r") 5] /\
  promote_call true (TC (s_of "Max") [TLit (tl two "a" "a" "p"); TVal 1 A.FLOAT true; TVal 5 A.FLOAT false;
                                 TLit (tl (A.LScalar (A.SBool true)) "c" "c" "r")]) =
  Some [OLit (Lit "a" (LNFixed "a") "float32:p"); OVal 1; OVal 5; OLit (Lit "c" (LNFixed "c") "float32:r")].
Proof. exact ex_max_positions. Qed.

(* Loop, heterogeneous variadic v_initial: the carried literals keep int64 / float32 / bool *)
Example C18_lits_loop_hetero :
  promote_call true (TC (s_of "Loop") [TLit (tl two "t" "t" "p"); TNone; TVal 0 A.FLOAT true; TLit (tl two "a" "a" "q");
                                  TLit (tl half "b" "b" "r"); TLit (tl (A.LList (A.SBool true) [A.SBool false]) "c" "c" "s")]) =
  Some [OLit (Lit "t" (LNFixed "t") "int64:p"); ONone; OVal 0; OLit (Lit "a" (LNFixed "a") "int64:q");
        OLit (Lit "b" (LNFixed "b") "float32:r"); OLit (Lit "c" (LNFixed "c") "bool:s")].
Proof. exact ex_loop_hetero. Qed.

(* no tensor sibling *)
Example C18_lits_no_sibling :
  promote_call true (TC (s_of "Reshape") [TVal 0 A.FLOAT true; TLit (tl (A.LList (A.SInt (-1)) []) "s" "s" "p")]) =
  Some [OVal 0; OLit (Lit "s" (LNFixed "s") "int64:p")] /\
  promote_call true (TC (s_of "Where") [TVal 0 A.BOOL true; TLit (tl half "a" "a" "p"); TLit (tl half "a" "a" "p")]) =
  Some [OVal 0; OLit (Lit "a" (LNFixed "a") "float32:p"); OLit (Lit "a" (LNFixed "a") "float32:p")].
Proof. exact ex_no_sibling. Qed.

(* the hypotheses of (a) and of `derived` hold on a Max call with literals at the first and last position *)
Example C18_lits_derived_satisfiable : A.schema_okb (tc_schema ex_call) = true /\ derived ex_ops.
Proof. exact ex_derived. Qed.

(* all hypotheses of (b) at once: a = op.Add(x, 2) beside a known type, b = op.Mul(u, 2) beside an unknown type *)
Example C18_lits_typed_trace_hypotheses_satisfiable :
  every_calls derived ex_lit_trace /\ cf_hypsb bcfg_fixed ["x"; "u"]%string ex_lit_trace = true /\
  (forall d p, zl (lit_tag d p) = (fun d p => zl (lit_tag d p)) d p) /\
  creplay Z zsem ztruth ztrip Z.of_nat zof_bool 100 zl 1 ex_lit_trace [5; 7]%Z [2; 3] = Some [24; 175]%Z.
Proof. exact ex_typed_trace_hyps. Qed.

(* the two builder variants: a non-plain literal (a list mixing float and int leaves the cached path) made the builder
   raise as read and is promoted with ir.tensor's dtype after repo fix 4f6059b; on plain literals they agree *)
Example C18_lits_not_plain :
  let mixed := A.LList (A.SFloat false 3 1) [A.SInt 2] in
  A.plainb mixed = false /\
  promote_call false (TC (s_of "Add") [TVal 0 A.FLOAT true; TLit (tl mixed "k" "k" "p")]) = None /\
  promote_call true (TC (s_of "Add") [TVal 0 A.FLOAT true; TLit (tl mixed "k" "k" "p")]) =
  Some [OVal 0; OLit (Lit "k" (LNFixed "k") "float32:p")] /\
  promote_call false (TC (s_of "Add") [TVal 0 A.FLOAT true; TLit (tl two "k" "k" "p")]) =
  promote_call true (TC (s_of "Add") [TVal 0 A.FLOAT true; TLit (tl two "k" "k" "p")]).
Proof. exact ex_not_plain. Qed.
