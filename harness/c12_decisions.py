"""C12: the decision structure of the promotion code, read from the python ast (fail-closed), and the
inventory of caches / dict memos in the anchored files.

    autocast.cast_inputs + static_cast_inputs + dynamic_cast_inputs + cast_pyvalue_to_os_tensor
    tape_builder.BuilderBase._cast_inputs + _input_to_ir_value
        -> coq/Gen/C12Decisions.v : three `decisions` records (coq/Autocast/Autocast.v) + `eager_wrap_src`,
           `builder_wrap_src`, `builder_named_src` (which variant of the creation code the source contains)

Every statement of the analysed functions must be one of the recognised forms; anything else raises
TranslationError (the caller reports a broken translator tie and the correspondence run then looks for
a failing input).  Recognised alternatives map to different flag values, so an edit that keeps the shape
but changes a condition yields a record for which the instance theorems of AutocastProofs.v fail.
"""
from __future__ import annotations

import ast
import os

from harness import c12_norm as NORM
from harness.c12_registry import TranslationError

# locals (not parameters) of the analysed functions in order of first binding, as the recognised shapes below spell them
# (c12_norm: temporaries beyond this list are substituted when sound, the remaining locals renamed to it by position)
REF_LOCALS = {
    "cast_inputs": ["x", "expected_inputs", "type_bindings", "args_typevars", "i", "expected", "typevar", "typeinfo", "cast_args"],
    "_cast_inputs": ["i", "expected_inputs", "type_bindings", "args_typevars", "x", "expected", "typevar"],
    "_input_to_ir_value": ["dtype", "needs_dynamic_cast", "ir_value"],
}


def _src(n):
    return ast.unparse(n)


def _strip_doc(body):
    body = list(body)
    if body and isinstance(body[0], ast.Expr) and isinstance(body[0].value, ast.Constant) and isinstance(body[0].value.value, str):
        body = body[1:]
    return body


def _find(tree, name, cls=None):
    found = []
    for n in ast.walk(tree):
        if isinstance(n, ast.ClassDef) and cls is not None and n.name == cls:
            found += [m for m in n.body if isinstance(m, ast.FunctionDef) and m.name == name]
    if cls is None:
        found = [n for n in tree.body if isinstance(n, ast.FunctionDef) and n.name == name]
    if len(found) != 1:
        raise TranslationError(f"{cls + '.' if cls else ''}{name}: found {len(found)} definitions")
    return found[0]


def _findn(tree, name, cls=None):
    """_find + the behaviour-preserving normal form of harness/c12_norm.py"""
    return NORM.normal(_find(tree, name, cls), REF_LOCALS.get(name, []), tree)


def _want(texts):
    return NORM.flat_texts(texts)


# ------------------------------------------------------------------------------------------- the loop

_INDEX_TESTS = {"i < len(expected_inputs)"}
_VARIADIC_TESTS = {"expected_inputs[-1].variadic",
                   "expected_inputs and expected_inputs[-1].option == onnx.defs.OpSchema.FormalParameterOption.Variadic"}
_HETERO_TESTS = {"not expected.homogeneous", "not expected.is_homogeneous"}
_KEYS = {"expected.type_constraint.name": "KeyConstraintName", "expected.type_str": "KeyTypeStr"}
_APPEND_NONE = {"args_typevars.append((x, None))"}
_APPEND_KEY = {"args_typevars.append((x, typevar))"}


def translate_loop(fn, what):
    """-> dict of flags for the `for i, x in enumerate(...)` loop of cast_inputs / _cast_inputs"""
    loops = [n for n in fn.body if isinstance(n, ast.For)]
    if len(loops) != 1:
        raise TranslationError(f"{what}: {len(loops)} top-level for loops")
    loop = loops[0]
    if _src(loop.target) != "(i, x)" or not _src(loop.iter).startswith("enumerate(") or loop.orelse:
        raise TranslationError(f"{what}: unexpected loop header `for {_src(loop.target)} in {_src(loop.iter)}`")
    body = list(loop.body)
    flags = dict(index_branch=False, variadic_branch=False, raise_otherwise=False, hetero_none=False, tail_binds=True,
                 paren_guard=False, first_wins=False)
    # --- statement 1: choice of the formal
    if not body or not isinstance(body[0], ast.If):
        raise TranslationError(f"{what}: the loop does not start with the choice of the formal parameter")
    sel = body[0]
    if _src(sel.test) not in _INDEX_TESTS or [_src(b) for b in sel.body] != ["expected = expected_inputs[i]"]:
        raise TranslationError(f"{what}: unrecognised first branch `if {_src(sel.test)}: {[_src(b) for b in sel.body]}`")
    flags["index_branch"] = True
    if len(sel.orelse) != 1 or not isinstance(sel.orelse[0], ast.If):
        raise TranslationError(f"{what}: expected `elif <last formal is variadic>`")
    var = sel.orelse[0]
    if _src(var.test) not in _VARIADIC_TESTS:
        raise TranslationError(f"{what}: unrecognised variadic test `{_src(var.test)}`")
    flags["variadic_branch"] = True
    vb = list(var.body)
    if not vb or _src(vb[0]) != "expected = expected_inputs[-1]":
        raise TranslationError(f"{what}: variadic branch does not select expected_inputs[-1]: {[_src(b) for b in vb]}")
    rest = vb[1:]
    if not rest:
        flags["hetero_none"] = False
    elif len(rest) == 1 and isinstance(rest[0], ast.If) and _src(rest[0].test) in _HETERO_TESTS and not rest[0].orelse \
            and len(rest[0].body) == 2 and _src(rest[0].body[0]) in _APPEND_NONE and isinstance(rest[0].body[1], ast.Continue):
        flags["hetero_none"] = True
    elif len(rest) == 2 and isinstance(rest[1], ast.Continue) and isinstance(rest[0], ast.Expr) \
            and _src(rest[0]).startswith("args_typevars.append("):
        # the extra arguments are recorded and skip the binding step
        flags["tail_binds"] = False
        flags["hetero_none"] = "if expected.homogeneous else None" in _src(rest[0]) or "if expected.is_homogeneous else None" in _src(rest[0])
    else:
        raise TranslationError(f"{what}: unrecognised statements in the variadic branch: {[_src(b) for b in rest]}")
    if len(var.orelse) == 1 and isinstance(var.orelse[0], ast.Raise) and _src(var.orelse[0]).startswith("raise ValueError("):
        flags["raise_otherwise"] = True
    else:
        raise TranslationError(f"{what}: the else branch does not raise ValueError: {[_src(b) for b in var.orelse]}")
    # --- statement 2: the key
    if len(body) < 2 or not isinstance(body[1], ast.Assign) or _src(body[1].targets[0]) != "typevar" \
            or _src(body[1].value) not in _KEYS:
        raise TranslationError(f"{what}: unrecognised key statement `{_src(body[1]) if len(body) > 1 else ''}`")
    flags["key"] = _KEYS[_src(body[1].value)]
    # --- statement 3: the binding step
    if len(body) < 3 or not isinstance(body[2], ast.If) or body[2].orelse:
        raise TranslationError(f"{what}: binding step not found")
    guard = _src(body[2].test).replace('"', "'")
    guards = {"'(' not in typevar": (True, False),
              "'(' not in typevar and typevar not in type_bindings": (True, True),
              "typevar not in type_bindings and '(' not in typevar": (True, True),
              "typevar not in type_bindings": (False, True)}
    if guard not in guards:
        raise TranslationError(f"{what}: unrecognised guard of the binding step `{guard}`")
    flags["paren_guard"], flags["first_wins"] = guards[guard]
    bsrc = [_src(b) for b in body[2].body]
    if bsrc == ["typeinfo = get_type_info(x)", "if typeinfo is not None:\n    type_bindings[typevar] = typeinfo"]:
        flags["bind"] = "BindInfoNotNone"
    elif bsrc == ["if isinstance(x, ir.Value):\n    type_bindings[typevar] = x"]:
        flags["bind"] = "BindIsValue"
    else:
        raise TranslationError(f"{what}: unrecognised binding statements {bsrc}")
    # --- statement 4: record the pair
    if len(body) != 4 or _src(body[3]) not in _APPEND_KEY:
        raise TranslationError(f"{what}: unrecognised tail of the loop body {[_src(b) for b in body[3:]]}")
    return flags


def translate_autocast(path):
    tree = ast.parse(open(path).read())
    ci = _findn(tree, "cast_inputs")
    flags = translate_loop(ci, "autocast.cast_inputs")
    # the statements around the loop
    pre = [_src(b) for b in _strip_doc(ci.body) if not isinstance(b, ast.For)]
    want = ["if op_signature is None:\n    return tuple((cast(x, None) for x in args))",
            "expected_inputs = op_signature.inputs",
            "type_bindings: dict[Optional[str], np.dtype] = {}",
            "args_typevars: list[tuple[str, Optional[str]]] = []",
            "cast_args = [cast(x, type_bindings.get(typevar)) for x, typevar in args_typevars]",
            "return tuple(cast_args)"]
    if pre != _want(want):
        raise TranslationError(f"autocast.cast_inputs: statements around the loop changed: {[p for p in pre if p not in want][:2]}")
    flags["cast_by_lookup"] = True
    # dynamic
    dyn = _findn(tree, "dynamic_cast_inputs")
    dsrc = [_src(b) for b in _strip_doc(dyn.body)]
    if dsrc != _want(["def get_type_info(x):\n    return x.dtype if isinstance(x, tensor.Tensor) else None",
                "return cast_inputs(get_type_info, cast_pyvalue_to_os_tensor, op_signature, args)"]):
        raise TranslationError(f"autocast.dynamic_cast_inputs changed: {dsrc}")
    cp = _findn(tree, "cast_pyvalue_to_os_tensor")
    csrc = [_src(b) for b in _strip_doc(cp.body)]
    as_read = ["if _promotable(pyvalue):\n    if dtype is None:\n        dtype = _get_dtype(pyvalue)\n"
               "    return tensor.Tensor(np.array(pyvalue, dtype=dtype))", "return pyvalue"]
    wrapped = ["if _promotable(pyvalue):\n    if dtype is None:\n        dtype = _get_dtype(pyvalue)\n"
               "    return tensor.Tensor(np.asarray(pyvalue).astype(dtype))", "return pyvalue"]
    if csrc == _want(as_read):
        eager_wrap = False
    elif csrc == _want(wrapped):
        eager_wrap = True
    else:
        raise TranslationError(f"autocast.cast_pyvalue_to_os_tensor changed: {csrc}")
    for nm, want_src in (("_promotable",
                          ["if isinstance(x, (bool, int, float)):\n    return True",
                           "if isinstance(x, list) and x:\n    return _promotable(x[0])", "return False"]),
                         ("_get_dtype",
                          ["if isinstance(pyvalue, bool):\n    return np.bool_\nelif isinstance(pyvalue, int):\n    return np.int64\n"
                           "elif isinstance(pyvalue, float):\n    return np.float32\nelif isinstance(pyvalue, list):\n"
                           "    if pyvalue:\n        return _get_dtype(pyvalue[0])\n"
                           "    raise ValueError('Cannot determine target type for empty list')",
                           "raise TypeError(f'Value of unexpected type {type(pyvalue)}')"])):
        got = [_src(b) for b in _strip_doc(_findn(tree, nm).body)]
        if got != _want(want_src):
            raise TranslationError(f"autocast.{nm} changed: {got}")
    # static
    st = _findn(tree, "static_cast_inputs")
    ssrc = [_src(b) for b in _strip_doc(st.body)]
    inner = {}
    for b in _strip_doc(st.body):
        if isinstance(b, ast.FunctionDef):
            inner[b.name] = [_src(x) for x in _strip_doc(b.body)]
    if inner.get("get_type_info") != _want(["return None if x is None or converter_._is_castable(x.name) else x"]):
        raise TranslationError(f"static get_type_info changed: {inner.get('get_type_info')}")
    if inner.get("cast_like") != _want(["if x is None:\n    return None",
                                  "if converter_._is_castable(x.name) and y is not None:\n"
                                  "    x_cast = converter_._generate_unique_name(f'{x.name}_cast')\n"
                                  "    return converter_._emit1([x_cast], 'CastLike', [x, y])",
                                  "return x"]):
        raise TranslationError(f"static cast_like changed: {inner.get('cast_like')}")
    if ssrc[-1] != "return cast_inputs(get_type_info, cast_like, op_signature, args)" or len(ssrc) != 3:
        raise TranslationError("static_cast_inputs changed")
    static = dict(flags, info="InfoNonCastableValue", cast="CastLikeIfBound", none_passes=True)
    eager = dict(flags, info="InfoTensorDtype", cast="CreateAtBound", none_passes=True)
    return static, eager, eager_wrap


def translate_builder(path):
    tree = ast.parse(open(path).read())
    ci = _findn(tree, "_cast_inputs", "BuilderBase")
    flags = translate_loop(ci, "BuilderBase._cast_inputs")
    pre = [_src(b) for b in _strip_doc(ci.body) if not isinstance(b, ast.For)]
    want = ["if schema is None:\n    return [self._input_to_ir_value(i) for i in inputs]",
            "expected_inputs = schema.inputs",
            "type_bindings: dict[str, ir.Value] = {}",
            "args_typevars: list[tuple[ir.Value | None, str | None]] = []",
            "def adapt(x, typevar: str | None) -> ir.Value | None:\n    if x is None:\n        return None\n"
            "    if typevar is None:\n        return self._input_to_ir_value(x)\n"
            "    type_like = type_bindings.get(typevar)\n    return self._input_to_ir_value(x, type_like)",
            "return [adapt(x, typevar) for x, typevar in args_typevars]"]
    if pre != _want(want):
        raise TranslationError(f"BuilderBase._cast_inputs: statements around the loop changed: {[p for p in pre if p not in want][:2]}")
    flags["cast_by_lookup"] = True
    iv = _findn(tree, "_input_to_ir_value", "BuilderBase")
    isrc = [_src(b) for b in _strip_doc(iv.body)]
    want_iv = ["if isinstance(value, ir.Value):\n    return value",
               "if value is None:\n    return value",
               "dtype = like_type.type.dtype if like_type is not None and like_type.type is not None else None",
               "needs_dynamic_cast = like_type is not None and dtype is None",
               "ir_value = self._promote_constant(value, dtype)",
               "if needs_dynamic_cast:\n    ir_value = self.call_op('CastLike', [ir_value, like_type], {}, "
               "version=self._get_default_opset_version(''))",
               "return ir_value"]
    if isrc != _want(want_iv):
        raise TranslationError(f"BuilderBase._input_to_ir_value changed: {[p for p in isrc if p not in want_iv][:2]}")
    return dict(flags, info="InfoValueItself", cast="CreateIfKnownElseCastLike", none_passes=True)


def translate_builder_creation(path):
    """builder.GraphBuilder._get_or_create_constant -> (wrap variant?, fall-through path named?)"""
    tree = ast.parse(open(path).read())
    fn = _find(tree, "_get_or_create_constant", "GraphBuilder")
    src = _src(fn)
    creations = sorted(_src(n) for n in ast.walk(fn) if isinstance(n, ast.Call) and _src(n.func) in ("ir.tensor", "_make_tensor")
                       and _src(n) != "ir.tensor(value, dtype=dtype)")
    as_read = ["ir.tensor(value, dtype=dtype, name=name)", "ir.tensor(list(value), dtype=dtype, name=name)"]
    tail = [_src(b) for b in fn.body[-5:]]
    if tail[-1:] == ["return self.initializer(ir.tensor(value, dtype=dtype))"]:
        named = False
    elif tail == ["tensor = ir.tensor(value, dtype=dtype)", "if tensor.name:\n    return self.initializer(tensor)",
                  "name = root._next_uncached_constant_name()", "tensor.name = name",
                  "return root.initializer(tensor, name=name, qualify=False)"]:
        named = True
    else:
        raise TranslationError(f"GraphBuilder._get_or_create_constant: unrecognised fall-through path {tail[-2:]}")
    wrapped = ["_make_tensor(value, dtype, name)", "_make_tensor(list(value), dtype, name)"]
    if wrapped[0] in creations:
        mk = [_src(b) for b in _strip_doc(_find(tree, "_make_tensor").body)]
        if mk != ["elements = value if isinstance(value, (list, tuple)) else (value,)",
                  "if dtype is not None and (not any((isinstance(v, str) for v in elements))):\n"
                  "    return ir.tensor(np.asarray(value).astype(dtype.numpy()), dtype=dtype, name=name)",
                  "return ir.tensor(value, dtype=dtype, name=name)"]:
            raise TranslationError(f"builder._make_tensor: unrecognised body {mk}")
    if creations == sorted(as_read):
        wrap = False
    elif creations == sorted(wrapped):
        wrap = True
    else:
        raise TranslationError(f"GraphBuilder._get_or_create_constant: unrecognised tensor creation {creations}")
    return wrap, named


def _b(x):
    return "true" if x else "false"


def dec_coq(name, d):
    return (f"Definition {name} : decisions :=\n  mkD {d['key']} {_b(d['index_branch'])} {_b(d['variadic_branch'])} {_b(d['raise_otherwise'])} "
            f"{_b(d['hetero_none'])} {_b(d['tail_binds'])} {_b(d['paren_guard'])} {_b(d['first_wins'])} {d['bind']} {d['info']} {d['cast']} "
            f"{_b(d['none_passes'])} {_b(d['cast_by_lookup'])}.\n")


def to_coq(static, eager, builder, eager_wrap, builder_wrap, builder_named, inventory):
    out = ["(* GENERATED by harness/c12_decisions.py from the python ast of onnxscript/_internal/autocast.py, tape_builder.py,",
           "   builder.py on every ./check C12 -- do not edit. *)",
           "From Coq Require Import List String.", "Require Import OV.Autocast.Autocast.", "Import ListNotations.", "Local Open Scope string_scope.", "",
           dec_coq("static", static), dec_coq("eager", eager), dec_coq("builder", builder),
           f"Definition eager_wrap_src : bool := {_b(eager_wrap)}.",
           f"Definition builder_wrap_src : bool := {_b(builder_wrap)}.",
           f"Definition builder_named_src : bool := {_b(builder_named)}.", "",
           "(* every functools cache decorator / dict memo found in the anchored files: (file, function, container, modelled key) *)",
           "Definition cache_inventory : list (string * string * string * string) := ["]
    out.append(";\n".join(f'  ("{f}", "{fn}", "{c}", "{k}")' for f, fn, c, k in inventory))
    out.append("].")
    return "\n".join(out) + "\n"


# ------------------------------------------------------------------------------------------- cache inventory

ANCHORED = ["onnxscript/_internal/autocast.py", "onnxscript/_internal/converter.py", "onnxscript/_internal/tape_builder.py",
            "onnxscript/_internal/builder.py", "onnxscript/_internal/evaluator.py", "onnxscript/tensor.py",
            "onnxscript/_internal/values.py"]

# (file, function, container) -> the key model in coq/Autocast/Autocast.v
MODELLED_CACHES = {
    ("onnxscript/_internal/builder.py", "_get_or_create_constant", "root._constant_cache"):
        "ckey_eqb current_key_eq: (value|tuple(value), resolved dtype, float signs) under Python ==/hash",
    ("onnxscript/_internal/converter.py", "const_1d", "cached_int_consts"):
        "py_eq on Python ints (slice bounds): int_key_injective; always the INT64 1-d tensor [value]",
    ("onnxscript/_internal/autocast.py", "cast_inputs", "type_bindings"):
        "lookup/bind1 keyed by the type-variable string (String.eqb); last binding wins",
    ("onnxscript/_internal/tape_builder.py", "_cast_inputs", "type_bindings"):
        "lookup/bind1 keyed by the raw type_str (String.eqb); first binding wins",
    ("onnxscript/_internal/values.py", "__new__", "cls.cache"):
        "Opset instances keyed by (class, domain, VERSION): lookup_schema all name v takes the version (cross-version lookup histories)",
}


# dict memos in the anchored files that hold no promoted literal (reason given)
NOT_LITERAL_CACHES = {
    ("onnxscript/_internal/builder.py", "call_inline", "attr_map"): "attribute name -> ir.Attr of the inlined call (strings; C18)",
    ("onnxscript/_internal/converter.py", "make_value", "value.meta"): "metadata of one ir.Value: setdefault('sourceinfo', ...)",
    ("onnxscript/_internal/converter.py", "_emit", "node.meta"): "metadata of one ir.Node: setdefault('callee', ...)",
    ("onnxscript/_internal/converter.py", "_exit_scope", "self._current_fn.opset_imports"): "domain -> version of the function being built (C02/C13)",
    ("onnxscript/_internal/converter.py", "_generate_unique_name", "self._used_vars"): "set of variable names already used (fresh-name generator; C01)",
    ("onnxscript/_internal/builder.py", "_register_called_functions", "self._root._functions"): "function identifier -> ir.Function (C18)",
    ("onnxscript/_internal/values.py", "_to_model_proto", "opset_imports"): "domain -> version of the model being serialised (C02)",
}


# containers classified by the rule below in the last cache_inventory run (for the evidence record)
AUTO_NOT_LITERAL: list = []


def _plain_scalar(e):
    """An expression whose value is never a tensor / ir.Value / promoted literal: a str / int / bool / None constant, an
    f-string, or an attribute chain ending in .version / .domain (the int / str fields of an Opset or an opset import)."""
    if isinstance(e, ast.Constant):
        return e.value is None or isinstance(e.value, (str, int, bool)) and not isinstance(e.value, float)
    if isinstance(e, ast.JoinedStr):
        return True
    if isinstance(e, ast.Attribute) and e.attr in ("version", "domain"):
        r = e.value
        while isinstance(r, ast.Attribute):
            r = r.value
        return isinstance(r, ast.Name)
    return False


def _stores_only_plain_scalars(own, container):
    """A DICT memo that holds no literal: every store into `container` among the nodes `own` of one function is
    `container[k] = V` or `container.setdefault(k, V)` with V a plain scalar (above).  Such a map (domain -> version,
    name -> name) cannot hand back a tensor created for another literal, whatever its keys are.  Sets (`.add`: the
    memo IS the key, e.g. a negative schema memo), `.update`, and any other stored expression are not classified here:
    they must be modelled or listed with a reason."""
    values = []
    for n in own:
        if isinstance(n, ast.Assign) and len(n.targets) == 1 and isinstance(n.targets[0], ast.Subscript) \
                and _src(n.targets[0].value) == container:
            values.append(n.value)
        elif isinstance(n, (ast.AugAssign, ast.AnnAssign)) and isinstance(n.target, ast.Subscript) and _src(n.target.value) == container:
            return False
        elif isinstance(n, ast.Call) and isinstance(n.func, ast.Attribute) and _src(n.func.value) == container:
            if n.func.attr == "setdefault" and len(n.args) == 2 and not n.keywords:
                values.append(n.args[1])
            elif n.func.attr in ("add", "update", "setdefault", "append", "extend", "insert", "__setitem__"):
                return False
    return bool(values) and all(_plain_scalar(v) for v in values)


def _enclosing_functions(tree):
    for fn in ast.walk(tree):
        if isinstance(fn, (ast.FunctionDef, ast.AsyncFunctionDef)):
            yield fn


def cache_inventory(repo):
    """every cache decorator and every dict used as a memo (tested with `in`/`not in`/.get and assigned by subscript in the
    same function) in the anchored files -> list of (file, function, container); unmodelled ones separately"""
    found, unmodelled = [], []
    del AUTO_NOT_LITERAL[:]
    for rel in ANCHORED:
        path = os.path.join(repo, rel)
        tree = ast.parse(open(path).read())
        for fn in _enclosing_functions(tree):
            if fn.name in REF_LOCALS:
                # containers that are locals of the translated functions are listed under their reference names
                # (c12_norm: renaming of locals by binding position; nothing is dropped from the function)
                fn = NORM.normal(fn, REF_LOCALS[fn.name], tree)
            for dec in fn.decorator_list:
                d = _src(dec)
                if "cache" in d.lower() or "memo" in d.lower():
                    found.append((rel, fn.name, "@" + d))
            # direct children statements only of this function (nested functions are visited on their own)
            own = [n for n in ast.walk(fn) if _owner(fn, n)]
            stored = {_src(n.targets[0].value) for n in own if isinstance(n, ast.Assign) and len(n.targets) == 1
                      and isinstance(n.targets[0], ast.Subscript)}
            # sets / lists used as (negative) memos: `if k not in SEEN: ... SEEN.add(k)`
            stored |= {_src(n.func.value) for n in own if isinstance(n, ast.Call) and isinstance(n.func, ast.Attribute)
                       and n.func.attr in ("add", "setdefault", "update") and isinstance(n.func.value, (ast.Name, ast.Attribute))}
            tested = set()
            for n in own:
                if isinstance(n, ast.Compare) and len(n.ops) == 1 and isinstance(n.ops[0], (ast.In, ast.NotIn)):
                    tested.add(_src(n.comparators[0]))
                if isinstance(n, ast.Call) and isinstance(n.func, ast.Attribute) and n.func.attr in ("get", "setdefault"):
                    tested.add(_src(n.func.value))
            for c in sorted(stored & tested):
                if _stores_only_plain_scalars(own, c):
                    AUTO_NOT_LITERAL.append((rel, fn.name, c))
                    continue
                found.append((rel, fn.name, c))
    inv = []
    for f, fn, c in found:
        k = MODELLED_CACHES.get((f, fn, c))
        if (f, fn, c) in NOT_LITERAL_CACHES:
            continue
        if k is None:
            unmodelled.append((f, fn, c))
        else:
            inv.append((f, fn, c, k))
    missing = [k for k in MODELLED_CACHES if k not in {(f, fn, c) for f, fn, c in found}]
    return inv, unmodelled, missing


def _owner(fn, node):
    """is `node` inside fn but not inside a nested function of fn (approximation: computed by a parent map)"""
    pm = getattr(fn, "_pm", None)
    if pm is None:
        pm = {}
        for p in ast.walk(fn):
            for ch in ast.iter_child_nodes(p):
                pm[ch] = p
        fn._pm = pm
    p = pm.get(node)
    while p is not None and p is not fn:
        if isinstance(p, (ast.FunctionDef, ast.AsyncFunctionDef, ast.Lambda)):
            return False
        p = pm.get(p)
    return p is fn
