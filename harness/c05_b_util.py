"""Helpers shared by the C05 family modules c05_fam_{padconv,batchnorm,convaffine,hardswish,matmul,optbias}.py.

Host construction, rule application, the direct oracle (host vs rewritten on onnxruntime ORT_DISABLE_ALL and
onnx.reference, onnx.checker on the result) and Coq-literal printers.  Nothing here decides a verdict except
`oracle`, which returns a list of reasons why the rewritten model is not an acceptable replacement.
"""
from __future__ import annotations

from fractions import Fraction

import numpy as np

from harness import c05 as base
from harness.common import clist, cz

_TP = None


def tp():
    global _TP
    if _TP is None:
        from onnx import TensorProto
        _TP = {"float32": TensorProto.FLOAT, "float64": TensorProto.DOUBLE, "int64": TensorProto.INT64,
               "int32": TensorProto.INT32, "uint8": TensorProto.UINT8, "int8": TensorProto.INT8,
               "float16": TensorProto.FLOAT16, "bool": TensorProto.BOOL}
    return _TP


def vi(name, dtype, shape):
    from onnx import helper
    return helper.make_tensor_value_info(name, tp()[dtype], shape)


def init(name, arr):
    from onnx import numpy_helper
    return numpy_helper.from_array(np.asarray(arr), name)


def const_node(name, arr):
    from onnx import helper, numpy_helper
    return helper.make_node("Constant", [], [name], value=numpy_helper.from_array(np.asarray(arr), name))


def node(op, ins, outs, **attrs):
    from onnx import helper
    return helper.make_node(op, list(ins), list(outs), **attrs)


def model(nodes, inputs, outputs, inits=(), opset=18, ir_version=9, infer=True):
    """inputs/outputs: lists of (name, dtype, shape).  Shape inference is run so rules see shapes of intermediates."""
    import onnx
    from onnx import helper
    g = helper.make_graph(list(nodes), "g", [vi(*i) for i in inputs], [vi(*o) for o in outputs], initializer=list(inits))
    m = helper.make_model(g, opset_imports=[helper.make_opsetid("", opset)], ir_version=ir_version)
    if infer:
        m = onnx.shape_inference.infer_shapes(m)
    return m


def host_ok(m):
    """The host itself must be checker-valid (otherwise the case says nothing about the rule)."""
    import onnx
    try:
        onnx.checker.check_model(m, full_check=True)
        return True
    except Exception:
        return False


def apply(m, rules):
    """-> (new_model | None, exception | None)"""
    from onnxscript import rewriter
    try:
        return rewriter.rewrite(m, pattern_rewrite_rules=rules), None
    except Exception as e:  # a rule that raises is reported by the caller
        return None, e


def ops(m):
    return [n.op_type for n in m.graph.node if n.op_type != "Constant"]


def nodes_of(m, op):
    return [n for n in m.graph.node if n.op_type == op]


def attrs(n):
    from onnx import helper
    return {a.name: helper.get_attribute_value(a) for a in n.attribute}


def consts(m):
    from onnx import numpy_helper
    c = {i.name: numpy_helper.to_array(i) for i in m.graph.initializer}
    for n in m.graph.node:
        if n.op_type == "Constant":
            for a in n.attribute:
                if a.name == "value":
                    c[n.output[0]] = numpy_helper.to_array(a.t)
    return c


class _Sess:
    """one session per (backend, model); .run(feeds) -> (outputs | None, exception | None)"""

    def __init__(self, backend, m):
        self.err = None
        self.b = backend
        try:
            if backend == "ort":
                import onnxruntime as ort
                so = ort.SessionOptions()
                so.graph_optimization_level = ort.GraphOptimizationLevel.ORT_DISABLE_ALL
                so.log_severity_level = 4
                so.intra_op_num_threads = 1
                so.inter_op_num_threads = 1
                self.s = ort.InferenceSession(m.SerializeToString(), so, providers=["CPUExecutionProvider"])
            else:
                import onnx.reference
                self.s = onnx.reference.ReferenceEvaluator(m)
            self.inputs = {i.name for i in m.graph.input}
        except Exception as e:
            self.err = e

    def run(self, feeds):
        if self.err is not None:
            return None, self.err
        try:
            return self.s.run(None, {k: v for k, v in feeds.items() if k in self.inputs}), None
        except Exception as e:
            return None, e


def _diff(want, got):
    w, g = np.asarray(want[0]), np.asarray(got[0])
    if len(want) != len(got):
        return f"{len(got)} outputs instead of {len(want)}"
    for w, g in zip(want, got):
        w, g = np.asarray(w), np.asarray(g)
        if w.shape != g.shape or w.dtype != g.dtype:
            return f"output {g.dtype}{list(g.shape)} instead of {w.dtype}{list(w.shape)}"
    return f"values differ (max abs diff {max(float(np.max(np.abs(np.asarray(w).astype(np.float64) - np.asarray(g).astype(np.float64)))) if np.asarray(w).size else 0.0 for w, g in zip(want, got)):.6g})"


# documented restrictions of the onnxruntime CPU kernels on otherwise valid models; only then is onnx.reference the judge
ORT_LIMITATIONS = ("Dilation not supported for AutoPadType",)

STATS = {"hosts_not_runnable": 0, "ort_compared": 0, "spec_judged": 0, "ref_sole_witness": 0, "ref_cross_checked": 0,
         "ref_disagrees_with_ort": 0, "oracle_unreliable": 0}
SPEC_MISMATCH = []      # (description) -- onnxruntime on the host differs from onnxruntime on the caller's spec model: harness error


def _shapes(outs):
    return [list(np.asarray(o).shape) for o in outs]


def oracle(host, new, feeds_list, exact=True, use_ref=True, ref_feeds=1, spec_host=None, host_shapes=None):
    """The property itself on the real code.  Returns (reasons, n_compared).
    reasons is empty when the rewritten model is checker-valid and reproduces the host's outputs for every feed.

    Who judges:
    1. onnxruntime (ORT_DISABLE_ALL, single-threaded) whenever it can run the host.
    2. If onnxruntime cannot run the host because of a documented kernel restriction (ORT_LIMITATIONS: SAME_* auto_pad with
       dilations) and the caller supplies `spec_host` -- the host re-stated per the operator document in a form onnxruntime
       executes (explicit pads of the SAME_* formula proved in coq/Rules/PadConvProofs.v) -- the rewritten model is compared
       on onnxruntime with that spec model.  Whenever onnxruntime CAN run the host, spec_host is also run and must agree
       with it (otherwise SPEC_MISMATCH, a harness error), so the spec model is itself measured on every run.
    3. onnx.reference judges alone only if neither is possible AND its result on the ORIGINAL model has the output shapes
       the operator document prescribes (`host_shapes`); otherwise the instance is counted in STATS['oracle_unreliable']
       and not judged.  (The reference evaluator violates the document for SAME_* with an even kernel and stride 2, for
       auto_pad=VALID, ConvTranspose group+bias, ConvInteger pads: all observed.)
    A host that onnxruntime rejects for another reason is counted in STATS['hosts_not_runnable'] and skipped.  Where
    onnxruntime judges, the reference evaluator is a cross-check only: a verdict it does not share with onnxruntime is
    counted in STATS['ref_disagrees_with_ort'] and not reported."""
    import onnx
    reasons = []
    try:
        onnx.checker.check_model(new, full_check=True)
    except Exception as e:
        reasons.append("checker: " + str(e).strip().splitlines()[0][:160])
    so_h, so_n = _Sess("ort", host), _Sess("ort", new)
    so_s = _Sess("ort", spec_host) if spec_host is not None else None
    sr_h = sr_n = None
    n = 0
    for fi, feeds in enumerate(feeds_list):
        want, e0 = so_h.run(feeds)
        ort_bad = None
        if e0 is None:
            got, e1 = so_n.run(feeds)
            n += 1
            STATS["ort_compared"] += 1
            if e1 is not None:
                ort_bad = f"ort: rewritten model fails to run: {str(e1).strip().splitlines()[0][:140]}"
            elif not base.same_outputs(want, got, exact=exact):
                ort_bad = "ort: " + _diff(want, got)
            if ort_bad:
                reasons.append(ort_bad)
            if so_s is not None:
                ws, es = so_s.run(feeds)
                if es is not None or not base.same_outputs(want, ws, exact=exact):
                    SPEC_MISMATCH.append("spec model differs from onnxruntime on the host: " + (str(es)[:120] if es is not None else _diff(want, ws)))
        elif not any(t in str(e0) for t in ORT_LIMITATIONS):
            STATS["hosts_not_runnable"] += 1          # onnxruntime rejects the host itself: says nothing about the rule
            continue
        elif so_s is not None:
            ws, es = so_s.run(feeds)
            if es is not None:
                SPEC_MISMATCH.append("spec model does not run on onnxruntime: " + str(es)[:160])
                continue
            got, e1 = so_n.run(feeds)
            if e1 is None or not any(t in str(e1) for t in ORT_LIMITATIONS):
                n += 1
                STATS["spec_judged"] += 1
                if e1 is not None:
                    reasons.append(f"ort: rewritten model fails to run: {str(e1).strip().splitlines()[0][:140]}")
                elif not base.same_outputs(ws, got, exact=exact):
                    reasons.append("ort(rewritten) vs ort(host re-stated with the operator document's explicit pads): " + _diff(ws, got))
                if use_ref and fi < ref_feeds:            # how trustworthy would the reference evaluator have been here?
                    if sr_h is None:
                        sr_h = _Sess("ref", host)
                    wr, r0 = sr_h.run(feeds)
                    if r0 is None and not base.same_outputs(ws, wr, exact=False):
                        STATS["oracle_unreliable"] += 1
                continue
            # the rewritten model hits the same onnxruntime restriction (the rule left the node alone): reference evaluator,
            # subject to the validation below
        if not use_ref or (e0 is None and fi >= ref_feeds):     # the (slow) reference evaluator: first feed(s) only
            continue
        if sr_h is None:
            sr_h = _Sess("ref", host)
        if sr_n is None:
            sr_n = _Sess("ref", new)
        wr, r0 = sr_h.run(feeds)
        if r0 is not None:
            continue
        if e0 is not None:
            # reference evaluator alone: only if its result on the original obeys the operator document's output shapes
            if host_shapes is None or _shapes(wr) != [list(x) for x in host_shapes]:
                STATS["oracle_unreliable"] += 1
                continue
        gr, r1 = sr_n.run(feeds)
        ref_bad = None
        if r1 is not None:
            ref_bad = f"ref: rewritten model fails to run: {str(r1).strip().splitlines()[0][:140]}"
        elif not base.same_outputs(wr, gr, exact=exact):
            ref_bad = "ref: " + _diff(wr, gr)
        if e0 is not None:
            n += 1
            STATS["ref_sole_witness"] += 1
            if ref_bad:
                reasons.append(ref_bad)
        else:
            STATS["ref_cross_checked"] += 1
            if bool(ref_bad) != bool(ort_bad):
                STATS["ref_disagrees_with_ort"] += 1
            elif ref_bad:
                reasons.append(ref_bad)
    return list(dict.fromkeys(reasons)), n


def apply_ruleset(m, ruleset):
    """RewriteRuleSet.apply_to_model on the deserialised model, without the clean-up passes of rewriter.rewrite()
    (onnx_ir's RemoveUnusedNodesPass itself drops `training_mode` of a BatchNormalization whose statistics outputs are
    unused, which would mask what the rule under test does).  -> (new proto | None, exception | None, count)"""
    import onnx_ir as ir
    try:
        mi = ir.serde.deserialize_model(m)
        cnt = ruleset.apply_to_model(mi)
        return ir.serde.serialize_model(mi), None, cnt
    except Exception as e:
        return None, e, 0


def report(ctx, fam, key_class, what, replay, reasons):
    ctx.violation(f"C05:{fam}:{key_class}", f"{what}: " + "; ".join(reasons[:3]), dict(replay, family=fam, reasons=reasons))


# ---------------------------------------------------------------- Coq literals

def czl(xs):
    return clist([cz(int(x)) for x in xs])


def cq(x):
    """exact rational literal of a python/numpy number (every finite float is a rational)."""
    f = Fraction(float(x)) if not isinstance(x, Fraction) else x
    n, d = f.numerator, f.denominator
    return f"(({n})%Z # {d}%positive)%Q"


def cql(xs):
    return clist([cq(x) for x in xs])


def two_index_lists(ctx, requires, defs, name_a="dis_impl", name_b="dis_fixed"):
    """Evaluate `defs` then the two index lists; -> (ok, list_a, list_b, raw)."""
    from harness import common
    body = defs + f"\nEval vm_compute in {name_a}.\nEval vm_compute in {name_b}.\n"
    ok, vals, raw = ctx.coq_eval(requires, body)
    if not ok or len(vals) < 2:
        return False, [], [], raw
    return True, common.parse_nat_list(vals[0]), common.parse_nat_list(vals[1]), raw


def eval_cases(ctx, requires, case_type, cases, dis_fun, prelude="", chunk=300):
    """Shard `cases` (Coq literals of type `case_type`), evaluate `dis_fun false` and `dis_fun true` on every shard and
    return (ok, indices disagreeing with the as-read model, indices disagreeing with the repaired model, raw)."""
    di, df = [], []
    for off in range(0, max(len(cases), 1), chunk):
        part = cases[off:off + chunk]
        ok, a, b, raw = two_index_lists(ctx, requires, prelude + f"Definition cases : list {case_type} := {clist(part)}.\n"
                                        f"Definition dis_impl := {dis_fun} false cases.\nDefinition dis_fixed := {dis_fun} true cases.")
        if not ok:
            return False, [], [], raw
        di += [off + x for x in a]
        df += [off + x for x in b]
    return True, di, df, ""


def settle(ctx, fam, stream, meta, dis_impl, dis_fixed, defect_of):
    """Correspondence verdict with two explicitly modelled variants of the rule (see coq/Rules/*.v):
    `impl` = the code as read at the pinned commit, `fixed` = the repaired rule whose soundness is proved.
    Every case must agree with one of them; within one defect class all cases must agree with the same variant
    (so a half-applied repair is noticed).  Cases outside every defect class have impl = fixed.
    -> (n_bad, variant per defect class)"""
    di, df = set(dis_impl), set(dis_fixed)
    bad = sorted(di & df)
    for i in bad:
        ctx.tie_broken("correspondence", f"{fam}:{stream}", f"case {meta[i]}: implementation agrees with neither the as-read model nor the repaired model")
    variant = {}
    for i, mt in enumerate(meta):
        d = defect_of(mt)
        if d is None:
            continue
        if i in di and i not in df:
            v = "fixed"
        elif i in df and i not in di:
            v = "impl"
        else:
            continue
        if variant.setdefault(d, v) != v:
            ctx.tie_broken("correspondence", f"{fam}:{stream}", f"defect class {d}: some cases follow the as-read model and some the repaired one")
            bad.append(i)
    return len(bad), variant
