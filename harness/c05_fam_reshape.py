"""C05 family: ReshapeReshape, Flatten2Reshape, SqueezeReshape (_basic_rules.py), MaterializeReshapeShape.

Model: coq/Rules/Reshape.v; theorems: coq/Props/C05_reshape.v.
Correspondence: the real rules on generated hosts; fired? + the emitted shape constant + allowzero attribute are compared in Coq
with Reshape.rr_decide / fl_check / mat_check.  Direct oracle on both engines incl. zero-size tensors and symbolic dims bound to 0.
"""
from __future__ import annotations

import numpy as np

from harness import c05_basic_util as U
from harness import common
from harness.common import clist, copt, cz

FACT = {
    24: [[24], [2, 12], [4, 6], [2, 3, 4], [6, 4], [1, 24], [2, 3, 2, 2], [3, 8], [24, 1]],
    6: [[6], [2, 3], [3, 2], [1, 6], [6, 1], [1, 2, 3]],
    0: [[0], [0, 3], [2, 0], [0, 3, 4], [3, 0, 2], [0, 12]],
    1: [[1], [1, 1], []],
}


def _zl(l):
    return clist([cz(v) for v in l])


def _odl(l):
    return clist([copt(d, cz) for d in l])


def _obfuscate(rng, target, insh, az):
    """A Reshape `shape` operand that resolves to `target` on an input of shape `insh`."""
    s = list(target)
    mode = rng.choice(["keep", "minus1", "zero", "zero+minus1", "zeros"])
    if mode in ("zero", "zero+minus1", "zeros") and not az:
        idx = [i for i in range(min(len(s), len(insh))) if insh[i] == s[i]]
        rng.shuffle(idx)
        for i in idx[: (2 if mode == "zeros" else 1)]:
            s[i] = 0
    if mode in ("minus1", "zero+minus1"):
        idx = [i for i in range(len(s)) if s[i] != 0 or (az and False)]
        idx = [i for i in idx if np.prod([v for j, v in enumerate(target) if j != i], dtype=np.int64) != 0 and s[i] != 0]
        if idx and not (az and 0 in s):
            s[rng.choice(idx)] = -1
    return s


def _reshape_reshape(ctx, br):
    from onnx import helper
    rng = ctx.rng
    n_inst = 150 if ctx.tier == "quick" else 1200
    cases, meta = [], []
    fired_n = 0
    # deterministic hosts aimed at each conjunct of check: (x, mid, out, s1, s2, az1, az2, output annotation kind)
    fixed = [
        ([2, 3, 4], [4, 6], [4, 6], [4, 6], [0, 0], False, False, "none"),          # two 0s -> must not fire
        ([2, 3, 4], [4, 6], [4, 6], [4, 6], [0, 0], False, False, "static"),        # ... unless the annotation resolves them
        ([2, 3, 4], [2, 3, 4], [2, 3, 4], [2, 3, 4], [0, 0, 0], False, False, "none"),
        ([2, 3, 4], [4, 6], [4, 6], [4, 6], [0, -1], False, False, "none"),         # 0 together with -1 -> must not fire
        ([2, 3, 4], [4, 6], [4, 6], [4, 6], [0, -1], False, False, "partial0"),
        ([2, 3, 4], [4, 6], [4, 6], [-1, 6], [0, -1], False, False, "allsym"),
        ([2, 3, 4], [4, 6], [4, 3, 2], [4, 6], [0, 3, 2], False, False, "none"),    # one 0 -> -1
        ([0, 3, 4], [0, 12], [0, 3, 4], [0, 12], [0, 3, 4], False, True, "none"),   # allowzero=1 with an explicit 0
        ([0, 3, 4], [0, 12], [0, 3, 4], [0, 12], [0, 3, 4], False, False, "none"),
        ([0, 3], [3, 0], [3, 0], [3, 0], [0, -1], True, False, "static"),
        ([2, 3, 4], [24], [2, 12], [-1], [2, -1], False, False, "none"),
        ([2, 3, 4], [6, 4], [6, 4], [6, 4], [0, 0], False, True, "none"),           # allowzero=1: the 0s are real -> invalid host, skipped
    ]
    for i in range(n_inst + len(fixed)):
        if i < len(fixed):
            xs, mid, out, s1, s2, az1, az2, fk = fixed[i]
            n = int(np.prod(xs))
        else:
            fk = None
            n = rng.choice([24, 24, 6, 0, 0, 1])
            xs, mid, out = (list(rng.choice(FACT[n])) for _ in range(3))
            if not xs:
                xs = [1]
            az1, az2 = rng.random() < 0.25, rng.random() < 0.3
            s1 = _obfuscate(rng, mid, xs, az1) if mid else []
            s2 = _obfuscate(rng, out, mid, az2) if out else []
        if (0 in mid and not az1 and 0 in s1 and False):
            continue
        if not az1 and any(v == 0 for v in mid) and any(s1[j] == 0 and (j >= len(xs) or xs[j] != 0) for j in range(len(s1))):
            continue
        # explicit zero-size targets need allowzero (or a copied 0)
        if any(v == 0 for j, v in enumerate(s1) if not (j < len(xs) and xs[j] == mid[j])) and not az1:
            continue
        if any(v == 0 for j, v in enumerate(s2) if not (j < len(mid) and mid[j] == out[j])) and not az2:
            continue
        okind = rng.choice(["none", "none", "static", "partial", "allsym"]) if fk is None else fk
        if okind == "partial0":
            od = [out[0]] + [None] * (len(out) - 1)
        elif okind == "none":
            od = None
        elif okind == "static":
            od = list(out)
        elif okind == "allsym":
            od = [None] * len(out)
        else:
            od = [d if rng.random() < 0.5 else None for d in out]
        dtype = ("float32", "int64")[i % 2]
        xdecl = list(xs)
        if xs and xs[0] != 0 and i % 4 == 0 and 0 not in s1 and n != 0:
            pass
        n1 = helper.make_node("Reshape", ["x", "s1"], ["t"], **({"allowzero": 1} if az1 else {}))
        n2 = helper.make_node("Reshape", ["t", "s2"], ["y"], **({"allowzero": 1} if az2 else {}))
        inits = [U.const_arr("s1", np.array(s1, np.int64)), U.const_arr("s2", np.array(s2, np.int64))]
        out_decl = [(d if d is not None else f"D{k}") for k, d in enumerate(od)] if od is not None else None
        # no annotation of y at all when od is None: y must then be an intermediate
        nodes = [n1, n2]
        if od is None:
            nodes.append(helper.make_node("Identity", ["y"], ["z"]))
            outs = [("z", dtype, [None] * len(out))]
        else:
            outs = [("y", dtype, out_decl)]
        try:
            host = U.model(nodes, [("x", dtype, xdecl)], outs, inits=inits, opset=(14, 18, 21)[i % 3])
        except Exception:  # noqa: BLE001
            continue
        x = U.int_data(xs, dtype, i % 3)
        hr = U.run_all(host, [{"x": x}])
        if hr["ort"][0][0] != "ok" or hr["ref"][0][0] != "ok":
            continue                       # generator produced an invalid host (host_ok is a precondition)
        try:
            new = U.apply_rule(host, [br.reshape_reshape_rule])
        except Exception as e:  # noqa: BLE001
            ctx.violation("C05:reshape:ReshapeReshape:raises", f"rule raised {e!r}", {"x": xs, "s1": s1, "s2": s2, "az": [az1, az2], "out_decl": od})
            continue
        rs = U.node_of(new, "Reshape")
        fired = len(rs) == 1
        obs = None
        if fired:
            fired_n += 1
            c = U.consts(new)[rs[0].input[1]]
            obs = ([int(v) for v in c], bool(U.attr(rs[0], "allowzero", 0)))
            if str(c.dtype) != "int64" or c.ndim != 1:
                ctx.violation("C05:reshape:ReshapeReshape:shape-constant-form", f"shape constant {c.dtype}{c.shape}", {"x": xs, "s1": s1, "s2": s2})
        cases.append(f"({copt(od, _odl)}, {_zl(s2)}, {common.cbool(az2)}, "
                     f"{copt(obs, lambda o: '(' + _zl(o[0]) + ', ' + common.cbool(o[1]) + ')')})")
        meta.append((xs, s1, s2, az1, az2, od, obs))
        ctx.case(("reshape-reshape", n == 0, az1, az2, okind, 0 in s2, -1 in s2, s2.count(0) > 1, fired))
        if fired:
            feeds = [{"x": U.int_data(xs, dtype, k)} for k in range(3)]
            U.oracle(ctx, "C05:reshape:ReshapeReshape:differs", f"Reshape(Reshape(x{xs},{s1},az={int(az1)}),{s2},az={int(az2)}) out annotation {od}",
                     host, new, feeds, {"family": "reshape", "rule": "ReshapeReshape", "x_shape": xs, "shape1": s1, "shape2": s2,
                                        "allowzero": [int(az1), int(az2)], "out_annotation": od})
    host = U.model([helper.make_node("Reshape", ["x", "s1"], ["t"]), helper.make_node("Reshape", ["t", "s2"], ["y"])],
                   [("x", "float32", [2, 6]), ("s2", "int64", [2])], [("y", "float32", [None, None])],
                   inits=[U.const_arr("s1", np.array([3, 4], np.int64)), U.const_arr("s2", np.array([4, 3], np.int64))])
    xs = U.int_data([2, 6], "float32", 0)
    U.overridable_probe(ctx, "reshape", "Reshape(Reshape(x, [3,4]), s2) (s2 defaults to [4,3])", host, [br.reshape_reshape_rule],
                        [{"x": xs}, {"x": xs, "s2": np.array([6, 2], np.int64)}, {"x": xs, "s2": np.array([12, 1], np.int64)}])
    # near miss: second shape not constant
    host = U.model([helper.make_node("Reshape", ["x", "s1"], ["t"]), helper.make_node("Reshape", ["t", "s2"], ["y"])],
                   [("x", "float32", [2, 3]), ("s2", "int64", [1])], [("y", "float32", [None])], inits=[U.const_arr("s1", np.array([3, 2], np.int64))])
    new = U.apply_rule(host, [br.reshape_reshape_rule])
    ctx.case(("reshape-reshape-near-miss", "non-constant-shape"))
    if len(U.node_of(new, "Reshape")) != 2:
        ctx.violation("C05:reshape:ReshapeReshape:near-miss:non-constant-shape", "fired although the second shape is a graph input", {"ops": U.ops(new)})
    return cases, meta, fired_n


def _flatten(ctx, br):
    from onnx import helper
    rng = ctx.rng
    shapes = [[2, 3, 4], [3], [2, 3], [1, 3, 1], [2, 0, 3], [0, 2], [3, 2, 0], [2, 3, 4, 2], []]
    insts = []
    for sh in shapes:
        r = len(sh)
        for axis in range(-r, r + 1):
            variants = [list(sh)]
            for j in range(r):
                v = list(sh)
                v[j] = None
                variants.append(v)
            if r >= 2:
                variants.append([None] * r)
                variants.append([None, None] + list(sh[2:]))
            variants.append("unknown")
            for decl in variants:
                for okind in ("none", "static", "first", "second"):
                    insts.append((sh, axis, decl, okind))
    if ctx.tier == "quick":
        rng.shuffle(insts)
        insts = insts[:170]
    cases, meta = [], []
    fired_n = 0
    for i, (sh, axis, decl, okind) in enumerate(insts):
        r = len(sh)
        a = axis + r if axis < 0 else axis
        if r == 0 and axis != 0:
            continue
        fl = [int(np.prod(sh[:a], dtype=np.int64)), int(np.prod(sh[a:], dtype=np.int64))]
        unknown = decl == "unknown"
        # a symbolic dim's value is only known at run time: the flattened annotation may only state what is static
        sym_first = (not unknown) and any(d is None for d in decl[:a])
        sym_second = (not unknown) and any(d is None for d in decl[a:])
        od = {"none": None, "static": [fl[0], fl[1]], "first": [fl[0], None], "second": [None, fl[1]]}[okind]
        if od is not None and not unknown:
            od = [None if (k == 0 and sym_first) or (k == 1 and sym_second) else v for k, v in enumerate(od)]
        dtype = ("float32", "int64")[i % 2]
        xdecl = sh if unknown else [d if d is not None else f"S{k}" for k, d in enumerate(decl)]
        nodes = []
        data = "x"
        if unknown:
            nodes.append(helper.make_node("Identity", ["x"], ["d"]))
            data = "d"
        nodes.append(helper.make_node("Flatten", [data], ["y"], axis=axis))
        if od is None:
            nodes.append(helper.make_node("Identity", ["y"], ["z"]))
            outs = [("z", dtype, [None, None])]
        else:
            outs = [("y", dtype, [v if v is not None else f"O{k}" for k, v in enumerate(od)])]
        host = U.model(nodes, [("x", dtype, xdecl)], outs, opset=(13, 18)[i % 2])
        try:
            new = U.apply_rule(host, [br.flatten_to_reshape_rule])
        except Exception as e:  # noqa: BLE001
            ctx.violation("C05:flatten2reshape:raises", f"rule raised {e!r}", {"x": xdecl, "axis": axis, "out_annotation": od})
            continue
        rs = U.node_of(new, "Reshape")
        fired = len(rs) == 1 and not U.node_of(new, "Flatten")
        obs = None
        if fired:
            fired_n += 1
            c = U.consts(new)[rs[0].input[1]]
            obs = [int(v) for v in c]
            if U.attr(rs[0], "allowzero", 0):
                ctx.tie_broken("correspondence", "reshape:Flatten2Reshape", "unexpected allowzero attribute")
        dl = None if unknown else decl
        cases.append(f"({copt(dl, _odl)}, {cz(axis)}, {copt(od, _odl)}, {copt(obs, _zl)})")
        meta.append((sh, axis, decl, od, obs))
        static_zero = (not unknown) and any(d == 0 for d in decl)
        ctx.case(("flatten", r, axis < 0, a == 0, a == 1, a == r, "unknown" if unknown else sum(d is None for d in decl), okind, static_zero, fired))
        if not fired:
            continue
        replay = {"family": "reshape", "rule": "Flatten2Reshape", "x_annotation": xdecl, "axis": axis, "out_annotation": od, "emitted_shape": obs}
        zero_rt = 0 in sh
        key = "C05:flatten2reshape:static-zero-dim" if static_zero else ("C05:flatten2reshape:symbolic-dim-zero-at-runtime" if zero_rt else "C05:flatten2reshape:differs")
        U.oracle(ctx, key, f"Flatten(x{xdecl}, axis={axis}) -> Reshape {obs}", host, new, [{"x": U.int_data(sh, dtype, k)} for k in range(3)], replay)
        if not unknown and any(d is None for d in decl) and not zero_rt:
            # bind the symbolic dims to 0 at run time
            sh0 = [0 if d is None else s for s, d in zip(sh, decl)]
            U.oracle(ctx, "C05:flatten2reshape:symbolic-dim-zero-at-runtime", f"Flatten(x{xdecl}, axis={axis}) -> Reshape {obs} with the symbolic dims bound to 0",
                     host, new, [{"x": U.int_data(sh0, dtype, 0)}], dict(replay, runtime_shape=sh0))
    return cases, meta, fired_n


def _materialize(ctx):
    from onnx import helper
    from onnxscript.rewriter.rules.common import _materialize_reshape_shape as mod
    rng = ctx.rng
    outs = [[2, 3], [6], [0, 3], [3, 0], [2, 0, 3], [1, 6], [2, 3, 4], [0], [4, 1, 0]]
    insts = []
    for out in outs:
        r = len(out)
        masks = [[False] * r] + [[j == k for j in range(r)] for k in range(r)] + ([[True, True] + [False] * (r - 2)] if r >= 2 else [])
        for mask in masks:
            for how in ("input", "computed", "const"):
                for az in (0, 1):
                    insts.append((out, mask, how, az))
        insts.append((out, None, "input", 0))
    if ctx.tier == "quick":
        rng.shuffle(insts)
        insts = insts[:90]
    cases, meta = [], []
    fired_n = 0
    for i, (out, mask, how, az) in enumerate(insts):
        n = int(np.prod(out, dtype=np.int64))
        xs = [n] if i % 2 else ([n // 2, 2] if n % 2 == 0 and n else [n])
        if n == 0:
            xs = [0, 5] if i % 2 else [0]
        if az == 0 and any(d == 0 and not (j < len(xs) and xs[j] == 0) for j, d in enumerate(out)):
            continue       # the original (allowzero=0) Reshape could not produce this explicit 0
        dtype = ("float32", "int64")[i % 2]
        od = None if mask is None else [None if m else d for d, m in zip(out, mask)]
        nodes, inits, inputs = [], [], [("x", dtype, xs)]
        if how == "input":
            inputs.append(("s", "int64", [len(out)]))
        elif how == "computed":
            inputs.append(("s0", "int64", [len(out)]))
            nodes.append(helper.make_node("Identity", ["s0"], ["s"]))
        else:
            inits.append(U.const_arr("s", np.array(out, np.int64)))
        nodes.append(helper.make_node("Reshape", ["x", "s"], ["y"], **({"allowzero": 1} if az else {})))
        if od is None:
            nodes.append(helper.make_node("Identity", ["y"], ["z"]))
            gouts = [("z", dtype, [None] * len(out))]
        else:
            gouts = [("y", dtype, [v if v is not None else f"O{k}" for k, v in enumerate(od)])]
        host = U.model(nodes, inputs, gouts, inits=inits, opset=(14, 18)[i % 2])
        try:
            new = U.apply_rule(host, list(mod.rules))
        except Exception as e:  # noqa: BLE001
            ctx.violation("C05:materialize:raises", f"rule raised {e!r}", {"out": out, "annotation": od})
            continue
        rs = U.node_of(new, "Reshape")[0]
        cs = U.consts(new)
        fired = how != "const" and rs.input[1] in cs and rs.input[1] != "s"
        obs = None
        if fired:
            fired_n += 1
            obs = [int(v) for v in cs[rs.input[1]]]
            if U.attr(rs, "allowzero", 0) != 1:
                ctx.tie_broken("correspondence", "reshape:Materialize", f"allowzero is {U.attr(rs, 'allowzero', 0)}, model says 1")
        cases.append(f"({common.cbool(how == 'const')}, {copt(od, _odl)}, {copt(obs, _zl)})")
        meta.append((out, od, how, az, obs))
        zero_sym = od is not None and any(d == 0 for d in od) and any(d is None for d in od)
        ctx.case(("materialize", len(out), how, az, None if od is None else sum(d is None for d in od), zero_sym, fired))
        if fired:
            feeds = []
            for k in range(3):
                f = {"x": U.int_data(xs, dtype, k)}
                if how == "input":
                    f["s"] = np.array(out, np.int64)
                elif how == "computed":
                    f["s0"] = np.array(out, np.int64)
                feeds.append(f)
            key = "C05:materialize:zero-dim-with-inferred-dim" if zero_sym else "C05:materialize:differs"
            U.oracle(ctx, key, f"Reshape(x{xs}, <dynamic shape>) with output annotation {od} -> constant {obs}, allowzero=1", host, new, feeds,
                     {"family": "reshape", "rule": "MaterializeReshapeShape", "x_shape": xs, "runtime_shape": out, "out_annotation": od, "emitted": obs})
    return cases, meta, fired_n


def _squeeze_reshape(ctx, br):
    from onnx import helper
    n_f = 0
    for i, (decl, rt) in enumerate([([5], [[5]]), ([1], [[1]]), ([0], [[0]]), (["N"], [[1], [4], [0]]), ([1, 1], [[1, 1]]), ([2, 1], [[2, 1]]), ("unknown", [[3]])]):
        for with_axes in (False, True):
            dtype = ("float32", "int64")[i % 2]
            unknown = decl == "unknown"
            nodes, inits = [], [U.const_arr("m1", np.array([-1], np.int64))]
            data = "x"
            if unknown:
                nodes.append(helper.make_node("Identity", ["x"], ["d"]))
                data = "d"
            if with_axes:
                if unknown or len(decl) != 1 or decl != [1]:
                    continue
                inits.append(U.const_arr("ax", np.array([0], np.int64)))
                nodes.append(helper.make_node("Squeeze", [data, "ax"], ["t"]))
            else:
                nodes.append(helper.make_node("Squeeze", [data], ["t"]))
            nodes.append(helper.make_node("Reshape", ["t", "m1"], ["y"]))
            host = U.model(nodes, [("x", dtype, rt[0] if unknown else decl)], [("y", dtype, [None])], inits=inits, opset=(13, 18)[i % 2])
            new = U.apply_rule(host, [br.squeeze_reshape_1d_rule])
            ynode = [nd for nd in new.graph.node if "y" in nd.output][0]
            fired = ynode.op_type == "Identity"
            rank1 = (not unknown) and len(decl) == 1
            ctx.case(("squeeze-reshape", str(decl), with_axes, fired))
            if fired != (rank1 and not with_axes) and not (fired and rank1):
                ctx.tie_broken("correspondence", "reshape:SqueezeReshape", f"x{decl} axes={with_axes}: fired={fired}, model says {rank1 and not with_axes}")
            if fired:
                n_f += 1
                U.oracle(ctx, "C05:reshape:SqueezeReshape:differs", f"Reshape(Squeeze(x{decl}), [-1])", host, new,
                         [{"x": U.int_data(s, dtype, k)} for k, s in enumerate(rt * 3)][:max(3, len(rt))], {"family": "reshape", "rule": "SqueezeReshape", "x": str(decl)})
    return n_f


def family(ctx):
    from onnxscript.rewriter.rules.common import _basic_rules as br

    rr_cases, rr_meta, rr_f = _reshape_reshape(ctx, br)
    fl_cases, fl_meta, fl_f = _flatten(ctx, br)
    mt_cases, mt_meta, mt_f = _materialize(ctx)
    sq_f = _squeeze_reshape(ctx, br)
    body = (f"Definition rc : list rr_case := {clist(rr_cases)}.\nEval vm_compute in (disagreeing rr_agrees 0 rc).\n"
            f"Definition fc : list fl_case := {clist(fl_cases)}.\nEval vm_compute in (disagreeing fl_agrees 0 fc).\n"
            f"Definition mc : list mat_case := {clist(mt_cases)}.\nEval vm_compute in (disagreeing mat_agrees 0 mc).")
    ok, vals_, raw = ctx.coq_eval(["OV.Rules.Reshape"], body, name="reshape")
    if not ok or len(vals_) != 3:
        ctx.tie_broken("correspondence", "reshape:model-evaluation", raw[-800:])
        return
    bad_r, bad_f, bad_m = (common.parse_nat_list(v) for v in vals_)
    for i in bad_r[:4]:
        ctx.tie_broken("correspondence", "reshape:ReshapeReshape", f"(x, s1, s2, az1, az2, out annotation, emitted) = {rr_meta[i]}: model differs")
    for i in bad_f[:4]:
        ctx.tie_broken("correspondence", "reshape:Flatten2Reshape", f"(shape, axis, annotation, out annotation, emitted) = {fl_meta[i]}: model differs")
    for i in bad_m[:4]:
        ctx.tie_broken("correspondence", "reshape:MaterializeReshapeShape", f"(out, annotation, shape operand, allowzero, emitted) = {mt_meta[i]}: model differs")
    ctx.obligation("correspondence reshape: wherever ReshapeReshape fired, shape constant and allowzero = Reshape.rr_decide", not bad_r)
    ctx.obligation("correspondence reshape: wherever Flatten2Reshape fired, the shape constant = Reshape.fl_check", not bad_f)
    ctx.obligation("correspondence reshape: wherever MaterializeReshapeShape fired, the shape constant = Reshape.mat_check", not bad_m)
    U.guard(ctx, "reshape:ReshapeReshape", rr_f, 40)
    U.guard(ctx, "reshape:Flatten2Reshape", fl_f, 40)
    U.guard(ctx, "reshape:MaterializeReshapeShape", mt_f, 10)
    U.guard(ctx, "reshape:SqueezeReshape", sq_f, 3)
    ctx.cover(reshape_reshape_instances=len(rr_cases), reshape_reshape_fired=rr_f, flatten_instances=len(fl_cases), flatten_fired=fl_f,
              materialize_instances=len(mt_cases), materialize_fired=mt_f, squeeze_reshape_fired=sq_f,
              reshape_model_disagreements=len(bad_r) + len(bad_f) + len(bad_m))
    if rr_meta:
        ctx.sample({"family": "reshape", "ReshapeReshape": [str(x) for x in rr_meta[len(rr_meta) // 2]]})
    ctx.assume("Reshape rules: value_info annotations of the host are truthful; Reshape/Flatten/Squeeze keep the row-major data, so tensors are "
               "compared by shape in the model and by shape+dtype+values in the oracle")
