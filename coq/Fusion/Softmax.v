(* C19 model: ort_fusions/softmax.py (softmax upcast removal)
     pattern:  Cast(input, to=FLOAT) -> Softmax(axis | absent) -> Cast(to=FLOAT16)      check: input.dtype == FLOAT16
     rewrite:  Softmax(input, axis | absent)
   Part 1: one softmax row over an arbitrary carrier; the two Casts and the kernel are arbitrary functions.
   Part 2: the side condition and the element types, executable.  No proofs in this file. *)
From Coq Require Import List ZArith Bool.
Require Import OV.Fusion.Norm.
Import ListNotations.

Section Sem.
  Variable F : Type.
  Variable up down : F -> F.               (* Cast float16 -> float32, Cast float32 -> float16 *)
  Variable sm : list F -> list F.          (* the Softmax kernel on one row (any axis: a row is a fibre of that axis) *)
  Definition softmax_pattern (x : list F) : list F := map down (sm (map up x)).
  Definition softmax_fused (x : list F) : list F := sm x.
End Sem.

(* the rule as a whole: the pattern's Cast targets are constants of the pattern (FLOAT, FLOAT16), check_if_fp16_input tests
   the input's element type.  None = unknown element type. *)
Definition softmax_rule_fires (in_dt : option dtype) (up_to down_to : dtype) : bool :=
  match in_dt, up_to, down_to with
  | Some FLOAT16, FLOAT, FLOAT16 => true
  | _, _, _ => false
  end.
(* element type of the matched expression's result (the final Cast) and of the replacement (Softmax keeps its input's) *)
Definition softmax_pattern_dtype (down_to : dtype) : dtype := down_to.
Definition softmax_fused_dtype (in_dt : dtype) : dtype := in_dt.
(* the axis attribute is forwarded as matched (absent stays absent: same operator default on both sides) *)
Definition softmax_rewrite_axis (axis : option Z) : option Z := axis.

Inductive softmax_case := CSoftmax (in_dt : option dtype) (up_to down_to : dtype) (observed : bool).
Definition softmax_agrees (c : softmax_case) : bool :=
  match c with CSoftmax i u d obs => Bool.eqb (softmax_rule_fires i u d) obs end.
Fixpoint softmax_disagreeing (k : nat) (cs : list softmax_case) : list nat :=
  match cs with [] => [] | c :: t => (if softmax_agrees c then [] else [k]) ++ softmax_disagreeing (S k) t end.
