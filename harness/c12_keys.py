"""C12: cache keys under Python's ==/hash on all numbers (bool vs int, int vs float, 0.0 vs -0.0, NaN objects, +-inf, ints
beyond 2^53 / 2^63) -- histories replayed on EVERY cache of the three front ends and tied to coq/Autocast/PyKey.v:

  builder    GraphBuilder._get_or_create_constant      owners of every request = PyKey.ptrace; tensor = the request's own
  converter  _translate_subscript_expr.const_1d        owners = PyKey.vtrace (value-only key); tensor = ir.tensor([value])
  converter  _emit_const (no cache)                    every literal of `((x + a) + b) + c` has a Constant of its own
  eager      cast_pyvalue_to_os_tensor (no cache)      every request = numpy's conversion of that value alone
"""
from __future__ import annotations

import importlib
import itertools
import json
import math
import os
import re
import sys

import numpy as np

from harness import c12_frontends as FE
from harness import common

K_SUBSCRIPT = "C12:converter:subscript-constant-cache:bool-key-equals-int-key"
K_NAN = "C12:builder-cache:second-nan-object:initializer-name-collision-valueerror"

GROUP1 = [1, True, 1.0]
GROUP0 = [0, False, 0.0, -0.0]
BIG = [2 ** 53, 2 ** 53 + 1, float(2 ** 53), 2 ** 63 - 1, 2 ** 63, -2 ** 63, 2 ** 64 - 1, 2 ** 64, 1e300, -1e300]
DTYPES = [None, 1, 7, 11, 9, 6, 10, 2]


def _nan(neg=False):
    x = float("nan")
    return -x if neg else x


# --------------------------------------------------------------------------------------------- Coq printers

def c_pyval(v, ids):
    if isinstance(v, bool):
        return f"(PBool {'true' if v else 'false'})"
    if isinstance(v, int):
        return f"(PInt {common.cz(v)})"
    neg = "true" if math.copysign(1.0, v) < 0 else "false"
    if math.isnan(v):
        return f"(PFloat (FNan {neg} {ids.setdefault(id(v), len(ids))}))"
    if math.isinf(v):
        return f"(PFloat (FInf {neg}))"
    num, den = abs(v).as_integer_ratio()
    return f"(PFloat (FFin {neg} {num}%N {den.bit_length() - 1}%N))"


def c_pylit(l, ids):
    if isinstance(l, (list, tuple)):
        return f"(PL {c_pyval(l[0], ids)} {common.clist([c_pyval(v, ids) for v in l[1:]])})"
    return f"(PS {c_pyval(l, ids)})"


def _parse_opt_nats(s):
    s = re.sub(r"%\w+", "", s).strip()
    out = []
    for m in re.finditer(r"\[([^\[\]]*)\]", s[1:-1] if s.startswith("[[") or s.startswith("[ [") else s):
        row = []
        for tok in m.group(1).split(";"):
            tok = tok.strip()
            if tok:
                row.append(None if tok == "None" else int(tok.replace("Some", "").strip()))
        out.append(row)
    return out


# --------------------------------------------------------------------------------------------- builder

def builder_histories(ctx):
    rng = ctx.rng
    hs = []
    # 1, True, 1.0 and 0, False, 0.0, -0.0 in every order, at one dtype and without a dtype
    for grp in (GROUP1, GROUP0):
        for perm in itertools.permutations(grp):
            ds = [None, 1, 7] if ctx.tier == "quick" else DTYPES
            for d in ds:
                hs.append([(v, d) for v in perm])
    for perm in itertools.permutations(GROUP1 + [0.0, -0.0], 4) if ctx.tier == "thorough" else []:
        hs.append([(v, rng.choice([None, 1, 9])) for v in perm])
    # NaN objects (the same object twice, two objects, both signs), infinities, ints beyond 2^53 / 2^63, lists of them
    n1, n2, n3 = _nan(), _nan(), _nan(True)
    inf = float("inf")
    hs += [[(n1, 1), (n1, 1), (n2, 1)], [(n1, 1), (n3, 1)], [(n1, 11), (n1, 1), (n1, None)], [(inf, 1), (-inf, 1), (inf, 1), (1e300, 1)],
           [([n1], 1), ([n1], 1), ([n2], 1)], [([inf, -inf], 1), ([inf, -inf], 1), ([-inf, inf], 1)],
           [(2 ** 53 + 1, 7), (float(2 ** 53), 7), (2 ** 53, 7), (2 ** 53 + 1, 1), (2 ** 53, 1), (float(2 ** 53), 1)],
           [(2 ** 63 - 1, None), (2 ** 63, None), (-2 ** 63, 7), (2 ** 64, 7), (2 ** 64 - 1, 7)],
           [(True, None), (1, None), (1.0, None), (True, 7), (1, 7), (1.0, 7)], [([1, True], 7), ([1, 1], 7), ([True, True], 7), ([True, True], None)],
           [([1, 2 ** 53 + 1], 7), ([1.0, float(2 ** 53)], 7), ([1, 2 ** 53], 7)], [(n1, 7), (inf, 7), (n1, 9), (inf, 9), (1, 9), (True, 9)]]
    pool = GROUP1 + GROUP0 + BIG + [n1, n2, n3, inf, -inf, 2, 2.0, [1, True], [1, 1], [1.0, 1.0], [0.0], [-0.0], [n1], [True], [False, True]]
    for _ in range(40 if ctx.tier == "quick" else 600):
        dts = rng.sample(DTYPES, rng.choice([1, 2]))
        sub = rng.sample(pool, rng.choice([3, 5, 8]))
        hs.append([(rng.choice(sub), rng.choice(dts)) for _ in range(rng.randrange(3, 12))])
    return hs


def check_builder(ctx, C12):
    hs = builder_histories(ctx)
    # variant of the code: is a second NaN object refused (name collision) or given a numbered name?
    probe = C12.run_history([(_nan(), 1), (_nan(), 1)], None)
    collide = probe[1][0] is None
    traces, memo = [], {}
    n_req = shared = collisions = conflations = 0
    for h in hs:
        tr = C12.run_history(h, None)
        traces.append(tr)
        for i, ((lit, d), (owner, obs)) in enumerate(zip(h, tr)):
            n_req += 1
            shared += owner is not None and owner != i
            ctx.case(("key-history builder", _cls(lit), C12.dtname(d), owner is not None and owner != i))
            key = (repr(lit), type(lit).__name__, [type(v).__name__ for v in (lit if isinstance(lit, list) else [lit])].__repr__(), d)
            if key not in memo:
                memo[key] = C12.run_history([(lit, d)], None)[0][1]
            want = memo[key]
            if C12._same_err_or_obs(obs, want):
                continue
            has_nan = any(isinstance(v, float) and math.isnan(v) for v in (lit if isinstance(lit, list) else [lit]))
            if obs[0] == "ERR" and obs[1] == "ValueError" and "already registered" in obs[2] and has_nan:
                collisions += 1
                ctx.violation(K_NAN, f"GraphBuilder: a second NaN object as {C12.dtname(d)} after {_show(h[:i])}: {obs[2][:120]} (alone it is promoted to {want})",
                              dict(history=[[_j(l), dd] for l, dd in h], index=i, returned=list(obs), expected=list(want)))
                continue
            conflations += 1
            olit = h[owner][0] if owner is not None else None
            ctx.violation(f"C12:builder-cache:python-key-conflation:{_cls(lit)}-after-{_cls(olit) if olit is not None else 'none'}:{C12.dclass_name(d)}",
                          f"GraphBuilder: request {lit!r} as {C12.dtname(d)} after {_show(h[:i])} returned {obs} instead of {want}",
                          dict(history=[[_j(l), dd] for l, dd in h], index=i, returned=list(obs), expected=list(want)))
    # correspondence with PyKey.ptrace
    bodies, spans = [], []
    for k in range(0, len(hs), 120):
        chunk = hs[k:k + 120]
        rows = []
        for h in chunk:
            ids = {}
            rows.append(common.clist([f"({c_pylit(l, ids)}, {common.copt(d, lambda x: f'{int(x)}%N')})" for l, d in h]))
        bodies.append("Definition hs : list (list (pylit * option dtype)) := " + common.clist(rows) + ".\n"
                      f"Eval vm_compute in (map (ptrace {'true' if collide else 'false'} [] [] 0) hs).")
        spans.append((k, len(chunk)))
    results = C12.eval_shards(ctx, ["OV.Autocast.Autocast", "OV.Autocast.PyKey"], bodies, "c12pykey")
    bad = []
    for (k, n), (ok, vals, raw) in zip(spans, results):
        if not ok or not vals:
            ctx.tie_broken("correspondence", "key-history:builder:model-evaluation", raw[-600:])
            return
        model = C12._parse_traces(vals[0])
        if len(model) != n:
            ctx.tie_broken("correspondence", "key-history:builder:model-evaluation", f"{len(model)} traces for {n} histories")
            return
        for j in range(n):
            real = [o for o, _ in traces[k + j]]
            if real != model[j]:
                bad.append((k + j, real, model[j]))
    ctx.obligation("correspondence key histories (builder): which earlier request's initializer each request returns, or that it raises, "
                   f"= PyKey.ptrace on {len(hs)} histories with 1/True/1.0, 0/False/0.0/-0.0 in every order, NaN objects, +-inf, ints beyond 2^53/2^63",
                   not bad, json.dumps([(i, r, m, _show(hs[i])) for i, r, m in bad[:2]], default=str)[:900])
    if bad and not conflations:
        i, real, model = bad[0]
        ctx.tie_broken("correspondence", "key-history:builder:owners", f"history {_show(hs[i])}: real owners {real}, model {model}")
    ctx.cover(key_histories_builder=len(hs), key_history_requests_builder=n_req, key_history_shared_builder=shared,
              key_history_nan_name_collisions=collisions, second_nan_object_refused=collide, key_history_conflations_builder=conflations)


def _cls(l):
    vs = l if isinstance(l, (list, tuple)) else [l]
    def one(v):
        if isinstance(v, bool):
            return "bool"
        if isinstance(v, int):
            return "int" if abs(v) < 2 ** 53 else "bigint"
        return "nan" if math.isnan(v) else ("inf" if math.isinf(v) else ("negzero" if v == 0 and math.copysign(1, v) < 0 else "float"))
    ks = sorted({one(v) for v in vs})
    return "+".join(ks) + ("-list" if isinstance(l, (list, tuple)) else "")


def _j(l):
    return repr(l)


def _show(h):
    return "[" + ", ".join(f"({l!r}, {d})" for l, d in h) + "]"


# --------------------------------------------------------------------------------------------- converter: subscript constants

SUB_POOL = [0, 1, True, False, 2]


def subscript_histories(ctx):
    hs = [[(s, l, u)] for s in SUB_POOL for l in SUB_POOL for u in SUB_POOL]
    rng = ctx.rng
    for _ in range(40 if ctx.tier == "quick" else 400):
        hs.append([tuple(rng.choice(SUB_POOL + [3, -1]) for _ in range(3)) for _ in range(2)])
    return hs


def _sub_source(i, axes):
    idx = ", ".join(f"{l!r}:{u!r}:{s!r}" for s, l, u in axes)
    return (f"try:\n    @script(default_opset=op18)\n    def f{i}(x: FLOAT[4, 4]):\n        return x[{idx}]\n"
            f"except Exception as _e:\n    f{i} = _e\n")


def subscript_variant():
    """does const_1d key and emit int(value) (proposed_fixes/C12_subscript_constant_cache_bool_key.diff)?  read from the ast"""
    import ast
    tree = ast.parse(open(os.path.join(common.REPO, "onnxscript/_internal/converter.py")).read())
    fns = [n for n in ast.walk(tree) if isinstance(n, ast.FunctionDef) and n.name == "const_1d"]
    if len(fns) != 1:
        return None
    body = [ast.unparse(b) for b in fns[0].body if not isinstance(b, ast.Nonlocal)]
    as_read = ["if value not in cached_int_consts:\n    cached_int_consts[value] = self._emit_const([value], name, info)", "return cached_int_consts[value]"]
    if body == as_read:
        return "as-read"
    if body == ["value = int(value)"] + as_read:
        return "int"
    return None


def check_subscript(ctx, C12):
    hs = subscript_histories(ctx)
    variant = subscript_variant()
    ctx.obligation("translator subscript constants: const_1d is `if value not in cached_int_consts: ... = self._emit_const([value], ...)`, "
                   "optionally after `value = int(value)`", variant is not None, str(variant))
    if variant is None:
        ctx.tie_broken("translator", "converter.py:_translate_subscript_expr.const_1d", "unrecognised body")
        variant = "as-read"
    workdir = os.path.join(ctx.scratch, "c12gen")
    os.makedirs(workdir, exist_ok=True)
    modname = f"c12sub_{os.getpid()}"
    with open(os.path.join(workdir, modname + ".py"), "w") as f:
        f.write("from onnxscript import script\nfrom onnxscript.onnx_types import FLOAT\nfrom onnxscript.onnx_opset import opset18 as op18\n"
                + "\n".join(_sub_source(i, h) for i, h in enumerate(hs)))
    if workdir not in sys.path:
        sys.path.insert(0, workdir)
    importlib.invalidate_caches()
    mod = importlib.import_module(modname)
    reqs_all, owners_all = [], []
    conflated = refused = 0
    for i, axes in enumerate(hs):
        fn = getattr(mod, f"f{i}")
        # const_1d is called, per sliced axis in order, for: the axis number, the step, the lower and the upper bound
        reqs = []
        for k, (s, l, u) in enumerate(axes):
            reqs += [k, s, l, u]
        shown = list(reqs)
        if variant == "int":
            reqs = [int(r) for r in reqs]
        try:
            if isinstance(fn, Exception):
                raise fn
            g = fn.function_ir.graph
            sl = [n for n in g if n.op_type == "Slice"]
            assert len(sl) == 1, [n.op_type for n in g]
            ins = list(sl[0].inputs)
            if len(axes) == 1:
                per = {"start": [ins[1]], "end": [ins[2]], "axis": [ins[3]], "step": [ins[4]]}
            else:
                per = {nm: list(ins[j].producer().inputs) for nm, j in (("start", 1), ("end", 2), ("axis", 3), ("step", 4))}
            vals = []
            for k in range(len(axes)):
                vals += [per["axis"][k], per["step"][k], per["start"][k], per["end"][k]]
        except Exception as e:  # noqa: BLE001
            refused += 1
            reqs_all.append(None)
            owners_all.append(None)
            continue
        first = {}
        owners = []
        for j, v in enumerate(vals):
            first.setdefault(id(v), j)
            owners.append(first[id(v)])
            t = v.producer().attributes["value"].value
            got = (t.dtype.name, t.numpy().tolist())
            want = ("BOOL" if isinstance(reqs[j], bool) else "INT64", [reqs[j]])
            ctx.case(("key-history subscript", type(reqs[j]).__name__, owners[-1] != j, len(axes)))
            if got != want or type(got[1][0]) is not type(want[1][0]):
                conflated += 1
                ctx.violation(K_SUBSCRIPT,
                              f"converter: x[{', '.join(f'{l!r}:{u!r}:{s!r}' for s, l, u in axes)}]: the constant for {reqs[j]!r} (request {j} of {reqs!r}) is the "
                              f"{got[0]} tensor {got[1]} created for {reqs[owners[-1]]!r}, alone it is {want[0]} {want[1]}",
                              dict(source=f"x[{', '.join(f'{l!r}:{u!r}:{s!r}' for s, l, u in axes)}]", requests=[repr(r) for r in reqs], index=j,
                                   returned=list(got), expected=list(want)))
        reqs_all.append(reqs)
        owners_all.append(owners)
    live = [i for i, r in enumerate(reqs_all) if r is not None]
    ids = {}
    body = ("Definition hs : list (list pyval) := " + common.clist([common.clist([c_pyval(v, ids) for v in reqs_all[i]]) for i in live]) + ".\n"
            "Eval vm_compute in (map (fun h => map Some (vtrace [] 0 h)) hs).")
    ok, vals, raw = ctx.coq_eval(["OV.Autocast.Autocast", "OV.Autocast.PyKey"], body, name="c12subkey")
    bad = []
    if not ok or not vals:
        ctx.tie_broken("correspondence", "key-history:subscript:model-evaluation", raw[-600:])
        return
    model = C12._parse_traces(vals[0])
    for i, m in zip(live, model):
        if owners_all[i] != m:
            bad.append((hs[i], reqs_all[i], owners_all[i], m))
    ctx.obligation("correspondence key histories (converter, subscript constants): which earlier const_1d request's Constant each slice operand is "
                   f"= PyKey.vtrace (the python value alone as the key) on {len(live)} subscripts", not bad and len(model) == len(live), json.dumps(bad[:2], default=str)[:600])
    if (bad or len(model) != len(live)) and not conflated:
        ctx.tie_broken("correspondence", "key-history:subscript:owners", json.dumps(bad[:1], default=str)[:500])
    if len(live) < len(hs) // 2:
        ctx.tie_broken("harness", "key-history:subscript", f"{refused} of {len(hs)} generated subscripts were refused by the converter")
    ctx.cover(key_histories_subscript=len(hs), key_history_subscript_refused=refused, key_history_subscript_conflated_requests=conflated)


# --------------------------------------------------------------------------------------------- converter: literals (no cache)

def check_converter_literals(ctx, C12):
    perms = [p for grp in (GROUP1, GROUP0) for p in itertools.permutations(grp)]
    workdir = os.path.join(ctx.scratch, "c12gen")
    os.makedirs(workdir, exist_ok=True)
    modname = f"c12lit_{os.getpid()}"
    parts = ["from onnxscript import script\nfrom onnxscript.onnx_types import DOUBLE\nfrom onnxscript.onnx_opset import opset18 as op18\n"]
    for i, p in enumerate(perms):
        expr = "x"
        for v in p:
            expr = f"({expr} + ({v!r}))"
        parts.append(f"try:\n    @script(default_opset=op18)\n    def f{i}(x: DOUBLE[2]):\n        return {expr}\nexcept Exception as _e:\n    f{i} = _e\n")
    with open(os.path.join(workdir, modname + ".py"), "w") as f:
        f.write("\n".join(parts))
    if workdir not in sys.path:
        sys.path.insert(0, workdir)
    importlib.invalidate_caches()
    mod = importlib.import_module(modname)
    bad = []
    for i, p in enumerate(perms):
        fn = getattr(mod, f"f{i}")
        try:
            adds = [n for n in fn.function_ir.graph if n.op_type == "Add"]
            assert len(adds) == len(p)
            seen = set()
            for n, v in zip(adds, p):
                cl = n.inputs[1].producer()
                assert cl.op_type == "CastLike", cl.op_type
                c = cl.inputs[0].producer()
                t = c.attributes["value"].value
                got = FE.obs_of_ir_tensor(t)
                want = FE.obs_of_array(np.array(v, dtype=np.bool_ if isinstance(v, bool) else (np.int64 if isinstance(v, int) else np.float32)))
                ctx.case(("key-history converter-literal", type(v).__name__))
                if got != want or id(c) in seen:
                    bad.append((p, v, got, want))
                    ctx.violation(f"C12:converter:literal-constant-shared-or-wrong:{type(v).__name__}",
                                  f"converter: in ((x + a) + b) + c with {p!r} the Constant of {v!r} is {got}, alone it is {want}",
                                  dict(literals=[repr(x) for x in p], literal=repr(v), returned=list(got), expected=list(want)))
                seen.add(id(c))
        except Exception as e:  # noqa: BLE001
            ctx.tie_broken("harness", "key-history:converter-literals", f"{p!r}: {type(e).__name__}: {e}"[:300])
            return
    ctx.obligation(f"oracle key histories (converter, literals): every literal of ((x + a) + b) + c has a Constant of its own python type and value "
                   f"({len(perms)} orders of 1/True/1.0 and 0/False/0.0/-0.0)", not bad, str(bad[:2])[:400])


# --------------------------------------------------------------------------------------------- eager (no cache)

def check_eager(ctx, C12):
    from onnxscript._internal import autocast
    import onnx_ir as ir
    rng = ctx.rng
    n1, n2 = _nan(), _nan(True)
    pool = GROUP1 + GROUP0 + [n1, n2, float("inf"), float("-inf"), 2 ** 53 + 1, float(2 ** 53), 2 ** 63 - 1, -2 ** 63, [1, True], [1.0], [True]]
    hs = [[(v, d) for v in p] for grp in (GROUP1, GROUP0) for p in itertools.permutations(grp) for d in (None, 1, 7, 9)]
    for _ in range(30 if ctx.tier == "quick" else 300):
        hs.append([(rng.choice(pool), rng.choice([None, 1, 7, 11, 9, 6])) for _ in range(rng.randrange(3, 10))])
    bad = 0
    with np.errstate(all="ignore"):
        for h in hs:
            for i, (v, d) in enumerate(h):
                dt = None if d is None else ir.DataType(d).numpy()
                try:
                    got = FE.obs_of_array(autocast.cast_pyvalue_to_os_tensor(v, dt).value)
                except Exception as e:  # noqa: BLE001
                    got = FE.obs_of_exc(e)[:2]
                head = v[0] if isinstance(v, list) else v
                base = np.bool_ if isinstance(head, bool) else (np.int64 if isinstance(head, int) else np.float32)
                try:
                    ref = np.asarray(v).astype(dt if dt is not None else base)
                    want = FE.obs_of_array(ref)
                except Exception as e:  # noqa: BLE001
                    want = FE.obs_of_exc(e)[:2]
                ctx.case(("key-history eager", _cls(v), C12.dtname(d)))
                if got != want:
                    bad += 1
                    ctx.violation(f"C12:eager:history-dependent-promotion:{_cls(v)}:{C12.dclass_name(d)}",
                                  f"eager: {v!r} as {C12.dtname(d)} after {_show(h[:i])} became {got}, alone it is {want}",
                                  dict(history=[[_j(l), dd] for l, dd in h], index=i, returned=list(got), expected=list(want)))
    ctx.obligation(f"oracle key histories (eager): cast_pyvalue_to_os_tensor gives every request the tensor of that value alone ({len(hs)} histories)", bad == 0, "")
    ctx.cover(key_histories_eager=len(hs))


def run(ctx, C12):
    check_builder(ctx, C12)
    check_subscript(ctx, C12)
    check_converter_literals(ctx, C12)
    check_eager(ctx, C12)
