(* Declarative well-formedness of ONNX graphs and soundness of the executable checker of Wf.v
   (used as a verified checker on the converter's real protos by C02).

   wf_graph g  :=  scoping (every use is defined before it, in this graph or an enclosing one;
                   subgraph outputs are produced by a node of that subgraph; outputs distinct and defined)
                /\ every value name is defined exactly once across the graph and all nested subgraphs
                   (hence no subgraph redefines an outer name).

   Main theorem:  wf_graphb g = true -> wf_graph g. *)
From Coq Require Import List String Bool Permutation.
Require Import OV.Graph.Syntax OV.Graph.Wf.
Import ListNotations.
Local Open Scope list_scope.

(* ------------------------------------------------------------------ definitions (all names defined, nested) *)

Fixpoint defs_node (n : node) : list vname :=
  let 'Node _ _ _ outs _ subs := n in
  ((fix go (l : list (string * graph)) : list vname :=
      match l with [] => [] | (_, g) :: t => defs_graph g ++ go t end) subs) ++ outs
with defs_graph (g : graph) : list vname :=
  let 'Graph ins inits nodes _ := g in
  (ins ++ pure_inits ins inits) ++
  (fix go (l : list node) : list vname :=
     match l with [] => [] | n :: t => defs_node n ++ go t end) nodes.

Fixpoint defs_subs (l : list (string * graph)) : list vname :=
  match l with [] => [] | (_, g) :: t => defs_graph g ++ defs_subs t end.
Fixpoint defs_nodes_all (l : list node) : list vname :=
  match l with [] => [] | n :: t => defs_node n ++ defs_nodes_all t end.

Lemma defs_node_eq : forall d o i outs a subs,
  defs_node (Node d o i outs a subs) = defs_subs subs ++ outs.
Proof.
  intros. reflexivity.
Qed.

Lemma defs_graph_eq : forall ins inits nodes outs,
  defs_graph (Graph ins inits nodes outs) = (ins ++ pure_inits ins inits) ++ defs_nodes_all nodes.
Proof.
  intros. reflexivity.
Qed.

(* ------------------------------------------------------------------ the declarative specification *)

Inductive scoped_graph : bool -> list vname -> graph -> Prop :=
| SG : forall (sub : bool) vis ins inits nodes outs,
    NoDup inits ->
    scoped_nodes (ins ++ pure_inits ins inits) vis nodes ->
    NoDup outs ->
    (if sub then incl outs (flat_map n_outs nodes)
     else incl outs (flat_map n_outs nodes ++ ins ++ pure_inits ins inits)) ->
    scoped_graph sub vis (Graph ins inits nodes outs)
with scoped_nodes : list vname -> list vname -> list node -> Prop :=
| SN_nil : forall local vis, scoped_nodes local vis []
| SN_cons : forall local vis d o nins nouts attrs subs t,
    incl (present nins) (local ++ vis) ->                              (* defined before use, with scoping *)
    scoped_subs (local ++ vis) subs ->                                 (* subgraphs see what is visible here *)
    scoped_nodes (nouts ++ local) vis t ->
    scoped_nodes local vis (Node d o nins nouts attrs subs :: t)
with scoped_subs : list vname -> list (string * graph) -> Prop :=
| SS_nil : forall vis, scoped_subs vis []
| SS_cons : forall vis k g t,
    scoped_graph true vis g -> scoped_subs vis t -> scoped_subs vis ((k, g) :: t).

Definition wf_graph (g : graph) : Prop :=
  scoped_graph false [] g /\ NoDup (defs_graph g).

(* ------------------------------------------------------------------ boolean helpers *)

Lemma mem_In : forall x l, mem x l = true <-> In x l.
Proof.
  intros x l. unfold mem. rewrite existsb_exists. split.
  - intros [y [Hy He]]. apply String.eqb_eq in He. subst. exact Hy.
  - intros H. exists x. split; [exact H | apply String.eqb_refl].
Qed.

Lemma mem_false_not_In : forall x l, mem x l = false -> ~ In x l.
Proof. intros x l H Hin. apply mem_In in Hin. congruence. Qed.

Lemma nodupb_NoDup : forall l, nodupb l = true <-> NoDup l.
Proof.
  induction l as [|x t IH]; cbn [nodupb].
  - split; [constructor | reflexivity].
  - rewrite andb_true_iff, negb_true_iff, IH. split.
    + intros [Hm Hn]. constructor; [apply mem_false_not_In; exact Hm | exact Hn].
    + intros H. inversion H; subst. split; [|assumption].
      destruct (mem x t) eqn:E; [apply mem_In in E; contradiction | reflexivity].
Qed.

Lemma all_in_incl : forall xs vis, all_in xs vis = true <-> incl xs vis.
Proof.
  intros xs vis. unfold all_in. rewrite forallb_forall. split.
  - intros H x Hx. apply mem_In. apply H. exact Hx.
  - intros H x Hx. apply mem_In. apply H. exact Hx.
Qed.

(* ------------------------------------------------------------------ `seen` only grows by fresh, distinct names *)

Definition ext (seen seen' ds : list vname) : Prop :=
  seen' = ds ++ seen /\ NoDup ds /\ (forall x, In x ds -> ~ In x seen).

Lemma ext_refl : forall seen, ext seen seen [].
Proof. intros. repeat split; [constructor | intros x []]. Qed.

Lemma NoDup_app_intro : forall (a b : list vname),
  NoDup a -> NoDup b -> (forall x, In x a -> ~ In x b) -> NoDup (a ++ b).
Proof.
  induction a as [|x t IH]; intros b Ha Hb Hd; cbn; [exact Hb|].
  inversion Ha; subst. constructor.
  - intros Hin. apply in_app_or in Hin. destruct Hin as [Hin|Hin]; [contradiction|].
    exact (Hd x (or_introl eq_refl) Hin).
  - apply IH; [assumption | assumption | intros y Hy; apply Hd; right; exact Hy].
Qed.

Lemma ext_trans : forall s0 s1 s2 d1 d2,
  ext s0 s1 d1 -> ext s1 s2 d2 -> ext s0 s2 (d2 ++ d1).
Proof.
  intros s0 s1 s2 d1 d2 (E1 & N1 & D1) (E2 & N2 & D2). subst. repeat split.
  - rewrite app_assoc. reflexivity.
  - apply NoDup_app_intro; [assumption | assumption |].
    intros x Hx Hx1. apply (D2 x Hx). apply in_or_app. left. exact Hx1.
  - intros x Hx Hs. apply in_app_or in Hx. destruct Hx as [Hx|Hx].
    + apply (D2 x Hx). apply in_or_app. right. exact Hs.
    + exact (D1 x Hx Hs).
Qed.

Lemma add_defs_ext : forall xs seen seen',
  add_defs xs seen = Some seen' -> ext seen seen' (rev xs).
Proof.
  induction xs as [|x t IH]; intros seen seen' H; cbn [add_defs] in H.
  - inversion H; subst. apply ext_refl.
  - destruct (mem x seen) eqn:E; [discriminate|].
    apply IH in H. destruct H as (E1 & N1 & D1). cbn [rev]. repeat split.
    + rewrite E1. rewrite <- app_assoc. reflexivity.
    + apply NoDup_app_intro; [exact N1 | constructor; [intros [] | constructor] |].
      intros y Hy [Hy'|[]]. subst y. apply (D1 x Hy). left. reflexivity.
    + intros y Hy Hs. apply in_app_or in Hy. destruct Hy as [Hy|[Hy|[]]].
      * apply (D1 y Hy). right. exact Hs.
      * subst y. apply mem_false_not_In in E. contradiction.
Qed.

(* ------------------------------------------------------------------ the checker, with its local fixpoints lifted *)

Section Standalone.
  Variable chk : list vname -> list vname -> graph -> option (list vname).   (* vis seen subgraph *)

  Fixpoint go_subs (vis : list vname) (l : list (string * graph)) (seen : list vname) : option (list vname) :=
    match l with
    | [] => Some seen
    | (_, sg) :: t => match chk vis seen sg with Some s' => go_subs vis t s' | None => None end
    end.

  Fixpoint go_nodes (vis : list vname) (ns : list node) (local seen : list vname)
    : option (list vname * list vname) :=
    match ns with
    | [] => Some (local, seen)
    | Node _ _ nins nouts _ subs :: t =>
      if negb (all_in (present nins) (local ++ vis)) then None else
      match go_subs (local ++ vis) subs seen with
      | None => None
      | Some seen1 =>
        match add_defs nouts seen1 with
        | None => None
        | Some seen2 => go_nodes vis t (nouts ++ local) seen2
        end
      end
    end.

  Definition check_body (sub : bool) (vis seen : list vname) (g : graph) : option (list vname) :=
    let 'Graph ins inits nodes outs := g in
    if negb (nodupb inits) then None else
    match add_defs (ins ++ pure_inits ins inits) seen with
    | None => None
    | Some seen0 =>
      match go_nodes vis nodes (ins ++ pure_inits ins inits) seen0 with
      | None => None
      | Some (local, seen') =>
        if negb (nodupb outs) then None
        else if sub then (if all_in outs (flat_map n_outs nodes) then Some seen' else None)
        else (if all_in outs local then Some seen' else None)
      end
    end.
End Standalone.

Lemma check_graph_S : forall f sub vis seen g,
  check_graph (S f) sub vis seen g = check_body (check_graph f true) sub vis seen g.
Proof.
  intros f sub vis seen [ins inits nodes outs]. cbn [check_graph check_body].
  destruct (negb (nodupb inits)); [reflexivity|].
  destruct (add_defs (ins ++ pure_inits ins inits) seen) as [seen0|]; [|reflexivity].
  match goal with |- match ?A with _ => _ end = match ?B with _ => _ end => assert (HE : A = B) end.
  { generalize (ins ++ pure_inits ins inits) as local. generalize seen0 as s.
    induction nodes as [|[d o nins nouts attrs subs] t IH]; intros s local; [reflexivity|].
    cbn [go_nodes]. destruct (negb (all_in (present nins) (local ++ vis))); [reflexivity|].
    match goal with |- match ?A with _ => _ end = match ?B with _ => _ end => assert (HS : A = B) end.
    { generalize s as s'. induction subs as [|[k sg] t' IH']; intros s'; [reflexivity|].
      cbn [go_subs]. destruct (check_graph f true (local ++ vis) s' sg); [apply IH' | reflexivity]. }
    rewrite HS. destruct (go_subs (check_graph f true) (local ++ vis) subs s) as [s1|]; [|reflexivity].
    destruct (add_defs nouts s1) as [s2|]; [apply IH | reflexivity]. }
  rewrite HE. reflexivity.
Qed.

(* ------------------------------------------------------------------ soundness *)

Definition chk_ok (chk : list vname -> list vname -> graph -> option (list vname)) : Prop :=
  forall vis seen g seen', chk vis seen g = Some seen' ->
    scoped_graph true vis g /\ exists ds, ext seen seen' ds /\ Permutation ds (defs_graph g).

Lemma go_subs_ok : forall chk, chk_ok chk -> forall vis l seen seen',
  go_subs chk vis l seen = Some seen' ->
  scoped_subs vis l /\ exists ds, ext seen seen' ds /\ Permutation ds (defs_subs l).
Proof.
  intros chk Hc vis. induction l as [|[k g] t IH]; intros seen seen' H; cbn [go_subs] in H.
  - inversion H; subst. split; [constructor|]. exists []. split; [apply ext_refl | constructor].
  - destruct (chk vis seen g) as [s1|] eqn:E; [|discriminate].
    apply Hc in E. destruct E as (Sg & d1 & X1 & P1).
    apply IH in H. destruct H as (Ss & d2 & X2 & P2).
    split; [constructor; assumption|].
    exists (d2 ++ d1). split; [eapply ext_trans; eassumption|].
    cbn [defs_subs]. eapply Permutation_trans; [apply Permutation_app_comm|].
    apply Permutation_app; assumption.
Qed.

Lemma go_nodes_sound : forall chk, chk_ok chk -> forall vis ns local seen local' seen',
  go_nodes chk vis ns local seen = Some (local', seen') ->
  scoped_nodes local vis ns
  /\ (forall x, In x local' <-> In x (flat_map n_outs ns) \/ In x local)
  /\ exists ds, ext seen seen' ds /\ Permutation ds (defs_nodes_all ns).
Proof.
  intros chk Hc vis. induction ns as [|[d o nins nouts attrs subs] t IH]; intros local seen local' seen' H; cbn [go_nodes] in H.
  - inversion H; subst. split; [constructor|]. split.
    + intros x. cbn. tauto.
    + exists []. split; [apply ext_refl | constructor].
  - destruct (negb (all_in (present nins) (local ++ vis))) eqn:Ea; [discriminate|].
    apply negb_false_iff in Ea. apply all_in_incl in Ea.
    destruct (go_subs chk (local ++ vis) subs seen) as [s1|] eqn:Es; [|discriminate].
    apply (go_subs_ok chk Hc) in Es. destruct Es as (Ss & d1 & X1 & P1).
    destruct (add_defs nouts s1) as [s2|] eqn:Ed; [|discriminate].
    apply add_defs_ext in Ed.
    apply IH in H. destruct H as (Sn & Hl & d3 & X3 & P3).
    split; [constructor; assumption|]. split.
    + intros x. rewrite Hl. cbn [flat_map n_outs]. rewrite !in_app_iff. tauto.
    + exists (d3 ++ (rev nouts ++ d1)). split.
      * eapply ext_trans; [eapply ext_trans; eassumption | exact X3].
      * cbn [defs_nodes_all]. rewrite defs_node_eq.
        eapply Permutation_trans; [apply Permutation_app_comm|].
        apply Permutation_app; [|exact P3].
        eapply Permutation_trans; [apply Permutation_app_comm|].
        apply Permutation_app; [exact P1 | apply Permutation_sym, Permutation_rev].
Qed.

Lemma check_body_sound : forall chk, chk_ok chk -> forall sub vis seen g seen',
  check_body chk sub vis seen g = Some seen' ->
  scoped_graph sub vis g /\ exists ds, ext seen seen' ds /\ Permutation ds (defs_graph g).
Proof.
  intros chk Hc sub vis seen [ins inits nodes outs] seen' H. cbn [check_body] in H.
  destruct (negb (nodupb inits)) eqn:Ei; [discriminate|].
  apply negb_false_iff, nodupb_NoDup in Ei.
  destruct (add_defs (ins ++ pure_inits ins inits) seen) as [s0|] eqn:E0; [|discriminate].
  apply add_defs_ext in E0.
  destruct (go_nodes chk vis nodes (ins ++ pure_inits ins inits) s0) as [[local s1]|] eqn:En; [|discriminate].
  apply (go_nodes_sound chk Hc) in En. destruct En as (Sn & Hl & d1 & X1 & P1).
  destruct (negb (nodupb outs)) eqn:Eo; [discriminate|].
  apply negb_false_iff, nodupb_NoDup in Eo.
  assert (Hout : (if sub then incl outs (flat_map n_outs nodes)
                  else incl outs (flat_map n_outs nodes ++ ins ++ pure_inits ins inits)) /\ seen' = s1).
  { destruct sub.
    - destruct (all_in outs (flat_map n_outs nodes)) eqn:Ea; [|discriminate].
      inversion H; subst. split; [apply all_in_incl; exact Ea | reflexivity].
    - destruct (all_in outs local) eqn:Ea; [|discriminate].
      inversion H; subst. split; [|reflexivity].
      apply all_in_incl in Ea. intros x Hx. apply Ea in Hx. apply Hl in Hx.
      apply in_or_app. destruct Hx as [Hx|Hx]; [left|right]; exact Hx. }
  destruct Hout as [Hout ->].
  split; [constructor; assumption|].
  exists (d1 ++ rev (ins ++ pure_inits ins inits)). split.
  - eapply ext_trans; eassumption.
  - rewrite defs_graph_eq. eapply Permutation_trans; [apply Permutation_app_comm|].
    apply Permutation_app; [apply Permutation_sym, Permutation_rev | exact P1].
Qed.

Lemma check_graph_sound : forall f sub vis seen g seen',
  check_graph f sub vis seen g = Some seen' ->
  scoped_graph sub vis g /\ exists ds, ext seen seen' ds /\ Permutation ds (defs_graph g).
Proof.
  induction f as [|f IH]; intros sub vis seen g seen' H; [discriminate|].
  rewrite check_graph_S in H. eapply check_body_sound; [|exact H].
  intros vis0 seen0 g0 s0 H0. eapply IH. exact H0.
Qed.

Theorem wf_graphb_sound : forall g, wf_graphb g = true -> wf_graph g.
Proof.
  intros g H. unfold wf_graphb in H.
  destruct (check_graph (depth_graph g) false [] [] g) as [s|] eqn:E; [|discriminate].
  apply check_graph_sound in E. destruct E as (Sg & ds & (_ & N & _) & P).
  split; [exact Sg|]. eapply Permutation_NoDup; eassumption.
Qed.

(* ------------------------------------------------------------------ consequences of wf_graph *)

(* every value name is defined once across the graph and all nested subgraphs *)
Lemma wf_defs_nodup : forall g, wf_graph g -> NoDup (defs_graph g).
Proof. intros g [_ H]. exact H. Qed.

Lemma wf_outputs_distinct : forall g, wf_graph g -> NoDup (g_outs g).
Proof. intros g [H _]. inversion H; subst. assumption. Qed.

Lemma wf_outputs_defined : forall g, wf_graph g ->
  incl (g_outs g) (flat_map n_outs (g_nodes g) ++ g_ins g ++ pure_inits (g_ins g) (g_inits g)).
Proof. intros g [H _]. inversion H; subst. assumption. Qed.

(* a subgraph's outputs are produced by nodes of that very subgraph *)
Lemma scoped_sub_outputs_inside : forall vis g, scoped_graph true vis g -> incl (g_outs g) (flat_map n_outs (g_nodes g)).
Proof. intros vis g H. inversion H; subst. assumption. Qed.

(* a name defined by a nested subgraph is never one defined at the outer level: in particular no
   subgraph redefines a graph input or the output of an outer node *)
Lemma nodup_app_disjoint : forall (a b : list vname) x, NoDup (a ++ b) -> In x a -> ~ In x b.
Proof.
  induction a as [|y t IH]; intros b x H Hx; [destruct Hx|].
  cbn in H. inversion H; subst. destruct Hx as [->|Hx].
  - intros Hb. apply H2. apply in_or_app. right. exact Hb.
  - apply IH; assumption.
Qed.

Lemma wf_inputs_not_redefined : forall ins inits nodes outs x,
  wf_graph (Graph ins inits nodes outs) -> In x ins -> ~ In x (defs_nodes_all nodes).
Proof.
  intros ins inits nodes outs x [_ H] Hx. rewrite defs_graph_eq in H.
  eapply nodup_app_disjoint; [exact H|]. apply in_or_app. left. exact Hx.
Qed.

(* the two other checkers, reflected *)
Lemma no_input_returned_spec : forall g,
  no_input_returned g = true <-> (forall o, In o (g_outs g) -> ~ In o (g_ins g)).
Proof.
  intros g. unfold no_input_returned. rewrite forallb_forall. split.
  - intros H o Ho. specialize (H o Ho). apply negb_true_iff in H. apply mem_false_not_In. exact H.
  - intros H o Ho. apply negb_true_iff. destruct (mem o (g_ins g)) eqn:E; [|reflexivity].
    apply mem_In in E. exfalso. exact (H o Ho E).
Qed.

Lemma imports_ok_spec : forall imports g,
  imports_ok imports g = true <-> (NoDup imports /\ incl (domains_graph g) imports).
Proof.
  intros imports g. unfold imports_ok, subset. rewrite andb_true_iff, nodupb_NoDup, forallb_forall.
  split; intros [H1 H2]; (split; [exact H1|]); intros x Hx; apply mem_In; apply H2; exact Hx.
Qed.

(* non-vacuity: a two-level graph with an outer-scope capture passes the checker *)
Example wf_example :
  wf_graphb (Graph ["x"; "c"]%string [] [Node "" "If" [Some "c"%string] ["y"%string] []
     [("then_branch"%string, Graph [] [] [Node "" "Neg" [Some "x"%string] ["t"%string] [] []] ["t"%string]);
      ("else_branch"%string, Graph [] [] [Node "" "Identity" [Some "x"%string] ["e"%string] [] []] ["e"%string])]]
     ["y"%string]) = true.
Proof. vm_compute. reflexivity. Qed.

(* a deeper instance: Loop body containing an If whose branch contains a Loop, all capturing outer values *)
Example wf_example_deep : exists g, depth_graph g = 8 /\ wf_graphb g = true.
Proof.
  exists (Graph ["x"; "n"]%string [] [Node "" "Loop" [Some "n"%string; None; Some "x"%string] ["z"%string] []
     [("body"%string, Graph ["i"; "c"; "s"]%string []
        [Node "" "If" [Some "c"%string] ["w"%string] []
          [("then_branch"%string, Graph [] [] [Node "" "Add" [Some "s"%string; Some "x"%string] ["t"%string] [] []] ["t"%string]);
           ("else_branch"%string, Graph [] []
              [Node "" "Loop" [Some "i"%string; None; Some "s"%string] ["e"%string] []
                 [("body"%string, Graph ["j"; "c2"; "s2"]%string []
                    [Node "" "Identity" [Some "c2"%string] ["co2"%string] [] [];
                     Node "" "Mul" [Some "s2"%string; Some "x"%string] ["m"%string] [] []] ["co2"; "m"]%string)]] ["e"%string])];
         Node "" "Identity" [Some "c"%string] ["co"%string] [] []] ["co"; "w"]%string)]] ["z"%string]).
  vm_compute. split; reflexivity.
Qed.
