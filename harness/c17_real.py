"""C17: everything that touches the *real* code -- the generated classes as imported, inspect.signature,
recorded calls (a recording evaluator installed in place of ORT), dynamic lookup, and real execution of
sampled operators (eager call with defaults omitted vs bare one-node model)."""
from __future__ import annotations

import inspect

import numpy as np

from harness.c17_extract import enc_default


# ----------------------------------------------------------------------------- real objects

def load_opsets():
    """{class name: instance} for everything onnx_opset exports, plus the module."""
    import onnxscript.onnx_opset as oo
    out = {}
    for k in sorted(vars(oo)):
        v = getattr(oo, k)
        if k.startswith("opset") and hasattr(v, "domain") and hasattr(v, "version") and not inspect.ismodule(v):
            out[type(v).__name__] = v
    return out, oo


def defining_class(cls, name):
    for k in cls.__mro__:
        if name in vars(k):
            return k
    return None


class Recorder:
    """Stands in for the evaluator: Op.__call__ -> eval_op(op, args, kwargs)."""

    def __init__(self):
        self.calls = []

    def eval_op(self, op, args, kwargs):
        self.calls.append((op, list(args), dict(kwargs)))
        return None

    def eval_function(self, function, args, kwargs):  # pragma: no cover
        raise RuntimeError("unexpected eval_function")


class recording:
    def __enter__(self):
        from onnxscript._internal import evaluator
        self.ev = evaluator
        self.old = evaluator.default()
        self.rec = Recorder()
        evaluator.set_default(self.rec)
        return self.rec

    def __exit__(self, *a):
        self.ev.set_default(self.old)


def recorded_call(opset, name, pos, kw):
    """Call the real generated method; -> None if Python raised TypeError while binding, else
    (schema name, schema domain, schema since_version, inputs, {attr: value} without None values)."""
    with recording() as rec:
        try:
            getattr(opset, name)(*pos, **kw)
        except TypeError:
            if not rec.calls:
                return None
            raise
    if len(rec.calls) != 1:
        raise RuntimeError(f"{type(opset).__name__}.{name}: {len(rec.calls)} evaluator calls")
    op, args, kwargs = rec.calls[0]
    sch = op.op_schema
    # _prepare_model_and_inputs_for_eager / converter: a keyword whose value is None makes no attribute
    return (sch.name, sch.domain, int(sch.since_version), args, {k: v for k, v in kwargs.items() if v is not None}, op.name)


# ----------------------------------------------------------------------------- direct oracle

def schema_view(s):
    """(inputs [(name, kind)], attrs sorted [(name, required, encoded default)]) of a real OpSchema."""
    import onnx.defs
    from onnx.helper import get_attribute_value
    O = onnx.defs.OpSchema.FormalParameterOption
    kind = {O.Single: "req", O.Optional: "opt", O.Variadic: "var"}
    ins = [(i.name, kind[i.option]) for i in s.inputs]
    ats = []
    for a in sorted(s.attributes.values(), key=lambda a: a.name):
        d = enc_default(get_attribute_value(a.default_value)) if a.default_value.name else ("none",)
        ats.append((a.name, bool(a.required), d))
    return ins, ats


def signature_diffs(func, s):
    """Compare inspect.signature of the real function with the real schema; -> list of `what` strings."""
    ins, ats = schema_view(s)
    has_var = any(k == "var" for _, k in ins)
    attr_names = {a[0] for a in ats}
    sig = list(inspect.signature(func).parameters.values())
    what = []
    if not sig or sig[0].name != "self":
        return ["parameter-order"]
    sig = sig[1:]
    P = inspect.Parameter
    pos = [p for p in sig if p.kind in (P.POSITIONAL_OR_KEYWORD, P.POSITIONAL_ONLY, P.VAR_POSITIONAL)]
    kws = [p for p in sig if p.kind == P.KEYWORD_ONLY]
    if any(p.kind in (P.VAR_KEYWORD, P.POSITIONAL_ONLY) for p in sig):
        what.append("parameter-order")
    ok = len(pos) == len(ins)
    if ok:
        for p, (n, k) in zip(pos, ins):
            want_name = n + "_" if n in attr_names else n
            if p.name != want_name:
                ok = False
            if k == "var":
                ok = ok and p.kind == P.VAR_POSITIONAL
            elif k == "req" or (k == "opt" and has_var):
                ok = ok and p.kind == P.POSITIONAL_OR_KEYWORD and p.default is P.empty
            else:
                ok = ok and p.kind == P.POSITIONAL_OR_KEYWORD and p.default is None
    if not ok:
        what.append("inputs")
    if sorted(p.name for p in kws) != [a[0] for a in ats]:
        what.append("attributes")
    else:
        byname = {p.name: p for p in kws}
        for n, req, d in ats:
            p = byname[n]
            if req:
                if p.default is not P.empty:
                    what.append("default:" + n)
            else:
                if p.default is P.empty or enc_default(p.default) != d:
                    what.append("default:" + n)
    return what


def sentinel_call_plan(s):
    """Arguments for two recorded calls built from the *schema*: (minimal, full)."""
    ins, ats = schema_view(s)
    has_var = any(k == "var" for _, k in ins)
    mini_pos, full_pos = [], []
    v = 100
    for n, k in ins:
        v += 1
        if k == "req":
            mini_pos.append(v)
            full_pos.append(v)
        elif k == "opt":
            if has_var:
                mini_pos.append(None)
            full_pos.append(v)
        else:
            full_pos += [v, v + 50]
    mini_kw, full_kw = {}, {}
    for j, (n, req, d) in enumerate(ats):
        if req:
            mini_kw[n] = 7000 + j
        full_kw[n] = 8000 + j
    return (mini_pos, mini_kw), (full_pos, full_kw)


def strip_none(xs):
    xs = list(xs)
    while xs and xs[-1] is None:
        xs.pop()
    return xs


def call_diffs(opset, name, s):
    """The property on the real code for one (opset, op): the eager call hands the evaluator the schema s
    and exactly the bare node.  -> list of `what` strings."""
    ins, ats = schema_view(s)
    (mp, mk), (fp, fk) = sentinel_call_plan(s)
    what = []
    r = recorded_call(opset, name, mp, mk)
    if r is None:
        return ["inputs"]          # the call the schema allows is rejected by the signature
    if (r[0], r[1], r[2]) != (s.name, s.domain, int(s.since_version)) or r[5] != s.name:
        what.append("schema-version" if (r[0], r[1]) == (s.name, s.domain) and r[5] == s.name else "name")
    if r[3] != strip_none(mp):
        what.append("prepare-inputs")
    want = {n: d for n, req, d in ats if not req and d != ("none",)}
    want.update({n: enc_default(v) for n, v in mk.items()})
    got = {k: enc_default(v) for k, v in r[4].items()}
    for n in sorted(set(want) | set(got)):
        if want.get(n) != got.get(n):
            what.append(("default:" if n in want and n in got and n not in mk else "forwarding:") + n)
    # an omitted optional input in the middle must stay in place (only trailing ones are trimmed)
    n_opt = sum(1 for _, k in ins if k == "opt")
    if n_opt >= 2 or (n_opt >= 1 and any(k == "var" for _, k in ins)):
        gp, seen_opt = [], 0
        for j, (n, k) in enumerate(ins):
            if k == "req":
                gp.append(300 + j)
            elif k == "opt":
                seen_opt += 1
                gp.append(300 + j if seen_opt == n_opt and not any(k2 == "var" for _, k2 in ins) else None)
            else:
                gp += [300 + j, None, 301 + j]
        rg = recorded_call(opset, name, gp, mk)
        if rg is None:
            what.append("inputs")
        elif rg[3] != strip_none(gp):
            what.append("prepare-inputs")
    r2 = recorded_call(opset, name, fp, fk)
    if r2 is None:
        what.append("inputs")
    else:
        if r2[3] != strip_none(fp):
            what.append("prepare-inputs")
        if {k: enc_default(v) for k, v in r2[4].items()} != {k: enc_default(v) for k, v in fk.items()}:
            what.append("forwarding")
    return sorted(set(what))


# ----------------------------------------------------------------------------- real execution

def _f(*shape, seed=0, lo=-2.0, hi=2.0):
    rng = np.random.RandomState(seed)
    return rng.uniform(lo, hi, size=shape).astype(np.float32)


def _i(vals):
    return np.array(vals, dtype=np.int64)


# op -> builder(since_version) -> (inputs, required attrs) ; inputs may contain None (omitted optional input)
def _exec_table():
    T = {}

    def reg(name, fn, dom=""):
        T[(dom, name)] = fn

    x34 = _f(3, 4, seed=1)
    x234 = _f(2, 3, 4, seed=2)
    img = _f(1, 2, 4, 4, seed=3)
    for n in ("Softmax", "LogSoftmax", "Hardmax"):
        reg(n, lambda v: ([x234], {}))
    for n in ("LeakyRelu", "Elu", "Selu", "HardSigmoid", "ThresholdedRelu", "Celu", "Shrink", "Softplus", "Relu", "Gelu",
              "Mish", "HardSwish", "Sigmoid", "Tanh", "Abs", "Neg", "Exp", "Floor", "IsNaN", "IsInf", "Sign", "Erf", "Swish"):
        reg(n, lambda v: ([x34], {}))
    reg("Gemm", lambda v: ([_f(3, 4, seed=4), _f(4, 5, seed=5), _f(5, seed=6)] if v < 11 else [_f(3, 4, seed=4), _f(4, 5, seed=5)], {}))
    reg("Flatten", lambda v: ([x234], {}))
    for n in ("ArgMax", "ArgMin"):
        reg(n, lambda v: ([x234], {}))
    for n in ("ReduceSum", "ReduceMean", "ReduceMax", "ReduceMin", "ReduceProd", "ReduceL1", "ReduceL2", "ReduceLogSum",
              "ReduceLogSumExp", "ReduceSumSquare"):
        reg(n, lambda v: ([np.abs(x234) + 0.5], {}))
    reg("Concat", lambda v: ([x34, x34 + 1, x34 + 2], {} if v < 4 else {"axis": 1}))
    reg("Gather", lambda v: ([x34, _i([2, 0])], {}))
    reg("GatherElements", lambda v: ([x34, _i([[0, 1, 2, 0], [2, 1, 0, 0]])], {}))
    reg("ScatterElements", lambda v: ([x34, _i([[0, 1, 2, 0]]), _f(1, 4, seed=7)], {}))
    reg("Transpose", lambda v: ([x234], {}))
    reg("Squeeze", lambda v: ([_f(1, 3, 1, seed=8)], {}))
    reg("Clip", lambda v: ([x34], {}) if v < 11 else ([x34, None, np.array(0.5, dtype=np.float32)], {}))
    reg("Pad", lambda v: ([x34, _i([1, 0, 0, 2])], {}) if v >= 11 else ([x34], {"pads": [1, 0, 0, 2]} if v >= 2 else {"paddings": [1, 0, 0, 2]}))
    reg("TopK", lambda v: ([x34, _i([2])], {}) if v >= 10 else ([x34], {"k": 2}))
    reg("Cast", lambda v: ([x34 * 3], {"to": 7}) if v >= 6 else None)
    reg("LRN", lambda v: ([img], {"size": 3}))
    reg("Conv", lambda v: ([img, _f(3, 2, 3, 3, seed=9)], {}))
    reg("ConvTranspose", lambda v: ([img, _f(2, 3, 3, 3, seed=10)], {}))
    reg("MaxPool", lambda v: ([img], {"kernel_shape": [2, 2]}))
    reg("AveragePool", lambda v: ([img], {"kernel_shape": [2, 2]}))
    reg("LpPool", lambda v: ([img], {"kernel_shape": [2, 2]}))
    reg("GlobalLpPool", lambda v: ([img], {}))
    reg("LpNormalization", lambda v: ([x34], {}))
    reg("BatchNormalization", lambda v: ([img, _f(2, seed=11), _f(2, seed=12), _f(2, seed=13), np.abs(_f(2, seed=14)) + 0.5], {}) if v >= 7 else None)
    reg("InstanceNormalization", lambda v: ([img, _f(2, seed=11), _f(2, seed=12)], {}) if v >= 6 else None)
    reg("LayerNormalization", lambda v: ([x234, _f(4, seed=15)], {}))
    reg("GroupNormalization", lambda v: ([img, _f(2, seed=11), _f(2, seed=12)], {"num_groups": 2}) if v >= 21 else None)
    reg("RMSNormalization", lambda v: ([x234, _f(4, seed=15)], {}))
    reg("MeanVarianceNormalization", lambda v: ([img], {}))
    reg("CumSum", lambda v: ([x34, np.array(1, dtype=np.int64)], {}))
    reg("OneHot", lambda v: ([_i([0, 2, 1]), _i([3]).reshape(()) if False else np.array(3, dtype=np.int64), _f(2, seed=16)], {}))
    reg("DepthToSpace", lambda v: ([_f(1, 8, 2, 2, seed=17)], {"blocksize": 2}))
    reg("SpaceToDepth", lambda v: ([img], {"blocksize": 2}))
    reg("Mod", lambda v: ([_i([7, -7, 5]), _i([3, 3, -3])], {}))
    reg("Trilu", lambda v: ([x34], {}))
    reg("EyeLike", lambda v: ([x34], {}))
    reg("Slice", lambda v: ([x34, _i([0, 1]), _i([2, 3])], {}) if v >= 10 else ([x34], {"starts": [0, 1], "ends": [2, 3]}))
    reg("QuantizeLinear", lambda v: ([x34, np.array(0.1, dtype=np.float32)], {}))
    reg("DequantizeLinear", lambda v: ([np.array([[1, 2], [3, 4]], dtype=np.uint8), np.array(0.1, dtype=np.float32)], {}))
    reg("ScatterND", lambda v: ([x34, _i([[0], [2]]), _f(2, 4, seed=18)], {}))
    reg("Compress", lambda v: ([x34, np.array([True, False, True])], {}))
    reg("ReverseSequence", lambda v: ([x34, _i([1, 2, 3, 1])], {}))
    reg("Einsum", lambda v: ([x34, _f(4, 2, seed=19)], {"equation": "ij,jk->ik"}))
    reg("RNN", lambda v: ([_f(2, 1, 3, seed=20), _f(1, 4, 3, seed=21), _f(1, 4, 4, seed=22)], {"hidden_size": 4}) if v >= 7 else None)
    reg("GRU", lambda v: ([_f(2, 1, 3, seed=20), _f(1, 12, 3, seed=21), _f(1, 12, 4, seed=22)], {"hidden_size": 4}) if v >= 7 else None)
    reg("Dropout", lambda v: ([x34], {}) if v >= 7 else None)
    reg("MatMul", lambda v: ([x34, _f(4, 2, seed=19)], {}))
    reg("Add", lambda v: ([x34, x34], {}) if v >= 7 else None)
    reg("Where", lambda v: ([x34 > 0, x34, -x34], {}))
    reg("Unsqueeze", lambda v: ([x34, _i([0])], {}) if v >= 13 else ([x34], {"axes": [0]}))
    reg("Tile", lambda v: ([x34, _i([1, 2])], {}) if v >= 6 else None)
    reg("Range", lambda v: ([np.array(0, dtype=np.int64), np.array(5, dtype=np.int64), np.array(2, dtype=np.int64)], {}))
    reg("Resize", lambda v: ([img, None, np.array([1, 1, 2, 2], dtype=np.float32)], {}) if v >= 11 else None)
    reg("NonMaxSuppression", lambda v: ([np.array([[[0, 0, 1, 1], [0, 0.1, 1, 1.1], [0, 2, 1, 3]]], dtype=np.float32),
                                         np.array([[[0.9, 0.75, 0.6]]], dtype=np.float32), np.array([3], dtype=np.int64),
                                         np.array([0.5], dtype=np.float32)], {}))
    reg("Binarizer", lambda v: ([x34], {}), "ai.onnx.ml")
    reg("Normalizer", lambda v: ([np.abs(x34)], {}), "ai.onnx.ml")
    reg("Scaler", lambda v: ([x34], {"offset": [0.5], "scale": [2.0]}), "ai.onnx.ml")
    return T


EXEC_TABLE = _exec_table()


def _to_np(res):
    from onnxscript import tensor
    if isinstance(res, tensor.Tensor):
        return [np.asarray(res.value)]
    if isinstance(res, (list, tuple)):
        out = []
        for r in res:
            out += _to_np(r)
        return out
    if res is None:
        return [None]
    return [np.asarray(res)]


def run_eager(opset, name, inputs, attrs):
    """The real path: generated method -> Op.__call__ -> ORT evaluator."""
    res = getattr(opset, name)(*inputs, **attrs)
    return _to_np(res)


def _ir_version(version, domain):
    import onnx.helper
    key = ("ai.onnx" if domain == "" else domain, version)
    mp = onnx.helper.OP_SET_ID_VERSION_MAP
    if key not in mp:
        return max(v for k, v in mp.items() if k[0] == "ai.onnx")
    return max(mp[key], 10)


def bare_model(name, domain, version, inputs, attrs, n_out):
    """The node one writes by hand: only the inputs / attributes given, under opset_import (domain, version).
    Built with onnx.helper only (nothing from onnxscript)."""
    import onnx
    from onnx import helper
    ins = ["" if a is None else f"input{i}" for i, a in enumerate(inputs)]
    while ins and ins[-1] == "":
        ins.pop()
    outs = [f"output{i}" for i in range(n_out)]
    node = helper.make_node(name, ins, outs, domain=domain, **attrs)
    vis = [helper.make_tensor_value_info(n, helper.np_dtype_to_tensor_dtype(a.dtype), list(a.shape))
           for n, a in zip(ins, inputs) if n != ""]
    g = helper.make_graph([node], "bare", vis, [helper.make_value_info(o, onnx.TypeProto()) for o in outs])
    imports = [helper.make_opsetid(domain, version)]
    m = helper.make_model(g, opset_imports=imports, ir_version=_ir_version(version, domain))
    m = onnx.shape_inference.infer_shapes(m)
    feeds = {n: a for n, a in zip(ins, inputs) if n != ""}
    return m, feeds


def run_bare(name, domain, version, inputs, attrs, n_out, backend):
    m, feeds = bare_model(name, domain, version, inputs, attrs, n_out)
    if backend == "ort":
        import onnxruntime as ort
        so = ort.SessionOptions()
        so.graph_optimization_level = ort.GraphOptimizationLevel.ORT_DISABLE_ALL
        so.log_severity_level = 4
        so.intra_op_num_threads = 1
        so.inter_op_num_threads = 1
        sess = ort.InferenceSession(m.SerializeToString(), so, providers=["CPUExecutionProvider"])
        return [np.asarray(x) for x in sess.run(None, feeds)]
    import onnx.reference
    return [np.asarray(x) for x in onnx.reference.ReferenceEvaluator(m).run(None, feeds)]


def same(a, b, exact, rtol=1e-4, atol=1e-5):
    if len(a) != len(b):
        return False
    for x, y in zip(a, b):
        if x is None or y is None:
            if x is not y:
                return False
            continue
        if x.shape != y.shape or x.dtype != y.dtype:
            return False
        if exact or x.dtype.kind not in "fc":
            if not np.array_equal(x, y, equal_nan=x.dtype.kind in "fc"):
                return False
        elif not np.allclose(x, y, rtol=rtol, atol=atol, equal_nan=True):
            return False
    return True
