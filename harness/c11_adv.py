"""C11, mixed basic + advanced indexing (coq/Index/AdvSpec.v, AdvCorr.v, AdvProofs.v; theorems coq/Props/C11_adv.v).

Stream "adv-forms": every tuple of component kinds of length <= 4 over
    int, ':', slice, rank-0 tensor, rank-1 tensor, rank-2 tensor
(any number of tensor-valued indices), on X of rank <= 4, index tensors with negative entries and with dimensions of
size 0 and 1.  For every case Coq compares
  * NumPy's result with AdvSpec.np_nest (broadcast of all advanced indices, block placed at the first advanced index
    when they are adjacent, in front otherwise) -- on *every* case, also where the front ends are known to differ,
  * the graph's result on onnxruntime with AdvSpec.conv_nest, the emitted ops / operands / Gather index shapes with
    ConverterIdx.conv_ops / AdvSpec.conv_gshapes,
  * eager's result and op calls with AdvSpec.eager_nest / EagerIdx.eager_ops / AdvSpec.eager_gshapes,
and reports, per case, whether the form is one of AdvSpec.good_form (where Props/C11_adv.v proves emitted = NumPy).
Direct oracle: graph == eager == NumPy or an error; a different tensor is keyed by the class of its form.
"""
from __future__ import annotations

import itertools

import numpy as np

from harness import c11_impl as impl
from harness import common
from harness.common import clist, cz

REQ = ["OV.Index.NumpySpec", "OV.Index.OnnxSlice", "OV.Index.ConverterIdx", "OV.Index.EagerIdx", "OV.Index.Corr",
       "OV.Index.AdvSpec", "OV.Index.AdvCorr", "OV.Index.EagerFix", "OV.Index.DynForms"]
KINDS = ["int", ":", "slice", "t0", "t1", "t2"]


def c_nat(n):
    n = int(n)
    if n < 0 or n > 64:
        raise ValueError(f"axis {n}")
    return f"{n}%nat"


def c_acomp(c, c_comp):
    if c[0] == "tn":
        return f"(ATN {clist(c[1], cz)} {clist(c[2], cz)})"
    return f"(AB {c_comp(c)})"


def flatten(x):
    return [int(v) for v in np.asarray(x, dtype=np.int64).reshape(-1)]


def c_aop(o):
    """ops with the Gather index flattened (its shape goes to the separate shape list)"""
    if o[0] == "Identity":
        return "OIdentity"
    if o[0] == "Slice":
        return "(OSlice " + clist([f"({cz(s)}, {cz(e)}, {c_nat(a)}, {cz(st)})" for s, e, a, st in o[1]]) + ")"
    if o[0] == "Squeeze":
        return "(OSqueeze " + clist(o[1], c_nat) + ")"
    if o[0] == "Gather":
        shape = o[3]
        g = f"(G0 {cz(int(np.asarray(o[2]).reshape(())))})" if len(shape) == 0 else f"(G1 {clist(flatten(o[2]), cz)})"
        return f"(OGather {c_nat(o[1])} {g})"
    raise ValueError(f"op {o[0]} has no model")


def gshapes(skel):
    return [list(o[3]) for o in skel if o[0] == "Gather"]


def c_acase(shape, idx, o_np, o_graph, o_eager, skel, eskel, c_comp, c_outcome):
    if skel is None:
        sk, gs = "None", "None"
    elif skel == "refused":
        sk, gs = "(Some None)", "None"
    else:
        sk = f"(Some (Some {clist(skel, c_aop)}))"
        gs = f"(Some {clist(gshapes(skel), lambda s: clist(s, cz))})"
    if eskel is None:
        es, egs = "None", "None"
    else:
        es = f"(Some {clist(eskel, c_aop)})"
        egs = f"(Some {clist(gshapes(eskel), lambda s: clist(s, cz))})"
    return (f"(mkacase {clist(shape, cz)} {clist(idx, lambda c: c_acomp(c, c_comp))} {c_outcome(o_np)} {c_outcome(o_graph)} "
            f"{c_outcome(o_eager)} {sk} {gs} {es} {egs})")


# ----------------------------------------------------------------------------- generator

TSHAPES1 = [(0,), (1,), (2,), (3,)]
TSHAPES2 = [(1, 1), (1, 2), (2, 1), (2, 2), (2, 3), (0, 2), (2, 0), (3, 1), (1, 3)]


def _tensor(rng, kind, d, base):
    """an index tensor of the kind on an axis of length d; `base` = a shape other tensors of the case were derived from
    (so that broadcasting succeeds often)"""
    if kind == "t1":
        shape = rng.choice(TSHAPES1)
        if base is not None and rng.random() < 0.6:
            shape = (base[-1],) if rng.random() < 0.7 else (1,)
    else:
        shape = rng.choice(TSHAPES2)
        if base is not None and rng.random() < 0.6:
            b = base if len(base) == 2 else (rng.choice([1, 2]), base[-1])
            shape = tuple(x if rng.random() < 0.7 else 1 for x in b)
    n = int(np.prod(shape))
    if d == 0:
        if n:
            shape = (0,) if kind == "t1" else (0, 2)
        n = 0
    data = [rng.randint(-d, d - 1) for _ in range(n)]
    return ("tn", list(shape), data) if kind == "t2" else ("t1", data), shape


def instance(rng, kinds, dims=(1, 2, 3, 4), trailing=None):
    rank = len(kinds) + (rng.choice([0, 0, 1]) if trailing is None else trailing)
    rank = min(rank, 4) if len(kinds) <= 4 else rank
    shape = tuple(rng.choice(dims) for _ in range(rank))
    idx, base = [], None
    for j, k in enumerate(kinds):
        d = shape[j]
        if k == "int":
            # -1 goes through Slice(-1, 0) + Squeeze and fails (allowed); keep it rare
            v = rng.randint(-d, d - 1) if d > 0 else 0
            if v == -1 and rng.random() < 0.8:
                v = d - 1
            idx.append(("int", v))
        elif k == ":":
            idx.append(("slice", None, None, None))
        elif k == "slice":
            idx.append(("slice", rng.choice([None, 0, 1, -1]), rng.choice([None, d, -1, d - 1]), rng.choice([None, 1, -1, 2])))
        elif k == "t0":
            idx.append(("t0", rng.randint(-d, d - 1) if d > 0 else 0))
        else:
            c, sh = _tensor(rng, k, d, base)
            base = base or (sh if int(np.prod(sh)) > 0 else None)
            idx.append(c)
    return shape, tuple(idx)


def gen_adv_forms(rng, thorough):
    """every kind tuple of length <= 4 (quick: length 4 only with >= 2 tensor-valued components, others sampled)"""
    for n in (1, 2, 3, 4):
        for ks in itertools.product(KINDS, repeat=n):
            nt = sum(1 for k in ks if k in ("t1", "t2"))
            na = sum(1 for k in ks if k in ("t0", "t1", "t2"))
            if na == 0:
                continue                                   # basic forms are the other streams' business
            if n == 4 and not thorough and nt < 2 and rng.random() < 0.5:
                continue
            yield instance(rng, ks)
            if thorough or nt >= 2:
                yield instance(rng, ks)
    # dimensions of size 0 and 1
    for ks in itertools.product(KINDS, repeat=2):
        if any(k in ("t1", "t2") for k in ks):
            yield instance(rng, ks, dims=(0, 1, 1, 2))
    for ks in itertools.product(["t1", "t2", ":", "t0"], repeat=3):
        if sum(1 for k in ks if k in ("t1", "t2")) >= 1:
            yield instance(rng, ks, dims=(0, 1, 2))


def py_kind(c):
    if c[0] == "slice":
        return "sl"
    if c[0] in ("int", "t0"):
        return 0
    return 1 if c[0] == "t1" else len(c[1])


def classify(idx):
    """class of a bad form (python twin of AdvSpec.good_form, used for the key of a finding only; whether the form is
    good is decided in Coq)"""
    ranks = [py_kind(c) for c in idx]
    ns = [r for r in ranks if r != "sl" and r > 0]
    if len(ns) >= 2:
        return "two-1d-tensor-indices" if all(r == 1 for r in ns) else "several-tensor-indices-of-rank-2"
    if len(ns) == 1:
        return "scalar-and-1d-tensor-index-split-by-slice" if ns[0] == 1 else "scalar-and-2d-tensor-index-split-by-slice"
    return "no-tensor-index"


EVALS = ["anp_agrees", "agraph_agrees", "askel_agrees", "aeager_agrees", "aeskel_agrees", "a_good", "model_conv_equal",
         "aeager_agrees_c true", "aeskel_agrees_c true", "agraph_agrees_ns", "askel_agrees_ns"]


def run_stream(ctx, c11, runner, cases, state):
    """c11 = the harness.c11 module (Runner, literal printers, `same`)"""
    runner.prepare([idx for _, idx in cases])
    lits, metas = [], []
    for shape, idx in cases:
        r = runner.evaluate(shape, idx, c_op=c_aop)
        ctx.case(("adv-forms", len(shape), tuple("t2" if c[0] == "tn" else c11.kinds_of((c,))[0] for c in idx),
                  0 in shape, tuple(tuple(np.shape(v)) for v in r["vals"])))
        state["n"] += 1
        skel, graph_o = r["skel"], r["graph"]
        if r.get("refused"):
            state["refused"] += 1
        lits.append(c_acase(shape, idx, r["np"], graph_o, r["eager"], skel, r["eskel"], c11.c_comp, c11.c_outcome))
        metas.append((shape, idx, r))
        if "skel_error" in r or "eskel_error" in r:
            state["vocab"].append((shape, idx, r))
    bodies, index = [], []
    shard = 250
    for i in range(0, len(lits), shard):
        body = f"Definition cases : list acase := {clist(lits[i:i + shard])}.\n"
        body += "".join(f"Eval vm_compute in (afailing ({e}) 0 cases).\n" for e in EVALS)
        bodies.append(body)
        index.append(metas[i:i + shard])
    res = c11._coq_shards(ctx, bodies, req=REQ)
    bad = {e: [] for e in EVALS}
    for ms, (ok, vals, raw) in zip(index, res):
        if not ok or len(vals) != len(EVALS):
            ctx.tie_broken("correspondence", "adv-forms:model-evaluation", raw[-1500:])
            continue
        for e, v in zip(EVALS, vals):
            for i in common.parse_nat_list(v):
                bad[e].append(ms[i])
    return metas, bad


def show(m):
    shape, idx, r = m
    f = lambda o: (o[1].tolist(), list(o[1].shape)) if o[0] == "ok" else o[1][:80]
    return (f"X[{r['src']}] shape {tuple(shape)} tensors {r['vals']}: numpy {f(r['np'])}, graph {f(r['graph'])}, "
            f"eager {f(r['eager'])}, emitted {r['skel']!r}, eager calls {r['eskel']!r}"
            + (" -- " + r["skel_error"] if "skel_error" in r else "") + (" -- " + r["eskel_error"] if "eskel_error" in r else ""))


def run(ctx, c11, runner):
    import collections
    state = {"n": 0, "refused": 0, "vocab": []}
    cases = list(gen_adv_forms(ctx.rng, ctx.tier == "thorough"))
    metas, bad = run_stream(ctx, c11, runner, cases, state)
    n = state["n"]
    # which variant of Tensor.__getitem__ is this: without / with the negative-step start clamp (EagerFix.v)
    eager_variant = "as-read"
    if (bad["aeager_agrees"] or bad["aeskel_agrees"]) and not (bad["aeager_agrees_c true"] or bad["aeskel_agrees_c true"]):
        eager_variant = "negative-start-clamp"
        bad["aeager_agrees"], bad["aeskel_agrees"] = bad["aeager_agrees_c true"], bad["aeskel_agrees_c true"]
    conv_variant = "as-read"
    if (bad["agraph_agrees"] or bad["askel_agrees"]) and not (bad["agraph_agrees_ns"] or bad["askel_agrees_ns"]):
        conv_variant = "negative-step-two-slices"          # Index/NegStepFix.v
        bad["agraph_agrees"], bad["askel_agrees"] = bad["agraph_agrees_ns"], bad["askel_agrees_ns"]
    names = {"anp_agrees": "NumPy = AdvSpec.np_nest (broadcast block placement, every form)",
             "agraph_agrees": "graph result on onnxruntime = AdvSpec.conv_nest",
             "askel_agrees": "emitted Slice/Squeeze/Gather operands, Gather order and index shapes = conv_ops true / conv_gshapes",
             "aeager_agrees": "eager result = AdvSpec.eager_nest",
             "aeskel_agrees": "eager op calls and Gather index shapes = eager_ops true / eager_gshapes"}
    streams = {"anp_agrees": "numpy-adv-spec", "agraph_agrees": "converter-adv", "askel_agrees": "converter-adv",
               "aeager_agrees": "eager-adv", "aeskel_agrees": "eager-adv"}
    def vocab_of(e):
        k = {"askel_agrees": "skel_error", "aeskel_agrees": "eskel_error"}.get(e)
        return [m for m in state["vocab"] if k and k in m[2]]

    vocab_ids = {"converter": {id(m[2]) for m in state["vocab"] if "skel_error" in m[2]},
                 "eager": {id(m[2]) for m in state["vocab"] if "eskel_error" in m[2]}}
    for e, what in names.items():
        b = sorted(bad[e] + vocab_of(e), key=lambda m: (len(m[1]), int(np.prod(m[0])), str(m[1])))
        ctx.obligation(f"correspondence adv-forms: {what} on {n} cases", not b, show(b[0]) if b else "")
    good_bad = {id(m[2]) for m in bad["a_good"]}                 # cases whose form is NOT a good form
    unexplained = {"converter": {id(m[2]) for m in bad["agraph_agrees"]} | vocab_ids["converter"],
                   "eager": {id(m[2]) for m in bad["aeager_agrees"]} | vocab_ids["eager"]}
    # direct oracle
    diff = collections.Counter()
    outcomes = collections.Counter()
    found = False
    seen = set()
    order = sorted(metas, key=lambda m: (0 in m[0], len(m[1]), int(np.prod(m[0])), str(m[1])))
    for shape, idx, r in order:
        o_np = r["np"]
        for front, o in (("converter", r["graph"]), ("eager", r["eager_user"])):
            outcomes[(front, "ok" if o[0] == "ok" else "error", "np-ok" if o_np[0] == "ok" else "np-error")] += 1
            if o[0] != "ok" or (o_np[0] == "ok" and c11.same(o, o_np)):
                continue
            if id(r) in good_bad:
                cls = classify(idx)
            elif c11._neg_start_hazard(shape, idx):
                cls = "negative-step-start-below-minus-dim"
            else:
                cls = "unclassified-good-form:" + ",".join(str(py_kind(c)) for c in idx)
            if id(r) in unexplained[front]:
                cls = "unexplained:" + cls
            diff[(front, cls.split(":")[0])] += 1
            key = f"C11:{front}:{cls}"
            if key in seen or (cls.startswith(("unclassified", "unexplained")) and (front, "u") in seen):
                continue
            seen.add(key)
            if cls.startswith(("unclassified", "unexplained")):
                seen.add((front, "u"))
            found = True
            ctx.violation(key,
                          f"{front}: X[{r['src']}] on shape {tuple(shape)} (tensor-valued parts {r['vals']}) returns "
                          f"{o[1].tolist()} of shape {tuple(o[1].shape)} while NumPy "
                          + (f"returns {o_np[1].tolist()} of shape {tuple(o_np[1].shape)}" if o_np[0] == "ok" else f"raises {o_np[1]}"),
                          {"front": front, "stream": "adv-forms", "shape": list(shape), "idx": [list(c) for c in idx],
                           "source": f"X[{r['src']}]", "tensor_values": r["vals"],
                           "numpy": o_np[1].tolist() if o_np[0] == "ok" else o_np[1],
                           "got": o[1].tolist(), "got_shape": list(o[1].shape)})
    # a model disagreement that the oracle did not turn into a failing input breaks the tie
    for e in names:
        b = bad[e] + vocab_of(e)
        if b:
            b.sort(key=lambda m: (len(m[1]), int(np.prod(m[0])), str(m[1])))
            ctx.tie_broken("correspondence", streams[e], f"{len(b)} disagreeing cases ({e}); smallest: " + show(b[0]))
    # the characterisation, observed: on a good form nobody returns a different tensor (checked above: such a case is
    # 'unclassified-good-form'); on the bad forms count how often the result really differs
    n_bad_form = len(bad["a_good"])
    n_model_diff = len(bad["model_conv_equal"])
    good_cases = sum(1 for m in metas if id(m[2]) not in good_bad)
    good_equal = sum(1 for m in metas if id(m[2]) not in good_bad and m[2]["graph"][0] == "ok" and m[2]["np"][0] == "ok"
                     and c11.same(m[2]["graph"], m[2]["np"]))
    ok = good_equal >= 0.4 * max(1, good_cases)
    ctx.obligation(f"generator health adv-forms: on good forms the graph returns NumPy's tensor in {good_equal}/{good_cases} cases "
                   f"(>= 40%); {n_bad_form} cases of bad forms, the models differ on {n_model_diff}", ok and n_bad_form > 50)
    if not (ok and n_bad_form > 50):
        ctx.tie_broken("harness", "generator-degenerate", "adv-forms stream lost its good or its bad forms")
    return {"cases": n, "eager_variant": eager_variant, "converter_variant": conv_variant, "bad_form_cases": n_bad_form, "model_predicts_different_tensor": n_model_diff,
            "good_form_cases": good_cases, "good_form_graph_equals_numpy": good_equal, "refused": state["refused"],
            "outcomes": {f"{a}:{b}:{c}": v for (a, b, c), v in sorted(outcomes.items())},
            "different_tensor_by_class": {f"{a}:{b}": v for (a, b), v in sorted(diff.items())}}
