(* C19 proofs: softmax upcast removal. *)
From Coq Require Import List ZArith Bool.
Require Import OV.Fusion.Norm OV.Fusion.Softmax.
Import ListNotations.

(* The identity, with its idealisation explicit: the down-cast inverts the up-cast on float16 values, and the float32 kernel
   computes on up-cast values what the float16 kernel computes (no rounding difference -- the precision claim of the rule's
   docstring, which no algebraic model can establish; measured by the direct oracle). *)
Theorem softmax_upcast_removal : forall F (up down : F -> F) (sm : list F -> list F) x,
  (forall v, down (up v) = v) -> (forall y, sm (map up y) = map up (sm y)) ->
  softmax_pattern F up down sm x = softmax_fused F sm x.
Proof.
  intros F up down sm x Hc Hk. unfold softmax_pattern, softmax_fused. rewrite Hk, map_map.
  rewrite <- (map_id (sm x)) at 2. apply map_ext. auto.
Qed.
(* check()-sufficiency: when the rule fires the input is FLOAT16, the casts are FLOAT16 -> FLOAT -> FLOAT16 (so the first is
   an up-cast whose inverse is the second: the hypothesis of the identity is about the right pair of types) and the
   replacement has the element type of the matched expression *)
Theorem softmax_check_sufficient : forall i u d, softmax_rule_fires i u d = true ->
  i = Some FLOAT16 /\ u = FLOAT /\ d = FLOAT16 /\ softmax_fused_dtype FLOAT16 = softmax_pattern_dtype d.
Proof. intros [[]|] [] []; simpl; try discriminate. auto. Qed.
(* the check is needed: without it (float32 input) the replacement would change the element type of the result *)
Theorem softmax_without_check_refuted : exists i, softmax_fused_dtype i <> softmax_pattern_dtype FLOAT16
  /\ softmax_rule_fires (Some i) FLOAT FLOAT16 = false.
Proof. exists FLOAT. split; [discriminate | reflexivity]. Qed.
Theorem softmax_axis_forwarded : forall a, softmax_rewrite_axis a = a.
Proof. reflexivity. Qed.
Example softmax_identity_nontrivial :
  softmax_pattern nat (fun v => 2 * v) (fun v => Nat.div v 2) (map (fun v => v + v)) [1; 2; 3] = softmax_fused nat (map (fun v => v + v)) [1; 2; 3].
Proof. vm_compute. reflexivity. Qed.
