(* C14 -- "script-time constants are fixed when the decorator runs: mutating globals afterwards changes
   neither the generated protos nor later calls".
   Model: the module namespace is a store  name -> location -> value  (so that rebinding a name and
   mutating the object a name refers to are different things).  A script function body reads outer
   names through a lookup_name function.  Decoration records the body together with what it captured; three
   capture disciplines:
     AsRead  -- nothing is captured: every evaluation looks names up in the store as it is *now*
                (the python function executed by eager mode with its live __globals__),
     Shallow -- the name -> object binding is captured, objects are shared (a copy of the namespace
                dictionary; a tensor that wraps the caller's numpy array),
     Deep    -- the values are captured (what the translation does when it evaluates a constant
                expression and writes the result into the proto; a copied container).
   The same `denote` serves for an eager call and for running the generated proto: they differ only in
   the capture discipline the implementation uses for each.  No proofs in this file (SnapshotProofs.v). *)
From Coq Require Import List String ZArith Bool Arith.
Import ListNotations.
Local Open Scope string_scope.

Inductive val :=
| VNum (z : Z)                     (* int / float / bool global *)
| VList (l : list Z)               (* list / numpy array global (a mutable container) *)
| VFn (f : Z -> option Z).         (* another script function (closed: it made its own capture) *)

Definition loc := nat.
Record store := { s_env : string -> option loc; s_heap : loc -> option val; s_next : loc }.

Definition lookup_name (st : store) (n : string) : option val :=
  match s_env st n with Some l => s_heap st l | None => None end.

Inductive mutation :=
| Rebind (n : string) (v : val)      (* NAME = v          (also: a nonlocal rebound by the enclosing function) *)
| InPlace (n : string) (v : val).    (* NAME[i] = ..; NAME.append(..): the same object with new content *)

Definition is_rebind (m : mutation) : bool := match m with Rebind _ _ => true | InPlace _ _ => false end.

Definition apply1 (m : mutation) (st : store) : store :=
  match m with
  | Rebind n v =>
      {| s_env := fun k => if String.eqb k n then Some (s_next st) else s_env st k;
         s_heap := fun l => if Nat.eqb l (s_next st) then Some v else s_heap st l;
         s_next := S (s_next st) |}
  | InPlace n v =>
      match s_env st n with
      | Some l => {| s_env := s_env st;
                     s_heap := fun l' => if Nat.eqb l' l then Some v else s_heap st l';
                     s_next := s_next st |}
      | None => st                     (* NameError: nothing changes *)
      end
  end.

Definition apply (ms : list mutation) (st : store) : store := fold_left (fun s m => apply1 m s) ms st.

(* every bound name refers to an allocated object *)
Definition wf (st : store) : Prop := forall n l, s_env st n = Some l -> l < s_next st.

(* the body of a script function: a function of the outer names it looks up and of its input;
   None = the evaluation raises *)
Definition body := (string -> option val) -> Z -> option Z.

(* a body only *looks names up*: two namespaces that answer every lookup_name alike are indistinguishable *)
Definition respects (b : body) : Prop :=
  forall v1 v2, (forall n, v1 n = v2 n) -> forall x, b v1 x = b v2 x.

Inductive capture := AsRead | Shallow | Deep.

Record scriptfn := { f_body : body; f_env : string -> option loc; f_vals : string -> option val }.

Definition decorate (b : body) (st : store) : scriptfn :=
  {| f_body := b; f_env := s_env st; f_vals := lookup_name st |}.

Definition view (c : capture) (f : scriptfn) (now : store) : string -> option val :=
  match c with
  | AsRead => lookup_name now
  | Shallow => fun n => match f_env f n with Some l => s_heap now l | None => None end
  | Deep => f_vals f
  end.

Definition denote (c : capture) (f : scriptfn) (now : store) (x : Z) : option Z := f_body f (view c f now) x.

(* the full statement of the clause, for a capture discipline c *)
Definition later_results_fixed (c : capture) : Prop :=
  forall (b : body) (st : store), respects b -> wf st ->
  forall (ms : list mutation) (x : Z),
    denote c (decorate b st) (apply ms st) x = denote c (decorate b st) st x.

(* ... restricted to rebinding *)
Definition later_results_fixed_under_rebinding (c : capture) : Prop :=
  forall (b : body) (st : store), respects b -> wf st ->
  forall (ms : list mutation) (x : Z), forallb is_rebind ms = true ->
    denote c (decorate b st) (apply ms st) x = denote c (decorate b st) st x.

(* what the model predicts for one observation: does the result survive a mutation of this kind? *)
Definition predict (c : capture) (rebind : bool) : bool :=
  match c, rebind with
  | Deep, _ => true
  | Shallow, true => true
  | Shallow, false => false
  | AsRead, _ => false
  end.

(* observation = (mutation was a rebinding?, result unchanged?) ; the disciplines that explain all of them *)
Definition explains (c : capture) (obs : list (bool * bool)) : bool :=
  forallb (fun o => Bool.eqb (predict c (fst o)) (snd o)) obs.
Definition consistent (obs : list (bool * bool)) : list capture :=
  filter (fun c => explains c obs) [AsRead; Shallow; Deep].
Definition capture_code (c : capture) : nat := match c with AsRead => 0 | Shallow => 1 | Deep => 2 end.

(* a concrete instance used by the witnesses and examples:  def f(x): return x * SCALE + TABLE[0] *)
Definition ex_body : body := fun g x =>
  match g "SCALE", g "TABLE" with
  | Some (VNum k), Some (VList (t :: _)) => Some (x * k + t)%Z
  | _, _ => None
  end.

Definition ex_store : store :=
  {| s_env := fun n => if String.eqb n "SCALE" then Some 0 else if String.eqb n "TABLE" then Some 1 else None;
     s_heap := fun l => match l with 0 => Some (VNum 2) | 1 => Some (VList [10; 20]%Z) | _ => None end;
     s_next := 2 |}.
