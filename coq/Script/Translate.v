(* The converter (onnxscript/_internal/converter.py, class Converter) as a Gallina function from
   Script.Syntax to Graph.Syntax graphs.  Hand-written model; tied to the code by the skeleton
   correspondence of harness/c01.py (the graph produced here is compared, names included, with the
   real function_ir of every generated program).  The analysis it consults is the *generated*
   Gen/Analysis.v, the operator tables are the *generated* Gen/ScriptTables.v.

   Where the code lists a Python `set` the model consumes an oracle (`ts_orders`): any listing that
   is a duplicate-free enumeration of the set is accepted, so theorems hold for every order.

   Deliberate deviations (each is a confirmed defect of the code, reported by the direct oracle;
   the model follows the repaired behaviour): loop state is listed once (the code lists it twice,
   in possibly different orders); a returned value is copied iff it *is* a graph input (the code
   looks its ONNX name up as a Python variable); while + trailing break continues iff the loop
   condition holds and the break condition does not (the code drops the loop condition);
   a branch or loop body never lists one value twice as output (the code does when two variables alias it);
   a loop without state, and a loop with an else clause, are refused.
   No proofs in this file. *)
From Coq Require Import List String ZArith NArith Bool Arith DecimalString.
Require Import OV.Graph.Syntax OV.Script.Syntax OV.Script.Sets OV.Gen.Analysis OV.Gen.ScriptTables.
Import ListNotations.
Local Open Scope string_scope.

(* ------------------------------------------------------------------ strings *)

Definition nat_to_string (n : nat) : string := NilEmpty.string_of_uint (Nat.to_uint n).
Definition zabs_to_string (z : Z) : string := NilEmpty.string_of_uint (N.to_uint (Z.abs_N z)).

(* ------------------------------------------------------------------ translation state *)

Record tstate := {
  ts_used : list string;             (* Converter._used_vars: one namespace for all nested scopes *)
  ts_next : nat;                     (* Converter._nextvar *)
  ts_castable : list string;         (* Converter._castable *)
  ts_orders : list (list string)     (* oracle: how each Python set is listed, in program order *)
}.

Definition set_used (st : tstate) (u : list string) (n : nat) : tstate :=
  {| ts_used := u; ts_next := n; ts_castable := ts_castable st; ts_orders := ts_orders st |}.
Definition add_castable (x : string) (st : tstate) : tstate :=
  {| ts_used := ts_used st; ts_next := ts_next st; ts_castable := x :: ts_castable st; ts_orders := ts_orders st |}.
Definition set_orders (st : tstate) (o : list (list string)) : tstate :=
  {| ts_used := ts_used st; ts_next := ts_next st; ts_castable := ts_castable st; ts_orders := o |}.

(* _generate_unique_name:  r = candidate; while r in used: r = f"{candidate}_{next}"; next += 1; used.add(r) *)
Fixpoint gen_loop (fuel : nat) (cand : string) (used : list string) (next : nat) : option (string * nat) :=
  match fuel with
  | O => None
  | S f => let r := cand ++ "_" ++ nat_to_string next in
           if mem r used then gen_loop f cand used (S next) else Some (r, S next)
  end.

Definition gen_unique (cand : string) (st : tstate) : option (string * tstate) :=
  if mem cand (ts_used st) then
    match gen_loop (S (List.length (ts_used st))) cand (ts_used st) (ts_next st) with
    | Some (r, n') => Some (r, set_used st (r :: ts_used st) n')
    | None => None
    end
  else Some (cand, set_used st (cand :: ts_used st) (ts_next st)).

(* ------------------------------------------------------------------ the translation monad: state + emitted nodes + failure *)

Definition M (A : Type) : Type := tstate -> option (A * tstate * list node).
Definition ret {A} (a : A) : M A := fun st => Some (a, st, []).
Definition fail {A} : M A := fun _ => None.
Definition bind {A B} (m : M A) (f : A -> M B) : M B :=
  fun st => match m st with
            | None => None
            | Some (a, st1, n1) =>
              match f a st1 with
              | None => None
              | Some (b, st2, n2) => Some (b, st2, (n1 ++ n2)%list)
              end
            end.
Notation "x <- m ;; k" := (bind m (fun x => k)) (at level 61, m at next level, right associativity).
Notation "m ;;; k" := (bind m (fun _ => k)) (at level 61, right associativity).

Definition emit (n : node) : M unit := fun st => Some (tt, st, [n]).
Definition uniq (cand : string) : M string :=
  fun st => match gen_unique cand st with Some (r, st') => Some (r, st', []) | None => None end.
Definition mark_castable (x : string) : M unit := fun st => Some (tt, add_castable x st, []).
Definition is_castable (x : string) : M bool := fun st => Some (mem x (ts_castable st), st, []).
(* run m, give back the nodes it emitted instead of emitting them (a nested graph is being built) *)
Definition capture {A} (m : M A) : M (A * list node) :=
  fun st => match m st with Some (a, st', ns) => Some ((a, ns), st', []) | None => None end.
Definition guard (b : bool) : M unit := if b then ret tt else fail.

(* list a Python set: the next observed order, which must enumerate exactly that set without repetition *)
Definition list_set (s : sset) : M (list string) :=
  fun st => match ts_orders st with
            | o :: rest => if seqb o s && nodupb o then Some (o, set_orders st rest, []) else None
            | [] => Some (dedup s, st, [])             (* oracle exhausted: the set as it happens to be stored *)
            end.

Fixpoint mapM {A B} (f : A -> M B) (l : list A) : M (list B) :=
  match l with
  | [] => ret []
  | a :: t => b <- f a ;; bs <- mapM f t ;; ret (b :: bs)
  end.

(* ------------------------------------------------------------------ scopes (Converter._locals) *)

Inductive binding := BV (n : vname) | BA (k : akind).
Definition scope := list (string * binding).
Definition scopes := list scope.       (* head = innermost *)

Fixpoint scope_find (x : string) (s : scope) : option binding :=
  match s with [] => None | (y, b) :: t => if String.eqb x y then Some b else scope_find x t end.
Fixpoint scopes_find (x : string) (sc : scopes) : option binding :=
  match sc with [] => None | s :: t => match scope_find x s with Some b => Some b | None => scopes_find x t end end.
Definition bind_var (x : string) (b : binding) (sc : scopes) : scopes :=
  match sc with s :: t => ((x, b) :: s) :: t | [] => [[(x, b)]] end.
Definition cur_scope (sc : scopes) : scope := match sc with s :: _ => s | [] => [] end.
Fixpoint bind_all (xs : list string) (vs : list vname) (sc : scopes) : scopes :=
  match xs, vs with x :: xt, v :: vt => bind_all xt vt (bind_var x (BV v) sc) | _, _ => sc end.

(* ------------------------------------------------------------------ literals and attributes *)

Definition lit_attr (l : lit) : attrv :=
  match l with
  | LInt z => ATensor 7 [] [z]
  | LFloat b => ATensor 1 [] [b]
  | LBool b => ATensor 9 [] [if b then 1%Z else 0%Z]
  | LInts zs => ATensor 7 [Z.of_nat (List.length zs)] zs
  end.

Definition lit_negative (l : lit) : bool :=
  match l with
  | LInt z => Z.ltb z 0
  | LFloat b => Z.leb 2147483648 b        (* sign bit of the float32 pattern *)
  | _ => false
  end.

(* _emit_const: name suggested when the caller gives none *)
Definition const_name (l : lit) : string :=
  match l with
  | LInt z => if Z.leb 0 z then "int64_" ++ zabs_to_string z else "int64_m" ++ zabs_to_string z
  | LBool b => if b then "int64_True" else "int64_False"          (* bool is an int in Python *)
  | LInts [z] => (if Z.leb 0 z then "int64_" ++ zabs_to_string z else "int64_m" ++ zabs_to_string z) ++ "_1d"
  | _ => "const"
  end.

Definition kw_attr (kw : string * kwarg) : string * attrv :=
  match kw with (k, KLit a) => (k, a) | (k, KName x) => (k, ARef x) end.

Definition lookup_assoc {A} (x : string) (l : list (string * A)) : option A :=
  (fix go (l : list (string * A)) := match l with [] => None | (k, v) :: t => if String.eqb k x then Some v else go t end) l.

Definition akind_attr (k : akind) : string :=
  match k with AKFloat => "value_float" | AKInt => "value_int" | AKBool => "value_int" end.

(* ------------------------------------------------------------------ autocast.cast_inputs: the plan

   tvs = type variable of each formal input ("" = none) and whether the last one is variadic;
   flags = for each actual argument: None (omitted) | Some true (a polymorphic constant) | Some false.
   First pass: every type variable is bound to the last non-constant argument using it.
   Second pass: a constant argument whose type variable is bound is cast like that argument.
   Result: for each argument, the index of the argument it is CastLike'd to. *)
Definition typevar_at (tvs : list string * bool) (i : nat) : option string :=
  match nth_error (fst tvs) i with
  | Some tv => Some tv
  | None => if snd tvs then Some (last (fst tvs) "") else None
  end.

Fixpoint plan_bindings (tvs : list string * bool) (i : nat) (flags : list (option bool)) (acc : list (string * nat))
  : option (list (string * nat)) :=
  match flags with
  | [] => Some acc
  | fl :: t =>
    match typevar_at tvs i with
    | None => None
    | Some tv =>
      plan_bindings tvs (S i) t
        (match fl with
         | Some false => if String.eqb tv "" then acc else (tv, i) :: acc
         | _ => acc
         end)
    end
  end.

Fixpoint plan_casts (tvs : list string * bool) (bnd : list (string * nat)) (i : nat) (flags : list (option bool))
  : list (option nat) :=
  match flags with
  | [] => []
  | fl :: t =>
    (match fl, typevar_at tvs i with
     | Some true, Some tv => if String.eqb tv "" then None else lookup_assoc tv bnd
     | _, _ => None
     end) :: plan_casts tvs bnd (S i) t
  end.

Definition cast_plan (tvs : list string * bool) (flags : list (option bool)) : option (list (option nat)) :=
  match plan_bindings tvs 0 flags [] with
  | Some bnd => Some (plan_casts tvs bnd 0 flags)
  | None => None
  end.

(* `x % c` gets fmod=1 exactly when the right operand is a constant float (Gen.ScriptTables.converter_mod_rule) *)
Definition binop_attrs (op : string) (b : expr) : list (string * attrv) :=
  if String.eqb op "Mod" then match b with ELit (LFloat _) => [("fmod", AInt 1)] | _ => [] end else [].

Section Translate.
  Variable globals : list (string * lit).          (* module-level constants usable as values *)
  Variable cic : expr -> option bool.              (* AstAnalyzer.constant_if_condition *)
  Variable afuel : nat.                            (* fuel of the liveness fixpoints *)
  Variable legacy : bool.                          (* true: reproduce the three defective behaviours of the unrepaired code *)

  Definition node1 (op : string) (ins : list (option vname)) (out : vname) (attrs : list (string * attrv)) : node :=
    Node "" op ins [out] attrs [].

  (* _emit_const *)
  Definition emit_const (l : lit) (suggested : option string) : M vname :=
    r <- uniq (match suggested with Some t => t | None => const_name l end) ;;
    mark_castable r ;;;
    emit (node1 "Constant" [] r [("value", lit_attr l)]) ;;;
    ret r.

  (* _to_onnx_var of whatever a Python name is bound to; `target` is the Python name *)
  Definition to_onnx_var (b : binding) (target : string) : M vname :=
    match b with
    | BV n => ret n
    | BA k =>
      r <- uniq target ;;
      emit (node1 "Constant" [] r [(akind_attr k, ARef target)]) ;;;
      match k with
      | AKBool =>
        rb <- uniq (r ++ "_as_bool") ;;
        mark_castable rb ;;;
        emit (node1 "Cast" [Some r] rb [("to", AInt 9)]) ;;;
        ret rb
      | _ => mark_castable r ;;; ret r
      end
    end.

  (* _py_var_to_onnx_var: local scopes first, then the globals *)
  Definition py_var (sc : scopes) (x : string) : M vname :=
    match scopes_find x sc with
    | Some b => to_onnx_var b x
    | None => match lookup_assoc x globals with
              | Some l => emit_const l (Some x)
              | None => fail                        (* ValueError: Unbound name *)
              end
    end.

  (* autocast.static_cast_inputs = cast_inputs instantiated statically; the plan (which argument is
     CastLike'd to which) is shared with the Python reading (Script/PySem.v) *)
  Fixpoint apply_plan (args : list (option vname)) (plan : list (option nat)) (all : list (option vname))
    : M (list (option vname)) :=
    match args, plan with
    | a :: t, p :: pt =>
      a' <- match a, p with
            | Some v, Some j =>
              match nth j all None with
              | Some y => r <- uniq (v ++ "_cast") ;; emit (node1 "CastLike" [Some v; Some y] r []) ;;; ret (Some r)
              | None => ret a
              end
            | _, _ => ret a
            end ;;
      t' <- apply_plan t pt all ;;
      ret (a' :: t')
    | _, _ => ret args
    end.

  Definition static_cast (op : string) (args : list (option vname)) : M (list (option vname)) :=
    match lookup_assoc op op_typevars with
    | None => ret args                                   (* no signature: no casts *)
    | Some tvs =>
      fun st => match cast_plan tvs (map (option_map (fun v => mem v (ts_castable st))) args) with
                | None => None                           (* more actual than formal parameters *)
                | Some plan => apply_plan args plan args st
                end
    end.

  (* ---------------------------------------------------------------- expressions *)

  Definition target_or_tmp (t : option string) : string := match t with Some x => x | None => "tmp" end.

  Fixpoint tr_expr (sc : scopes) (target : option string) (e : expr) {struct e} : M vname :=
    match e with
    | EVar x => py_var sc x
    | ELit l => emit_const l (if lit_negative l then None else target)   (* a negative literal is a folded UnaryOp: target dropped *)
    | EUn op a =>
      match lookup_assoc op primop_map with
      | None => fail
      | Some opname =>
        v <- tr_expr sc None a ;;
        r <- uniq (target_or_tmp target) ;;
        emit (node1 opname [Some v] r []) ;;;
        ret r
      end
    | EBin op a b =>
      match lookup_assoc op primop_map with
      | None => fail
      | Some opname =>
        let attrs := binop_attrs op b in
        l <- tr_expr sc None a ;;
        r <- tr_expr sc None b ;;
        args <- static_cast opname [Some l; Some r] ;;
        res <- uniq (target_or_tmp target) ;;
        emit (node1 opname args res attrs) ;;;
        ret res
      end
    | ECmp op a b =>
      match lookup_assoc op primop_map with
      | None => fail
      | Some opname =>
        l <- tr_expr sc None a ;;
        r <- tr_expr sc None b ;;
        if String.eqb opname "NotEqual" then
          args <- static_cast "Equal" [Some l; Some r] ;;
          tmp <- uniq "tmp" ;;
          emit (node1 "Equal" args tmp []) ;;;
          res <- uniq (target_or_tmp target) ;;
          emit (node1 "Not" [Some tmp] res []) ;;;
          ret res
        else
          args <- static_cast opname [Some l; Some r] ;;
          res <- uniq (target_or_tmp target) ;;
          emit (node1 opname args res []) ;;;
          ret res
      end
    | ECall f args kws =>
      vals <- (fix go (l : list (option expr)) : M (list (option vname)) :=
                 match l with
                 | [] => ret []
                 | None :: t => vs <- go t ;; ret (None :: vs)
                 | Some a :: t => v <- tr_expr sc None a ;; vs <- go t ;; ret (Some v :: vs)
                 end) args ;;
      match f with
      | COp name =>
        vals' <- static_cast name vals ;;
        res <- uniq (target_or_tmp target) ;;
        emit (Node "" name vals' [res] (map kw_attr kws) []) ;;;
        ret res
      | CFun name =>
        res <- uniq (target_or_tmp target) ;;
        emit (Node "this" name vals [res] (map kw_attr kws) []) ;;;
        ret res
      end
    end.

  (* _translate_call_expr for tuple assignment: the call's inputs, several outputs *)
  Definition tr_call_multi (sc : scopes) (e : expr) (outs : list string) : M (list vname) :=
    match e with
    | ECall f args kws =>
      vals <- (fix go (l : list (option expr)) : M (list (option vname)) :=
                 match l with
                 | [] => ret []
                 | None :: t => vs <- go t ;; ret (None :: vs)
                 | Some a :: t => v <- tr_expr sc None a ;; vs <- go t ;; ret (Some v :: vs)
                 end) args ;;
      vals' <- match f with COp name => static_cast name vals | CFun _ => ret vals end ;;
      names <- mapM uniq outs ;;
      emit (Node (match f with COp _ => "" | CFun _ => "this" end)
                 (match f with COp n => n | CFun n => n end) vals' names (map kw_attr kws) []) ;;;
      ret names
    | _ => fail                                             (* RHS must be a Call expression for unpacking *)
    end.

  (* ---------------------------------------------------------------- statements *)

  Variable inputs : list vname.                   (* the graph inputs of the function being translated *)

  Definition defs_of (ns : list node) : list vname := flat_map n_outs ns.
  Definition lift {A} (o : option A) : M A := match o with Some a => ret a | None => fail end.
  Definition identity (v r : vname) : node := node1 "Identity" [Some v] r [].

  (* Tail of _translate_block: one output per live_def; `acc` = nodes of the branch graph so far
     (IRFunction.assigned_names is computed from them), `prev` = outputs listed so far.  A value is copied when it
     was not produced inside this graph -- and (repaired behaviour) when it is already listed as an output: two
     variables may alias one value (`w = b`), and a graph must not list an output twice.
     Runs under `capture`: nothing is emitted. *)
  Definition keep_as_output (v : vname) (acc : list node) (prev : list vname) : bool :=
    mem v (defs_of acc) && (legacy || negb (mem v prev)).

  Fixpoint block_outputs (sc_b : scopes) (live_defs : list string) (acc : list node) (prev : list vname)
    : M (list vname * list node) :=
    match live_defs with
    | [] => ret ([], acc)
    | pv :: t =>
      match scope_find pv (cur_scope sc_b) with
      | Some b =>
        vn <- capture (to_onnx_var b pv) ;;
        let acc1 := (acc ++ snd vn)%list in
        if keep_as_output (fst vn) acc1 prev then
          r <- block_outputs sc_b t acc1 (prev ++ [fst vn])%list ;; ret (fst vn :: fst r, snd r)
        else
          c <- uniq pv ;;
          r <- block_outputs sc_b t (acc1 ++ [identity (fst vn) c])%list (prev ++ [c])%list ;; ret (c :: fst r, snd r)
      | None =>
        match scopes_find pv (tl sc_b) with
        | None => fail                              (* not assigned a value along a conditional branch *)
        | Some b =>
          vn <- capture (to_onnx_var b pv) ;;
          c <- uniq pv ;;
          r <- block_outputs sc_b t (acc ++ snd vn ++ [identity (fst vn) c])%list (prev ++ [c])%list ;; ret (c :: fst r, snd r)
        end
      end
    end.

  (* Tail of the loop body: the value of each state variable, copied when not produced inside the body
     (or, repaired behaviour, when already listed) *)
  Fixpoint loop_outputs (sc_b : scopes) (state : list string) (acc : list node) (prev : list vname)
    : M (list vname * list node) :=
    match state with
    | [] => ret ([], acc)
    | pv :: t =>
      vn <- capture (py_var sc_b pv) ;;
      let acc1 := (acc ++ snd vn)%list in
      if keep_as_output (fst vn) acc1 prev then
        r <- loop_outputs sc_b t acc1 (prev ++ [fst vn])%list ;; ret (fst vn :: fst r, snd r)
      else
        c <- uniq pv ;;
        r <- loop_outputs sc_b t (acc1 ++ [identity (fst vn) c])%list (prev ++ [c])%list ;; ret (c :: fst r, snd r)
    end.

  (* _translate_return_stmt *)
  Fixpoint tr_returns (sc : scopes) (tuple : bool) (i : nat) (es : list expr) (outs : list vname) : M (list vname) :=
    match es with
    | [] => ret outs
    | e :: t =>
      let preferred := "return_val" ++ (if tuple then nat_to_string i else "") in
      v <- tr_expr sc (Some preferred) e ;;
      let is_input :=
        if legacy then                                (* the code looked the ONNX name up as a Python variable *)
          match scopes_find v sc with Some (BV n) => mem n inputs | _ => false end
        else mem v inputs in
      v1 <- (if is_input then c <- uniq preferred ;; emit (identity v c) ;;; ret c else ret v) ;;
      v2 <- (if mem v1 outs then c <- uniq (v1 ++ "_copy") ;; emit (identity v1 c) ;;; ret c else ret v1) ;;
      tr_returns sc tuple (S i) t (outs ++ [v2])%list
    end.

  Definition is_nil {A} (l : list A) : bool := match l with [] => true | _ => false end.

  Fixpoint tr_stmts (fuel : nat) (top : bool) (ss : list stmt) (lo : sset) (sc : scopes) (outs : list vname) {struct fuel}
    : M (scopes * list vname) :=
    match fuel with
    | O => fail
    | S fu =>
      (* one statement; lo_s = what is live after it *)
      let tr_stmt := fun (s : stmt) (lo_s : sset) (sc : scopes) (outs : list vname) =>
        match s with
        | SAssign x e => v <- tr_expr sc (Some x) e ;; ret (bind_var x (BV v) sc, outs)
        | STuple xs e => vs <- tr_call_multi sc e xs ;; ret (bind_all xs vs sc, outs)
        | SReturn es =>
          if top then
            guard (negb (is_nil es)) ;;;
            o <- tr_returns sc (match es with [_] => false | _ => true end) 0 es outs ;; ret (sc, o)
          else fail                                  (* return inside control flow *)
        | SBreak => fail
        | SIf c t f =>
          match cic c with
          | Some true => tr_stmts fu false t lo_s sc outs
          | Some false => tr_stmts fu false f lo_s sc outs
          | None =>
            live_defs <- list_set (sinter lo_s (assigned_stmt cic s)) ;;
            test <- tr_expr sc (Some "cond") c ;;
            (* each branch in a fresh scope *)
            g_then <- (r <- capture (tr_stmts fu false t lo_s ([] :: sc) []) ;;
                       o <- block_outputs (fst (fst r)) live_defs (snd r) [] ;;
                       ret (Graph [] [] (snd o) (fst o))) ;;
            g_else <- (r <- capture (tr_stmts fu false f lo_s ([] :: sc) []) ;;
                       o <- block_outputs (fst (fst r)) live_defs (snd r) [] ;;
                       ret (Graph [] [] (snd o) (fst o))) ;;
            renamed <- mapM uniq live_defs ;;
            guard (negb (is_nil renamed)) ;;;
            guard (negb (match renamed with [r1] => String.eqb r1 test | _ => false end)) ;;;
            emit (Node "" "If" [Some test] renamed [] [("then_branch", g_then); ("else_branch", g_else)]) ;;;
            ret (bind_all live_defs renamed sc, outs)
          end
        | SFor _ _ body | SWhile _ body =>
          (* header *)
          hdr <- match s with
                 | SFor i bound _ =>
                   b <- tr_expr sc (Some "loop_bound") bound ;;
                   cin <- uniq "cond_in" ;;
                   ret (i, cin, Some b, None, None)
                 | SWhile c _ =>
                   cp <- uniq c ;;
                   oc <- py_var sc c ;;
                   ret ("infinite_loop", cp, None, Some oc, Some c)
                 | _ => fail
                 end ;;
          let '(loop_var_py, cond_param, o_bound, o_cond, while_c) := hdr in
          state <- list_set (sinter (assigned_block cic body) (sunion (exposed_uses cic body) lo_s)) ;;
          guard (negb (is_nil state)) ;;;
          lo_body <- lift (loop_fixpoint cic afuel s lo_s) ;;
          (* body graph *)
          lv <- uniq loop_var_py ;;
          ps <- mapM uniq state ;;
          let sc_b0 := bind_all state ps (bind_var loop_var_py (BV lv) ([] :: sc)) in
          r <- capture (
                 (fix gob (l : list stmt) (sc_b : scopes) {struct l} : M (scopes * option vname) :=
                    match l with
                    | [] => ret (sc_b, None)
                    | s0 :: rest =>
                      match is_break_if s0 with
                      | Some (EVar cn) =>
                        guard (is_nil rest) ;;;          (* break must be the last statement of the loop *)
                        match scope_find cn (cur_scope sc_b) with
                        | Some (BV v) => ret (sc_b, Some v)
                        | _ => fail
                        end
                      | Some _ => fail                    (* the break condition must be a name *)
                      | None =>
                        lo0 <- lift (live_block cic afuel rest lo_body) ;;
                        r0 <- match s0 with
                              | SAssign x e => v <- tr_expr sc_b (Some x) e ;; ret (bind_var x (BV v) sc_b, [])
                              | STuple xs e => vs <- tr_call_multi sc_b e xs ;; ret (bind_all xs vs sc_b, [])
                              | _ => tr_stmts fu false [s0] lo0 sc_b []
                              end ;;
                        gob rest (fst r0)
                      end
                    end) body sc_b0) ;;
          let sc_b := fst (fst r) in
          let brk := snd (fst r) in
          let ns0 := snd r in
          wc <- match while_c with
                | Some c => match scope_find c (cur_scope sc_b) with
                            | Some (BV v) => ret (Some v)
                            | _ => fail                  (* unable to find condition variable *)
                            end
                | None => ret None
                end ;;
          cnodes <- capture (
                      match brk, wc with
                      | Some bv, Some wv =>
                        if legacy then                (* the code dropped the loop condition *)
                          co <- uniq "cond_out" ;; emit (node1 "Not" [Some bv] co []) ;;; ret co
                        else
                          nb <- uniq "not_break" ;; emit (node1 "Not" [Some bv] nb []) ;;;
                          co <- uniq "cond_out" ;; emit (node1 "And" [Some wv; Some nb] co []) ;;; ret co
                      | Some bv, None =>
                        co <- uniq "cond_out" ;; emit (node1 "Not" [Some bv] co []) ;;; ret co
                      | None, Some wv =>
                        co <- uniq "cond_out" ;; emit (identity wv co) ;;; ret co
                      | None, None =>
                        co <- uniq "cond_out" ;; emit (identity cond_param co) ;;; ret co
                      end) ;;
          o <- loop_outputs sc_b state (ns0 ++ snd cnodes)%list [fst cnodes] ;;
          let body_g := Graph (lv :: cond_param :: ps) [] (snd o) (fst cnodes :: fst o) in
          ins <- mapM (py_var sc) state ;;
          (* the code listed the state a second time for the outputs (a different set object) *)
          state_out <- (if legacy then list_set state else ret state) ;;
          names <- mapM uniq state_out ;;
          emit (Node "" "Loop" (o_bound :: o_cond :: map Some ins) names [] [("body", body_g)]) ;;;
          ret (bind_all state_out names sc, outs)
        end in
      (fix go (ss : list stmt) (sc : scopes) (outs : list vname) {struct ss} : M (scopes * list vname) :=
         match ss with
         | [] => ret (sc, outs)
         | s :: rest =>
           lo_s <- lift (live_block cic afuel rest lo) ;;
           r <- tr_stmt s lo_s sc outs ;;
           go rest (fst r) (snd r)
         end) ss sc outs
    end.
End Translate.

(* ------------------------------------------------------------------ a whole function *)

Definition init_scope (f : func) : scope :=
  (map (fun x => (x, BV x)) (f_tparams f) ++ map (fun a => (fst (fst a), BA (snd (fst a)))) (f_aparams f))%list.

Definition init_state (f : func) (orders : list (list string)) : tstate :=
  {| ts_used := rev (f_tparams f); ts_next := 0; ts_castable := []; ts_orders := orders |}.

Definition stmt_depth_fuel : nat := 12.

Definition translate (legacy : bool) (globals : list (string * lit)) (cic : expr -> option bool) (afuel : nat)
           (orders : list (list string)) (f : func) : option graph :=
  match tr_stmts globals cic afuel legacy (f_tparams f) stmt_depth_fuel true (f_body f) [] [rev (init_scope f)] [] (init_state f orders) with
  | Some ((_, outs), _, nodes) => Some (Graph (f_tparams f) [] nodes outs)
  | None => None
  end.
