(* C11 -- index forms beside the basic ones (session 6).  No proofs in this file.

   1. Attribute parameters (`def f(X, n: int): return X[:n]`): in the translated graph the parameter is a value computed at run
      time (Constant with a referenced attribute, Reshape to [1] for a slice bound; a Gather index of rank 0 for an index), in
      eager mode it is a python int.  `pcomp` marks such components; `graph_comp` / `eager_comp` are the two readings
      (the eager reading is also NumPy's: the parameter is a python int there).

   2. Forms outside the documented ones (`xcomp`): Ellipsis, None / newaxis, boolean literals, float literals, string literals.
      Converter._translate_subscript_expr classifies an index element as "scalar" when it is a constant expression whose value
      is an `int` instance -- `True` / `False` are; everything else that is not a slice is translated as an expression and gathered.
        as read  (bf = false): a boolean literal on the Slice + Squeeze route is the int 1 / 0 (a different tensor: NumPy adds
                               an axis); on the Gather route the index is a BOOL tensor, which Gather's type constraint rejects;
        repaired (bf = true):  proposed_fixes/C11_bool_literal_index.diff -- refused at conversion.
      Ellipsis / None / float / str constants: the Gather index is not an integer tensor (or cannot be emitted): an error.
      Tensor.__getitem__: Ellipsis / None / str raise TypeError; a boolean fails in `s + 1` (Add on BOOL);
        as read  (ff = false): a float index on the Slice route is truncated by numpy.array(..., dtype=int64) (X[1.0, 0] is
                               X[1, 0]; NumPy raises IndexError); alone it reaches Gather as a FLOAT index: an error;
        repaired (ff = true):  proposed_fixes/C11_eager_non_integer_index.diff -- TypeError.
      `np_x_rank`: the rank of NumPy's result when NumPy returns (hand transcription, compared with NumPy on every generated case):
      every int / rank-0 tensor / slice / tensor index consumes an axis, a boolean and None do not; None adds an axis; the
      advanced components (ints, tensors, booleans: a boolean scalar counts as rank 1) broadcast to one block. *)
From Coq Require Import ZArith List Bool.
Import ListNotations.
Require Import OV.Index.NumpySpec OV.Index.OnnxSlice OV.Index.ConverterIdx OV.Index.EagerIdx OV.Index.Corr
               OV.Index.AdvSpec OV.Index.AdvCorr OV.Index.EagerFix.
Open Scope Z_scope.

(* ---- 1. attribute parameters ---- *)
Inductive pbound := PB (b : bound) | PAttr (z : Z).
Inductive pcomp := PC (c : comp) | PAttrIdx (i : Z) | PSlice (a b s : pbound).

Definition gbound (p : pbound) : bound := match p with PB b => b | PAttr z => BDyn z end.
Definition ebound (p : pbound) : bound := match p with PB b => b | PAttr z => BConst z end.
Definition graph_comp (p : pcomp) : comp :=
  match p with PC c => c | PAttrIdx i => CT0 i | PSlice a b s => CSlice (gbound a) (gbound b) (gbound s) end.
Definition eager_comp (p : pcomp) : comp :=
  match p with PC c => c | PAttrIdx i => CInt i | PSlice a b s => CSlice (ebound a) (ebound b) (ebound s) end.

(* ---- 2. forms outside the documented ones ---- *)
Inductive xcomp :=
| XC (c : comp)
| XEllipsis
| XNewaxis
| XBool (b : bool)
| XFloat (t : Z)          (* float literal / float tensor; t = the value truncated towards zero (generated: non-negative or integral) *)
| XStr.

Definition is_xc (x : xcomp) : bool := match x with XC _ => true | _ => false end.
Definition is_xbool (x : xcomp) : bool := match x with XBool _ => true | _ => false end.
Definition is_xfloat (x : xcomp) : bool := match x with XFloat _ => true | _ => false end.
Definition is_xnewaxis (x : xcomp) : bool := match x with XNewaxis => true | _ => false end.
Definition is_xalien (x : xcomp) : bool := match x with XEllipsis | XNewaxis | XStr => true | _ => false end.

Definition zb (b : bool) : Z := if b then 1 else 0.
(* how the converter reads a component that passes its `isinstance(value, int)` test *)
Definition conv_x_read (x : xcomp) : comp :=
  match x with XC c => c | XBool b => CInt (zb b) | _ => CInt 0 end.
(* how Tensor.__getitem__ reads a component after numpy.array(..., dtype=int64) *)
Definition eager_x_read (x : xcomp) : comp :=
  match x with XC c => c | XFloat t => CT0 t | _ => CInt 0 end.

Definition x_conv_slice_path (idx : list comp) : bool :=
  negb (Nat.eqb (length (filter is_sliced idx)) 0) || Nat.ltb 1 (length (filter is_cint idx)).
Definition x_eager_slice_path (idx : list comp) : bool :=
  negb (Nat.eqb (length (filter is_sliced idx)) 0) || Nat.ltb 1 (length (filter is_escalar idx)).

(* As read, the int64 operand of a literal v comes from a cache keyed by the python value (const_1d), and True == 1, False == 0:
   True always finds the int64 [1] (the axis number / the step 1 of the entry are emitted first); False finds an int64 [0] only
   when a 0 was emitted before it -- the axis number 0 (axis 0 has a Slice entry), a literal bound 0 or the default start 0 of
   an explicit slice (those are translated before the scalars), or an earlier scalar 0 / -1 (whose end is 0).  Otherwise a BOOL
   tensor is created and the Concat of the Slice operands is ill-typed: an error. *)
Definition bound_is0 (b : bound) : bool := match b with BConst 0 => true | _ => false end.
Definition slice_caches0 (c : comp) : bool :=
  match c with
  | CSlice a b s =>
      is_sliced c && (bound_is0 a || bound_is0 b || bound_is0 s ||
                      match a, s with BNone, BNone => true | BNone, BConst st => 0 <? st | _, _ => false end)
  | _ => false
  end.
Fixpoint first_false_ok (seen0 : bool) (idx : list xcomp) : bool :=
  match idx with
  | [] => true
  | XBool false :: _ => seen0
  | XC (CInt i) :: t => first_false_ok (seen0 || (i =? 0) || (i =? -1)) t
  | _ :: t => first_false_ok seen0 t
  end.
Definition false_cached (idx : list xcomp) : bool :=
  first_false_ok (existsb slice_caches0 (map conv_x_read idx) ||
                  match idx with x :: _ => is_sliced (conv_x_read x) || is_cint (conv_x_read x) | [] => false end) idx.

Definition conv_x_ops (bf : bool) (idx : list xcomp) : option (list op) :=
  if existsb is_xalien idx || existsb is_xfloat idx then None
  else if existsb is_xbool idx && (bf || negb (x_conv_slice_path (map conv_x_read idx)) || negb (false_cached idx)) then None
  else conv_ops true (map conv_x_read idx).

Definition run_conv_x (bf : bool) (shape : list Z) (idx : list xcomp) : option view :=
  match conv_x_ops bf idx with None => None | Some ops => run_ops ops (full shape) end.

Definition eager_x_ops (ff : bool) (shape : list Z) (idx : list xcomp) : option (list op) :=
  if existsb is_xalien idx || existsb is_xbool idx then None
  else if existsb is_xfloat idx && (ff || negb (x_eager_slice_path (map eager_x_read idx))) then None
  else eager_ops_c true shape (map eager_x_read idx).

Definition run_eager_x (ff : bool) (shape : list Z) (idx : list xcomp) : option view :=
  match eager_x_ops ff shape idx with None => None | Some ops => run_ops ops (full shape) end.

(* rank of NumPy's result (when NumPy returns) *)
Definition x_adv_rank (x : xcomp) : list nat :=
  match x with
  | XC (CInt _) => [O] | XC (CT0 _) => [O] | XC (CT1 _) => [1%nat] | XBool _ => [1%nat]
  | _ => []
  end.
Definition is_xslice (x : xcomp) : bool := match x with XC (CSlice _ _ _) => true | _ => false end.
Definition np_x_rank (R : nat) (idx : list xcomp) : nat :=
  ((R - length (filter is_xc idx)) + length (filter is_xslice idx) + length (filter is_xnewaxis idx)
   + fold_right Nat.max O (flat_map x_adv_rank idx))%nat.

(* ---- correspondence ---- *)
Record xcase := mkxcase {
  x_shape : list Z;
  x_idx : list xcomp;
  x_np : option nat;                (* rank of NumPy's result; None = NumPy raised *)
  x_graph : option outcome;
  x_eager : option outcome
}.

Definition xnp_agrees (c : xcase) : bool :=
  chk (x_np c) (fun r => Nat.eqb r (np_x_rank (length (x_shape c)) (x_idx c))).
Definition xgraph_agrees (bf : bool) (c : xcase) : bool :=
  chk (x_graph c) (fun o => outcome_eqb o (outcome_of (x_shape c) (run_conv_x bf (x_shape c) (x_idx c)))).
Definition xeager_agrees (ff : bool) (c : xcase) : bool :=
  chk (x_eager c) (fun o => outcome_eqb o (outcome_of (x_shape c) (run_eager_x ff (x_shape c) (x_idx c)))).

Fixpoint xfailing (f : xcase -> bool) (i : nat) (cs : list xcase) : list nat :=
  match cs with [] => [] | c :: t => (if f c then [] else [i]) ++ xfailing f (S i) t end.

(* ---- correspondence with the two-Slice variant of the converter (NegStepFix.v) ---- *)
Require Import OV.Index.NegStepFix.
Definition graph_agrees_ns (c : case) : bool :=
  chk (c_graph c) (fun o => outcome_eqb o (outcome_of (c_shape c) (run_conv_ns (c_shape c) (c_idx c)))).
Definition skel_agrees_ns (c : case) : bool :=
  chk (c_skel c) (fun s => oops_eqb s (conv_ops_ns (c_idx c))).
Definition conv_nest_ns (shape : list Z) (aidx : list acomp) : option nest :=
  option_map (fun v => outer_arr 0 (items aidx v)) (run_conv_ns shape (map flat aidx)).
Definition agraph_agrees_ns (c : acase) : bool :=
  chk (a_graph c) (fun o => outcome_eqb o (outcome_of_nest (a_shape c) (conv_nest_ns (a_shape c) (a_idx c)))).
Definition askel_agrees_ns (c : acase) : bool :=
  chk (a_skel c) (fun s => oops_eqb s (conv_ops_ns (map flat (a_idx c)))) &&
  chk (a_gsh c) (fun g => list_eqb zlist_eqb g (conv_gshapes (a_idx c))).
