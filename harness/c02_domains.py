"""C02, session 6 round 3: "every operator domain used is imported with a single version" -- two streams.

(A) mixed_opset_stream: ONE script function that uses two versions of the standard opset, in both orders (older first /
    newer first), the default opset given by first use and by `default_opset=`, the second call at top level / in both
    branches of an if / in a loop body, with operators whose schema changed between the two versions (axes / min,max /
    split / pads / starts,ends / k moved from attribute to input; Softmax's default axis).  The program must be refused
    when the decorator runs (exception class the source raises on purpose, with a source position), or, if accepted, its
    FunctionProto and ModelProto must pass onnx.checker, import every domain once, and pass the verified checkers.
    Controls: the same program shapes with a single version must be accepted and valid (a pair whose control is not is
    skipped and counted: e.g. literal promotion emitting CastLike below opset 15, recorded elsewhere).

(B) domain_chain_stream: to_model_proto of a main function that reaches script functions of >= 3 distinct custom domains
    only through other script functions (chains, diamonds, shared domains; the inner call at top level / inside if
    branches / inside a loop body; optionally main calls some of them directly = control).  Oracles: the verified
    `model_imports_ok` (coq/Graph/ModelImports.v, C02_model_imports_declarative: every domain used by the main graph or by
    the body of ANY function of the model is imported by the model, every function imports what its body uses, no domain
    twice) evaluated in Coq on the real ModelProto, onnx.checker, and onnxruntime: the model must load and compute what
    the numpy reading of the functions computes.
"""
from __future__ import annotations

import collections
import traceback

import numpy as np

from harness import c01_run, graphlit

# ----------------------------------------------------------------------------------------------- (A) mixed versions

# op -> (first version of the NEW calling convention, old call, new call, statement form, input annotation, output annotation,
#        shape preserving)
# {O} = opset alias, {v} = operand.  Versions below 7 are not generated.
CHANGED = {
    "Squeeze":    (13, "{O}.Squeeze({v}, axes=[0])", "{O}.Squeeze({v}, [0])", "FLOAT[1, 3]", "FLOAT[3]", False),
    "Unsqueeze":  (13, "{O}.Unsqueeze({v}, axes=[0])", "{O}.Unsqueeze({v}, [0])", "FLOAT[3]", "FLOAT[1, 3]", False),
    "ReduceSum":  (13, "{O}.ReduceSum({v}, axes=[0], keepdims=0)", "{O}.ReduceSum({v}, [0], keepdims=0)", "FLOAT[2, 3]", "FLOAT[3]", False),
    "ReduceMean": (18, "{O}.ReduceMean({v}, axes=[0], keepdims=0)", "{O}.ReduceMean({v}, [0], keepdims=0)", "FLOAT[2, 3]", "FLOAT[3]", False),
    "Clip":       (11, "{O}.Clip({v}, min=0.0, max=1.0)", "{O}.Clip({v}, lo, hi)", "FLOAT[3]", "FLOAT[3]", True),
    "Split":      (13, "{O}.Split({v}, split=[1, 2], axis=0)", "{O}.Split({v}, [1, 2], axis=0)", "FLOAT[3]", "FLOAT[1]", False),
    "Slice":      (10, "{O}.Slice({v}, starts=[0], ends=[2])", "{O}.Slice({v}, [0], [2])", "FLOAT[3]", "FLOAT[2]", False),
    "Pad":        (11, "{O}.Pad({v}, pads=[0, 1])", "{O}.Pad({v}, [0, 1])", "FLOAT[3]", "FLOAT[4]", False),
    "TopK":       (10, "{O}.TopK({v}, k=2)", "{O}.TopK({v}, [2])", "FLOAT[3]", "FLOAT[2]", False),
    "Softmax":    (13, "{O}.Softmax({v})", "{O}.Softmax({v})", "FLOAT[2, 3]", "FLOAT[2, 3]", True),
}
TWO_OUTPUTS = {"Split", "TopK"}
V_MIN, V_MAX = 7, 21
POSITIONS = ("top", "if", "loop")
ORDERS = ("newer-first-use", "older-first-use", "newer-default_opset", "older-default_opset", "changed-op-first-newer", "changed-op-first-older")


def call_text(op, version, alias, operand):
    boundary, old, new = CHANGED[op][:3]
    return (new if version >= boundary else old).format(O=alias, v=operand)


def mixed_source(op, v_default, v_other, order, position, fname):
    """A module whose function `fname` uses opset v_default (as the default: by first use or by default_opset=) and v_other.
    order tells which of the two makes the call of the CHANGED operator: '*-first-use' / '*-default_opset': the other version
    calls it after a neutral first statement of the default version; 'changed-op-first-*': the default version calls it
    first and the other version then calls a neutral operator."""
    _b, _o, _n, in_ann, out_ann, keeps = CHANGED[op]
    D, X = f"opset{v_default}", f"opset{v_other}"
    extra = ", lo: FLOAT, hi: FLOAT" if op == "Clip" else ""
    deco = f"@script(default_opset={D})" if order.endswith("default_opset") else "@script()"
    if order.startswith("changed-op-first"):
        first = call_text(op, v_default, D, "x")
        second = f"{X}.Abs(y)"
        out = out_ann
    else:
        first = "-x" if order.endswith("default_opset") else f"{D}.Abs(x)"
        second = call_text(op, v_other, X, "y")
        out = out_ann
    lhs1 = "y, _u1" if (order.startswith("changed-op-first") and op in TWO_OUTPUTS) else "y"
    lhs2 = "z, _u2" if (not order.startswith("changed-op-first") and op in TWO_OUTPUTS) else "z"
    lines = [f"    {lhs1} = {first}"]
    if position == "top":
        lines.append(f"    {lhs2} = {second}")
    elif position == "if":
        lines += ["    if flag:", f"        {lhs2} = {second}", "    else:", f"        {lhs2} = {second.replace('(y', '(-y', 1)}"]
        extra += ", flag: BOOL"
    else:
        lines += ["    z = y", "    for _i in range(2):", f"        z = {second.replace('(y', '(z', 1)}"]
    lines.append("    return z")
    imports = sorted({D, X})
    return (f"from onnxscript import script, FLOAT, BOOL, {', '.join(imports)}\n\n{deco}\n"
            f"def {fname}(x: {in_ann}{extra}) -> {out}:\n" + "\n".join(lines) + "\n")


def judge_accepted(f, src):
    """None or (problem class, detail) for an accepted function: protos buildable, checker, single-version imports."""
    try:
        fp = f.to_function_proto()
    except Exception as e:  # noqa: BLE001
        return f"to_function_proto-raises:{type(e).__name__}", f"to_function_proto() raised {str(e)[:200]!r}", None, None
    err = c01_run.check_function(fp, extra_imports=[("this", 1)])
    if err is not None:
        return "check_function:" + _cls(err), f"onnx.checker.check_function rejects the FunctionProto: {err[:300]}", fp, None
    if not c01_run.single_version_imports(fp.opset_import):
        return "function:domain-imported-twice", "FunctionProto imports a domain more than once", fp, None
    try:
        mp = f.to_model_proto()
    except Exception as e:  # noqa: BLE001
        return f"to_model_proto-raises:{type(e).__name__}", f"to_model_proto() raised {str(e)[:200]!r}", fp, None
    err = c01_run.check_model(mp)
    if err is not None:
        return "check_model:" + _cls(err), f"onnx.checker.check_model(full_check=True) rejects the ModelProto: {err[:300]}", fp, mp
    if not c01_run.single_version_imports(mp.opset_import):
        return "model:domain-imported-twice", "ModelProto imports a domain more than once", fp, mp
    return None, "", fp, mp


def _cls(err):
    from harness import c02
    return c02.classify_checker_error(err)


def add_protos(coll, fp, mp, replay, fname):
    hints = {"wf": "other", "input_returned": "other", "imports": "other"}
    if fp is not None:
        coll.add(graphlit.function_lit(fp), graphlit.imports_lit(fp.opset_import), dict(replay, function=fname, proto="function", nodes=len(fp.node), hints=hints))
    if mp is not None:
        coll.add(graphlit.graph_lit(mp.graph), graphlit.imports_lit(mp.opset_import),
                 dict(replay, function=fname, proto="model", nodes=len(mp.graph.node), hints=dict(hints, model_imports=model_imports_hint(mp))),
                 funs=graphlit.model_funs_lit(mp))


def model_imports_hint(mp):
    """Python-side reading of what model_imports_ok will say (only used for the violation key)."""
    def doms(nodes):
        for n in nodes:
            yield "" if n.domain == "ai.onnx" else n.domain
            for a in n.attribute:
                if a.type == a.GRAPH:
                    yield from doms(a.g.node)
                elif a.type == a.GRAPHS:
                    for g in a.graphs:
                        yield from doms(g.node)
    imported = {("" if o.domain == "ai.onnx" else o.domain) for o in mp.opset_import}
    if not set(doms(mp.graph.node)) <= imported:
        return "main-graph-domain-not-imported"
    for f in mp.functions:
        fi = {("" if o.domain == "ai.onnx" else o.domain) for o in f.opset_import}
        used = set(doms(f.node))
        if not used <= fi:
            return "function-body-domain-not-imported-by-the-function"
        if not used <= imported:
            return "function-body-domain-not-imported-by-the-model"
    return "other"


def version_pairs(op, rng, quick):
    b = CHANGED[op][0]
    olds = list(range(V_MIN, b))
    news = list(range(b, V_MAX + 1))
    if not quick:
        return [(o, n) for o in olds for n in news]
    picks = {(b - 1, b), (olds[0], 18 if 18 >= b else news[-1]), (rng.choice(olds), rng.choice(news))}
    if op in ("Squeeze", "ReduceSum", "Unsqueeze"):
        picks.add((11, 18))
    return sorted(picks)


def mixed_opset_stream(ctx, wd, rng, coll, stats):
    quick = ctx.tier == "quick"
    outcome = collections.Counter()
    control_cache = {}
    k = [0]

    def run_one(op, v_default, v_other, order, position):
        k[0] += 1
        fname = f"mix{k[0]}"
        src = mixed_source(op, v_default, v_other, order, position, fname)
        mod, exc = c01_run.load(wd, f"c02_mix{k[0]}", src)
        return fname, src, mod, exc

    def control_ok(op, v, order, position):
        key = (op, v, order, position)
        if key not in control_cache:
            fname, src, mod, exc = run_one(op, v, v, order, position)
            ok = exc is None and judge_accepted(getattr(mod, fname), src)[0] is None
            control_cache[key] = ok
            stats["mixed_controls"] += 1
            stats["mixed_controls_valid"] += 1 if ok else 0
        return control_cache[key]

    for op in CHANGED:
        keeps = CHANGED[op][5]
        for (vo, vn) in version_pairs(op, rng, quick):
            for order in ORDERS:
                newer_default = "newer" in order
                vd, vx = (vn, vo) if newer_default else (vo, vn)
                positions = [p for p in POSITIONS if p != "loop" or (keeps and not order.startswith("changed-op-first"))]
                if quick and len(positions) > 1:
                    positions = ["top", positions[1 + rng.randrange(len(positions) - 1)]]
                for position in positions:
                    # controls: the same shape with the single version vd, and with the single version vx
                    if not (control_ok(op, vd, order, position) and control_ok(op, vx, order, position)):
                        stats["mixed_skipped_control_invalid"] += 1
                        continue
                    fname, src, mod, exc = run_one(op, vd, vx, order, position)
                    ctx.case(("mixed-opset", op, order, position, vd >= CHANGED[op][0], vx >= CHANGED[op][0]))
                    if stats["mixed_cases"] < 2:
                        ctx.sample({"stream": "mixed-opset-versions", "source": src})
                    stats["mixed_cases"] += 1
                    replay = {"stream": "mixed-opset-versions", "near_miss": f"{op}:{order}:{position}", "operator": op, "default_version": vd,
                              "other_version": vx, "source": src}
                    if exc is not None:
                        cls = c01_run.exc_class(exc)
                        outcome[f"{order} -> {cls}"] += 1
                        stats["mixed_refused"] += 1
                        if cls not in c01_run.DESCRIPTIVE:
                            ctx.violation(f"C02:crash:{cls}@{c01_run.crash_site(exc)}",
                                          f"the decorator crashed with an internal {cls} ({str(exc)[:120]!r}) instead of refusing the program with a located message",
                                          dict(replay, traceback="".join(traceback.format_exception(exc))[-1500:]))
                        elif not c01_run.has_position(exc):
                            ctx.violation("C02:refusal-without-position:two-versions-of-the-standard-opset",
                                          f"refused without a source position: {str(exc)[:200]!r}", replay)
                        continue
                    outcome[f"{order} -> accepted"] += 1
                    stats["mixed_accepted"] += 1
                    problem, detail, fp, mp = judge_accepted(getattr(mod, fname), src)
                    if problem is not None:
                        ctx.violation(f"C02:two-versions-of-the-standard-opset-accepted:{problem}",
                                      f"one function uses opset{vd} (its default, imported) and opset{vx}; both single-version programs are accepted and "
                                      f"valid, the mixed one is accepted by the decorator but {detail}", replay)
                    else:
                        add_protos(coll, fp, mp, replay, fname)
    ctx.cover(mixed_opset_outcomes=dict(sorted(outcome.items())), mixed_opset_operators=sorted(CHANGED))
    ctx.obligation("mixed-opset stream not degenerate: controls valid for most shapes, both orders generated",
                   stats["mixed_cases"] >= 40 and stats["mixed_controls_valid"] * 4 >= stats["mixed_controls"] * 3,
                   f"cases {stats['mixed_cases']}, controls valid {stats['mixed_controls_valid']} of {stats['mixed_controls']}, "
                   f"skipped {stats['mixed_skipped_control_invalid']}")


# ----------------------------------------------------------------------------------------------- (B) domain chains

SHAPES = ("chain", "chain-shared-domain", "diamond", "diamond-then-chain", "fan")
HOW = ("direct", "if", "loop")


def gen_topology(rng, shape, n_dom):
    """functions: list of dict(name, domain index, callees [(index, how)]); index 0.. are callable functions, main separate.
    Returns (functions, main callees)."""
    fs = []

    def fn(dom, callees):
        fs.append({"name": f"g{len(fs)}", "dom": dom, "callees": callees, "a": round(rng.uniform(0.5, 1.5), 2), "b": round(rng.uniform(-1, 1), 2)})
        return len(fs) - 1
    how = lambda: rng.choice(HOW)  # noqa: E731
    if shape in ("chain", "chain-shared-domain"):
        depth = rng.randint(3, 5)
        prev = None
        for i in range(depth):
            dom = (i % n_dom) if shape == "chain" else (i // 2) % n_dom
            prev = fn(dom, [] if prev is None else [(prev, how())])
        main = [(prev, how())]
    elif shape == "diamond":
        d = fn(3 % n_dom, [])
        b = fn(1, [(d, how())])
        c = fn(2, [(d, how())])
        a = fn(0, [(b, how()), (c, how())])
        main = [(a, how())]
    elif shape == "diamond-then-chain":
        e = fn(4 % n_dom, [])
        d = fn(3 % n_dom, [(e, how())])
        b = fn(1, [(d, how())])
        c = fn(2, [(d, how())])
        a = fn(0, [(b, how()), (c, how())])
        main = [(a, how())]
    else:
        leaves = [fn(1 + i % (n_dom - 1), []) for i in range(rng.randint(2, 4))]
        a = fn(0, [(l, how()) for l in leaves])
        main = [(a, how())]
    return fs, main


def _body(callees, names, a, b, indent="    "):
    """Statements computing r from x: t_k = callee_k(x) (direct / under if / iterated), r = (sum t_k or x) * a + b."""
    lines, terms = [], []
    for k, (ci, how) in enumerate(callees):
        t = f"t{k}"
        if how == "direct":
            lines.append(f"{indent}{t} = {names[ci]}(x)")
        elif how == "if":
            lines += [f"{indent}if op.ReduceSum(x) > 0.0:", f"{indent}    {t} = {names[ci]}(x)", f"{indent}else:",
                      f"{indent}    {t} = op.Neg({names[ci]}(x))"]
        else:
            lines += [f"{indent}{t} = x", f"{indent}for _i{k} in range(2):", f"{indent}    {t} = {names[ci]}({t})"]
        terms.append(t)
    acc = terms[0] if terms else "op.Abs(x)"
    for t in terms[1:]:
        lines.append(f"{indent}s_{t} = op.Add({acc}, {t})")
        acc = f"s_{t}"
    lines.append(f"{indent}return op.Add(op.Mul({acc}, {a!r}), {b!r})")
    return lines


def chain_source(fs, main_callees, main_direct, tag):
    doms = sorted({f["dom"] for f in fs})
    names = [f["name"] for f in fs]
    out = ["from onnxscript import script, FLOAT", "from onnxscript import opset18 as op", "from onnxscript.values import Opset", ""]
    for d in doms:
        out.append(f"D{d} = Opset('verif.{tag}.d{d}', {d + 1})")
    for f in fs:
        out += ["", f"@script(D{f['dom']})", f"def {f['name']}(x):"] + _body(f["callees"], names, f["a"], f["b"])
    callees = list(main_callees) + [(i, "direct") for i in main_direct]
    out += ["", "@script()", "def main(x: FLOAT[3]) -> FLOAT[3]:"] + _body(callees, names, 1.0, 0.0)
    return "\n".join(out) + "\n"


def np_eval(fs, callees, a, b, x):
    f32 = np.float32
    terms = []
    for (ci, how) in callees:
        g = lambda v, ci=ci: np_eval(fs, fs[ci]["callees"], fs[ci]["a"], fs[ci]["b"], v)  # noqa: E731
        if how == "direct":
            t = g(x)
        elif how == "if":
            t = g(x) if x.sum(dtype=f32) > 0 else -g(x)
        else:
            t = g(g(x))
        terms.append(t)
    acc = terms[0] if terms else np.abs(x)
    for t in terms[1:]:
        acc = (acc + t).astype(f32)
    return ((acc * f32(a)).astype(f32) + f32(b)).astype(f32)


def domain_chain_stream(ctx, wd, rng, n, coll, stats):
    outcome = collections.Counter()
    for i in range(n):
        shape = SHAPES[i % len(SHAPES)]
        n_dom = rng.randint(3, 5)
        fs, main_callees = gen_topology(rng, shape, n_dom)
        # main also calls some functions directly in a third of the programs (then their domains are used by the main graph too)
        main_direct = sorted(rng.sample(range(len(fs)), rng.randint(1, 2))) if i % 3 == 2 else []
        tag = f"c{i}"
        src = chain_source(fs, main_callees, main_direct, tag)
        n_domains = len({f["dom"] for f in fs})
        hows = sorted({h for f in fs for (_c, h) in f["callees"]} | {h for (_c, h) in main_callees})
        ctx.case(("domain-chain", shape, n_domains, tuple(hows), bool(main_direct)))
        if i < 2:
            ctx.sample({"stream": "domain-chain", "shape": shape, "source": src})
        replay = {"stream": "domain-chain", "near_miss": None, "shape": shape, "custom_domains": n_domains, "source": src}
        mod, exc = c01_run.load(wd, f"c02_dom{i}", src)
        stats["chain_programs"] += 1
        if exc is not None:
            cls = c01_run.exc_class(exc)
            outcome[f"{shape} -> refused {cls}"] += 1
            ctx.violation(f"C02:valid-program-refused:script-functions-across-custom-domains:{cls}",
                          f"a program whose script functions call script functions of other custom domains was refused: {str(exc)[:200]!r}",
                          dict(replay, traceback="".join(traceback.format_exception(exc))[-1500:]))
            continue
        stats["chain_accepted"] += 1
        problem, detail, fp, mp = judge_accepted(mod.main, src)
        if problem is not None:
            outcome[f"{shape} -> {problem}"] += 1
            ctx.violation(f"C02:domain-chain:{problem}", detail, replay)
            continue
        # every called function is in the model
        present = {(f.domain, f.name) for f in mp.functions}
        reach, todo = set(), [c for c, _h in main_callees] + list(main_direct)
        while todo:
            c = todo.pop()
            if c not in reach:
                reach.add(c)
                todo += [cc for cc, _h in fs[c]["callees"]]
        missing = [fs[c]["name"] for c in sorted(reach) if (f"verif.{tag}.d{fs[c]['dom']}", fs[c]["name"]) not in present]
        if missing:
            ctx.violation("C02:domain-chain:called-function-missing-from-model",
                          f"script functions {missing} are called (transitively) but model.functions lacks them", replay)
        add_protos(coll, None, mp, replay, "main")
        for g in fs:
            gp = getattr(mod, g["name"]).to_function_proto()
            coll.add(graphlit.function_lit(gp), graphlit.imports_lit(gp.opset_import),
                     dict(replay, function=g["name"], proto="function", nodes=len(gp.node),
                          hints={"wf": "other", "input_returned": "other", "imports": "other"}))
        # ---- onnxruntime: the model loads and computes the numpy reading
        stats["chain_models"] += 1
        try:
            sess = c01_run.ort_session(mp)
        except Exception as e:  # noqa: BLE001
            txt = str(e)
            cls = "no-opset-import-for-domain" if "No opset import for domain" in txt else "other"
            outcome[f"{shape} -> ort-load:{cls}"] += 1
            imported = sorted(o.domain for o in mp.opset_import)
            ctx.violation(f"C02:domain-chain:onnxruntime-refuses-the-model:{cls}",
                          f"onnx.checker accepts the ModelProto but onnxruntime cannot load it: {txt[:300]} (model imports {imported}; "
                          f"functions {sorted(present)})", replay)
            continue
        stats["chain_ort_loaded"] += 1
        outcome[f"{shape} -> valid"] += 1
        for x in (np.array([1.0, -2.0, 3.0], np.float32), np.array([-1.0, -2.0, 0.5], np.float32)):
            got = sess.run(None, {"x": x})[0]
            want = np_eval(fs, list(main_callees) + [(c, "direct") for c in main_direct], 1.0, 0.0, x)
            stats["chain_ort_runs"] += 1
            if not np.allclose(got, want, rtol=1e-4, atol=1e-5):
                ctx.violation("C02:domain-chain:model-computes-another-value",
                              f"x={x.tolist()}: onnxruntime {got.tolist()} vs numpy reading {want.tolist()}", replay)
                break
    ctx.cover(domain_chain_outcomes=dict(sorted(outcome.items())),
              domain_chain_rule="main -> script functions of 3..5 custom domains reached only through other script functions: chains of depth 3..5, "
                                "shared domains, diamonds, diamond + chain, fans; every inner call direct / in both branches of an if / in a loop "
                                "body; a third of the programs also call some of the functions from main (control)")
    ctx.obligation("domain-chain stream: every program accepted, its ModelProto loaded by onnxruntime and compared with the numpy reading",
                   stats["chain_programs"] > 0 and stats["chain_ort_loaded"] == stats["chain_programs"],
                   f"programs {stats['chain_programs']}, accepted {stats['chain_accepted']}, loaded {stats['chain_ort_loaded']}, runs {stats['chain_ort_runs']}")
