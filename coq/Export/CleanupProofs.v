(* Proofs about Export/Cleanup.v (C13, model 1: names). Generic in the keyword table [kw] under the
   computable side condition [kw_wf kw = true]; Props/C13.v instantiates with Gen/ExportTables.kwlist. *)
From Coq Require Import List String Ascii Bool Arith Lia DecimalString.
From Coq Require DecimalNat Decimal DecimalFacts.
Import ListNotations.
Require Import OV.Export.Cleanup.
Local Open Scope string_scope.

(* ---- small facts ------------------------------------------------------------------------------ *)
Lemma memb_In : forall s l, memb s l = true <-> In s l.
Proof.
  unfold memb. intros s l. rewrite existsb_exists. split.
  - intros [x [Hin Heq]]. apply String.eqb_eq in Heq. subst. exact Hin.
  - intros H. exists s. split; [exact H | apply String.eqb_refl].
Qed.

Lemma memb_false_In : forall s l, memb s l = false <-> ~ In s l.
Proof.
  intros s l. rewrite <- memb_In. destruct (memb s l); split; intros; congruence.
Qed.

Lemma us_not_alpha : is_alpha us = false.
Proof. reflexivity. Qed.
Lemma us_not_alnum : is_alnum us = false.
Proof. reflexivity. Qed.
Lemma us_is_us : is_us us = true.
Proof. reflexivity. Qed.

Lemma alpha_alnum : forall c, is_alpha c = true -> is_alnum c = true.
Proof. intros c H. unfold is_alnum. rewrite H. reflexivity. Qed.

Lemma rename_char_ok : forall c, is_alnum (rename_char c) || is_us (rename_char c) = true.
Proof.
  intros c. unfold rename_char. destruct (is_alnum c || is_us c) eqn:E; [exact E | reflexivity].
Qed.

Lemma rename_char_fix : forall c, is_alnum c || is_us c = true -> rename_char c = c.
Proof. intros c H. unfold rename_char. rewrite H. reflexivity. Qed.

(* a character that is renamed to a letter was that letter *)
Lemma rename_char_alpha : forall c, is_alpha (rename_char c) = true -> rename_char c = c.
Proof.
  intros c H. unfold rename_char in *. destruct (is_alnum c || is_us c); [reflexivity|].
  rewrite us_not_alpha in H. discriminate.
Qed.

Lemma sall_smap_rename : forall s, sall (fun c => is_alnum c || is_us c) (smap rename_char s) = true.
Proof. induction s as [|c r IH]; simpl; [reflexivity|]. rewrite rename_char_ok, IH. reflexivity. Qed.

Lemma smap_rename_fix : forall s, sall (fun c => is_alnum c || is_us c) s = true -> smap rename_char s = s.
Proof.
  induction s as [|c r IH]; simpl; intros H; [reflexivity|].
  apply andb_true_iff in H. destruct H as [H1 H2]. rewrite rename_char_fix by exact H1. rewrite IH by exact H2. reflexivity.
Qed.

Lemma smap_rename_alpha : forall s, sall is_alpha (smap rename_char s) = true -> smap rename_char s = s.
Proof.
  induction s as [|c r IH]; simpl; intros H; [reflexivity|].
  apply andb_true_iff in H. destruct H as [H1 H2]. rewrite rename_char_alpha by exact H1. rewrite IH by exact H2. reflexivity.
Qed.

Lemma smap_app : forall f a b, smap f (a ++ b) = smap f a ++ smap f b.
Proof. induction a as [|c r IH]; simpl; intros; [reflexivity|]. rewrite IH. reflexivity. Qed.

Lemma sall_alpha_alnum : forall s, sall is_alpha s = true -> sall (fun c => is_alnum c || is_us c) s = true.
Proof.
  induction s as [|c r IH]; simpl; intros H; [reflexivity|].
  apply andb_true_iff in H. destruct H as [H1 H2]. rewrite (alpha_alnum _ H1), IH by exact H2. reflexivity.
Qed.

(* ---- keywords ----------------------------------------------------------------------------------- *)
Section Kw.
Variable kw : list string.
Hypothesis Hkw : kw_wf kw = true.

Lemma kw_member_alpha : forall s, memb s kw = true -> s <> "" /\ sall is_alpha s = true.
Proof.
  intros s H. apply memb_In in H. unfold kw_wf in Hkw. rewrite forallb_forall in Hkw.
  specialize (Hkw s H). apply andb_true_iff in Hkw. destruct Hkw as [H1 H2]. split; [|exact H2].
  intros E. subst. simpl in H1. discriminate.
Qed.

(* (1) the result is an identifier and not a keyword, for every non-empty input *)
Theorem cleanup_valid_identifier : forall s, s <> "" -> pynameb kw (cleanup kw s) = true.
Proof.
  intros s Hne. unfold pynameb, cleanup.
  destruct (memb s kw) eqn:Hm.
  - (* keyword: r_<kw> *)
    destruct (kw_member_alpha s Hm) as [_ Hal].
    apply andb_true_iff. split.
    + simpl. apply sall_alpha_alnum. exact Hal.
    + apply negb_true_iff. destruct (memb ("r_" ++ s) kw) eqn:Hm2; [|reflexivity].
      destruct (kw_member_alpha _ Hm2) as [_ Hal2]. simpl in Hal2. discriminate.
  - destruct s as [|c r]; [congruence|].
    destruct (is_alpha c || is_us c) eqn:Hc.
    + (* first character fine: characters renamed in place *)
      apply andb_true_iff. split.
      * simpl. rewrite (rename_char_fix c).
        -- rewrite Hc. simpl. apply sall_smap_rename.
        -- apply orb_true_iff in Hc. destruct Hc as [Hc|Hc]; [rewrite (alpha_alnum _ Hc)|rewrite Hc, orb_true_r]; reflexivity.
      * apply negb_true_iff. destruct (memb (smap rename_char (String c r)) kw) eqn:Hm2; [|reflexivity].
        destruct (kw_member_alpha _ Hm2) as [_ Hal2].
        rewrite (smap_rename_alpha _ Hal2) in Hm2. congruence.
    + (* prefixed with "__" *)
      apply andb_true_iff. split.
      * change ("__" ++ String c r) with (String us (String us (String c r))).
        simpl. rewrite rename_char_ok. simpl. apply sall_smap_rename.
      * apply negb_true_iff.
        destruct (memb (smap rename_char ("__" ++ String c r)) kw) eqn:Hm2; [|reflexivity].
        destruct (kw_member_alpha _ Hm2) as [_ Hal2].
        change ("__" ++ String c r) with (String us (String us (String c r))) in Hal2.
        simpl in Hal2. discriminate.
Qed.

(* (2) usable names are left alone, hence clean-up is idempotent *)
Lemma cleanup_fixes_pynames : forall s, pynameb kw s = true -> cleanup kw s = s.
Proof.
  intros s H. unfold pynameb in H. apply andb_true_iff in H. destruct H as [Hid Hnk].
  apply negb_true_iff in Hnk. unfold cleanup. rewrite Hnk.
  destruct s as [|c r]; [reflexivity|].
  simpl in Hid. apply andb_true_iff in Hid. destruct Hid as [Hc Hr]. rewrite Hc.
  simpl. rewrite smap_rename_fix by exact Hr.
  rewrite rename_char_fix; [reflexivity|].
  apply orb_true_iff in Hc. destruct Hc as [Hc|Hc]; [rewrite (alpha_alnum _ Hc)|rewrite Hc, orb_true_r]; reflexivity.
Qed.

Theorem cleanup_idempotent : forall s, s <> "" -> cleanup kw (cleanup kw s) = cleanup kw s.
Proof. intros s H. apply cleanup_fixes_pynames. apply cleanup_valid_identifier. exact H. Qed.

Lemma cleanup_nonempty : forall s, s <> "" -> cleanup kw s <> "".
Proof.
  intros s H E. pose proof (cleanup_valid_identifier s H) as V. rewrite E in V.
  unfold pynameb in V. simpl in V. discriminate.
Qed.

(* (3) clean-up is not injective (whatever the keyword table) *)
Theorem cleanup_not_injective : exists a b, a <> b /\ a <> "" /\ b <> "" /\ cleanup kw a = cleanup kw b.
Proof.
  exists "a.b", "a_b". split; [discriminate|]. split; [discriminate|]. split; [discriminate|].
  assert (N1 : memb "a.b" kw = false).
  { destruct (memb "a.b" kw) eqn:E; [|reflexivity]. destruct (kw_member_alpha _ E) as [_ A]. simpl in A. discriminate. }
  assert (N2 : memb "a_b" kw = false).
  { destruct (memb "a_b" kw) eqn:E; [|reflexivity]. destruct (kw_member_alpha _ E) as [_ A]. simpl in A. discriminate. }
  unfold cleanup. rewrite N1, N2. reflexivity.
Qed.

Theorem cleanup_not_injective_digit : cleanup kw "1x" = cleanup kw "__1x".
Proof.
  assert (N1 : memb "1x" kw = false).
  { destruct (memb "1x" kw) eqn:E; [|reflexivity]. destruct (kw_member_alpha _ E) as [_ A]. simpl in A. discriminate. }
  assert (N2 : memb "__1x" kw = false).
  { destruct (memb "__1x" kw) eqn:E; [|reflexivity]. destruct (kw_member_alpha _ E) as [_ A]. simpl in A. discriminate. }
  unfold cleanup. rewrite N1, N2. reflexivity.
Qed.
End Kw.

(* ---- the collision checker is a decision procedure for injectivity on a list of names ---------- *)
Section Inj.
Variable f : string -> string.

Lemma nodupb_map_inj : forall l, nodupb (map f l) = true ->
  forall a b, In a l -> In b l -> f a = f b -> a = b.
Proof.
  induction l as [|x t IH]; simpl; intros H a b Ha Hb E; [contradiction|].
  apply andb_true_iff in H. destruct H as [H1 H2]. apply negb_true_iff in H1.
  apply memb_false_In in H1.
  destruct Ha as [Ha|Ha]; destruct Hb as [Hb|Hb]; subst.
  - reflexivity.
  - exfalso. apply H1. rewrite E. apply in_map. exact Hb.
  - exfalso. apply H1. rewrite <- E. apply in_map. exact Ha.
  - apply IH; assumption.
Qed.

Lemma nodupb_map_complete : forall l, nodupb l = true -> nodupb (map f l) = false ->
  exists a b, In a l /\ In b l /\ a <> b /\ f a = f b.
Proof.
  induction l as [|x t IH]; simpl; intros Hn H; [discriminate|].
  apply andb_true_iff in Hn. destruct Hn as [Hx Ht]. apply negb_true_iff in Hx. apply memb_false_In in Hx.
  apply andb_false_iff in H. destruct H as [H|H].
  - apply negb_false_iff in H. apply memb_In in H. apply in_map_iff in H. destruct H as [y [Ey Hy]].
    exists x, y. split; [left; reflexivity|]. split; [right; exact Hy|]. split; [|symmetry; exact Ey].
    intros E. subst. contradiction.
  - destruct (IH Ht H) as [a [b [Ha [Hb [Hab E]]]]].
    exists a, b. split; [right; exact Ha|]. split; [right; exact Hb|]. split; assumption.
Qed.
End Inj.

Lemma dedup_In : forall l x, In x (dedup l) <-> In x l.
Proof.
  induction l as [|y t IH]; simpl; intros x; [tauto|].
  destruct (memb y t) eqn:E.
  - rewrite IH. split; [tauto|]. intros [H|H]; [subst; apply memb_In; exact E|exact H].
  - simpl. rewrite IH. tauto.
Qed.

Lemma dedup_nodup : forall l, nodupb (dedup l) = true.
Proof.
  induction l as [|y t IH]; simpl; [reflexivity|].
  destruct (memb y t) eqn:E; [exact IH|]. simpl. rewrite IH, andb_true_r. apply negb_true_iff.
  apply memb_false_In. rewrite dedup_In. apply memb_false_In. exact E.
Qed.

Theorem collision_free_sound : forall kw names, collision_freeb kw names = true ->
  forall a b, In a names -> In b names -> cleanup kw a = cleanup kw b -> a = b.
Proof.
  intros kw names H a b Ha Hb E. unfold collision_freeb in H.
  apply (nodupb_map_inj (cleanup kw) (dedup names) H); try (apply dedup_In; assumption). exact E.
Qed.

Theorem collision_free_complete : forall kw names, collision_freeb kw names = false ->
  exists a b, In a names /\ In b names /\ a <> b /\ cleanup kw a = cleanup kw b.
Proof.
  intros kw names H. unfold collision_freeb in H.
  destruct (nodupb_map_complete (cleanup kw) (dedup names) (dedup_nodup names) H) as [a [b [Ha [Hb [Hab E]]]]].
  exists a, b. rewrite dedup_In in Ha, Hb. tauto.
Qed.

(* ---- the short-name mapper ---------------------------------------------------------------------- *)
Lemma vname_inj : forall a b, vname a = vname b -> a = b.
Proof.
  unfold vname. intros a b H. simpl in H. injection H as H.
  assert (E : Nat.to_uint a = Nat.to_uint b).
  { pose proof (NilEmpty.usu (Nat.to_uint a)) as A. pose proof (NilEmpty.usu (Nat.to_uint b)) as B.
    rewrite H in A. rewrite A in B. injection B as B. exact B. }
  apply DecimalNat.Unsigned.to_uint_inj. exact E.
Qed.

Lemma index_of_Some : forall s l i, index_of s l = Some i -> nth_error l i = Some s /\ i < List.length l.
Proof.
  induction l as [|x t IH]; simpl; intros i H; [discriminate|].
  destruct (String.eqb s x) eqn:E.
  - injection H as H. subst. apply String.eqb_eq in E. subst. simpl. split; [reflexivity|lia].
  - destruct (index_of s t) eqn:E2; simpl in H; [|discriminate]. injection H as H. subst.
    destruct (IH n eq_refl) as [A B]. simpl. split; [exact A|lia].
Qed.

Lemma index_of_None : forall s l, index_of s l = None -> ~ In s l.
Proof.
  induction l as [|x t IH]; simpl; intros H; [tauto|].
  destruct (String.eqb s x) eqn:E; [discriminate|].
  destruct (index_of s t) eqn:E2; simpl in H; [discriminate|].
  intros [A|A]; [subst; rewrite String.eqb_refl in E; discriminate|]. exact (IH eq_refl A).
Qed.

Lemma index_of_app_l : forall s l l' i, index_of s l = Some i -> index_of s (l ++ l')%list = Some i.
Proof.
  induction l as [|x t IH]; simpl; intros l' i H; [discriminate|].
  destruct (String.eqb s x); [exact H|].
  destruct (index_of s t) eqn:E; simpl in H; [|discriminate].
  rewrite (IH l' n eq_refl). exact H.
Qed.

Lemma index_of_app_new : forall s l, index_of s l = None -> index_of s (l ++ [s])%list = Some (List.length l).
Proof.
  induction l as [|x t IH]; simpl; intros H.
  - rewrite String.eqb_refl. reflexivity.
  - destruct (String.eqb s x); [discriminate|].
    destruct (index_of s t) eqn:E; simpl in H; [discriminate|]. rewrite (IH eq_refl). reflexivity.
Qed.

(* the dict only grows, at the end: the renamer is a function of the cleaned name that never changes
   once assigned *)
Definition assigned (st : list string) (c : string) (r : string) : Prop :=
  exists i, index_of c st = Some i /\ r = vname (S i).

Lemma short_rename_assigns : forall kw st name st' r,
  short_rename kw st name = (st', r) -> assigned st' (cleanup kw name) r.
Proof.
  intros kw st name st' r H. unfold short_rename in H.
  destruct (index_of (cleanup kw name) st) eqn:E; injection H as H1 H2; subst.
  - exists n. split; [exact E|reflexivity].
  - exists (List.length st). split; [apply index_of_app_new; exact E|reflexivity].
Qed.

Lemma short_rename_extends : forall kw st name st' r,
  short_rename kw st name = (st', r) -> exists ext, st' = (st ++ ext)%list.
Proof.
  intros kw st name st' r H. unfold short_rename in H.
  destruct (index_of (cleanup kw name) st); injection H as H1 H2; subst.
  - exists []. rewrite app_nil_r. reflexivity.
  - eexists. reflexivity.
Qed.

Lemma assigned_extends : forall st ext c r, assigned st c r -> assigned (st ++ ext)%list c r.
Proof. intros st ext c r [i [A B]]. exists i. split; [apply index_of_app_l; exact A|exact B]. Qed.

Lemma assigned_inj : forall st c1 c2 r, assigned st c1 r -> assigned st c2 r -> c1 = c2.
Proof.
  intros st c1 c2 r [i [A B]] [j [C D]]. subst. apply vname_inj in D. injection D as D. subst.
  apply index_of_Some in A. apply index_of_Some in C. destruct A as [A _]. destruct C as [C _].
  rewrite A in C. injection C as C. exact C.
Qed.

Lemma assigned_fun : forall st c r1 r2, assigned st c r1 -> assigned st c r2 -> r1 = r2.
Proof. intros st c r1 r2 [i [A B]] [j [C D]]. rewrite A in C. injection C as C. subst. reflexivity. Qed.

(* all results of a run are assignments of the final dict *)
Lemma short_rename_all_assigned : forall kw names st st' rs,
  short_rename_all kw st names = (st', rs) ->
  (exists ext, st' = (st ++ ext)%list) /\
  List.length rs = List.length names /\
  forall k n r, nth_error names k = Some n -> nth_error rs k = Some r -> assigned st' (cleanup kw n) r.
Proof.
  induction names as [|n t IH]; simpl; intros st st' rs H.
  - injection H as H1 H2. subst. split; [exists []; rewrite app_nil_r; reflexivity|]. split; [reflexivity|].
    intros k n r Hk. destruct k; discriminate.
  - destruct (short_rename kw st n) as [st1 r1] eqn:E1.
    destruct (short_rename_all kw st1 t) as [st2 rs2] eqn:E2. injection H as H1 H2. subst.
    destruct (IH _ _ _ E2) as [[ext2 X2] [L2 A2]].
    destruct (short_rename_extends _ _ _ _ _ E1) as [ext1 X1].
    split; [exists (ext1 ++ ext2)%list; rewrite X2, X1, app_assoc; reflexivity|].
    split; [simpl; rewrite L2; reflexivity|].
    intros k m r Hk Hr. destruct k as [|k]; simpl in Hk, Hr.
    + injection Hk as Hk. injection Hr as Hr. subst m r. rewrite X2. apply assigned_extends.
      exact (short_rename_assigns _ _ _ _ _ E1).
    + exact (A2 k m r Hk Hr).
Qed.

(* (4) with rename=True two names get the same short name exactly when their cleaned names coincide *)
Theorem short_rename_injective_on_cleaned : forall kw names st' rs,
  short_rename_all kw [] names = (st', rs) ->
  forall i j a b ra rb,
    nth_error names i = Some a -> nth_error names j = Some b ->
    nth_error rs i = Some ra -> nth_error rs j = Some rb ->
    (ra = rb <-> cleanup kw a = cleanup kw b).
Proof.
  intros kw names st' rs H i j a b ra rb Ha Hb Hra Hrb.
  destruct (short_rename_all_assigned _ _ _ _ _ H) as [_ [_ A]].
  pose proof (A i a ra Ha Hra) as A1. pose proof (A j b rb Hb Hrb) as A2.
  split; intros E.
  - subst. exact (assigned_inj _ _ _ _ A1 A2).
  - rewrite E in A1. exact (assigned_fun _ _ _ _ A1 A2).
Qed.

(* short names are usable Python names as soon as no keyword starts with 'v' followed by a digit;
   stated for the concrete shape: "v" followed by decimal digits *)
Lemma string_of_uint_digits : forall d, sall is_digit (NilEmpty.string_of_uint d) = true.
Proof. induction d; simpl; try reflexivity; exact IHd. Qed.

Lemma sall_impl : forall (p q : ascii -> bool) s, (forall c, p c = true -> q c = true) -> sall p s = true -> sall q s = true.
Proof.
  induction s as [|c r IH]; simpl; intros Hpq H; [reflexivity|].
  apply andb_true_iff in H. destruct H as [H1 H2]. rewrite (Hpq _ H1), (IH Hpq H2). reflexivity.
Qed.

Lemma to_uint_nonnil : forall k, Nat.to_uint k <> Decimal.Nil.
Proof.
  intros k E. destruct (DecimalNat.Unsigned.to_uint_surj (Nat.to_uint k)) as [n Hn].
  pose proof (DecimalNat.Unsigned.to_of (Nat.to_uint k)) as T. rewrite DecimalNat.Unsigned.of_to in T.
  rewrite E in T at 1. symmetry in T. exact (DecimalFacts.unorm_nonnil _ T).
Qed.

Theorem vname_valid : forall kw k, kw_wf kw = true -> pynameb kw (vname k) = true.
Proof.
  intros kw k Hkw. unfold pynameb. apply andb_true_iff. split.
  - unfold vname. simpl. apply (sall_impl is_digit).
    + intros c Hc. unfold is_alnum. rewrite Hc. rewrite orb_true_r. reflexivity.
    + apply string_of_uint_digits.
  - apply negb_true_iff. destruct (memb (vname k) kw) eqn:E; [|reflexivity].
    destruct (kw_member_alpha kw Hkw _ E) as [_ A]. unfold vname in A. simpl in A.
    pose proof (to_uint_nonnil k) as NN. pose proof (string_of_uint_digits (Nat.to_uint k)) as D.
    destruct (Nat.to_uint k) eqn:U; try congruence; simpl in A; discriminate.
Qed.
