(* Completeness of the executable well-formedness checker of Wf.v (C02, session 6).

   WfProofs.v proves  wf_graphb g = true -> wf_graph g  (soundness).  This file proves the converse, for graphs
   nested to any depth, hence

       wf_graphb g = true <-> wf_graph g           (wf_graphb_iff)
       wf_graphb g = false -> ~ wf_graph g         (wf_graphb_false_refutes)

   so a `false` verdict of the checker on a real proto is a proof that the proto violates the declarative rules
   (scoping / subgraph outputs produced inside / distinct outputs / single assignment across all nested graphs).

   Likewise the domains listed by `domains_graph` are exactly the domains of the nodes occurring at any depth
   (`graph_uses`, an inductive statement), so `imports_ok` is reflected against a declarative statement too. *)
From Coq Require Import List String Bool Permutation Arith Lia.
Require Import OV.Graph.Syntax OV.Graph.Wf OV.Graph.WfProofs.
Import ListNotations.
Local Open Scope list_scope.

(* ------------------------------------------------------------------ add_defs succeeds on fresh distinct names *)

Lemma add_defs_complete : forall xs seen,
  NoDup xs -> (forall x, In x xs -> ~ In x seen) -> add_defs xs seen = Some (rev xs ++ seen).
Proof.
  induction xs as [|x t IH]; intros seen Hn Hd; cbn [add_defs rev].
  - reflexivity.
  - inversion Hn; subst.
    destruct (mem x seen) eqn:E.
    + apply mem_In in E. exfalso. exact (Hd x (or_introl eq_refl) E).
    + rewrite IH; [rewrite <- app_assoc; reflexivity | assumption |].
      intros y Hy [<-|Hs]; [contradiction | exact (Hd y (or_intror Hy) Hs)].
Qed.

Lemma NoDup_app_l : forall (a b : list vname), NoDup (a ++ b) -> NoDup a.
Proof.
  induction a as [|x t IH]; intros b H; [constructor|].
  cbn in H. inversion H; subst. constructor.
  - intros Hin. apply H2. apply in_or_app. left. exact Hin.
  - eapply IH. eassumption.
Qed.

Lemma NoDup_app_r : forall (a b : list vname), NoDup (a ++ b) -> NoDup b.
Proof.
  induction a as [|x t IH]; intros b H; [exact H|].
  cbn in H. inversion H; subst. apply IH. assumption.
Qed.

(* ------------------------------------------------------------------ nesting depth of the parts *)

Lemma depth_subs_le : forall (l : list (string * graph)) k g, In (k, g) l ->
  depth_graph g <=
  (fix go (l : list (string * graph)) : nat :=
     match l with [] => 0 | (_, g) :: t => Nat.max (depth_graph g) (go t) end) l.
Proof.
  induction l as [|[k0 g0] t IH]; intros k g H; [destruct H|].
  destruct H as [E|H].
  - inversion E; subst. apply Nat.le_max_l.
  - etransitivity; [eapply IH; exact H | apply Nat.le_max_r].
Qed.

Lemma depth_nodes_le : forall (l : list node) n, In n l ->
  depth_node n <=
  (fix go (l : list node) : nat :=
     match l with [] => 0 | n :: t => Nat.max (depth_node n) (go t) end) l.
Proof.
  induction l as [|n0 t IH]; intros n H; [destruct H|].
  destruct H as [->|H].
  - apply Nat.le_max_l.
  - etransitivity; [eapply IH; exact H | apply Nat.le_max_r].
Qed.

Lemma depth_sub_of_node : forall d o i u a subs k g, In (k, g) subs ->
  S (depth_graph g) <= depth_node (Node d o i u a subs).
Proof.
  intros. cbn [depth_node]. apply le_n_S. eapply depth_subs_le. eassumption.
Qed.

Lemma depth_node_of_graph : forall ins inits nodes outs n, In n nodes ->
  S (depth_node n) <= depth_graph (Graph ins inits nodes outs).
Proof.
  intros. cbn [depth_graph]. apply le_n_S. eapply depth_nodes_le. eassumption.
Qed.

Lemma depth_graph_pos : forall g, 1 <= depth_graph g.
Proof. intros [ins inits nodes outs]. cbn [depth_graph]. lia. Qed.

(* ------------------------------------------------------------------ completeness *)

Definition disjoint_from (ds seen : list vname) : Prop := forall x, In x ds -> ~ In x seen.

Definition chk_complete (chk : list vname -> list vname -> graph -> option (list vname)) (P : graph -> Prop) : Prop :=
  forall vis seen g, P g -> scoped_graph true vis g -> NoDup (defs_graph g) -> disjoint_from (defs_graph g) seen ->
    exists seen', chk vis seen g = Some seen'.

Lemma ext_in : forall seen seen' ds x, ext seen seen' ds -> In x seen' -> In x ds \/ In x seen.
Proof. intros seen seen' ds x (E & _ & _) H. subst. apply in_app_or in H. exact H. Qed.

Lemma go_subs_complete : forall chk P, chk_ok chk -> chk_complete chk P -> forall vis l seen,
  (forall k g, In (k, g) l -> P g) ->
  scoped_subs vis l -> NoDup (defs_subs l) -> disjoint_from (defs_subs l) seen ->
  exists seen', go_subs chk vis l seen = Some seen'.
Proof.
  intros chk P Hok Hc vis. induction l as [|[k g] t IH]; intros seen HP Hs Hn Hd; cbn [go_subs].
  - eexists. reflexivity.
  - inversion Hs; subst. cbn [defs_subs] in Hn, Hd.
    destruct (Hc vis seen g) as [s1 E1].
    + eapply HP. left. reflexivity.
    + assumption.
    + eapply NoDup_app_l. eassumption.
    + intros x Hx. apply Hd. apply in_or_app. left. exact Hx.
    + rewrite E1. destruct (Hok _ _ _ _ E1) as (_ & d1 & X1 & P1).
      apply IH.
      * intros k0 g0 H0. eapply HP. right. exact H0.
      * assumption.
      * eapply NoDup_app_r. eassumption.
      * intros x Hx Hin. destruct (ext_in _ _ _ _ X1 Hin) as [Hi|Hi].
        -- eapply (nodup_app_disjoint _ _ x Hn); [|exact Hx].
           eapply Permutation_in; [exact P1 | exact Hi].
        -- eapply Hd; [|exact Hi]. apply in_or_app. right. exact Hx.
Qed.

Lemma go_nodes_complete : forall chk P, chk_ok chk -> chk_complete chk P -> forall vis ns local seen,
  (forall n, In n ns -> forall k g, In (k, g) (n_subs n) -> P g) ->
  scoped_nodes local vis ns -> NoDup (defs_nodes_all ns) -> disjoint_from (defs_nodes_all ns) seen ->
  exists r, go_nodes chk vis ns local seen = Some r.
Proof.
  intros chk P Hok Hc vis. induction ns as [|[d o nins nouts attrs subs] t IH]; intros local seen HP Hs Hn Hd; cbn [go_nodes].
  - eexists. reflexivity.
  - inversion Hs; subst. cbn [defs_nodes_all] in Hn, Hd. rewrite defs_node_eq in Hn, Hd.
    match goal with H : incl (present nins) _ |- _ => apply all_in_incl in H; rewrite H end. cbn [negb].
    pose proof (NoDup_app_l _ _ Hn) as Hn1.
    destruct (go_subs_complete chk P Hok Hc (local ++ vis) subs seen) as [s1 E1].
    + intros k g Hg. eapply (HP _ (or_introl eq_refl)). exact Hg.
    + assumption.
    + eapply NoDup_app_l. exact Hn1.
    + intros x Hx. apply Hd. apply in_or_app. left. apply in_or_app. left. exact Hx.
    + rewrite E1. destruct (go_subs_ok chk Hok _ _ _ _ E1) as (_ & d1 & X1 & P1).
      assert (Ea : add_defs nouts s1 = Some (rev nouts ++ s1)).
      { apply add_defs_complete; [eapply NoDup_app_r; exact Hn1|].
        intros x Hx Hin. destruct (ext_in _ _ _ _ X1 Hin) as [Hi|Hi].
        - eapply (nodup_app_disjoint _ _ x Hn1); [|exact Hx]. eapply Permutation_in; [exact P1 | exact Hi].
        - eapply Hd; [|exact Hi]. apply in_or_app. left. apply in_or_app. right. exact Hx. }
      rewrite Ea. apply IH.
      * intros n Hin. apply HP. right. exact Hin.
      * assumption.
      * eapply NoDup_app_r. exact Hn.
      * intros x Hx Hin. apply in_app_or in Hin. destruct Hin as [Hin|Hin].
        -- apply in_rev in Hin. eapply (nodup_app_disjoint _ _ x Hn); [|exact Hx]. apply in_or_app. right. exact Hin.
        -- destruct (ext_in _ _ _ _ X1 Hin) as [Hi|Hi].
           ++ eapply (nodup_app_disjoint _ _ x Hn); [|exact Hx]. apply in_or_app. left.
              eapply Permutation_in; [exact P1 | exact Hi].
           ++ eapply Hd; [|exact Hi]. apply in_or_app. right. exact Hx.
Qed.

Lemma check_body_complete : forall chk P, chk_ok chk -> chk_complete chk P -> forall sub vis seen g,
  (forall n, In n (g_nodes g) -> forall k sg, In (k, sg) (n_subs n) -> P sg) ->
  scoped_graph sub vis g -> NoDup (defs_graph g) -> disjoint_from (defs_graph g) seen ->
  exists seen', check_body chk sub vis seen g = Some seen'.
Proof.
  intros chk P Hok Hc sub vis seen [ins inits nodes outs] HP Hs Hn Hd. cbn [g_nodes] in HP.
  inversion Hs; subst. rewrite defs_graph_eq in Hn, Hd. cbn [check_body].
  match goal with H : NoDup inits |- _ => apply nodupb_NoDup in H; rewrite H end. cbn [negb].
  rewrite add_defs_complete;
    [| eapply NoDup_app_l; exact Hn | intros x Hx; apply Hd; apply in_or_app; left; exact Hx].
  destruct (go_nodes_complete chk P Hok Hc vis nodes (ins ++ pure_inits ins inits)
              (rev (ins ++ pure_inits ins inits) ++ seen)) as [[local s1] E1].
  - exact HP.
  - assumption.
  - eapply NoDup_app_r. exact Hn.
  - intros x Hx Hin. apply in_app_or in Hin. destruct Hin as [Hin|Hin].
    + apply in_rev in Hin. eapply (nodup_app_disjoint _ _ x Hn); [exact Hin | exact Hx].
    + eapply Hd; [|exact Hin]. apply in_or_app. right. exact Hx.
  - rewrite E1. destruct (go_nodes_sound chk Hok _ _ _ _ _ _ E1) as (_ & Hl & _).
    match goal with H : NoDup outs |- _ => apply nodupb_NoDup in H; rewrite H end. cbn [negb].
    destruct sub.
    + match goal with H : incl outs _ |- _ => apply all_in_incl in H; rewrite H end. eexists. reflexivity.
    + assert (Ea : all_in outs local = true).
      { apply all_in_incl. intros x Hx. apply Hl.
        match goal with H : incl outs _ |- _ => apply H in Hx end.
        apply in_app_or in Hx. exact Hx. }
      rewrite Ea. eexists. reflexivity.
Qed.

Lemma check_graph_complete : forall f sub vis seen g,
  depth_graph g <= f ->
  scoped_graph sub vis g -> NoDup (defs_graph g) -> disjoint_from (defs_graph g) seen ->
  exists seen', check_graph f sub vis seen g = Some seen'.
Proof.
  induction f as [|f IH]; intros sub vis seen g Hdep Hs Hn Hd.
  - pose proof (depth_graph_pos g). lia.
  - rewrite check_graph_S.
    apply (check_body_complete (check_graph f true) (fun sg => depth_graph sg <= f)).
    + intros vis0 seen0 g0 s0 H0. eapply check_graph_sound. exact H0.
    + intros vis0 seen0 g0 Hp Hs0 Hn0 Hd0. apply IH; assumption.
    + destruct g as [ins inits nodes outs]. cbn [g_nodes]. intros [d o i u a subs] Hin k sg Hsg. cbn [n_subs] in Hsg.
      pose proof (depth_sub_of_node d o i u a subs k sg Hsg).
      pose proof (depth_node_of_graph ins inits nodes outs _ Hin). lia.
    + assumption.
    + assumption.
    + assumption.
Qed.

Theorem wf_graphb_complete : forall g, wf_graph g -> wf_graphb g = true.
Proof.
  intros g [Hs Hn]. unfold wf_graphb.
  destruct (check_graph_complete (depth_graph g) false [] [] g (le_n _) Hs Hn) as [s E].
  - intros x _ [].
  - rewrite E. reflexivity.
Qed.

Theorem wf_graphb_iff : forall g, wf_graphb g = true <-> wf_graph g.
Proof. intros g. split; [apply wf_graphb_sound | apply wf_graphb_complete]. Qed.

(* a `false` verdict is a refutation of the declarative rules *)
Theorem wf_graphb_false_refutes : forall g, wf_graphb g = false -> ~ wf_graph g.
Proof. intros g H Hw. apply wf_graphb_complete in Hw. congruence. Qed.

(* ... spelled out: the scoping rules fail somewhere, or some value name is defined twice (anywhere, nested graphs included) *)
Theorem wf_graphb_false_cases : forall g, wf_graphb g = false ->
  ~ scoped_graph false [] g \/ ~ NoDup (defs_graph g).
Proof.
  intros g H.
  destruct (nodupb (defs_graph g)) eqn:E.
  - left. intros Hs. apply (wf_graphb_false_refutes g H). split; [exact Hs | apply nodupb_NoDup; exact E].
  - right. intros Hn. apply nodupb_NoDup in Hn. congruence.
Qed.

(* more fuel never changes the verdict: the checker does not depend on the depth bound it is started with *)
Theorem check_graph_fuel_irrelevant : forall g f, depth_graph g <= f ->
  (match check_graph f false [] [] g with Some _ => true | None => false end) = wf_graphb g.
Proof.
  intros g f Hf. destruct (wf_graphb g) eqn:E.
  - apply wf_graphb_sound in E. destruct E as [Hs Hn].
    destruct (check_graph_complete f false [] [] g Hf Hs Hn) as [s ->]; [intros x _ []| reflexivity].
  - destruct (check_graph f false [] [] g) as [s|] eqn:E2; [|reflexivity].
    apply check_graph_sound in E2. destruct E2 as (Sg & ds & (_ & N & _) & P).
    exfalso. apply (wf_graphb_false_refutes g E). split; [exact Sg | eapply Permutation_NoDup; eassumption].
Qed.

(* ------------------------------------------------------------------ no_input_returned / imports_ok: declarative side *)

Theorem no_input_returned_false : forall g,
  no_input_returned g = false -> exists o, In o (g_outs g) /\ In o (g_ins g).
Proof.
  intros g H. unfold no_input_returned in H.
  induction (g_outs g) as [|o t IH]; [discriminate|].
  cbn [forallb] in H. apply andb_false_iff in H. destruct H as [H|H].
  - apply negb_false_iff in H. apply mem_In in H. exists o. split; [left; reflexivity | exact H].
  - destruct (IH H) as (o' & A & B). exists o'. split; [right; exact A | exact B].
Qed.

(* the operator domain `d` is used by a node of the graph, at any nesting depth *)
Inductive node_uses : node -> string -> Prop :=
| NU_here : forall d o i u a s, node_uses (Node d o i u a s) d
| NU_sub : forall d o i u a s k g x, In (k, g) s -> graph_uses g x -> node_uses (Node d o i u a s) x
with graph_uses : graph -> string -> Prop :=
| GU : forall ins inits nodes outs n x, In n nodes -> node_uses n x -> graph_uses (Graph ins inits nodes outs) x.

Fixpoint domains_subs (l : list (string * graph)) : list string :=
  match l with [] => [] | (_, g) :: t => domains_graph g ++ domains_subs t end.
Fixpoint domains_nodes (l : list node) : list string :=
  match l with [] => [] | n :: t => domains_node n ++ domains_nodes t end.

Lemma domains_node_eq : forall d o i u a s, domains_node (Node d o i u a s) = d :: domains_subs s.
Proof. reflexivity. Qed.
Lemma domains_graph_eq : forall ins inits nodes outs, domains_graph (Graph ins inits nodes outs) = domains_nodes nodes.
Proof. reflexivity. Qed.

Lemma in_domains_subs : forall l x, In x (domains_subs l) <-> exists k g, In (k, g) l /\ In x (domains_graph g).
Proof.
  induction l as [|[k g] t IH]; intros x; cbn [domains_subs].
  - split; [intros [] | intros (k & g & [] & _)].
  - rewrite in_app_iff, IH. split.
    + intros [H|(k' & g' & A & B)]; [exists k, g; split; [left; reflexivity | exact H] | exists k', g'; split; [right; exact A | exact B]].
    + intros (k' & g' & [E|A] & B); [inversion E; subst; left; exact B | right; exists k', g'; split; assumption].
Qed.

Lemma in_domains_nodes : forall l x, In x (domains_nodes l) <-> exists n, In n l /\ In x (domains_node n).
Proof.
  induction l as [|n t IH]; intros x; cbn [domains_nodes].
  - split; [intros [] | intros (n & [] & _)].
  - rewrite in_app_iff, IH. split.
    + intros [H|(n' & A & B)]; [exists n; split; [left; reflexivity | exact H] | exists n'; split; [right; exact A | exact B]].
    + intros (n' & [<-|A] & B); [left; exact B | right; exists n'; split; assumption].
Qed.

Lemma domains_graph_uses_fuel : forall f g x, depth_graph g <= f -> (In x (domains_graph g) <-> graph_uses g x).
Proof.
  induction f as [|f IH]; intros g x Hf; [pose proof (depth_graph_pos g); lia|].
  destruct g as [ins inits nodes outs]. rewrite domains_graph_eq, in_domains_nodes.
  assert (Hnode : forall n, In n nodes -> (In x (domains_node n) <-> node_uses n x)).
  { intros [d o i u a s] Hin. rewrite domains_node_eq. cbn [In]. rewrite in_domains_subs.
    assert (Hsub : forall k g, In (k, g) s -> (In x (domains_graph g) <-> graph_uses g x)).
    { intros k g Hg. apply IH.
      pose proof (depth_sub_of_node d o i u a s k g Hg).
      pose proof (depth_node_of_graph ins inits nodes outs _ Hin). lia. }
    split.
    - intros [<-|(k & g & A & B)]; [constructor | eapply NU_sub; [exact A | apply (Hsub k g A); exact B]].
    - intros H. inversion H; subst; [left; reflexivity|].
      right. eexists _, _. split; [eassumption|]. eapply Hsub; eassumption. }
  split.
  - intros (n & A & B). econstructor; [exact A | apply Hnode; assumption].
  - intros H. inversion H; subst. eexists. split; [eassumption|]. apply Hnode; assumption.
Qed.

Theorem domains_graph_uses : forall g x, In x (domains_graph g) <-> graph_uses g x.
Proof. intros g x. apply (domains_graph_uses_fuel (depth_graph g)). apply le_n. Qed.

(* imports_ok against the declarative statement: the import list names no domain twice, and every domain used by a
   node at any nesting depth is imported *)
Theorem imports_ok_declarative : forall imports g,
  imports_ok imports g = true <-> (NoDup imports /\ forall d, graph_uses g d -> In d imports).
Proof.
  intros imports g. rewrite imports_ok_spec. split; intros [H1 H2]; (split; [exact H1|]).
  - intros d Hd. apply H2. apply domains_graph_uses. exact Hd.
  - intros d Hd. apply H2. apply domains_graph_uses. exact Hd.
Qed.

Lemma forallb_false_ex : forall (A : Type) (f : A -> bool) l, forallb f l = false -> exists x, In x l /\ f x = false.
Proof.
  induction l as [|a t IH]; intros H; [discriminate|].
  cbn [forallb] in H. apply andb_false_iff in H. destruct H as [H|H].
  - exists a. split; [left; reflexivity | exact H].
  - destruct (IH H) as (x & A1 & B1). exists x. split; [right; exact A1 | exact B1].
Qed.

Theorem imports_ok_false : forall imports g,
  imports_ok imports g = false -> ~ NoDup imports \/ exists d, graph_uses g d /\ ~ In d imports.
Proof.
  intros imports g H. unfold imports_ok in H. apply andb_false_iff in H. destruct H as [H|H].
  - left. intros Hn. apply nodupb_NoDup in Hn. congruence.
  - right. unfold subset in H. apply forallb_false_ex in H. destruct H as (d & A1 & B1).
    exists d. split; [apply domains_graph_uses; exact A1 | apply mem_false_not_In; exact B1].
Qed.
