(* C19 proofs: GELU patterns are the documented functions of Gelu / FastGelu / BiasGelu in every field. *)
From Coq Require Import List Field Ring Bool Arith ZArith Lia.
Require Import OV.Fusion.Field OV.Fusion.Gelu.
Import ListNotations.

Section Laws.
  Variable F : Type.
  Variable o : fops F.
  Hypothesis Fth : is_field o.
  Variables erf tanh : F -> F.
  Variables half sqrt2 s2pi k : F.
  Add Field FF : (Fth : field_theory (f0 o) (f1 o) (fadd o) (fmul o) (fsub o) (fopp o) (fdiv o) (finv o) (@eq F)).
  Notation "x + y" := (fadd o x y).
  Notation "x * y" := (fmul o x y).

  Theorem gelu_erf_identity : forall x, gelu_erf_pattern F o erf half sqrt2 x = gelu_spec F o erf half sqrt2 x.
  Proof. intros; unfold gelu_erf_pattern, gelu_spec; ring. Qed.

  Theorem erf_gelu_identity : forall x,
    erf_gelu_pattern_1 F o erf half sqrt2 x = gelu_spec F o erf half sqrt2 x
    /\ erf_gelu_pattern_2 F o erf half sqrt2 x = gelu_spec F o erf half sqrt2 x.
  Proof. intros; unfold erf_gelu_pattern_1, erf_gelu_pattern_2, gelu_spec; split; ring. Qed.

  Theorem gelu_tanh_identity : forall x,
    gelu_tanh_pattern F o tanh half s2pi k x = fastgelu_spec F o tanh half s2pi k x.
  Proof. intros; unfold gelu_tanh_pattern, fastgelu_spec; ring. Qed.

  (* the documented FastGelu formula and the form evaluated by the kernel agree when C = k * B, B = s2pi *)
  Theorem fastgelu_kernel_form : forall C x, C = k * s2pi ->
    fastgelu_spec F o tanh half s2pi k x = fastgelu_kernel F o tanh half s2pi C x.
  Proof.
    intros C x ->. unfold fastgelu_spec, fastgelu_kernel.
    replace (s2pi * (x + k * pow o x 3)) with (x * (k * s2pi * x * x + s2pi)) by (simpl; ring).
    ring.
  Qed.

  (* BiasGelu: when the bias length equals the row length (the last dimension) the two agree ... *)
  Theorem bias_gelu_identity : forall row bias, length row = length bias ->
    bias_gelu_pattern F o erf half sqrt2 row bias = bias_gelu_fused F o erf half sqrt2 row bias.
  Proof.
    intros row bias H. unfold bias_gelu_pattern, bias_gelu_fused, badd.
    rewrite H, Nat.eqb_refl. reflexivity.
  Qed.

  (* ... which `check` now guarantees: bias 1-D of length b, input of static last dimension b *)
  Theorem bias_gelu_check_sufficient : forall a (row bias : list F) (lead : list Z),
    bias_gelu_check a (Some [Z.of_nat (length bias)]) (Some (lead ++ [Z.of_nat (length row)])) = true ->
    bias_gelu_pattern F o erf half sqrt2 row bias = bias_gelu_fused F o erf half sqrt2 row bias.
  Proof.
    intros a row bias lead H. apply bias_gelu_identity.
    unfold bias_gelu_check in H. apply andb_prop in H. destruct H as [_ H].
    rewrite rev_app_distr in H. simpl in H. apply Z.eqb_eq in H. lia.
  Qed.

  (* ... and which the check before the fix (bias has rank 1) did not: a row of length 1 (or a bias of length 1) is a
     valid broadcasting Add that the fused operator rejects. *)
  Theorem bias_gelu_check_old_insufficient_refuted :
    bias_gelu_check_old ApproxAbsent (Some [2%Z]) = true /\
    exists row bias : list F, length bias = 2 /\
      bias_gelu_pattern F o erf half sqrt2 row bias <> None /\ bias_gelu_fused F o erf half sqrt2 row bias = None.
  Proof.
    split; [reflexivity|].
    exists [f0 o], [f0 o; f0 o]. split; [reflexivity|]. split; [discriminate | reflexivity].
  Qed.

  (* whenever the fused operator accepts, it returns what the pattern returns (no silent change of value) *)
  Theorem bias_gelu_fused_refines : forall row bias y,
    bias_gelu_fused F o erf half sqrt2 row bias = Some y -> bias_gelu_pattern F o erf half sqrt2 row bias = Some y.
  Proof.
    intros row bias y. unfold bias_gelu_fused, bias_gelu_pattern, badd.
    destruct (Nat.eqb (length row) (length bias)); [auto | discriminate].
  Qed.
End Laws.
