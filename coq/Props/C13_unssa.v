(* C13 property theorems (undoing SSA for Loop): statements only, each closed by `exact`.
   `export_for` / `export_while` are the assignment programs emitted by _translate_loop (Export/Unssa.v);
   `onnx_for` / `onnx_while` the ONNX Loop semantics without scan outputs.  Everything about the
   translated body is a hypothesis (body_spec), as are the naming side conditions that ONNX single
   assignment together with an injective renaming (C13_collision_free_sound) provide.
   Not covered: the "for + if not cond: break" form, scan outputs, the If translation, and the text of
   the body itself (observed through execution by the harness). *)
From Coq Require Import List String.
Import ListNotations.
Require Import OV.Export.Unssa OV.Export.UnssaProofs.
Local Open Scope string_scope.

(* counted loop: after the emitted fragment the node outputs hold the n-fold iterate of the body *)
Theorem C13_counted_loop_unssa_sound :
  forall (V : Type) (of_nat : nat -> V) (L : loop_names) (body : env V -> option (env V))
         (Ffor : nat -> list V -> option (list V)) (Inv : env V -> Prop),
  (forall e e', Inv e -> (forall x, ~ In x (ivar L :: formal_ins L) -> e' x = e x) -> Inv e') ->
  (forall i e vs vs', Inv e -> lookups V (formal_ins L) e = Some vs -> Ffor i vs = Some vs' ->
     exists e', body (upd V e (ivar L) (of_nat i)) = Some e' /\ lookups V (formal_outs L) e' = Some vs' /\ Inv e') ->
  NoDup (formal_ins L) ->
  (forall y, In y (formal_outs L) -> ~ In y (formal_ins L)) ->
  List.length (formal_ins L) = List.length (formal_outs L) ->
  forall n e vs0 vsN,
  Inv e ->
  lookups V (actual_ins L) e = Some vs0 ->
  (forall a, In a (actual_ins L) -> ~ In a (formal_ins L)) ->
  List.length (formal_ins L) = List.length (actual_ins L) ->
  NoDup (actual_outs L) ->
  (forall y, In y (formal_ins L) -> ~ In y (actual_outs L)) ->
  List.length (actual_outs L) = List.length (formal_ins L) ->
  onnx_for V Ffor n 0 vs0 = Some vsN ->
  exists e', export_for V of_nat L body n e = Some e' /\ lookups V (actual_outs L) e' = Some vsN.
Proof. exact export_for_sound. Qed.
Print Assumptions C13_counted_loop_unssa_sound.

(* conditional loop: same for "while cond_in:", for every fuel that suffices for the ONNX loop *)
Theorem C13_conditional_loop_unssa_sound :
  forall (V : Type) (truth : V -> bool) (L : loop_names) (body : env V -> option (env V))
         (Fwhile : V -> list V -> option (V * list V)) (Inv : env V -> Prop),
  (forall e e', Inv e -> (forall x, ~ In x (cond_in L :: formal_ins L) -> e' x = e x) -> Inv e') ->
  (forall e c vs c' vs', Inv e -> e (cond_in L) = Some c -> lookups V (formal_ins L) e = Some vs ->
     Fwhile c vs = Some (c', vs') ->
     exists e', body e = Some e' /\ e' (cond_out L) = Some c' /\ lookups V (formal_outs L) e' = Some vs' /\ Inv e') ->
  NoDup (formal_ins L) ->
  (forall y, In y (formal_outs L) -> ~ In y (formal_ins L)) ->
  List.length (formal_ins L) = List.length (formal_outs L) ->
  ~ In (cond_in L) (formal_ins L) ->
  ~ In (cond_in L) (formal_outs L) ->
  forall actual_cond fuel e c0 vs0 vsN,
  Inv e ->
  e actual_cond = Some c0 ->
  lookups V (actual_ins L) e = Some vs0 ->
  ~ In (cond_in L) (actual_ins L) ->
  (forall a, In a (actual_ins L) -> ~ In a (formal_ins L)) ->
  List.length (formal_ins L) = List.length (actual_ins L) ->
  NoDup (actual_outs L) ->
  (forall y, In y (formal_ins L) -> ~ In y (actual_outs L)) ->
  List.length (actual_outs L) = List.length (formal_ins L) ->
  onnx_while V truth Fwhile fuel c0 vs0 = Some vsN ->
  exists e', export_while V truth L body actual_cond fuel e = Some e' /\ lookups V (actual_outs L) e' = Some vsN.
Proof. exact export_while_sound. Qed.
Print Assumptions C13_conditional_loop_unssa_sound.

(* the hypotheses are satisfiable on a non-trivial instance (s := s + w three times, w read from outside) *)
Example C13_counted_loop_instance :
  exists e', export_for nat (fun i => i) ex_names ex_body 3 ex_env0 = Some e' /\ lookups nat ["r"] e' = Some [16].
Proof. exact export_for_instance. Qed.

(* without "no body output is a body input" the statement is false: a body returning its two inputs swapped
   gives (2,2) where ONNX gives (2,1) -- replayed on the real exporter by the harness
   (finding C13:loop:body-output-is-body-input:sequential-assignment) *)
Theorem C13_loop_swap_refuted :
  exists e', export_for nat (fun i => i) swap_names swap_body 1 swap_env0 = Some e' /\
             lookups nat (actual_outs swap_names) e' = Some [2; 2] /\
             onnx_for nat swap_F 1 0 [1; 2] = Some [2; 1].
Proof. exact export_for_swap_refuted. Qed.
Print Assumptions C13_loop_swap_refuted.
