(* Model of onnxscript/rewriter/rules/common/_fuse_hardswish.py (C05) over the rationals
   (every finite float is a rational, so the identities cover all non-NaN finite inputs up to rounding):
   HardSwishFusion                 Clip(x + bias, cmin, cmax) * x / divisor  ->  HardSwish(x)
   HardSigmoidFusion               Clip(x + bias, cmin, cmax) / divisor      ->  HardSigmoid(x; alpha = 1/6, beta = 1/2)
   HardSwishFusionFromHardSigmoid  HardSigmoid(x; alpha, beta) * x            ->  HardSwish(x)
   No proofs in this file. *)
From Coq Require Import ZArith QArith Qabs List Bool.
Import ListNotations.
Local Open Scope Q_scope.

Definition qmax (a b : Q) : Q := if Qle_bool a b then b else a.
Definition qmin (a b : Q) : Q := if Qle_bool a b then a else b.
(* ONNX Clip: min(max(x, lo), hi) *)
Definition clip (x lo hi : Q) : Q := qmin (qmax x lo) hi.

(* ONNX HardSigmoid / HardSwish *)
Definition hardsigmoid (alpha beta x : Q) : Q := qmax 0 (qmin 1 (alpha * x + beta)).
Definition hardswish (x : Q) : Q := x * hardsigmoid (1 # 6) (1 # 2) x.

(* the matched sub-graphs with the four constants as they are in the host *)
Definition host_hardswish (bias cmin cmax dv x : Q) : Q := clip (x + bias) cmin cmax * x / dv.
Definition host_hardsigmoid (bias cmin cmax dv x : Q) : Q := clip (x + bias) cmin cmax / dv.

(* math.isclose(a, e, rel_tol=rtol) with abs_tol = 0 *)
Definition isclose (a e rtol : Q) : bool := Qle_bool (Qabs (a - e)) (rtol * qmax (Qabs a) (Qabs e)).
(* numpy.isclose(a, e): |a - e| <= atol + rtol * |e| with rtol = 1e-5, atol = 1e-8 *)
Definition np_isclose (a e : Q) : bool := Qle_bool (Qabs (a - e)) ((1 # 100000000) + (1 # 100000) * Qabs e).

Record hs_consts := {
  c_bias : Q; c_min : Q; c_max : Q; c_div : Q;       (* values of the one-element constants *)
  r_bias : nat; r_div : nat;                          (* their ranks (Clip's min/max do not influence the output shape) *)
  x_rank : nat;
  all_const_singletons : bool                         (* each operand is a constant with exactly one element *)
}.

Definition rtol4 : Q := 1 # 10000.

(* _HardSigmoidFusionBase.check as read: is_singleton_value(v, target, rtol=1e-4), any rank *)
Definition hs_check_impl (c : hs_consts) : bool :=
  all_const_singletons c &&
  isclose (c_min c) 0 rtol4 && isclose (c_max c) 6 rtol4 && isclose (c_bias c) 3 rtol4 && isclose (c_div c) 6 rtol4.

(* repaired: exact constants and no rank growth through broadcasting *)
Definition hs_check_fixed (c : hs_consts) : bool :=
  all_const_singletons c &&
  Qeq_bool (c_min c) 0 && Qeq_bool (c_max c) 6 && Qeq_bool (c_bias c) 3 && Qeq_bool (c_div c) 6 &&
  (r_bias c <=? x_rank c)%nat && (r_div c <=? x_rank c)%nat.

(* rank of the host's output (numpy-style broadcasting of x with all-ones shapes) vs rank of HardSwish(x) = rank x *)
Definition host_rank (c : hs_consts) : nat := Nat.max (Nat.max (x_rank c) (r_bias c)) (r_div c).

(* HardSwishFusionFromHardSigmoid.check *)
Definition from_sigmoid_check (alpha beta : Q) : bool := np_isclose alpha (1 # 6) && np_isclose beta (1 # 2).

(* ---------------------------------------------------------------- correspondence helpers *)
Fixpoint idx_false {A} (f : A -> bool) (i : nat) (l : list A) : list nat :=
  match l with [] => [] | c :: t => (if f c then [] else [i]) ++ idx_false f (S i) t end.
Definition hs_case := (hs_consts * bool)%type.       (* observed: fired? *)
Definition hs_dis (fixed : bool) (cs : list hs_case) : list nat :=
  idx_false (fun '(c, obs) => Bool.eqb ((if fixed then hs_check_fixed else hs_check_impl) c) obs) 0 cs.
Definition fs_case := (Q * Q * bool)%type.
(* repaired HardSwishFusionFromHardSigmoid.check (proposed_fixes/C05_hardswish_from_hardsigmoid_exact_alpha.diff):
   alpha is exactly the float32 nearest to 1/6 (= 11184811 * 2^-26, the alpha of the HardSwish kernel), beta exactly 1/2 *)
Definition f32_sixth : Q := 11184811 # 67108864.
Definition from_sigmoid_check_exact (alpha beta : Q) : bool := Qeq_bool alpha f32_sixth && Qeq_bool beta (1 # 2).
Definition fs_dis (fixed : bool) (cs : list fs_case) : list nat :=
  idx_false (fun '(a, b, obs) => Bool.eqb ((if fixed then from_sigmoid_check_exact else from_sigmoid_check) a b) obs) 0 cs.
