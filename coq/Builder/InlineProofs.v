(* Proofs about Model D (Inline.v): inlining a function computes what its call node computes.

   The core is `eval_graph_rel`: evaluating the body as the call sees it (`omit_node`: no renaming) in an
   environment e1 and evaluating its clone (`clone_node`: definitions renamed, free names substituted
   through the value map, through nested If / Loop subgraphs with outer-scope capture) in an environment
   e2 give the same values, provided the two environments are related through the value map (`inv`) and
   the executable side conditions `ok_node` / `ok_graph` hold.  Attribute substitution is the same
   function on both sides. *)
From Coq Require Import String Ascii List Bool Arith ZArith Lia.
Require Import OV.Graph.Syntax OV.Graph.Sem OV.Graph.Names OV.Graph.SemProofs.
Require Import OV.Builder.Strings OV.Builder.StringsProofs OV.Builder.Naming OV.Builder.NamingProofs OV.Builder.Inline.
Import ListNotations.
Local Open Scope list_scope.

(* ------------------------------------------------------------------ lists of names *)
Lemma mem_In : forall x l, mem x l = true <-> In x l.
Proof.
  intros x l. unfold mem. rewrite existsb_exists. split.
  - intros [y [Hy E]]. apply String.eqb_eq in E. subst. exact Hy.
  - intro H. exists x. split; [exact H|apply String.eqb_refl].
Qed.

Lemma mem_false : forall x l, mem x l = false <-> ~ In x l.
Proof.
  intros x l. split.
  - intros H Hin. apply mem_In in Hin. congruence.
  - intro H. destruct (mem x l) eqn:E; [|reflexivity]. apply mem_In in E. contradiction.
Qed.

Lemma nodupb_NoDup : forall l, nodupb l = true -> NoDup l.
Proof.
  induction l as [|x t IH]; cbn; intro H; [constructor|].
  apply andb_true_iff in H as [H1 H2]. apply negb_true_iff in H1. apply mem_false in H1.
  constructor; auto.
Qed.

Lemma in_dec_str : forall (x : string) l, {In x l} + {~ In x l}.
Proof. intros. apply in_dec. apply string_dec. Qed.

(* ------------------------------------------------------------------ the value map *)
Lemma resolve_defmap_in : forall r outs m x, In x outs -> resolve (defmap r outs ++ m) x = Some (r x).
Proof.
  intros r outs m x. unfold resolve. induction outs as [|o t IH]; cbn; [intros []|].
  intro H. destruct (String.eqb x o) eqn:E.
  - apply String.eqb_eq in E. subst. reflexivity.
  - apply IH. destruct H as [H|H]; [subst; rewrite String.eqb_refl in E; discriminate|exact H].
Qed.

Lemma resolve_defmap_notin : forall r outs m x, ~ In x outs -> resolve (defmap r outs ++ m) x = resolve m x.
Proof.
  intros r outs m x. unfold resolve. induction outs as [|o t IH]; cbn; [reflexivity|].
  intro H. destruct (String.eqb x o) eqn:E.
  - apply String.eqb_eq in E. subst. exfalso. apply H. now left.
  - apply IH. intro Hin. apply H. now right.
Qed.

Lemma map_same : forall l, map same l = l.
Proof. induction l; cbn; unfold same in *; congruence. Qed.

Section Rel.
  Variable V : Type.
  Variable sem : string -> string -> list (string * attrv) -> list (option V) -> option (list V).
  Variable truth : V -> option bool.
  Variable trip : V -> option nat.
  Variable of_nat : nat -> V.
  Variable of_bool : bool -> V.
  Variable limit : nat.

  Notation env := (list (vname * V)).
  Notation eval_node := (eval_node V sem truth trip of_nat of_bool limit).
  Notation run := (run V sem truth trip of_nat of_bool limit).
  Notation eval_body := (eval_body V sem truth trip of_nat of_bool limit).
  Notation eval_graph := (eval_graph V sem truth trip of_nat of_bool limit).
  Notation loop_iter := (loop_iter V truth of_nat of_bool).
  Notation call_sem := (call_sem V sem truth trip of_nat of_bool limit).
  Notation agree_except := (agree_except V).

  (* the call-side environment e1 and the inline-side environment e2 are related through the value map
     on the visible names: a formal without value resolves to "omitted", any other visible name to a name
     bound to the same value *)
  Definition inv (vis om : list vname) (m : vmap) (e1 e2 : env) : Prop :=
    forall x, In x vis ->
      if mem x om then resolve m x = None
      else exists y, resolve m x = Some y /\ lookup e1 x = lookup e2 y.

  Lemma inv_lookup_opts vis om m e1 e2 ins :
    inv vis om m e1 e2 -> (forall x, In x (present ins) -> In x vis) ->
    lookup_opts e1 (map (omit_in om) ins) = lookup_opts e2 (map (clone_in m) ins).
  Proof.
    intros I. induction ins as [|[x|] t IH]; intro S; cbn; [reflexivity| |].
    - pose proof (I x (S x (or_introl eq_refl))) as Hx.
      assert (St : forall z, In z (present t) -> In z vis) by (intros z Hz; apply S; now right).
      destruct (mem x om).
      + rewrite Hx. cbn. now rewrite IH.
      + destruct Hx as [y [Hy El]]. rewrite Hy. cbn. rewrite El. now rewrite IH.
    - now rewrite IH.
  Qed.

  Lemma inv_lookups_present vis om m e1 e2 ins :
    inv vis om m e1 e2 -> (forall x, In x (present ins) -> In x vis) ->
    lookups e1 (present (map (omit_in om) ins)) = lookups e2 (present (map (clone_in m) ins)).
  Proof.
    intros I. induction ins as [|[x|] t IH]; intro S; cbn; [reflexivity| |].
    - pose proof (I x (S x (or_introl eq_refl))) as Hx.
      assert (St : forall z, In z (present t) -> In z vis) by (intros z Hz; apply S; now right).
      destruct (mem x om).
      + rewrite Hx. now apply IH.
      + destruct Hx as [y [Hy El]]. rewrite Hy. cbn. rewrite El. now rewrite IH.
    - now apply IH.
  Qed.

  Lemma inv_lookups vis om m e1 e2 outs :
    inv vis om m e1 e2 -> (forall x, In x outs -> In x vis /\ mem x om = false) ->
    lookups e1 outs = lookups e2 (map (clone_out m) outs).
  Proof.
    intros I. induction outs as [|x t IH]; intro S; cbn; [reflexivity|].
    destruct (S x (or_introl eq_refl)) as [Hv Ho]. pose proof (I x Hv) as Hx. rewrite Ho in Hx.
    destruct Hx as [y [Hy El]]. unfold clone_out at 1. rewrite Hy, El.
    rewrite IH; [reflexivity|]. intros z Hz. apply S. now right.
  Qed.

  (* binding the same values to names and to their injectively renamed names *)
  Lemma bind_rel (r : vname -> vname) : forall outs vs (e1 e2 : env), NoDup (map r outs) ->
    match bind outs vs e1, bind (map r outs) vs e2 with
    | Some a, Some b => (forall x, In x outs -> lookup a x = lookup b (r x))
                        /\ (forall y, ~ In y (map r outs) -> lookup b y = lookup e2 y)
                        /\ (forall x, ~ In x outs -> lookup a x = lookup e1 x)
    | None, None => True
    | _, _ => False
    end.
  Proof.
    induction outs as [|x t IH]; intros [|v vt] e1 e2 N; cbn; auto.
    - repeat split; auto. intros x [].
    - inversion N as [|? ? Nx Nt]; subst. specialize (IH vt e1 e2 Nt).
      destruct (bind t vt e1) as [a|], (bind (map r t) vt e2) as [b|]; cbn; auto.
      destruct IH as (A & B & C). repeat split.
      + intros z [Hz|Hz].
        * subst. now rewrite !String.eqb_refl.
        * destruct (String.eqb z x) eqn:E.
          -- apply String.eqb_eq in E. subst. now rewrite String.eqb_refl.
          -- assert (E2 : String.eqb (r z) (r x) = false).
             { apply String.eqb_neq. intro Q. apply Nx. rewrite <- Q. now apply in_map. }
             rewrite E2. now apply A.
      + intros y Hy. assert (E : String.eqb y (r x) = false).
        { apply String.eqb_neq. intro Q. apply Hy. now left. }
        rewrite E. apply B. intro Q. apply Hy. now right.
      + intros z Hz. assert (E : String.eqb z x = false).
        { apply String.eqb_neq. intro Q. apply Hz. now left. }
        rewrite E. apply C. intro Q. apply Hz. now right.
  Qed.

  Lemma img_free_spec vis m y x y' :
    img_free vis m y = true -> In x vis -> resolve m x = Some y' -> y' <> y.
  Proof.
    unfold img_free. rewrite forallb_forall. intros H Hx R E. specialize (H x Hx). rewrite R in H.
    subst. rewrite String.eqb_refl in H. discriminate.
  Qed.

  (* one definition step keeps the invariant *)
  Lemma bind_inv (r : vname -> vname) vis om m e1 e2 outs vs :
    inv vis om m e1 e2 ->
    nodupb (map r outs) = true ->
    forallb (img_free vis m) (map r outs) = true ->
    forallb (fun o => negb (mem o om)) outs = true ->
    match bind outs vs e1, bind (map r outs) vs e2 with
    | Some a, Some b => inv (outs ++ vis) om (defmap r outs ++ m) a b
    | None, None => True
    | _, _ => False
    end.
  Proof.
    intros I N F O. apply nodupb_NoDup in N. pose proof (bind_rel r outs vs e1 e2 N) as H.
    destruct (bind outs vs e1) as [a|], (bind (map r outs) vs e2) as [b|]; auto.
    destruct H as (A & B & C). intros x Hx.
    destruct (in_dec_str x outs) as [Hin|Hout].
    - rewrite forallb_forall in O. specialize (O x Hin). apply negb_true_iff in O. rewrite O.
      exists (r x). split; [now apply resolve_defmap_in|now apply A].
    - apply in_app_or in Hx. destruct Hx as [Hx|Hx]; [contradiction|].
      rewrite (resolve_defmap_notin r outs m x Hout). specialize (I x Hx).
      destruct (mem x om); [exact I|]. destruct I as [y [Hy El]]. exists y. split; [exact Hy|].
      rewrite (C x Hout), El. symmetry. apply B. intro Q.
      rewrite forallb_forall in F. specialize (F y Q). exact (img_free_spec vis m y x y F Hx Hy eq_refl).
  Qed.

  (* ---------------------------------------------------------------- subgraph tables *)
  Lemma find_sub_map (F : graph -> graph) name subs :
    find_sub name (map (fun kg : string * graph => let '(k, g) := kg in (k, F g)) subs)
    = option_map F (find_sub name subs).
  Proof.
    induction subs as [|[k g] t IH]; cbn; [reflexivity|]. destruct (String.eqb k name); [reflexivity|exact IH].
  Qed.

  Lemma find_sub_forallb (P : graph -> bool) name subs g :
    forallb (fun kg : string * graph => let '(_, g) := kg in P g) subs = true ->
    find_sub name subs = Some g -> P g = true.
  Proof.
    induction subs as [|[k h] t IH]; cbn; [discriminate|]. intros H E.
    apply andb_true_iff in H as [H1 H2]. destruct (String.eqb k name); [inversion E; subst; exact H1|auto].
  Qed.

  Lemma loop_iter_rel ev (e1 e2 : env) b1 b2 bounded :
    (forall args, ev e1 b1 args = ev e2 b2 args) ->
    forall k i c st, loop_iter ev e1 b1 bounded k i c st = loop_iter ev e2 b2 bounded k i c st.
  Proof.
    intros H. induction k as [|k IH]; intros i c st; cbn; [reflexivity|].
    destruct (negb c); [reflexivity|]. rewrite H.
    destruct (ev e2 b2 (of_nat i :: of_bool c :: st)) as [[|cv st']|]; try reflexivity.
    destruct (Nat.eqb _ _); [|reflexivity]. destruct (truth cv); [|reflexivity]. apply IH.
  Qed.

  Fixpoint vis_after (vis : list vname) (ns : list node) : list vname :=
    match ns with [] => vis | n :: t => vis_after (n_outs n ++ vis) t end.

  Lemma vis_after_in : forall ns vis x, In x (defs_nodes ns) \/ In x vis -> In x (vis_after vis ns).
  Proof.
    induction ns as [|n t IH]; intros vis x; cbn.
    - intros [[]|H]; exact H.
    - intro H. apply IH. unfold defs_nodes in H. cbn in H.
      destruct H as [H|H]; [apply in_app_or in H; destruct H as [H|H]|].
      + right. apply in_or_app. now left.
      + now left.
      + right. apply in_or_app. now right.
  Qed.

  Section Level.
    Variable om : list vname.
    Variable am : list (string * attrv).
    Variable rn : vname -> vname.
    Variable ri : vname -> vname.
    Variable ev : env -> graph -> list V -> option (list V).
    (* subgraphs one level down evaluate alike *)
    Hypothesis Hev : forall g vis m e1 e2 args, inv vis om m e1 e2 -> ok_graph ri rn om vis m g = true ->
      ev e1 (omit_graph om am g) args = ev e2 (clone_graph ri rn am m g) args.

    Lemma eval_node_rel rh vis m e1 e2 n :
      inv vis om m e1 e2 -> ok_node ri rh rn om vis m n = true ->
      match eval_node ev e1 (omit_node om am n), eval_node ev e2 (clone_node ri rh rn am m n) with
      | Some a, Some b => inv (n_outs n ++ vis) om (defmap rh (n_outs n) ++ m) a b
      | None, None => True
      | _, _ => False
      end.
    Proof.
      intros I K. destruct n as [d o ins outs attrs subs].
      cbn [omit_node clone_node ok_node n_outs] in *.
      apply andb_true_iff in K as [K Ks]. apply andb_true_iff in K as [K Ko].
      apply andb_true_iff in K as [K Kf]. apply andb_true_iff in K as [Kc Kn].
      assert (S : forall x, In x (present ins) -> In x vis).
      { intros x Hx. rewrite forallb_forall in Kc. apply mem_In. now apply Kc. }
      unfold Sem.eval_node.
      destruct (is_if d o).
      - rewrite (inv_lookup_opts vis om m e1 e2 ins I S).
        destruct (lookup_opts e2 (map (clone_in m) ins)) as [[|[c|] [|? ?]]|]; auto.
        destruct (truth c) as [b|]; auto.
        rewrite !find_sub_map.
        destruct (find_sub (if b then "then_branch" else "else_branch")%string subs) as [sg|] eqn:F; cbn; auto.
        pose proof (find_sub_forallb (fun g => ok_graph ri rn om vis m g) _ _ _ Ks F) as Kg.
        rewrite (Hev sg vis m e1 e2 [] I Kg).
        destruct (ev e2 (clone_graph ri rn am m sg) []) as [vs|]; auto.
        apply bind_inv; assumption.
      - destruct (is_loop d o).
        + destruct ins as [|m0 [|c carried]]; cbn [map]; auto.
          rewrite !find_sub_map.
          destruct (find_sub "body"%string subs) as [body|] eqn:F; cbn [option_map]; auto.
          pose proof (find_sub_forallb (fun g => ok_graph ri rn om vis m g) _ _ _ Ks F) as Kg.
          assert (S2 : forall x, In x (present [m0; c]) -> In x vis).
          { intros x Hx. apply S. destruct m0, c; cbn in *; tauto. }
          assert (S3 : forall x, In x (present carried) -> In x vis).
          { intros x Hx. apply S. destruct m0, c; cbn; auto. }
          pose proof (inv_lookup_opts vis om m e1 e2 [m0; c] I S2) as L1. cbn [map] in L1. rewrite L1.
          rewrite (inv_lookups_present vis om m e1 e2 carried I S3).
          destruct (lookup_opts e2 [clone_in m m0; clone_in m c]) as [[|mv [|cv [|? ?]]]|]; auto.
          destruct (lookups e2 (present (map (clone_in m) carried))) as [st0|]; auto.
          destruct (match mv with Some v => option_map Some (trip v) | None => Some None end) as [mt|]; auto.
          destruct (match cv with Some v => truth v | None => Some true end) as [c0|]; auto.
          pose proof (loop_iter_rel ev e1 e2 (omit_graph om am body) (clone_graph ri rn am m body)) as LR.
          destruct mt as [k|].
          * rewrite (LR true (fun args => Hev body vis m e1 e2 args I Kg)).
            destruct (loop_iter ev e2 (clone_graph ri rn am m body) true k 0 c0 st0); auto.
            apply bind_inv; assumption.
          * rewrite (LR false (fun args => Hev body vis m e1 e2 args I Kg)).
            destruct (loop_iter ev e2 (clone_graph ri rn am m body) false limit 0 c0 st0); auto.
            apply bind_inv; assumption.
        + rewrite (inv_lookup_opts vis om m e1 e2 ins I S).
          destruct (lookup_opts e2 (map (clone_in m) ins)) as [vs|]; auto.
          destruct (sem d o (subst_attrs am attrs) vs) as [rs|]; auto.
          apply bind_inv; assumption.
    Qed.

    Lemma run_rel rh : forall ns vis m e1 e2,
      inv vis om m e1 e2 ->
      ok_nodes_with (fun vis' m' n' => ok_node ri rh rn om vis' m' n') rh vis m ns = true ->
      match run ev e1 (map (fun n' => omit_node om am n') ns),
            run ev e2 (clone_nodes_with (fun m' n' => clone_node ri rh rn am m' n') rh m ns) with
      | Some a, Some b => inv (vis_after vis ns) om (map_after rh m ns) a b
      | None, None => True
      | _, _ => False
      end.
    Proof.
      induction ns as [|n t IH]; intros vis m e1 e2 I K; cbn.
      - exact I.
      - cbn in K. apply andb_true_iff in K as [K1 K2].
        pose proof (eval_node_rel rh vis m e1 e2 n I K1) as H.
        destruct (eval_node ev e1 (omit_node om am n)) as [a|],
                 (eval_node ev e2 (clone_node ri rh rn am m n)) as [b|]; try contradiction; auto.
        apply IH; assumption.
    Qed.

    Lemma eval_body_rel g vis m e1 e2 args :
      inv vis om m e1 e2 -> ok_graph ri rn om vis m g = true ->
      eval_body ev e1 (omit_graph om am g) args = eval_body ev e2 (clone_graph ri rn am m g) args.
    Proof.
      intros I K. destruct g as [ins inits nodes outs]. cbn [omit_graph clone_graph ok_graph] in *.
      apply andb_true_iff in K as [K Kout]. apply andb_true_iff in K as [K Kn].
      apply andb_true_iff in K as [K Kom]. apply andb_true_iff in K as [K Kimg].
      apply andb_true_iff in K as [Ki Kd].
      destruct inits; [|discriminate]. rewrite app_nil_r.
      unfold Sem.eval_body. cbn [g_ins g_nodes g_outs].
      pose proof (bind_inv ri vis om m e1 e2 ins args I Kd Kimg Kom) as B.
      destruct (bind ins args e1) as [a|], (bind (map ri ins) args e2) as [b|]; try contradiction; auto.
      pose proof (run_rel rn nodes (ins ++ vis) (defmap ri ins ++ m) a b B Kn) as R.
      destruct (run ev a (map (fun n' => omit_node om am n') nodes)) as [a'|],
               (run ev b (clone_nodes_with (fun m' n' => clone_node ri rn rn am m' n') rn (defmap ri ins ++ m) nodes)) as [b'|];
        try contradiction; auto.
      apply (inv_lookups _ om _ a' b' outs R).
      intros x Hx. rewrite forallb_forall in Kout. specialize (Kout x Hx).
      apply andb_true_iff in Kout as [Q1 Q2]. apply negb_true_iff in Q2. split; [|exact Q2].
      apply mem_In in Q1. apply vis_after_in. apply in_app_or in Q1. tauto.
    Qed.
  End Level.

  (* evaluation commutes with cloning, at every nesting depth *)
  Theorem eval_graph_rel om am rn ri : forall fuel g vis m e1 e2 args,
    inv vis om m e1 e2 -> ok_graph ri rn om vis m g = true ->
    eval_graph fuel e1 (omit_graph om am g) args = eval_graph fuel e2 (clone_graph ri rn am m g) args.
  Proof.
    induction fuel as [|f IH]; intros g vis m e1 e2 args I K; [reflexivity|].
    cbn [Sem.eval_graph]. apply (eval_body_rel om am rn ri (eval_graph f) IH g vis m e1 e2 args I K).
  Qed.

  (* ---------------------------------------------------------------- the call site *)
  Lemma bind_fst_snd : forall (l : env) (e : env), bind (map fst l) (map snd l) e = Some (l ++ e).
  Proof. induction l as [|[x v] t IH]; intro e; cbn; [reflexivity|]. now rewrite IH. Qed.

  Lemma lookup_opts_length : forall (e : env) xs vs, lookup_opts e xs = Some vs -> List.length vs = List.length xs.
  Proof.
    induction xs as [|[x|] t IH]; intros vs; cbn.
    - intro H; inversion H; reflexivity.
    - destruct (lookup e x); [|discriminate]. destruct (lookup_opts e t) as [r|]; [|discriminate].
      intro H; inversion H; subst. cbn. now rewrite (IH r).
    - destruct (lookup_opts e t) as [r|]; [|discriminate]. cbn. intro H; inversion H; subst. cbn. now rewrite (IH r).
  Qed.

  Lemma lookups_length : forall (e : env) xs vs, lookups e xs = Some vs -> List.length vs = List.length xs.
  Proof.
    induction xs as [|x t IH]; intros vs; cbn.
    - intro H; inversion H; reflexivity.
    - destruct (lookup e x); [|discriminate]. destruct (lookups e t) as [r|]; [|discriminate].
      intro H; inversion H; subst. cbn. now rewrite (IH r).
  Qed.

  Lemma omitted_opts : forall (e : env) formals acts vs,
    lookup_opts e acts = Some vs -> omitted formals vs = omitted formals acts.
  Proof.
    induction formals as [|x t IH]; intros acts vs H; [destruct vs, acts; reflexivity|].
    destruct acts as [|[y|] at']; cbn in H.
    - inversion H; subst. cbn. f_equal. now apply (IH [] []).
    - destruct (lookup e y); [|discriminate]. destruct (lookup_opts e at') as [r|] eqn:E; [|discriminate].
      inversion H; subst. cbn. now apply IH.
    - destruct (lookup_opts e at') as [r|] eqn:E; [|discriminate]. inversion H; subst. cbn. f_equal. now apply IH.
  Qed.

  Lemma omitted_sub : forall A formals (acts : list (option A)) x, In x (omitted formals acts) -> In x formals.
  Proof.
    induction formals as [|y t IH]; intros acts x; cbn; [destruct acts; intros []|].
    destruct acts as [|[a|] at']; cbn; intro H.
    - destruct H as [H|H]; [now left|right; now apply (IH [])].
    - right. now apply (IH at').
    - destruct H as [H|H]; [now left|right; now apply (IH at')].
  Qed.

  Lemma in_fst_combine : forall A (l : list vname) (r : list A) x, In x (map fst (combine l r)) -> In x l.
  Proof.
    intros A l r x H. apply in_map_iff in H as [[a b] [E H]]. cbn in E. subst. now apply in_combine_l in H.
  Qed.

  Lemma init_inv (e : env) : forall formals acts vs,
    NoDup formals -> lookup_opts e acts = Some vs ->
    inv (map fst (combine formals acts)) (omitted formals acts) (combine formals acts) (bound_formals formals vs) e.
  Proof.
    induction formals as [|x t IH]; intros acts vs N H; [intros z []|].
    destruct acts as [|a at']; [intros z []|].
    inversion N as [|? ? Nx Nt]; subst.
    destruct a as [y|]; cbn in H.
    - destruct (lookup e y) as [v|] eqn:Ly; [|discriminate].
      destruct (lookup_opts e at') as [vt|] eqn:E; [|discriminate]. inversion H; subst.
      specialize (IH at' vt Nt E). intros z Hz. cbn [combine map fst omitted bound_formals] in *.
      destruct (String.eqb z x) eqn:Ezx.
      + apply String.eqb_eq in Ezx. subst z.
        assert (Q : mem x (omitted t at') = false).
        { apply mem_false. intro Q. apply Nx. now apply omitted_sub in Q. }
        rewrite Q. exists y. unfold resolve. cbn. rewrite String.eqb_refl. split; [reflexivity|].
        now rewrite Ly.
      + destruct Hz as [Hz|Hz]; [subst; rewrite String.eqb_refl in Ezx; discriminate|].
        specialize (IH z Hz). unfold resolve in *. cbn. rewrite Ezx. exact IH.
    - destruct (lookup_opts e at') as [vt|] eqn:E; [|discriminate]. inversion H; subst.
      specialize (IH at' vt Nt E). intros z Hz. cbn [combine map fst omitted bound_formals] in *.
      destruct (String.eqb z x) eqn:Ezx.
      + apply String.eqb_eq in Ezx. subst z. unfold mem. cbn. rewrite String.eqb_refl. cbn.
        unfold resolve. cbn. now rewrite String.eqb_refl.
      + destruct Hz as [Hz|Hz]; [subst; rewrite String.eqb_refl in Ezx; discriminate|].
        specialize (IH z Hz). unfold mem in *. cbn. rewrite Ezx. cbn. unfold resolve in *. cbn. rewrite Ezx. exact IH.
  Qed.

  Lemma lookup_app_out (b e : env) x : ~ In x (map fst b) -> lookup (b ++ e) x = lookup e x.
  Proof.
    induction b as [|[y v] t IH]; cbn; [reflexivity|]. intro H.
    destruct (String.eqb x y) eqn:E; [apply String.eqb_eq in E; subst; tauto|apply IH; tauto].
  Qed.

  Lemma agree_run_shape ev ns (e e' : env) :
    run ev e ns = Some e' -> agree_except (defs_nodes ns) e e'.
  Proof.
    intro H. destruct (run_shape V sem truth trip of_nat of_bool limit ev ns e e' H) as [b [-> Hb]].
    intros x Hx. rewrite lookup_app_out; [reflexivity|]. intro Q. apply Hx. apply Hb. exact Q.
  Qed.

  (* Inlining computes what the call computes.  `vs` are the values of the actuals in the caller's
     environment e (None = omitted).  Success: the inlined nodes run, the renamed outputs are bound to the
     results of the call, every other name keeps its value.  Failure of the call: the inlined nodes fail, or
     their outputs are unbound. *)
  Theorem inline_eq_call_r : forall ri fuel f s (e : env) vs,
    inline_okb_r ri f s = true -> lookup_opts e (s_actuals s) = Some vs ->
    match call_sem (S fuel) f (s_attrs s) vs with
    | Some rs => exists e', run (eval_graph fuel) e (inline_nodes_r ri f s) = Some e'
                            /\ lookups e' (inline_outs_r f s) = Some rs
                            /\ agree_except (defs_nodes (inline_nodes_r ri f s)) e e'
    | None => match run (eval_graph fuel) e (inline_nodes_r ri f s) with
              | Some e' => lookups e' (inline_outs_r f s) = None
              | None => True
              end
    end.
  Proof.
    intros ri fuel f s e vs K A. unfold inline_okb_r in K.
    apply andb_true_iff in K as [K Kouts]. apply andb_true_iff in K as [K Kbody].
    apply andb_true_iff in K as [K _]. apply andb_true_iff in K as [Kn Klen].
    apply nodupb_NoDup in Kn.
    unfold Inline.call_sem. rewrite (lookup_opts_length e _ _ A), Klen.
    cbn [Sem.eval_graph]. unfold Sem.eval_body, call_graph. cbn [g_ins g_nodes g_outs].
    rewrite bind_fst_snd, app_nil_r. rewrite (omitted_opts e _ _ _ A).
    pose proof (init_inv e (f_ins f) (s_actuals s) vs Kn A) as I.
    pose proof (run_rel (omitted (f_ins f) (s_actuals s)) (attr_map f (s_attrs s)) (nested_name f s) ri
                  (eval_graph fuel) (eval_graph_rel _ _ _ _ fuel) (final_name f s) (f_body f) _ _ _ _ I Kbody) as R.
    unfold inline_nodes_r, inline_outs_r, site_map in *.
    match type of R with
    | match ?a with _ => _ end => destruct a as [a1|]
    end;
    match type of R with
    | match ?b with _ => _ end => destruct b as [b1|] eqn:Rb
    end; try contradiction; auto.
    assert (L : lookups a1 (f_outs f) =
                lookups b1 (map (clone_out (map_after (final_name f s) (combine (f_ins f) (s_actuals s)) (f_body f))) (f_outs f))).
    { apply (inv_lookups _ _ _ a1 b1 (f_outs f) R). intros x Hx.
      rewrite forallb_forall in Kouts. specialize (Kouts x Hx). apply andb_true_iff in Kouts as [Q1 Q2].
      apply negb_true_iff in Q2. split; [|exact Q2]. apply vis_after_in. left. now apply mem_In. }
    rewrite L.
    match goal with |- match ?l with _ => _ end => destruct l as [rs|] eqn:El end; [|reflexivity].
    exists b1. repeat split; auto. now apply (agree_run_shape (eval_graph fuel)).
  Qed.

  (* ---------------------------------------------------------------- missing actuals padded with None *)
  Lemma lookup_opts_app (e : env) : forall a b va vb,
    lookup_opts e a = Some va -> lookup_opts e b = Some vb -> lookup_opts e (a ++ b) = Some (va ++ vb).
  Proof.
    induction a as [|[x|] t IH]; intros b va vb Ha Hb; cbn in *.
    - inversion Ha; subst. exact Hb.
    - destruct (lookup e x); [|discriminate]. destruct (lookup_opts e t) as [r|] eqn:E; [|discriminate].
      inversion Ha; subst. now rewrite (IH b r vb eq_refl Hb).
    - destruct (lookup_opts e t) as [r|] eqn:E; [|discriminate]. inversion Ha; subst.
      now rewrite (IH b r vb eq_refl Hb).
  Qed.

  Lemma lookup_opts_nones (e : env) : forall k, lookup_opts e (repeat None k) = Some (repeat None k).
  Proof. induction k as [|k IH]; cbn; [reflexivity|]. now rewrite IH. Qed.

  Lemma omitted_pad : forall A formals (vs : list (option A)) k,
    omitted formals (vs ++ repeat None k) = omitted formals vs.
  Proof.
    induction formals as [|x t IH]; intros vs k; [destruct vs, k; reflexivity|].
    destruct vs as [|[a|] vt]; cbn.
    - destruct k as [|k]; cbn; [reflexivity|]. f_equal. apply (IH [] k).
    - apply IH.
    - f_equal. apply IH.
  Qed.

  Lemma bound_formals_pad : forall A formals (vs : list (option A)) k,
    bound_formals formals (vs ++ repeat None k) = bound_formals formals vs.
  Proof.
    induction formals as [|x t IH]; intros vs k; [destruct vs, k; reflexivity|].
    destruct vs as [|[a|] vt]; cbn.
    - destruct k as [|k]; cbn; [reflexivity|]. change (repeat None k) with ([] ++ @repeat (option A) None k). rewrite (IH [] k). destruct t; reflexivity.
    - f_equal. apply IH.
    - apply IH.
  Qed.

  Lemma call_sem_pad fuel f attrs vs k : List.length vs + k <= List.length (f_ins f) ->
    call_sem fuel f attrs (vs ++ repeat None k) = call_sem fuel f attrs vs.
  Proof.
    intro H. unfold Inline.call_sem, call_graph. rewrite app_length, repeat_length.
    replace (Nat.leb (List.length vs + k) (List.length (f_ins f))) with true by (symmetry; apply Nat.leb_le; lia).
    replace (Nat.leb (List.length vs) (List.length (f_ins f))) with true by (symmetry; apply Nat.leb_le; lia).
    now rewrite omitted_pad, bound_formals_pad.
  Qed.

  (* the same for the probed variant c of _inliner.instantiate (subgraph inputs renamed or not, missing
     actuals padded with None or not) *)
  Theorem inline_eq_call : forall c fuel f s (e : env) vs,
    inline_okb c f s = true -> lookup_opts e (s_actuals s) = Some vs ->
    match call_sem (S fuel) f (s_attrs s) vs with
    | Some rs => exists e', run (eval_graph fuel) e (inline_nodes c f s) = Some e'
                            /\ lookups e' (inline_outs c f s) = Some rs
                            /\ agree_except (defs_nodes (inline_nodes c f s)) e e'
    | None => match run (eval_graph fuel) e (inline_nodes c f s) with
              | Some e' => lookups e' (inline_outs c f s) = None
              | None => True
              end
    end.
  Proof.
    intros c fuel f s e vs K A. unfold inline_okb in K. apply andb_true_iff in K as [Klen K].
    apply Nat.leb_le in Klen. unfold inline_nodes, inline_outs.
    destruct c as [r [|]]; unfold vsite in *; cbn [pad_missing_actuals] in *.
    - set (k := List.length (f_ins f) - List.length (s_actuals s)) in *.
      assert (A' : lookup_opts e (pad_actuals f (s_actuals s)) = Some (vs ++ repeat None k)).
      { unfold pad_actuals. apply lookup_opts_app; [exact A|apply lookup_opts_nones]. }
      pose proof (inline_eq_call_r (sub_ren (ICfg r true) f s) fuel f _ e _ K A') as T.
      cbn [s_attrs] in T. rewrite call_sem_pad in T; [exact T|].
      rewrite (lookup_opts_length e _ _ A). unfold k. lia.
    - exact (inline_eq_call_r _ fuel f s e vs K A).
  Qed.

  Lemma call_sem_length fuel f attrs vs rs :
    call_sem fuel f attrs vs = Some rs -> List.length rs = List.length (f_outs f).
  Proof.
    unfold Inline.call_sem. destruct (Nat.leb _ _); [|discriminate]. destruct fuel; [discriminate|].
    cbn [Sem.eval_graph]. unfold Sem.eval_body, call_graph. cbn [g_ins g_nodes g_outs].
    destruct (bind _ _ _); [|discriminate]. destruct (Sem.run _ _ _ _ _ _ _ _ _ _); [|discriminate].
    apply lookups_length.
  Qed.

  Lemma lookups_cons_notin (e : env) x v : forall t, ~ In x t -> lookups ((x, v) :: e) t = lookups e t.
  Proof.
    induction t as [|y t IH]; intro H; cbn; [reflexivity|].
    assert (E : String.eqb y x = false) by (apply String.eqb_neq; intro Q; apply H; now left).
    rewrite E, IH; [reflexivity|]. intro Q. apply H. now right.
  Qed.

  Lemma bind_lookups : forall outs rs (e : env), NoDup outs -> List.length outs = List.length rs ->
    exists e', bind outs rs e = Some e' /\ lookups e' outs = Some rs.
  Proof.
    induction outs as [|x t IH]; intros [|v vt] e N L; cbn in *; try discriminate.
    - exists e. auto.
    - inversion N; subst. destruct (IH vt e H2) as [e' [B Lk]]; [lia|]. rewrite B. cbn.
      exists ((x, v) :: e'). split; [reflexivity|]. cbn. rewrite String.eqb_refl.
      rewrite lookups_cons_notin by assumption. now rewrite Lk.
  Qed.

  (* the function-call node itself, for a kernel semantics that interprets calls of f by f's body *)
  Definition call_node (f : func) (s : site) (outs : list vname) : node :=
    Node (f_dom f) (f_name f) (s_actuals s) outs (s_attrs s) [].

  Theorem inline_eq_call_node : forall c fuel f s (e : env) outs,
    (forall attrs vs, sem (f_dom f) (f_name f) attrs vs = call_sem (S fuel) f attrs vs) ->
    is_if (f_dom f) (f_name f) = false -> is_loop (f_dom f) (f_name f) = false ->
    inline_okb c f s = true -> lookup_opts e (s_actuals s) <> None ->
    NoDup outs -> List.length outs = List.length (f_outs f) ->
    match eval_node (eval_graph fuel) e (call_node f s outs) with
    | Some ec => exists ei, run (eval_graph fuel) e (inline_nodes c f s) = Some ei
                            /\ lookups ei (inline_outs c f s) = lookups ec outs
                            /\ lookups ec outs <> None
                            /\ agree_except (defs_nodes (inline_nodes c f s)) e ei
                            /\ agree_except outs e ec
    | None => match run (eval_graph fuel) e (inline_nodes c f s) with
              | Some ei => lookups ei (inline_outs c f s) = None
              | None => True
              end
    end.
  Proof.
    intros c fuel f s e outs Hsem Hif Hloop K A N L.
    destruct (lookup_opts e (s_actuals s)) as [vs|] eqn:Ea; [clear A|congruence].
    pose proof (inline_eq_call c fuel f s e vs K Ea) as T.
    unfold call_node, Sem.eval_node. rewrite Hif, Hloop, Ea, Hsem.
    destruct (call_sem (S fuel) f (s_attrs s) vs) as [rs|] eqn:C; [|exact T].
    destruct (bind_lookups outs rs e N) as [ec [B Lk]].
    { rewrite L. symmetry. now apply (call_sem_length _ _ _ _ _ C). }
    rewrite B. destruct T as [ei [R [Lo Ag]]]. exists ei. rewrite Lk. repeat split; auto; [congruence|].
    destruct (bind_shape V outs rs e ec B) as [b [-> Hb]].
    intros x Hx. rewrite lookup_app_out; [reflexivity|]. now rewrite Hb.
  Qed.
End Rel.

(* ------------------------------------------------------------------ the statement without the no-capture
   side conditions is false of the faithful model *)
Local Open Scope string_scope.

Section Full.
  Variable V : Type.
  Variable sem : string -> string -> list (string * attrv) -> list (option V) -> option (list V).
  Variable truth : V -> option bool.
  Variable trip : V -> option nat.
  Variable of_nat : nat -> V.
  Variable of_bool : bool -> V.
  Variable limit : nat.

  Definition inline_eq_call_full (c : icfg) : Prop :=
    forall fuel f s (e : list (vname * V)) vs,
      func_wfb f = true ->
      Nat.leb (List.length (s_actuals s)) (List.length (f_ins f)) = true -> outnames_ok f s = true ->
      lookup_opts e (s_actuals s) = Some vs ->
      match call_sem V sem truth trip of_nat of_bool limit (S fuel) f (s_attrs s) vs with
      | Some rs => exists e', run V sem truth trip of_nat of_bool limit
                                  (eval_graph V sem truth trip of_nat of_bool limit fuel) e (inline_nodes c f s) = Some e'
                              /\ lookups e' (inline_outs c f s) = Some rs
      | None => True
      end.
End Full.

(* a caller value named like an input of a Loop body inside the function: the reference to the formal inside
   the cloned body is captured by the (un-renamed) body input.  8 = 2 + 3*2, 16 = 2*2*2*2. *)
Theorem inline_subgraph_input_capture_refuted :
  func_wfb w_loop_fn = true
  /\ inline_okb icfg_pinned w_loop_fn w_capture_site = false /\ inline_okb icfg_pinned w_loop_fn w_plain_site = true
  /\ toy_call 3 w_loop_fn [] [Some 2%Z] = Some [8%Z]
  /\ toy_inline icfg_pinned 2 w_loop_fn w_plain_site [("x", 2%Z)] = Some [8%Z]
  /\ toy_inline icfg_pinned 2 w_loop_fn w_capture_site [("acc_0", 2%Z)] = Some [16%Z]
  (* with the inputs of cloned subgraphs prefixed (proposed fix C18_01) the same site is fine *)
  /\ inline_okb icfg_fixed w_loop_fn w_capture_site = true
  /\ toy_inline icfg_fixed 2 w_loop_fn w_capture_site [("acc_0", 2%Z)] = Some [8%Z].
Proof. vm_compute. repeat split; reflexivity. Qed.

(* fewer actuals than formals: the call omits the trailing input, the inlined node keeps the formal's
   name: dangling (evaluation fails) or captured by a caller value of that name *)
Theorem inline_fewer_actuals_refuted :
  func_wfb w_opt_fn = true
  /\ inline_okb icfg_pinned w_opt_fn w_fewer_site = false /\ inline_okb icfg_pinned w_opt_fn w_none_site = true
  /\ toy_call 2 w_opt_fn [] [Some 1%Z] = Some [1%Z]
  /\ toy_inline icfg_pinned 1 w_opt_fn w_none_site [("x", 1%Z)] = Some [1%Z]
  /\ toy_inline icfg_pinned 1 w_opt_fn w_fewer_site [("x", 1%Z)] = None
  /\ toy_inline icfg_pinned 1 w_opt_fn w_fewer_site [("lo", 5%Z); ("x", 1%Z)] = Some [6%Z]
  (* with the missing actuals mapped to None (proposed fix C18_02) the same site is fine *)
  /\ inline_okb icfg_fixed w_opt_fn w_fewer_site = true
  /\ toy_inline icfg_fixed 1 w_opt_fn w_fewer_site [("lo", 5%Z); ("x", 1%Z)] = Some [1%Z].
Proof. vm_compute. repeat split; reflexivity. Qed.

Theorem inline_eq_call_full_refuted :
  ~ inline_eq_call_full Z toy_sem toy_truth toy_trip toy_of_nat toy_of_bool 10 icfg_pinned.
Proof.
  intro H.
  specialize (H 2 w_loop_fn w_capture_site [("acc_0"%string, 2%Z)] [Some 2%Z] eq_refl eq_refl eq_refl eq_refl).
  vm_compute in H. destruct H as [e' [R L]]. injection R as <-. vm_compute in L. discriminate L.
Qed.

(* ------------------------------------------------------------------ non-vacuity *)
Example ex_inline_hypotheses :
  func_wfb ex_fn = true
  /\ inline_okb icfg_pinned ex_fn ex_site = true /\ inline_okb icfg_pinned ex_fn ex_site_default = true
  /\ lookup_opts ex_env (s_actuals ex_site) = Some [Some 4%Z; Some (-4)%Z]
  /\ toy_call 3 ex_fn (s_attrs ex_site) [Some 4%Z; Some (-4)%Z] = Some [5%Z; 10%Z]
  /\ toy_inline icfg_pinned 2 ex_fn ex_site ex_env = Some [5%Z; 10%Z]
  /\ toy_call 3 ex_fn [] [Some 4%Z; Some (-4)%Z] = Some [1%Z; 2%Z]
  /\ toy_inline icfg_pinned 2 ex_fn ex_site_default ex_env = Some [1%Z; 2%Z]
  /\ inline_outs icfg_pinned ex_fn ex_site = ["v_enc.out"; "v_enc.tmp"]%string
  /\ inline_outs icfg_pinned ex_fn ex_site_default = ["v_exf_node_2/u"; "v_exf_node_2/v_Add_0"]%string
  /\ inline_fresh icfg_pinned ex_fn ex_site (map fst ex_env) = true
  /\ inline_fresh icfg_pinned ex_fn ex_site_default (map fst ex_env) = false
  /\ inline_okb icfg_fixed ex_fn ex_site = true /\ inline_okb icfg_fixed ex_fn ex_site_default = true
  /\ toy_inline icfg_fixed 2 ex_fn ex_site ex_env = Some [5%Z; 10%Z].
Proof. vm_compute. repeat split; reflexivity. Qed.

(* ------------------------------------------------------------------ the generated names *)

Lemma tail_counter_inj : forall A1 A2 c1 c2 x y,
  has_char "/"%char x = false -> has_char "/"%char y = false ->
  (A1 ++ String "_" (dec c1)) ++ String "/" x = (A2 ++ String "_" (dec c2)) ++ String "/" y ->
  c1 = c2 /\ x = y.
Proof.
  intros A1 A2 c1 c2 x y Hx Hy E.
  apply split_at_last_inj in E as [E Exy]; auto.
  apply split_at_last_inj in E as [_ E]; auto using dec_no_underscore.
  split; [now apply dec_inj|exact Exy].
Qed.

Lemma nested_name_form : forall f s x,
  nested_name f s x = ((scope_prefix "/" (site_scope s) ++ f_name f ++ "_node") ++ String "_" (dec (s_count s))) ++ String "/" x.
Proof.
  intros. unfold nested_name, site_prefix, node_name, qualify_node. rewrite !app_assoc_str. reflexivity.
Qed.

Lemma qualified_name_form : forall st f s x,
  qualify_value st (site_prefix f s ++ x)
  = (("v_" ++ scope_prefix "." st ++ scope_prefix "/" (site_scope s) ++ f_name f ++ "_node") ++ String "_" (dec (s_count s))) ++ String "/" x.
Proof.
  intros. unfold qualify_value, site_prefix, node_name, qualify_node. rewrite !app_assoc_str. reflexivity.
Qed.

(* distinct inline sites (distinct node counters) give distinct prefixes *)
Theorem site_prefix_inj : forall f1 s1 f2 s2,
  site_prefix f1 s1 = site_prefix f2 s2 -> s_count s1 = s_count s2.
Proof.
  intros f1 s1 f2 s2 E.
  assert (Q : nested_name f1 s1 "" = nested_name f2 s2 "") by (unfold nested_name; now rewrite E).
  rewrite !nested_name_form in Q. now apply tail_counter_inj in Q as [Q _].
Qed.

(* names of values nested in the body (prefix ++ name), for inner names without "/" *)
Theorem nested_names_sites_disjoint : forall f1 s1 f2 s2 x y,
  has_char "/"%char x = false -> has_char "/"%char y = false ->
  nested_name f1 s1 x = nested_name f2 s2 y -> s_count s1 = s_count s2 /\ x = y.
Proof.
  intros f1 s1 f2 s2 x y Hx Hy E. rewrite !nested_name_form in E. now apply tail_counter_inj in E.
Qed.

(* names of top-level values (qualified prefix ++ name) *)
Theorem qualified_names_sites_disjoint : forall st1 f1 s1 st2 f2 s2 x y,
  has_char "/"%char x = false -> has_char "/"%char y = false ->
  qualify_value st1 (site_prefix f1 s1 ++ x) = qualify_value st2 (site_prefix f2 s2 ++ y) ->
  s_count s1 = s_count s2 /\ x = y.
Proof.
  intros st1 f1 s1 st2 f2 s2 x y Hx Hy E. rewrite !qualified_name_form in E. now apply tail_counter_inj in E.
Qed.

Lemma append_inj_l : forall p a b : string, p ++ a = p ++ b -> a = b.
Proof. induction p as [|c p IH]; cbn; intros a b E; [exact E|]. injection E as E. now apply IH. Qed.

(* the names of one site are pairwise distinct when the function's names are *)
Theorem site_names_nodup : forall f s l, NoDup l ->
  NoDup (map (nested_name f s) l) /\ NoDup (map (fun x => qualify_value (site_scope s) (site_prefix f s ++ x)) l).
Proof.
  intros f s l N. split; apply FinFun.Injective_map_NoDup; auto.
  - intros a b E. unfold nested_name in E. now apply append_inj_l in E.
  - intros a b E. unfold qualify_value in E. rewrite <- !app_assoc_str in E.
    apply append_inj_l in E. exact E.
Qed.

Example ex_site_names :
  site_prefix ex_fn ex_site = "enc/p/exf_node_7/" /\ site_prefix ex_fn ex_site_default = "exf_node_2/"
  /\ has_char "/"%char "tmp" = false.
Proof. vm_compute. repeat split; reflexivity. Qed.
