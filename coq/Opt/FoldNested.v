(* Soundness of the replacement of graph outputs (renaming of the symbolic value to the output's name) and of the
   recursion of the constant folder through nested graphs; closes the hypothesis `subs_spec` of Opt/FoldProofs.v for
   the visitor the model really uses (visit_subs_d). *)
From Coq Require Import List String ZArith Bool Lia.
Require Import OV.Graph.Syntax OV.Graph.Sem OV.Graph.Names OV.Graph.SemProofs OV.Gen.FoldTables OV.Opt.Fold OV.Opt.SemLemmas OV.Opt.FoldProofs.
Import ListNotations.
Local Open Scope list_scope.

(* ---------------------------------------------------------------- the renaming built by output_renaming *)
Section Ren.
  Variable chosen : list (vname * vname).
  Let os := map fst chosen.
  Let ss := map snd chosen.
  Hypothesis ND_os : NoDup os.
  Hypothesis ND_ss : NoDup ss.
  Hypothesis Dis : forall x, In x ss -> ~ In x os.

  Lemma ren_o_s : forall o s, In (o, s) chosen ->
    rename_name (output_renaming chosen) o = dup_name o /\ rename_name (output_renaming chosen) s = o.
  Proof.
    unfold os, ss in *. clear os ss. induction chosen as [|[o1 s1] t IH]; intros o s H; [destruct H|].
    cbn in ND_os, ND_ss. apply NoDup_cons_iff in ND_os. destruct ND_os as [No1 NDo].
    apply NoDup_cons_iff in ND_ss. destruct ND_ss as [Ns1 NDs].
    assert (Dt : forall x, In x (map snd t) -> ~ In x (map fst t)).
    { intros x Hx Hf. apply (Dis x); cbn; auto. }
    cbn [output_renaming flat_map app fst snd rename_name]. fold (output_renaming t).
    destruct H as [H|H].
    - inversion H; subst. rewrite String.eqb_refl. split; [reflexivity|].
      destruct (String.eqb s o) eqn:E.
      + apply String.eqb_eq in E. exfalso. apply (Dis s); [cbn; auto|rewrite E; cbn; auto].
      + rewrite String.eqb_refl. reflexivity.
    - assert (Ho : In o (map fst t)) by (apply in_map_iff; exists (o, s); auto).
      assert (Hs : In s (map snd t)) by (apply in_map_iff; exists (o, s); auto).
      destruct (IH NDo NDs Dt o s H) as [A B]. split.
      + destruct (String.eqb o o1) eqn:E1; [apply String.eqb_eq in E1; subst; contradiction|].
        destruct (String.eqb o s1) eqn:E2;
          [apply String.eqb_eq in E2; exfalso; apply (Dis s1); [cbn; auto|rewrite <- E2; cbn; right; exact Ho]|]. exact A.
      + destruct (String.eqb s o1) eqn:E1;
          [apply String.eqb_eq in E1; exfalso; apply (Dis s); [cbn; right; exact Hs|rewrite E1; cbn; left; reflexivity]|].
        destruct (String.eqb s s1) eqn:E2; [apply String.eqb_eq in E2; subst; contradiction|]. exact B.
  Qed.

  Lemma ren_other : forall x, ~ In x os -> ~ In x ss -> rename_name (output_renaming chosen) x = x.
  Proof.
    intros x Ho Hs. apply rename_name_notin. intro H. apply in_map_iff in H. destruct H as [[a b] [E Hin]]. cbn in E. subst a.
    unfold output_renaming in Hin. apply in_flat_map in Hin. destruct Hin as [[o s] [Hc Hin]]. cbn in Hin.
    destruct Hin as [Hin|[Hin|[]]].
    - injection Hin as E1 E2. apply Ho. unfold os. apply in_map_iff. exists (o, s). split; [cbn; exact E1|exact Hc].
    - injection Hin as E1 E2. apply Hs. unfold ss. apply in_map_iff. exists (o, s). split; [cbn; exact E1|exact Hc].
  Qed.

  Lemma chosen_functional : forall o s s', In (o, s) chosen -> In (o, s') chosen -> s = s'.
  Proof.
    unfold os in ND_os. clear ND_ss Dis ss. induction chosen as [|[o1 s1] t IH]; intros o s s' H H'; [destruct H|].
    cbn in ND_os. apply NoDup_cons_iff in ND_os. destruct ND_os as [No1 NDo].
    destruct H as [H|H], H' as [H'|H'].
    - congruence.
    - inversion H; subst. exfalso. apply No1. apply in_map_iff. exists (o, s'). auto.
    - inversion H'; subst. exfalso. apply No1. apply in_map_iff. exists (o, s). auto.
    - eapply IH; eauto.
  Qed.

  Lemma NoDup_map_inj {A B} (f : A -> B) (l : list A) : NoDup (map f l) -> forall a b, In a l -> In b l -> f a = f b -> a = b.
  Proof.
    induction l as [|x t IH]; intros ND a b Ha Hb E; [destruct Ha|]. cbn in ND. apply NoDup_cons_iff in ND. destruct ND as [Nx NDt].
    destruct Ha as [<-|Ha], Hb as [<-|Hb]; auto.
    - exfalso. apply Nx. rewrite E. apply in_map. exact Hb.
    - exfalso. apply Nx. rewrite <- E. apply in_map. exact Ha.
  Qed.

  (* injective on every set of names that the ~dup names avoid and that contains the outputs *)
  Lemma ren_inj (N : list vname) : NoDup (map dup_name os) -> (forall o, In o os -> ~ In (dup_name o) N) -> (forall o, In o os -> In o N) ->
    forall x y, In x N -> In y N -> rename_name (output_renaming chosen) x = rename_name (output_renaming chosen) y -> x = y.
  Proof.
    intros NDd Dn On x y Hx Hy E.
    assert (Cs : forall z, In z ss -> exists o, In (o, z) chosen).
    { intros z Hz. unfold ss in Hz. apply in_map_iff in Hz. destruct Hz as [[o s] [Ez Hz]]. cbn in Ez. subst. eauto. }
    assert (Co : forall z, In z os -> exists s, In (z, s) chosen).
    { intros z Hz. unfold os in Hz. apply in_map_iff in Hz. destruct Hz as [[o s] [Ez Hz]]. cbn in Ez. subst. eauto. }
    destruct (in_dec string_dec x os) as [Xo|Xo], (in_dec string_dec y os) as [Yo|Yo].
    - destruct (Co x Xo) as [sx Cx], (Co y Yo) as [sy Cy].
      rewrite (proj1 (ren_o_s _ _ Cx)), (proj1 (ren_o_s _ _ Cy)) in E. eapply NoDup_map_inj; eauto.
    - destruct (Co x Xo) as [sx Cx]. rewrite (proj1 (ren_o_s _ _ Cx)) in E. exfalso.
      destruct (in_dec string_dec y ss) as [Ys|Ys].
      + destruct (Cs y Ys) as [o Cy]. rewrite (proj2 (ren_o_s _ _ Cy)) in E. apply (Dn x Xo). rewrite E. apply On.
        unfold os. apply in_map_iff. exists (o, y). auto.
      + rewrite (ren_other y Yo Ys) in E. apply (Dn x Xo). rewrite E. exact Hy.
    - destruct (Co y Yo) as [sy Cy]. rewrite (proj1 (ren_o_s _ _ Cy)) in E. exfalso.
      destruct (in_dec string_dec x ss) as [Xs|Xs].
      + destruct (Cs x Xs) as [o Cx]. rewrite (proj2 (ren_o_s _ _ Cx)) in E. apply (Dn y Yo). rewrite <- E. apply On.
        unfold os. apply in_map_iff. exists (o, x). auto.
      + rewrite (ren_other x Xo Xs) in E. apply (Dn y Yo). rewrite <- E. exact Hx.
    - destruct (in_dec string_dec x ss) as [Xs|Xs], (in_dec string_dec y ss) as [Ys|Ys].
      + destruct (Cs x Xs) as [o Cx], (Cs y Ys) as [o' Cy].
        rewrite (proj2 (ren_o_s _ _ Cx)), (proj2 (ren_o_s _ _ Cy)) in E. subst o'.
        (* same output chosen for x and y: the chosen values are distinct per output *)
        assert (F : forall s s', In (o, s) chosen -> In (o, s') chosen -> s = s') by (intros; eapply chosen_functional; eauto).
        exact (F x y Cx Cy).
      + destruct (Cs x Xs) as [o Cx]. rewrite (proj2 (ren_o_s _ _ Cx)), (ren_other y Yo Ys) in E. subst y. exfalso. apply Yo.
        unfold os. apply in_map_iff. exists (o, x). auto.
      + destruct (Cs y Ys) as [o Cy]. rewrite (proj2 (ren_o_s _ _ Cy)), (ren_other x Xo Xs) in E. subst x. exfalso. apply Xo.
        unfold os. apply in_map_iff. exists (o, y). auto.
      + rewrite (ren_other x Xo Xs), (ren_other y Yo Ys) in E. exact E.
  Qed.
End Ren.

Lemma NoDup_app_snoc {A} (l : list A) x : NoDup l -> ~ In x l -> NoDup (l ++ [x]).
Proof.
  induction l as [|y t IH]; intros ND N; cbn; [constructor; [intros []|constructor]|].
  apply NoDup_cons_iff in ND. destruct ND as [Ny NDt]. constructor.
  - intro H. apply in_app_or in H. destruct H as [H|[H|[]]]; [contradiction|]. subst. apply N. left. reflexivity.
  - apply IH; [exact NDt|]. intro H. apply N. right. exact H.
Qed.

(* ---------------------------------------------------------------- replacement of graph outputs *)
Section RO.
  Variable V : Type.
  Variable sem : string -> string -> list (string * attrv) -> list (option V) -> option (list V).
  Variable truth : V -> option bool.
  Variable trip : V -> option nat.
  Variable of_nat : nat -> V.
  Variable of_bool : bool -> V.
  Variable limit : nat.
  Variable cfg : config.

  Notation env := (list (vname * V)).
  Notation run := (run V sem truth trip of_nat of_bool limit).
  Notation eval_graph := (eval_graph V sem truth trip of_nat of_bool limit).
  Notation state := (Fold.state V).

  (* what choose_outputs chooses *)
  Lemma choose_fold st nodes news : forall rest acc,
    NoDup rest -> (forall o, In o (map fst acc) -> ~ In o rest) ->
    NoDup (map fst acc) -> NoDup (map snd acc) ->
    (forall o s, In (o, s) acc -> sym_val V st o = Some s /\ In s (defs_nodes nodes)) ->
    let res := fold_left (fun chosen o =>
                 match sym_val V st o with
                 | Some s => if mem s (flat_map n_outs nodes) && negb (mem s news) && negb (mem s (c_graph_outputs cfg)) && negb (mem s (map snd chosen))
                             then chosen ++ [(o, s)] else chosen
                 | None => chosen
                 end) rest acc in
    NoDup (map fst res) /\ NoDup (map snd res) /\
    (forall o s, In (o, s) res -> sym_val V st o = Some s /\ In s (defs_nodes nodes)) /\
    (forall o, In o (map fst res) -> In o (map fst acc) \/ In o rest).
  Proof.
    induction rest as [|o t IH]; intros acc NDr Dj NDf NDs P; cbn.
    - split; [exact NDf|split; [exact NDs|split; [exact P|intros x Hx; left; exact Hx]]].
    - apply NoDup_cons_iff in NDr. destruct NDr as [Not NDt].
      destruct (sym_val V st o) as [s|] eqn:S.
      + match goal with |- context [if ?c then _ else _] => destruct c eqn:C end.
        * apply andb_prop in C. destruct C as [C C4]. apply andb_prop in C. destruct C as [C C3]. apply andb_prop in C. destruct C as [C1 C2].
          assert (Ns : ~ In s (map snd acc)).
          { apply mem_false. apply negb_true_iff in C4. exact C4. }
          assert (No : ~ In o (map fst acc)) by (intro H; apply (Dj o H); left; reflexivity).
          destruct (IH (acc ++ [(o, s)]) NDt) as (A & B & C & D).
          -- intros x Hx. rewrite map_app in Hx. apply in_app_or in Hx. destruct Hx as [Hx|[<-|[]]].
             ++ intro Hin. apply (Dj x Hx). right. exact Hin.
             ++ exact Not.
          -- rewrite map_app. cbn. apply NoDup_app_snoc; assumption.
          -- rewrite map_app. cbn. apply NoDup_app_snoc; assumption.
          -- intros o' s' Hin. apply in_app_or in Hin. destruct Hin as [Hin|[Hin|[]]]; [apply P; exact Hin|].
             inversion Hin; subst. split; [exact S|]. apply mem_In. exact C1.
          -- split; [exact A|split; [exact B|split; [exact C|]]]. intros x Hx. destruct (D x Hx) as [H|H]; [|right; right; exact H].
             rewrite map_app in H. apply in_app_or in H. destruct H as [H|[<-|[]]]; [left; exact H|right; left; reflexivity].
        * destruct (IH acc NDt) as (A & B & C' & D); auto.
          -- intros x Hx Hin. apply (Dj x Hx). right. exact Hin.
          -- split; [exact A|split; [exact B|split; [exact C'|]]]. intros x Hx. destruct (D x Hx) as [H|H]; [left; exact H|right; right; exact H].
      + destruct (IH acc NDt) as (A & B & C' & D); auto.
        * intros x Hx Hin. apply (Dj x Hx). right. exact Hin.
        * split; [exact A|split; [exact B|split; [exact C'|]]]. intros x Hx. destruct (D x Hx) as [H|H]; [left; exact H|right; right; exact H].
  Qed.

  Lemma lookups_transfer (e1 e2 : env) outs r :
    (forall o v, In o outs -> lookup e1 o = Some v -> lookup e2 o = Some v) -> lookups e1 outs = Some r -> lookups e2 outs = Some r.
  Proof.
    revert r. induction outs as [|o t IH]; intros r H; cbn; [auto|].
    destruct (lookup e1 o) as [v|] eqn:L; [|discriminate]. destruct (lookups e1 t) as [vs|] eqn:LS; [|discriminate].
    intro E; inversion E; subst. rewrite (H o v (or_introl eq_refl) L). rewrite (IH vs); [reflexivity| |reflexivity].
    intros o' v' Ho'. apply H. right. exact Ho'.
  Qed.

  Lemma subset_spec a b : subset a b = true -> forall x, In x a -> In x b.
  Proof. unfold subset. rewrite forallb_forall. intros H x Hx. apply mem_In. apply H. exact Hx. Qed.

  Lemma assoc_rename_key_other {A} r (l : list (vname * A)) x :
    (forall k, rename_name r k = x -> k = x) -> rename_name r x = x -> assoc x (rename_key r l) = assoc x l.
  Proof.
    intros H Hx. induction l as [|[k v] t IH]; cbn; [reflexivity|].
    destruct (String.eqb x (rename_name r k)) eqn:E.
    - apply String.eqb_eq in E. symmetry in E. apply H in E. subst k. rewrite String.eqb_refl. reflexivity.
    - destruct (String.eqb x k) eqn:E2; [|exact IH]. apply String.eqb_eq in E2. subst k. rewrite Hx, String.eqb_refl in E. discriminate.
  Qed.

  (* the replacement of graph outputs by their symbolic value, with the renaming, keeps the outputs of the graph *)
  Theorem replace_outputs_sound : forall bound gi st nodes news outs scope st2 ns2 tr,
    replace_outputs V true cfg bound gi st nodes news outs scope = OK (st2, ns2, tr) ->
    ext V st st2 scope /\
    forall F e0 e1 r, dom_ok V e0 bound -> run (eval_graph F) e0 nodes = Some e1 -> inv V st e1 -> lookups e1 outs = Some r ->
      exists e2, run (eval_graph F) e0 ns2 = Some e2 /\ lookups e2 outs = Some r.
  Proof.
    intros bound gi st nodes news outs scope st2 ns2 tr H. unfold replace_outputs in H.
    set (chosen := choose_outputs V cfg st nodes news outs) in *.
    cbn [andb] in H. destruct (replace_ok V bound gi st nodes outs scope chosen) eqn:OK; cbn [negb] in H; [|discriminate].
    inversion H; subst st2 ns2 tr. clear H.
    unfold replace_ok in OK.
    apply andb_prop in OK. destruct OK as [OK C9].
    apply andb_prop in OK. destruct OK as [OK C8].
    apply andb_prop in OK. destruct OK as [OK C7].
    apply andb_prop in OK. destruct OK as [OK C6].
    apply andb_prop in OK. destruct OK as [OK C5].
    apply andb_prop in OK. destruct OK as [OK C4].
    apply andb_prop in OK. destruct OK as [OK C3].
    apply andb_prop in OK. destruct OK as [C1 C2].
    apply nodupb_NoDup in C1, C2.
    pose proof (disjointb_spec _ _ C3) as D3. pose proof (disjointb_spec _ _ C4) as D4.
    pose proof (disjointb_spec _ _ C5) as D5. pose proof (disjointb_spec _ _ C6) as D6.
    pose proof (disjointb_spec _ _ C7) as D7. pose proof (subset_spec _ _ C8) as S8.
    assert (CF := choose_fold st nodes news outs [] C1).
    cbn zeta in CF. fold (choose_outputs V cfg st nodes news outs) in CF. fold chosen in CF.
    destruct CF as (NDo & NDs & P & Q); [intros o []|constructor|constructor|intros o s []|].
    assert (Oin : forall o, In o (map fst chosen) -> In o outs) by (intros o Ho; destruct (Q o Ho) as [[]|Hq]; exact Hq).
    assert (Dis : forall x, In x (map snd chosen) -> ~ In x (map fst chosen)) by (intros x Hx Hf; exact (D4 x Hx (Oin x Hf))).
    set (r := output_renaming chosen). set (rho := rename_name r).
    assert (Ro : forall o s, In (o, s) chosen -> rho o = dup_name o /\ rho s = o) by (apply ren_o_s; assumption).
    assert (Rid : forall x, ~ In x (map fst chosen) -> ~ In x (map snd chosen) -> rho x = x) by (apply ren_other).
    assert (Cs : forall z, In z (map snd chosen) -> exists o, In (o, z) chosen).
    { intros z Hz. apply in_map_iff in Hz. destruct Hz as [[o s] [Ez Hz]]. cbn in Ez. subst. eauto. }
    assert (Co : forall z, In z (map fst chosen) -> exists s, In (z, s) chosen).
    { intros z Hz. apply in_map_iff in Hz. destruct Hz as [[o s] [Ez Hz]]. cbn in Ez. subst. eauto. }
    assert (InF : forall o s, In (o, s) chosen -> In o (map fst chosen)) by (intros o s Hc; apply in_map_iff; exists (o, s); auto).
    assert (InS : forall o s, In (o, s) chosen -> In s (map snd chosen)) by (intros o s Hc; apply in_map_iff; exists (o, s); auto).
    split.
    - (* facts outside the scope are untouched *)
      split; [reflexivity|]. intros x Hx.
      assert (Xo : ~ In x (map fst chosen)) by (intro Hi; apply Hx, S8, in_or_app; left; exact Hi).
      assert (Xs : ~ In x (map snd chosen)) by (intro Hi; apply Hx, S8, in_or_app; right; apply in_or_app; left; exact Hi).
      assert (Xd : forall o, In o (map fst chosen) -> dup_name o <> x).
      { intros o Ho E. apply Hx, S8, in_or_app. right. apply in_or_app. right. rewrite <- E. apply in_map. exact Ho. }
      assert (Kx : forall k, rho k = x -> k = x).
      { intros k E. destruct (in_dec string_dec k (map fst chosen)) as [Ko|Ko].
        - destruct (Co k Ko) as [s Hc]. rewrite (proj1 (Ro _ _ Hc)) in E. exfalso. exact (Xd k Ko E).
        - destruct (in_dec string_dec k (map snd chosen)) as [Ks|Ks].
          + destruct (Cs k Ks) as [o Hc]. rewrite (proj2 (Ro _ _ Hc)) in E. subst x. exfalso. exact (Xo (InF _ _ Hc)).
          + rewrite (Rid k Ko Ks) in E. exact E. }
      pose proof (Rid x Xo Xs) as Rx.
      split.
      + cbn. apply assoc_rename_key_other; assumption.
      + unfold sym_val. cbn. rewrite (assoc_map_snd (rename_symv r)). rewrite (assoc_rename_key_other r _ x Kx Rx).
        destruct (assoc x (s_sym V st)) as [[t| |]|] eqn:A; cbn; try reflexivity.
        rewrite forallb_forall in C9. specialize (C9 (x, SVal t) (assoc_In_pair _ _ _ A)). cbn in C9.
        apply orb_prop in C9. destruct C9 as [C9|C9]; [apply mem_In in C9; contradiction|].
        apply negb_true_iff in C9. apply mem_false in C9. f_equal. apply Rid; intro Hi; apply C9; apply in_or_app; auto.
    - (* semantics *)
      intros F e0 e1 rr D R I L.
      set (N := names_nodes nodes ++ gi ++ outs ++ bound).
      assert (Dn : forall o, In o (map fst chosen) -> ~ In (dup_name o) N) by (intros o Ho; apply D3; apply in_map; exact Ho).
      assert (On : forall o, In o (map fst chosen) -> In o N).
      { intros o Ho. unfold N. apply in_or_app. right. apply in_or_app. right. apply in_or_app. left. exact (Oin o Ho). }
      pose proof (ren_inj chosen NDo NDs Dis N C2 Dn On) as Inj. fold r in Inj. fold rho in Inj.
      assert (Unb : forall z, In z (map fst chosen ++ map snd chosen) -> lookup e0 z = None).
      { intros z Hz. destruct (lookup e0 z) as [w|] eqn:Lz; [|reflexivity]. exfalso. exact (D7 z Hz (D z w Lz)). }
      assert (UnbD : forall o, In o (map fst chosen) -> lookup e0 (dup_name o) = None).
      { intros o Ho. destruct (lookup e0 (dup_name o)) as [w|] eqn:Lz; [|reflexivity]. exfalso. apply (Dn o Ho).
        unfold N. apply in_or_app. right. apply in_or_app. right. apply in_or_app. right. exact (D _ _ Lz). }
      assert (Start : ren_rel V rho N e0 e0).
      { intros z Hz. destruct (in_dec string_dec z (map fst chosen)) as [Zo|Zo].
        - destruct (Co z Zo) as [s Hc]. rewrite (proj1 (Ro _ _ Hc)). rewrite (UnbD z Zo). symmetry. apply Unb. apply in_or_app. left. exact Zo.
        - destruct (in_dec string_dec z (map snd chosen)) as [Zs|Zs].
          + destruct (Cs z Zs) as [o Hc]. rewrite (proj2 (Ro _ _ Hc)).
            rewrite (Unb o) by (apply in_or_app; left; exact (InF _ _ Hc)). symmetry. apply Unb. apply in_or_app. right. exact Zs.
          + rewrite (Rid z Zo Zs). reflexivity. }
      pose proof (run_ren V sem truth trip of_nat of_bool limit rho N Inj (eval_graph F) (eval_graph F) nodes
                   (eval_graph_ren V sem truth trip of_nat of_bool limit rho N Inj F) e0 e0 Start) as RR.
      rewrite R in RR.
      destruct (run (eval_graph F) e0 (map_nodes rho nodes)) as [e2|] eqn:R2.
      2:{ exfalso. apply RR. intros z Hz. unfold N. apply in_or_app. left. exact Hz. }
      assert (RR' : ren_rel V rho N e1 e2) by (apply RR; intros z Hz; unfold N; apply in_or_app; left; exact Hz).
      exists e2. split; [exact R2|].
      apply (lookups_transfer e1 e2 outs rr); [|exact L].
      intros o v Ho Lo.
      assert (oN : In o N) by (unfold N; apply in_or_app; right; apply in_or_app; right; apply in_or_app; left; exact Ho).
      destruct (in_dec string_dec o (map fst chosen)) as [Oc|Oc].
      + destruct (Co o Oc) as [s Hc]. destruct (P o s Hc) as [Sy Sd].
        rewrite <- (proj2 (Ro _ _ Hc)). rewrite (RR' s).
        * destruct I as [_ I2]. exact (I2 o s v Sy Lo).
        * unfold N. apply in_or_app. left. apply defs_in_names. exact Sd.
      + assert (Os : ~ In o (map snd chosen)) by (intro Hi; exact (D4 o Hi Ho)).
        rewrite <- (Rid o Oc Os). rewrite (RR' o oN). exact Lo.
  Qed.
End RO.

(* ---------------------------------------------------------------- the recursion through nested graphs *)
Section Nested.
  Variable V : Type.
  Variable sem : string -> string -> list (string * attrv) -> list (option V) -> option (list V).
  Variable truth : V -> option bool.
  Variable trip : V -> option nat.
  Variable of_nat : nat -> V.
  Variable of_bool : bool -> V.
  Variable limit : nat.
  Variable ref_eval : string -> string -> list (string * attrv) -> list (option V) -> option (list V).
  Variable const_val : list (string * attrv) -> option V.
  Variable attr_of_val : V -> attrv.
  Variable v_dtype : V -> Z.
  Variable v_dims : V -> list Z.
  Variable v_ints : V -> option (list Z).
  Variable v_tensor : V -> bool.
  Hypothesis ref_agrees : forall dom op attrs xs ys, ref_eval dom op attrs xs = Some ys -> sem dom op attrs xs = Some ys.
  Hypothesis const_agrees : forall attrs c vs, const_val attrs = Some c -> sem "" "Constant" attrs vs = Some [c].
  Hypothesis attr_agrees : forall v, const_val [("value"%string, attr_of_val v)] = Some v.
  Hypothesis sem_identity : forall attrs v, sem "" "Identity" attrs [Some v] = Some [v].
  Hypothesis truth_agrees : forall v b, v_ints v = Some [b] -> v_dtype v = DT_BOOL -> truth v = Some (negb (Z.eqb b 0)).
  Variable pe : state V -> node -> pe_out V.
  Variable cfg : config.
  Hypothesis Hpe : pe_ok V sem truth trip of_nat of_bool limit pe.

  Notation env := (list (vname * V)).
  Notation run := (run V sem truth trip of_nat of_bool limit).
  Notation eval_graph := (eval_graph V sem truth trip of_nat of_bool limit).
  Notation visit_nodes := (Fold.visit_nodes V ref_eval const_val attr_of_val v_dtype v_dims v_ints v_tensor pe true cfg).
  Notation visit_subs_d := (Fold.visit_subs_d V ref_eval const_val attr_of_val v_dtype v_dims v_ints v_tensor pe true cfg).
  Notation subs_spec := (subs_spec V sem truth trip of_nat of_bool limit cfg).

  Lemma visit_subs_d_nil d fuel bound st : visit_subs_d (S d) fuel bound st [] = OK (st, [], [], [], []).
  Proof. reflexivity. Qed.

  Lemma visit_subs_d_cons d fuel bound st k gi ginits gnodes gouts t :
    visit_subs_d (S d) fuel bound st ((k, Graph gi ginits gnodes gouts) :: t) =
    if negb (disjointb gi (fnames V st) && disjointb gi bound) then Stuck "subgraph input names are not fresh" else
    match visit_nodes (visit_subs_d d fuel) fuel false (gi ++ bound) st ginits gnodes with
    | OK (sta, ns, ginits', news_a, defd_a, tra) =>
      match replace_outputs V true cfg (gi ++ bound) gi sta ns news_a gouts (gi ++ defd_a ++ map dup_name gouts) with
      | OK (stb, ns', tro) =>
        match visit_subs_d (S d) fuel bound stb t with
        | OK (stc, l', news_c, defd_c, trc) =>
          OK (stc, (k, Graph gi ginits' ns' gouts) :: l', news_a ++ news_c, gi ++ defd_a ++ map dup_name gouts ++ defd_c, tra ++ tro ++ trc)
        | Raised => Raised
        | OutOfFuel => OutOfFuel
        | Stuck w => Stuck w
        end
      | Raised => Raised
      | OutOfFuel => OutOfFuel
      | Stuck w => Stuck w
      end
    | Raised => Raised
    | OutOfFuel => OutOfFuel
    | Stuck w => Stuck w
    end.
  Proof. reflexivity. Qed.

  Ltac incl_solve := let z := fresh "z" in let Hz := fresh "Hz" in
    intros z Hz;
    repeat (first [rewrite in_app_iff in Hz | rewrite in_app_iff | progress cbn [In] in Hz | progress cbn [In]]);
    tauto.

  Lemma find_sub_cons name k g t : find_sub name ((k, g) :: t) = if String.eqb k name then Some g else find_sub name t.
  Proof. reflexivity. Qed.

  (* one nested graph: the traversal followed by the output replacement refines it, in every environment in which the
     recorded facts hold and that binds none of the names the traversal defines *)
  Lemma nested_graph_sound visit_subs (Hs : subs_spec visit_subs) fuel bound st gi ginits gnodes gouts sta ns ginits' news_a defd_a tra stb ns' tro :
    disjointb gi (fnames V st) && disjointb gi bound = true ->
    visit_nodes visit_subs fuel false (gi ++ bound) st ginits gnodes = OK (sta, ns, ginits', news_a, defd_a, tra) ->
    replace_outputs V true cfg (gi ++ bound) gi sta ns news_a gouts (gi ++ defd_a ++ map dup_name gouts) = OK (stb, ns', tro) ->
    ext V st stb (gi ++ defd_a ++ map dup_name gouts) /\
    forall F e, inv V st e -> dom_ok V e bound -> incl (s_guard V st) (c_graph_inputs cfg) ->
      forall args r, eval_graph F e (Graph gi ginits gnodes gouts) args = Some r -> eval_graph F e (Graph gi ginits' ns' gouts) args = Some r.
  Proof.
    intros CK VN RO. apply andb_prop in CK. destruct CK as [CK1 CK2].
    destruct (visit_nodes_sound V sem truth trip of_nat of_bool limit ref_eval const_val attr_of_val v_dtype v_dims v_ints v_tensor
                ref_agrees const_agrees attr_agrees sem_identity truth_agrees pe cfg Hpe visit_subs Hs _ _ _ _ _ _ _ _ _ _ _ _ VN) as [EXa SEMa].
    destruct (replace_outputs_sound V sem truth trip of_nat of_bool limit cfg _ _ _ _ _ _ _ _ _ _ RO) as [EXb SEMb].
    split.
    - eapply ext_weaken; [eapply ext_trans; [exact EXa|exact EXb]|]. incl_solve.
    - intros F e I D GI args r. destruct F as [|F']; [discriminate|].
      cbn [Sem.eval_graph]. unfold Sem.eval_body. cbn [g_ins g_nodes g_outs].
      destruct (bind gi args e) as [e0|] eqn:B; [|discriminate].
      destruct (run (eval_graph F') e0 gnodes) as [e1|] eqn:R; [|discriminate]. intro L.
      assert (I0 : inv V st e0) by (eapply inv_bind; eauto).
      assert (D0 : dom_ok V e0 (gi ++ bound)) by (eapply dom_ok_bind; eauto).
      destruct (SEMa F' e0 e1 I0 D0 GI R) as [e1' (R' & S' & I' & D')].
      pose proof (sub_lookups V e1 e1' gouts r S' L) as L'.
      destruct (SEMb F' e0 e1' r D0 R' I' L') as [e2 [R2 L2]]. rewrite R2. exact L2.
  Qed.

  Theorem visit_subs_d_spec : forall depth fuel, subs_spec (visit_subs_d depth fuel).
  Proof.
    induction depth as [|d IHd]; intro fuel.
    - intros bound st subs st' subs' news defd tr H. destruct subs; [|discriminate]. cbn in H. inversion H; subst.
      split; [apply facts_eq_ext, facts_eq_refl|]. intros F e _ _ _ _ name sg Fs. discriminate.
    - intros bound st subs. revert st. induction subs as [|[k [gi ginits gnodes gouts]] t IHt]; intros st st' subs' news defd tr H.
      + rewrite visit_subs_d_nil in H. inversion H; subst.
        split; [apply facts_eq_ext, facts_eq_refl|]. intros F e _ _ _ _ name sg Fs. discriminate.
      + rewrite visit_subs_d_cons in H.
        destruct (disjointb gi (fnames V st) && disjointb gi bound) eqn:CK; cbn [negb] in H; [|discriminate].
        destruct (visit_nodes (visit_subs_d d fuel) fuel false (gi ++ bound) st ginits gnodes) as [[[[[[sta ns] ginits'] news_a] defd_a] tra]| | |] eqn:VN; try discriminate.
        destruct (replace_outputs V true cfg (gi ++ bound) gi sta ns news_a gouts (gi ++ defd_a ++ map dup_name gouts)) as [[[stb ns'] tro]| | |] eqn:RO; try discriminate.
        destruct (visit_subs_d (S d) fuel bound stb t) as [[[[[stc l'] news_c] defd_c] trc]| | |] eqn:VT; try discriminate.
        inversion H; subst st' subs' news defd tr. clear H.
        destruct (nested_graph_sound (visit_subs_d d fuel) (IHd fuel) _ _ _ _ _ _ _ _ _ _ _ _ _ _ _ _ CK VN RO) as [EXg SEMg].
        destruct (IHt stb _ _ _ _ _ VT) as [EXt SEMt].
        split.
        * eapply ext_weaken; [eapply ext_trans; [exact EXg|exact EXt]|]. incl_solve.
        * intros F e I D GI Dj name sg Fs. rewrite find_sub_cons in Fs. rewrite find_sub_cons.
          destruct (String.eqb k name).
          -- inversion Fs; subst sg. eexists. split; [reflexivity|]. intros args r. apply SEMg; assumption.
          -- assert (Ib : inv V stb e).
             { eapply inv_unbound_ext; [exact I|exact EXg|]. intros x Hx.
               destruct (lookup e x) as [w|] eqn:Lx; [|reflexivity]. exfalso. apply (Dj x); [|exact (D x w Lx)].
               revert Hx. generalize x. incl_solve. }
             apply (SEMt F e Ib D); [rewrite (proj1 EXg); exact GI| |exact Fs].
             intros x Hx. apply Dj. revert Hx. generalize x. incl_solve.
  Qed.

  (* the whole graph: visit_graph of the model = traversal with the real nested visitor + output replacement *)
  Theorem fold_graph_sound : forall depth fuel bound st g st' g' news tr,
    fold_graph V ref_eval const_val attr_of_val v_dtype v_dims v_ints v_tensor pe true cfg depth fuel bound st g = OK (st', g', news, tr) ->
    incl (s_guard V st) (c_graph_inputs cfg) ->
    forall F outer args r,
      (forall e0, bind (g_ins g) args outer = Some e0 -> inv V st e0 /\ dom_ok V e0 (g_ins g ++ bound)) ->
      eval_graph (S F) outer g args = Some r -> eval_graph (S F) outer g' args = Some r.
  Proof.
    intros depth fuel bound st [gi inits nodes outs] st' g' news tr H GI F outer args r H0. unfold fold_graph in H.
    destruct (visit_nodes (visit_subs_d depth fuel) fuel false (gi ++ bound) st inits nodes) as [[[[[[st1 ns] inits'] news1] defd] tr1]| | |] eqn:VN; try discriminate.
    destruct (replace_outputs V true cfg (gi ++ bound) gi st1 ns news1 outs (gi ++ defd ++ map dup_name outs)) as [[[st2 ns'] tro]| | |] eqn:RO; try discriminate.
    inversion H; subst st' g' news tr. clear H.
    destruct (visit_nodes_sound V sem truth trip of_nat of_bool limit ref_eval const_val attr_of_val v_dtype v_dims v_ints v_tensor
                ref_agrees const_agrees attr_agrees sem_identity truth_agrees pe cfg Hpe _ (visit_subs_d_spec depth fuel) _ _ _ _ _ _ _ _ _ _ _ _ VN) as [_ SEMa].
    destruct (replace_outputs_sound V sem truth trip of_nat of_bool limit cfg _ _ _ _ _ _ _ _ _ _ RO) as [_ SEMb].
    cbn [g_ins] in H0. cbn [Sem.eval_graph]. unfold Sem.eval_body. cbn [g_ins g_nodes g_outs].
    destruct (bind gi args outer) as [e0|] eqn:B; [|discriminate]. destruct (H0 e0 eq_refl) as [I D].
    destruct (run (eval_graph F) e0 nodes) as [e1|] eqn:R; [|discriminate]. intro L.
    destruct (SEMa F e0 e1 I D GI R) as [e1' (R' & S' & I' & D')].
    pose proof (sub_lookups V e1 e1' outs r S' L) as L'.
    destruct (SEMb F e0 e1' r D R' I' L') as [e2 [R2 L2]]. rewrite R2. exact L2.
  Qed.
End Nested.
