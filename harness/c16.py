"""C16 -- every registered torch_lib overload binds correctly to its ATen schema (DESIGN.md section 5, C16).

Tie:
  translator      regenerate(ctx): live registry (get_torchlib_ops) + op_signature of every function +
                  torch.ops.<ns>.<name>.<overload>._schema of the installed PyTorch -> coq/Gen/TorchRegistry.v;
                  Props/C16.v re-proves `forallb entry_ok` over it by vm_compute on every run.
  correspondence  the Gallina `bind` against torch's real _construct_named_inputs_and_attrs on the real
                  op_signature (scripted path) and against Python's own call binding (trace-only path) on
                  generated call shapes; `name_ok` against the real _check_and_normalize_names; `register` /
                  `flatten` against the real Registry and get_torchlib_ops.
  direct oracle   each failing entry's witness call is replayed on the real function the way the exporter
                  calls it; onnx.checker.check_function on every scripted function's FunctionProto.
"""
from __future__ import annotations

import inspect
import json
import os
import string as _string

from harness import common
from harness.common import cbool, clist, cnat, copt, cstr

PROPERTY = "C16"
LEVEL = "proof"

DROPPABLE = ("generator", "layout", "device", "pin_memory", "memory_format", "requires_grad")
WHY = {"WTensorToAttr": "tensor-to-attribute", "WNotAccepted": "not-accepted", "WRequiredUnbound": "required-unbound",
       "WDroppedPositional": "dropped-positional", "WTooManyPositional": "too-many-positional",
       "WDroppedKeyword": "dropped-keyword", "WUnexpectedKeyword": "unexpected-keyword"}

_STATE = {}


def _key(qname, cx, arg, why):
    return f"C16|{qname}|{'complex' if cx else 'real'}|{arg}|{why}"


def _known_exception_entries():
    """(qname, complex) pairs named by status-known C16 findings: the registry theorem is stated modulo them."""
    out = []
    for f in common.load_findings():
        if f["property"] == PROPERTY and f.get("status", "known") == "known":
            parts = f["key"].split("|")
            if len(parts) == 5 and parts[0] == "C16":
                k = (parts[1], parts[2] == "complex")
                if k not in out:
                    out.append(k)
    return sorted(out)


# ----------------------------------------------------------------------------- translator

def _c_arg(a):
    return f'A {cstr(a["name"])} {a["base"]} {cb(a["list"])} {cb(a["opt"])} {cb(a["kwonly"])} {cb(a["default"])}'


def cb(b):
    return "Y" if b else "N"


def _c_param(p):
    kind = "PInput" if p["kind"] == "PInput" else f"(PAttr {p['kind']})"
    return f'P {cstr(p["name"])} {kind} {cb(p["required"])}'


def _load():
    if "entries" in _STATE:
        return _STATE["entries"], _STATE["counts"]
    from harness import c16_extract as X
    entries, counts = X.registry_entries()
    for e in entries:
        if e["status"] == "python":
            # Python builtin: positional-only arity taken from the builtin itself
            try:
                n = len(inspect.signature(e["target"]).parameters)
            except (TypeError, ValueError) as ex:
                raise X.Untranslatable(f"{e['qname']}: no signature for builtin {e['target']!r}: {ex}")
            e["schema"] = [{"name": f"arg{i}", "base": "BPyObj", "list": False, "opt": False, "kwonly": False,
                            "default": False, "type": "object"} for i in range(n)]
            e["schema_str"] = f"{e['qname']}({', '.join('arg%d' % i for i in range(n))})  [python builtin]"
    _STATE["entries"], _STATE["counts"] = entries, counts
    return entries, counts


def regenerate(ctx):
    from harness import c16_extract as X
    try:
        entries, _counts = _load()
    except X.Untranslatable as ex:
        ctx.tie_broken("translator", "torch_lib registry", str(ex))
        _STATE["broken"] = True
        return
    # one definition per distinct function object
    fn_ids = {}
    lines = [
        "(* GENERATED on every run by harness/c16.py (regenerate) from the live torch_lib registry of the checked tree",
        "   and the operator schemas of the installed PyTorch.  Do not edit. *)",
        "From Coq Require Import String List.",
        "Require Import OV.Registry.Binding.",
        "Import ListNotations.",
        "Open Scope string_scope.",
        "Local Notation Y := true (only parsing).",
        "Local Notation N := false (only parsing).",
        "Local Notation A := mkA (only parsing).",
        "Local Notation P := mkP (only parsing).",
    ]
    for e in entries:
        fid = id(e["fn"])
        if fid not in fn_ids:
            fn_ids[fid] = f"f{len(fn_ids)}"
            lines.append(f"Definition {fn_ids[fid]} := mkF {clist(e['params'], _c_param)} {cbool(e['traced'])}.")
        e["fid"] = fn_ids[fid]
    chunks = []
    for i, e in enumerate(entries):
        sch = copt(clist(e["schema"], _c_arg)) if "schema" in e else "None"
        lines.append(f"Definition e{i} := mkE {cstr(e['qname'])} {cbool(e['complex'])} {cstr(e['fname'])} {e['fid']} {sch}.")
    for k in range(0, len(entries), 50):
        chunks.append(f"all{k // 50}")
        lines.append(f"Definition all{k // 50} : list entry := {clist(['e%d' % j for j in range(k, min(k + 50, len(entries)))])}.")
    lines.append("Definition all : list entry := " + (" ++ ".join(chunks) if chunks else "[]") + ".")
    known = _known_exception_entries()
    lines.append("(* entries named by status-known findings of known_findings.json: the registry theorem is stated modulo these *)")
    lines.append("Definition known_exceptions : list (string * bool) := "
                 + clist([f"({cstr(q)}, {cbool(c)})" for q, c in known]) + ".")
    text = "\n".join(lines) + "\n"
    _STATE["gen_changed"] = ctx.gen("TorchRegistry", text)
    _STATE["known_exceptions"] = known


# ----------------------------------------------------------------------------- real-code observers

class _Arg:
    """Sentinel standing for one supplied argument of a call."""
    __slots__ = ("src",)

    def __init__(self, src):
        self.src = src          # ("pos", i) | ("kw", name)

    def __repr__(self):
        return f"<arg {self.src}>"


def _mk_call(npos, kws):
    return [_Arg(("pos", i)) for i in range(npos)], {k: _Arg(("kw", k)) for k in kws}


def _src_of(v):
    return v.src if isinstance(v, _Arg) else None


def real_bind_scripted(op_signature, npos, kws):
    """torch's _construct_named_inputs_and_attrs on a real OpSignature.
    -> None if it raised, else ([source per parameter], [dropped keyword names])."""
    from torch.onnx._internal.exporter import _building
    args, kwargs = _mk_call(npos, kws)
    try:
        named_inputs, named_attrs = _building._construct_named_inputs_and_attrs(op_signature, args, kwargs)
    except ValueError:
        return None
    srcs = []
    used = set()
    for p in op_signature.params:
        v = named_inputs.get(p.name, named_attrs.get(p.name))
        s = _src_of(v)
        srcs.append(s)
        if s is not None and s[0] == "kw":
            used.add(s[1])
    return srcs, [k for k in kws if k not in used]


def real_bind_python(pyfunc, npos, kws):
    """Python's own call binding (what TracedOnnxFunction.__call__ = func(*args, **kwargs) does)."""
    args, kwargs = _mk_call(npos, kws)
    try:
        ba = inspect.signature(pyfunc).bind(*args, **kwargs)
    except TypeError:
        return None
    srcs = [_src_of(ba.arguments.get(name)) for name in inspect.signature(pyfunc).parameters]
    return srcs, []


def real_call_traced(fn, npos, kws):
    """Call the registered TracedOnnxFunction object itself the way torch's _core.py does
    (onnx_function(*onnx_args, **onnx_kwargs)).  -> "binding-error" when Python refuses the call before the
    function body starts (TypeError raised in TracedOnnxFunction.__call__'s own frame), "bound" otherwise
    (the body then runs on placeholder arguments; whatever it does is irrelevant here)."""
    args, kwargs = _mk_call(npos, kws)
    try:
        fn(*args, **kwargs)
    except TypeError as ex:
        tb = ex.__traceback__
        while tb.tb_next is not None:
            tb = tb.tb_next
        code = tb.tb_frame.f_code
        if code.co_name == "__call__" and code.co_filename.endswith("values.py"):
            return "binding-error"
        return "bound"
    except Exception:  # noqa: BLE001 - the body ran on placeholders
        return "bound"
    return "bound"


def _c_src(s):
    if s is None:
        return "SDefault"
    return f"SPos {s[1]}" if s[0] == "pos" else f"SKw {cstr(s[1])}"


def _c_obs(o):
    if o is None:
        return "None"
    return f"(Some ({clist(o[0], _c_src)}, {clist(o[1], cstr)}))"


def _c_call(npos, kws):
    return f"(mkC {npos} {clist(kws, cstr)})"


def _eval_disagreeing(ctx, stream, cases, meta, requires=("OV.Registry.Binding", "OV.Gen.TorchRegistry")):
    """cases: Coq terms (fn_sig, call, observed); prints indices where the model disagrees."""
    bad_all = []
    shard = 1500
    bodies = []
    for k in range(0, len(cases), shard):
        part = cases[k:k + shard]
        bodies.append("Open Scope string_scope.\n"
                      f"Definition cases : list (fn_sig * call * option (list source * list string)) := {clist(part)}.\n"
                      "Eval vm_compute in (disagreeing (fun x => match x with (f, c, o) => outcome_agrees f c o end) 0 cases).")
    # (ctx.coq_eval_shards cannot be used: it rewrites '-' in the scratch path)
    from concurrent.futures import ThreadPoolExecutor
    tag = stream.replace(":", "_").replace("-", "_")
    with ThreadPoolExecutor(max_workers=4) as ex:
        results = list(ex.map(lambda kb: ctx.coq_eval(list(requires), kb[1], name=f"{tag}_{kb[0]}"), enumerate(bodies)))
    for k, (ok, vals, raw) in enumerate(results):
        if not ok or not vals:
            ctx.tie_broken("correspondence", f"{stream}:model-evaluation", raw[-800:])
            return None
        bad_all += [k * shard + i for i in common.parse_nat_list(vals[0])]
    for i in bad_all[:10]:
        ctx.tie_broken("correspondence", stream, f"model and implementation bind differently: {meta[i]}")
    return bad_all


# ----------------------------------------------------------------------------- call shapes

def _shapes_for(schema, rng, tier):
    """Conforming call shapes (all admissible prefixes x some keyword subsets) and a few non-conforming ones."""
    pos = [a for a in schema if not a["kwonly"]]
    kw = [a for a in schema if a["kwonly"]]
    need = max([i + 1 for i, a in enumerate(pos) if not a["default"]] + [0])
    req_kw = [a["name"] for a in kw if not a["default"]]
    opt_kw = [a["name"] for a in kw if a["default"]]
    shapes = []
    for n in range(need, len(pos) + 1):
        shapes.append((n, list(req_kw), True))
        if opt_kw:
            shapes.append((n, req_kw + opt_kw, True))
            k = rng.randint(1, len(opt_kw))
            shapes.append((n, req_kw + sorted(rng.sample(opt_kw, k)), True))
    if tier == "thorough":
        for name in opt_kw:
            shapes.append((len(pos), req_kw + [name], True))
            shapes.append((need, req_kw + [name], True))
    # near misses: one positional too few / too many, a keyword the schema does not have,
    # a positional argument also given by keyword
    if need > 0:
        shapes.append((need - 1, list(req_kw), False))
    shapes.append((len(pos) + 1, list(req_kw), False))
    shapes.append((len(pos), req_kw + ["not_a_schema_argument"], False))
    if pos:
        shapes.append((len(pos), req_kw + [pos[rng.randrange(len(pos))]["name"]], False))
    return shapes


# ----------------------------------------------------------------------------- the check

def _diagnose(ctx, n_entries):
    """Ask the Coq model which entries do not bind and why: [(entry index, argument, reason, npos, kws)]."""
    body = (
        "Open Scope string_scope.\n"
        "Definition code (w : why) : nat := match w with WTensorToAttr => 0 | WNotAccepted => 1 | WRequiredUnbound => 2 "
        "| WDroppedPositional => 3 | WTooManyPositional => 4 | WDroppedKeyword => 5 | WUnexpectedKeyword => 6 end.\n"
        "Eval vm_compute in (flat_map (fun ie => match ie with (i, e) => if entry_ok e then [] else "
        "match e_schema e with None => [(i, \"\", 99, 0, @nil string)] "
        "| Some s => map (fun d => match d with (a, w, c) => (i, a, code w, c_npos c, c_kws c) end) (diagnose s (e_sig e)) end end) "
        "(combine (seq 0 (List.length all)) all)).\n"
        "Eval vm_compute in (map fst (filter (fun ie => negb (entry_ok (snd ie))) (combine (seq 0 (List.length all)) all))).\n"
        "Eval vm_compute in (map fst (filter (fun ie => negb (name_ok (e_name (snd ie)))) (combine (seq 0 (List.length all)) all))).\n"
        "Eval vm_compute in (List.length all).")
    ok, vals, raw = ctx.coq_eval(["OV.Registry.Binding", "OV.Gen.TorchRegistry"], body)
    if not ok or len(vals) != 4:
        ctx.tie_broken("correspondence", "diagnose:model-evaluation", raw[-1500:])
        return None
    import ast
    txt = vals[0].replace(";", ",")
    items = ast.literal_eval(txt) if txt.strip() not in ("[]", "nil") else []
    codes = ["WTensorToAttr", "WNotAccepted", "WRequiredUnbound", "WDroppedPositional", "WTooManyPositional",
             "WDroppedKeyword", "WUnexpectedKeyword"]
    diag = [(i, a, "undefined" if w == 99 else codes[w], n, list(k)) for (i, a, w, n, k) in items]
    failing = common.parse_nat_list(vals[1])
    badnames = common.parse_nat_list(vals[2])
    if int(vals[3]) != n_entries:
        ctx.tie_broken("translator", "TorchRegistry", f"Coq sees {vals[3]} entries, the translator wrote {n_entries}")
    # an entry that fails must come with at least one reason (diagnose mirrors binds_ok)
    for i in failing:
        if not any(d[0] == i for d in diag):
            ctx.tie_broken("correspondence", "diagnose", f"entry {i} fails binds_ok but diagnose names no argument")
    return diag, failing, badnames


def _replay_failure(e, arg, why, npos, kws):
    """Direct oracle: put the witness call to the real function the way the exporter does and see whether
    the property's clause really fails.  -> (confirmed, observation text)"""
    sig = e["fn"].op_signature
    params = {p.name: p for p in sig.params}
    import onnx_ir as ir
    if e["traced"]:
        obs = real_bind_python(_pyfunc(e), npos, kws)
        if obs is None and why in ("WTensorToAttr", "WNotAccepted"):
            # another defect of the same entry makes the Python call raise; locate the parameter the argument
            # reaches with the positional/keyword rule alone (excess arguments ignored)
            obs = real_bind_scripted(sig, npos, kws)
    else:
        obs = real_bind_scripted(sig, npos, kws)
    names = [p.name for p in sig.params]
    pos = [a for a in e["schema"] if not a["kwonly"]]
    if why in ("WRequiredUnbound", "WTooManyPositional", "WUnexpectedKeyword"):
        if e["traced"]:
            # the exporter's path for a trace-only entry: the TracedOnnxFunction object is called directly
            called = real_call_traced(e["fn"], npos, kws)
            ok = obs is None and called == "binding-error"
            return ok, (f"TracedOnnxFunction call: {called}; inspect.signature.bind: {'raises' if obs is None else 'binds'}")
        return obs is None, ("_construct_named_inputs_and_attrs raises" if obs is None else f"binds {list(zip(names, obs[0]))}")
    if obs is None:
        return False, "raises (expected a binding)"
    srcs, dk = obs
    if why == "WDroppedKeyword":
        return arg in dk, f"dropped keywords {dk}"
    if why == "WDroppedPositional":
        idx = [i for i, a in enumerate(pos) if a["name"] == arg]
        reached = any(s == ("pos", idx[0]) for s in srcs) if idx else True
        return (not reached), f"positional #{idx[0] if idx else '?'} reaches no parameter" if not reached else "reaches a parameter"
    # WTensorToAttr / WNotAccepted: the argument lands on an attribute parameter of an unsuitable type
    tgt = None
    for name, s in zip(names, srcs):
        if s is None:
            continue
        a = pos[s[1]] if s[0] == "pos" and s[1] < len(pos) else next((x for x in e["schema"] if x["kwonly"] and x["name"] == s[1]), None)
        if a is not None and a["name"] == arg:
            tgt = name
    if tgt is None:
        return False, f"argument {arg} reaches no parameter"
    p = params[tgt]
    is_attr = isinstance(p, ir.schemas.AttributeParameter)
    return is_attr, f"argument {arg} reaches parameter {tgt} ({'attribute ' + p.type.name if is_attr else 'input'})"


def _pyfunc(e):
    from harness import c16_extract as X
    return X.python_function(e["fn"])


def _check_registry_entries(ctx, entries):
    """binds_ok over the regenerated registry, evaluated by the Coq model; every failing (entry, argument)
    is replayed on the real code and reported as a concrete input."""
    res = _diagnose(ctx, len(entries))
    if res is None:
        return
    diag, failing, badnames = res
    for i in badnames:
        e = entries[i]
        ctx.violation(f"C16|{e['qname']}|{'complex' if e['complex'] else 'real'}|-|malformed-name",
                      f"registered name {e['qname']!r} is not of the form namespace::name[.overload] / ends in .default",
                      {"qualified_name": e["qname"], "function": e["fname"]})
    n_confirmed = 0
    for (i, arg, why, npos, kws) in diag:
        e = entries[i]
        cx = e["complex"]
        if why == "undefined":
            # the lookup itself is the observation (harness/c16_extract.resolve_overload on the installed torch)
            ctx.violation(_key(e["qname"], cx, "-", "undefined-operator"),
                          f"{e['qname']} is registered ({e['fname']}) but the installed PyTorch defines no such operator overload: {e['target']}",
                          {"qualified_name": e["qname"], "function": e["fname"], "complex": cx, "lookup": str(e["target"])})
            n_confirmed += 1
            continue
        confirmed, seen = _replay_failure(e, arg, why, npos, kws)
        call = {"n_positional": npos, "keywords": kws}
        what = (f"{e['qname']} ({'complex ' if cx else ''}{e['fname']}, {'trace-only' if e['traced'] else 'scripted'}): "
                f"schema argument/parameter '{arg}' {WHY[why]} on call shape {call}; schema {e['schema_str']}; "
                f"parameters {[(p['name'], p['kind'], 'required' if p['required'] else 'optional') for p in e['params']]}; real binding: {seen}")
        if confirmed:
            n_confirmed += 1
            ctx.violation(_key(e["qname"], cx, arg, WHY[why]), what,
                          {"qualified_name": e["qname"], "function": e["fname"], "complex": cx, "argument": arg, "reason": WHY[why],
                           "call_shape": call, "schema": e["schema_str"], "parameters": e["params"], "observed": seen})
        else:
            ctx.tie_broken("correspondence", "diagnose-vs-real",
                           f"model says {e['qname']}:{arg} {WHY[why]} on {call}, the real binding shows: {seen}")
    # the theorem is stated modulo the entries named by known findings: an excepted entry that binds is stale bookkeeping, not a failure
    failing_keys = {(entries[i]["qname"], entries[i]["complex"]) for i in failing}
    _STATE["failing_keys"] = failing_keys
    stale = [k for k in _STATE.get("known_exceptions", []) if k not in failing_keys]
    ctx.cover(registry_entries=len(entries), entries_failing_binds_ok=len(failing), failing_arguments=len(diag),
              failing_confirmed_on_real_code=n_confirmed, excepted_entries=len(_STATE.get("known_exceptions", [])),
              excepted_but_binding_now=[f"{q}{'|complex' if c else ''}" for q, c in stale])
    ctx.obligation("every entry failing binds_ok is diagnosed and its witness call replayed on the real function",
                   n_confirmed == len(diag), f"{n_confirmed}/{len(diag)} confirmed")
    for e in entries:
        if "schema" in e:
            pos = [a for a in e["schema"] if not a["kwonly"]]
            ctx.case(("entry", e["status"], e["traced"], len(pos), len(e["schema"]) - len(pos), len(e["params"]),
                      tuple(sorted({p["kind"] for p in e["params"]}))))
        else:
            ctx.case(("entry", e["status"]))


def _check_variants(ctx, entries):
    """Which of the two pinned variants (Registry/BindingSnapshots.v: signature as first read / as repaired) each
    defective signature family of the checked tree is in.  The verdict itself comes from the regenerated registry
    (entry_ok, evaluated above); here the live entry is compared with both snapshots, and the consequences of
    C16_repairs_sound are cross-checked: as-read => the entry fails and was reported, repaired => it binds."""
    body = (
        "Open Scope string_scope.\n"
        "Definition vcode (v : variant) : nat := match v with VAsRead => 0 | VRepaired => 1 | VOther => 2 | VAbsent => 3 end.\n"
        "Eval vm_compute in (map (fun fam => match variant_of all fam with (v, same, ok) => "
        "(fam_name fam, (if fam_complex fam then 1 else 0), vcode v, (if same then 1 else 0), (if ok then 1 else 0)) end) families).")
    ok, vals, raw = ctx.coq_eval(["OV.Registry.Binding", "OV.Registry.BindingSnapshots", "OV.Gen.TorchRegistry"], body)
    if not ok or len(vals) != 1:
        ctx.tie_broken("correspondence", "variants:model-evaluation", raw[-1200:])
        return
    import ast
    rows = ast.literal_eval(vals[0].replace(";", ","))
    names = ["as-read", "repaired", "other", "absent"]
    failing = _STATE.get("failing_keys", set())
    live = {(e["qname"], e["complex"]) for e in entries}
    seen, bad = {}, []
    for (q, cx, v, same, eok) in rows:
        cx, same, eok = bool(cx), bool(same), bool(eok)
        tag = f"{q}{'|complex' if cx else ''}"
        seen[tag] = names[v] + ("" if same or v == 3 else " (installed PyTorch's schema differs from the snapshot's)")
        ctx.case(("variant", q, cx, names[v], same, eok))
        if (v == 3) != ((q, cx) not in live):
            bad.append(f"{tag}: Coq sees the entry as {names[v]}, the live registry {'has' if (q, cx) in live else 'does not have'} it")
        if eok != ((q, cx) not in failing) and v != 3:
            bad.append(f"{tag}: entry_ok={eok} in the variant probe but the registry pass {'reported' if (q, cx) in failing else 'did not report'} it")
        if same and v == 0 and eok:
            bad.append(f"{tag}: the live entry equals the as-read snapshot (refuted by C16_repairs_sound) yet binds_ok holds")
        if same and v == 1 and not eok:
            bad.append(f"{tag}: the live entry equals the repaired snapshot (binds by C16_repairs_sound) yet binds_ok fails")
    for d in bad:
        ctx.tie_broken("correspondence", "variants", d)
    ctx.obligation("variant probe: each pinned family's live entry is classified (as-read / repaired / other) consistently with entry_ok "
                   "and C16_repairs_sound", not bad, f"{len(rows)} families, {len(bad)} inconsistencies")
    ctx.cover(family_variants=seen)


def _check_bind_correspondence(ctx, entries):
    """Model `bind` vs the real binding code, on every entry of the registry and generated call shapes."""
    from harness import c16_extract as X
    rng = ctx.rng
    cases, meta = [], []
    n_conf = n_non = n_err = 0
    for i, e in enumerate(entries):
        if "schema" not in e:
            continue
        sig = e["fn"].op_signature
        pyf = X.python_function(e["fn"])
        shapes = _shapes_for(e["schema"], rng, ctx.tier)
        if ctx.tier == "quick" and len(shapes) > 8:
            keep = shapes[-4:]
            shapes = rng.sample(shapes[:-4], 4) + keep
        for (npos, kws, conf) in shapes:
            lenient = real_bind_scripted(sig, npos, kws)
            strict = real_bind_python(pyf, npos, kws)
            n_conf += conf
            n_non += (not conf)
            n_err += (lenient is None) + (strict is None)
            cases.append(f"(mkF (f_params (e_sig e{i})) false, {_c_call(npos, kws)}, {_c_obs(lenient)})")
            meta.append((e["qname"], "construct_named_inputs_and_attrs", npos, kws, lenient))
            cases.append(f"(mkF (f_params (e_sig e{i})) true, {_c_call(npos, kws)}, {_c_obs(strict)})")
            meta.append((e["qname"], "python-call", npos, kws, strict))
            ctx.case(("bind", e["traced"], "conforming" if conf else "near-miss", min(npos, 4), min(len(kws), 3),
                      lenient is None, strict is None))
    bad = _eval_disagreeing(ctx, "bind:registry", cases, meta)
    if bad is not None:
        ctx.obligation("correspondence: Gallina bind = torch _construct_named_inputs_and_attrs / Python call binding on registry entries",
                       not bad, f"{len(bad)} disagreements of {len(cases)}")
    ctx.cover(bind_cases_registry=len(cases), bind_conforming_shapes=n_conf, bind_near_miss_shapes=n_non, bind_real_errors=n_err)
    if cases:
        ctx.sample({"stream": "bind:registry", "case": meta[len(meta) // 3]})

    # synthetic signatures: parameter orders / name collisions the registry does not contain
    import onnx_ir as ir
    pool = ["self", "other", "dim", "keepdim", "dtype", "alpha", "device", "layout"]
    n_syn = 300 if ctx.tier == "quick" else 3000
    cases, meta = [], []
    for _ in range(n_syn):
        m = rng.randint(0, 5)
        names = rng.sample(pool, m)
        params, cparams, pyparams = [], [], []
        seen_default = False
        py_valid = True
        for nm in names:
            is_input = rng.random() < 0.5
            required = rng.random() < 0.5
            if seen_default and required:
                py_valid = False
            seen_default = seen_default or not required
            if is_input:
                kw = {} if required else {"default": None}
                params.append(ir.schemas.Parameter(name=nm, type_constraint=ir.schemas.TypeConstraintParam.any_value("T_" + nm),
                                                   required=required, variadic=False, homogeneous=True, **kw))
                cparams.append({"name": nm, "kind": "PInput", "required": required})
            else:
                default = None if required else ir.Attr(nm, ir.AttributeType.INT, 0)
                params.append(ir.schemas.AttributeParameter(name=nm, type=ir.AttributeType.INT, required=required, default=default))
                cparams.append({"name": nm, "kind": "AInt", "required": required})
            pyparams.append(nm if required else f"{nm}=None")
        sig = ir.schemas.OpSignature(domain="test", name="f", overload="", params=params, outputs=[])
        npos = rng.randint(0, m + 1)
        kws = sorted(rng.sample(pool + ["extra"], rng.randint(0, 3)))
        cf = "mkF " + clist(cparams, lambda p: "mkP %s %s %s" % (cstr(p["name"]), "PInput" if p["kind"] == "PInput" else "(PAttr AInt)", cbool(p["required"])))
        lenient = real_bind_scripted(sig, npos, kws)
        cases.append(f"({cf} false, {_c_call(npos, kws)}, {_c_obs(lenient)})")
        meta.append(("synthetic", [(p["name"], p["kind"], p["required"]) for p in cparams], npos, kws, lenient))
        ctx.case(("bind-synthetic", "lenient", m, min(npos, m + 1), len(kws), lenient is None))
        if py_valid:
            ns = {}
            exec(f"def f({', '.join(pyparams)}): pass", ns)  # noqa: S102 - fixed grammar, names from a fixed pool
            strict = real_bind_python(ns["f"], npos, kws)
            cases.append(f"({cf} true, {_c_call(npos, kws)}, {_c_obs(strict)})")
            meta.append(("synthetic-python", [(p["name"], p["kind"], p["required"]) for p in cparams], npos, kws, strict))
            ctx.case(("bind-synthetic", "strict", m, min(npos, m + 1), len(kws), strict is None))
    bad = _eval_disagreeing(ctx, "bind:synthetic", cases, meta, requires=("OV.Registry.Binding",))
    if bad is not None:
        ctx.obligation("correspondence: Gallina bind = real binding code on synthetic signatures", not bad,
                       f"{len(bad)} disagreements of {len(cases)}")
    ctx.cover(bind_cases_synthetic=len(cases))


_BASES = ["BTensor", "BScalar", "BInt", "BSymInt", "BBool", "BFloat", "BStr", "BScalarType", "BLayout", "BDevice",
          "BMemoryFormat", "BGenerator", "BPyObj"]
_ATTRS = ["INT", "FLOAT", "STRING", "INTS", "FLOATS", "STRINGS", "TENSOR", "TENSORS", "GRAPH", "GRAPHS"]


def _check_accept_table(ctx):
    """`attr_accepts` against the real conversion chain (_convert_fx_arg_to_onnx_arg ->
    _construct_named_inputs_and_attrs -> ir.convenience.convert_attributes) on representative values:
    an attribute parameter of type t accepts a schema type iff some value of that type arrives as an attribute of type t."""
    import onnx_ir as ir
    import torch
    from torch.onnx._internal.exporter import _building, _core
    from harness import c16_extract as X

    def conv(v):
        return _core._convert_fx_arg_to_onnx_arg(v, {}, {})

    class _Opaque:
        pass
    scalar = {"BTensor": [ir.Value(name="t")], "BScalar": [2, 2.5, True], "BInt": [3], "BSymInt": [3], "BBool": [True], "BFloat": [2.5],
              "BStr": ["a"], "BScalarType": [torch.float32], "BLayout": [torch.strided], "BDevice": [torch.device("cpu")],
              "BMemoryFormat": [torch.contiguous_format], "BGenerator": [torch.Generator()], "BPyObj": [_Opaque()]}
    lists = {"BTensor": [[ir.Value(name="t")]], "BScalar": [[1, 2], [1.5, 2.5]], "BInt": [[1, 2]], "BSymInt": [[1, 2]],
             "BBool": [[True, False]], "BFloat": [[1.5, 2.5]], "BStr": [["a", "b"]]}
    cells, obs = [], []
    for b in _BASES:
        for is_list in (False, True):
            vals = (lists if is_list else scalar).get(b, [])
            for t in _ATTRS:
                at = getattr(ir.AttributeType, t)
                sig = ir.schemas.OpSignature(domain="t", name="f", overload="", outputs=[],
                                             params=[ir.schemas.AttributeParameter(name="x", type=at, required=True, default=None)])
                ok = False
                for v in vals:
                    try:
                        _ins, attrs = _building._construct_named_inputs_and_attrs(sig, [v if b == "BTensor" else conv(v)], {})
                        res = ir.convenience.convert_attributes(attrs)
                        ok = ok or (len(res) == 1 and res[0].type == at)
                    except Exception:
                        pass
                cells.append((b, is_list, t))
                obs.append(ok)
                ctx.case(("accept", b, is_list, t, ok))
    terms = [f"(mkA \"x\" {b} {cbool(l)} false false false, {X.ATTR_TYPES[t]}, {cbool(o)})" for (b, l, t), o in zip(cells, obs)]
    body = ("Open Scope string_scope.\n"
            f"Definition cells : list (sarg * attr_ty * bool) := {clist(terms)}.\n"
            "Eval vm_compute in (disagreeing (fun x => match x with (a, t, o) => Bool.eqb (negb (is_tensor a) && attr_accepts a t) o end) 0 cells).")
    ok, vals, raw = ctx.coq_eval(["OV.Registry.Binding"], body)
    if not ok or not vals:
        ctx.tie_broken("correspondence", "accept-table:model-evaluation", raw[-800:])
        return
    bad = common.parse_nat_list(vals[0])
    for i in bad:
        ctx.tie_broken("correspondence", "accept-table", f"schema type {cells[i][0]}{'[]' if cells[i][1] else ''} -> attribute {cells[i][2]}: "
                                                          f"real exporter {'accepts' if obs[i] else 'does not accept'}, model differs")
    ctx.obligation("correspondence: attr_accepts = what the real conversion chain turns into an attribute of the declared type", not bad)
    ctx.cover(accept_cells=len(cells), accept_true=sum(obs))


def _check_signature_sources(ctx, entries):
    """The parameter list used by the model (function.op_signature, onnxscript/ir/_schemas.py) against the
    signature the installed exporter derives itself (torch ... _schemas.op_signature_from_function)."""
    import onnx_ir as ir
    from onnxscript import values
    from torch.onnx._internal.exporter import _schemas as torch_schemas
    seen = set()
    n = bad = 0
    for e in entries:
        fn = e["fn"]
        if id(fn) in seen:
            continue
        seen.add(id(fn))
        try:
            if isinstance(fn, values.OnnxFunction):
                ts = torch_schemas.op_signature_from_function(fn, fn.function_ir.domain, fn.name, since_version=fn.opset.version)
            else:
                ts = torch_schemas.op_signature_from_function(fn, "__traced", fn.__name__)
        except Exception as ex:
            ctx.tie_broken("correspondence", "op_signature", f"{e['fname']}: torch cannot derive a signature: {ex!r}")
            continue

        def shape(sig):
            return [(p.name, "in" if isinstance(p, ir.schemas.Parameter) else p.type.name, bool(p.required)) for p in sig.params]
        n += 1
        if shape(ts) != shape(fn.op_signature):
            bad += 1
            ctx.tie_broken("correspondence", "op_signature",
                           f"{e['fname']}: onnxscript op_signature {shape(fn.op_signature)} differs from the exporter's {shape(ts)}")
    ctx.obligation("function.op_signature agrees with the signature the installed exporter derives (name, input/attribute type, required)",
                   bad == 0, f"{bad} of {n} functions differ")
    ctx.cover(signatures_compared=n)


def _rand_name(rng):
    word = _string.ascii_letters + _string.digits + "_"
    def w(lo=1, hi=6):
        return "".join(rng.choice(word) for _ in range(rng.randint(lo, hi)))
    kind = rng.randrange(12)
    if kind == 0:
        return f"{w()}::{w()}"
    if kind == 1:
        return f"{w()}::{w()}.{w()}"
    if kind == 2:
        return f"{w()}::{w()}.default"
    if kind == 3:
        return f"{w()}::{w()}.{w()}.default"
    if kind == 4:
        return f"{w()}::{w()}."
    if kind == 5:
        return f"{w()}:{w()}"
    if kind == 6:
        return f"::{w()}"
    if kind == 7:
        return f"{w()}::{w()}::{w()}"
    if kind == 8:
        return f"{w()}::{w()}.{w()}.{w()}_{w()}"
    if kind == 9:
        return f"{w()}::{w()}{rng.choice('-+ /*()[]')}{w()}"
    if kind == 10:
        return f"{w()}::.{w()}"
    return "".join(rng.choice(word + ":.:.") for _ in range(rng.randint(0, 12)))


def _check_names(ctx, entries):
    from onnxscript.function_libs.torch_lib import registration
    rng = ctx.rng
    names = sorted({e["qname"] for e in entries})
    extra = ["aten::relu.default", "aten::add.Tensor", "aten::add.", "aten::add..Tensor", "aten::a.default.b", "aten::default",
             "aten::x.defaultx", ".default", "a::b.default", "a::b.c.default", "", "::", "a::", "::b", "a::b", "a::b.", "a::b.c", "a b::c",
             "a::b c", "a::b.c d", "aten::add.Tensor ", " aten::add", "a:::b", "a::b:c"]
    n = 400 if ctx.tier == "quick" else 4000
    strings = names + extra + [_rand_name(rng) for _ in range(n)]
    obs = []
    for s in strings:
        try:
            registration._check_and_normalize_names(s)
            obs.append(True)
        except ValueError:
            obs.append(False)
        ctx.case(("name", obs[-1], "::" in s, s.endswith(".default"), min(s.count("."), 3)))
    terms = [f"({cstr(s)}, {cbool(o)})" for s, o in zip(strings, obs)]
    body = ("Open Scope string_scope.\n"
            f"Definition cases : list (string * bool) := {clist(terms)}.\n"
            "Eval vm_compute in (disagreeing (fun x => Bool.eqb (name_ok (fst x)) (snd x)) 0 cases).")
    ok, vals, raw = ctx.coq_eval(["OV.Registry.Binding"], body)
    if not ok or not vals:
        ctx.tie_broken("correspondence", "names:model-evaluation", raw[-800:])
        return
    bad = common.parse_nat_list(vals[0])
    for i in bad[:10]:
        s = strings[i]
        # direct oracle on the disagreeing string: a name the real check lets through although the property forbids it
        if obs[i] and (s.endswith(".default") or not _text_form_ok(s)):
            ctx.violation("C16|name-check|accepts-malformed", f"_check_and_normalize_names accepts {s!r}",
                          {"name": s, "accepted_by_implementation": True})
        else:
            ctx.tie_broken("correspondence", "names", f"{s!r}: implementation {'accepts' if obs[i] else 'rejects'}, model differs")
    ctx.obligation("correspondence: name_ok = _check_and_normalize_names (accept / ValueError)", not bad, f"{len(bad)} of {len(strings)}")
    ctx.cover(name_cases=len(strings), names_accepted=sum(obs))


def _text_form_ok(s):
    """The form the property text asks for, spelled without the regex under test: ns::name[.overload], word characters."""
    word = set(_string.ascii_letters + _string.digits + "_")
    if s.count("::") != 1:
        return False
    ns, rest = s.split("::")
    name, dot, ov = rest.partition(".")
    if not ns or not name or not set(ns) <= word or not set(name) <= word:
        return False
    if dot and (not ov or not set(ov) <= word | {"."}):
        return False
    return True


def _check_registry_model(ctx):
    """`register` / `flatten` against the real Registry.register and get_torchlib_ops on generated registration sequences."""
    import warnings

    from onnxscript._framework_apis import torch_2_5
    from onnxscript.function_libs.torch_lib import registration
    rng = ctx.rng

    class _IR:
        domain = "test"

    class _Fn:
        def __init__(self, i):
            self.i = i
            self.name = f"fn{i}"
            self.function_ir = _IR()
    names = ["aten::a", "aten::a.b", "aten::c", "internal::x", "prims::a", "internal::y.z"]
    n_seq = 60 if ctx.tier == "quick" else 600
    terms, meta = [], []
    for _ in range(n_seq):
        reg = registration.Registry()
        seq = []
        for j in range(rng.randint(0, 9)):
            nm = rng.choice(names)
            cx = rng.random() < 0.4
            fn = _Fn(j)
            seq.append((j, nm, cx))
            with warnings.catch_warnings():
                warnings.simplefilter("ignore")
                reg.register(fn, nm, complex=cx)
        state = [(nm, [f.i for f in ov.overloads], [f.i for f in ov.complex]) for nm, ov in reg.items()]
        saved = registration.default_registry
        try:
            registration.default_registry = reg
            flat = [(m.qualified_name, m.function.i, bool(m.is_complex)) for m in torch_2_5.get_torchlib_ops()]
        finally:
            registration.default_registry = saved
        dup = len({(q, c) for q, _f, c in flat}) != len(flat)
        if dup:
            ctx.violation("C16|registry|pair-resolves-to-several-functions",
                          f"after registrations {seq} get_torchlib_ops returns several functions for one (name, complex) pair: {flat}",
                          {"registrations": seq, "get_torchlib_ops": flat})
        c_seq = clist([f"({j}, {cstr(nm)}, {cbool(cx)})" for j, nm, cx in seq])
        c_state = clist([f"(mkO {cstr(nm)} {clist(map(str, r))} {clist(map(str, c))})" for nm, r, c in state])
        c_flat = clist([f"({cstr(q)}, {i}, {cbool(c)})" for q, i, c in flat])
        terms.append(f"({c_seq}, {c_state}, {c_flat})")
        meta.append((seq, state, flat))
        ctx.case(("registry", len(seq), len(state), len(flat), any(len(r) + len(c) > 1 for _n, r, c in state)))
    body = ("Open Scope string_scope.\n"
            "Definition ovl_eqb (a b : ovl nat) : bool := String.eqb (o_name a) (o_name b) && list_eqb Nat.eqb (o_real a) (o_real b) "
            "&& list_eqb Nat.eqb (o_complex a) (o_complex b).\n"
            "Definition flat_eqb (a b : string * nat * bool) : bool := match a, b with (n1, f1, c1), (n2, f2, c2) => "
            "String.eqb n1 n2 && Nat.eqb f1 f2 && Bool.eqb c1 c2 end.\n"
            f"Definition cases : list (list (nat * string * bool) * list (ovl nat) * list (string * nat * bool)) := {clist(terms)}.\n"
            "Eval vm_compute in (disagreeing (fun x => match x with (regs, st, fl) => "
            "list_eqb ovl_eqb (register_all regs) st && list_eqb flat_eqb (flatten (register_all regs)) fl end) 0 cases).")
    ok, vals, raw = ctx.coq_eval(["OV.Registry.Binding"], body)
    if not ok or not vals:
        ctx.tie_broken("correspondence", "registry:model-evaluation", raw[-800:])
        return
    bad = common.parse_nat_list(vals[0])
    for i in bad[:5]:
        ctx.tie_broken("correspondence", "registry", f"registrations {meta[i][0]}: implementation state {meta[i][1]} / ops {meta[i][2]}, model differs")
    ctx.obligation("correspondence: register_all / flatten = Registry.register / get_torchlib_ops on generated registration sequences", not bad)
    ctx.cover(registry_sequences=n_seq)


def _check_live_registry_shape(ctx, entries, counts):
    """Unique resolution observed on the live registry itself."""
    for (name, cx), n in sorted(counts.items()):
        if n > 1:
            ctx.violation(f"C16|{name}|{'complex' if cx else 'real'}|-|several-functions",
                          f"{name} ({'complex' if cx else 'real'}) resolves to {n} functions", {"qualified_name": name, "complex": cx, "count": n})
    keys = [(e["qname"], e["complex"]) for e in entries]
    ctx.obligation("live registry: every (name, real/complex) pair holds exactly one function", len(set(keys)) == len(keys)
                   and all(n <= 1 for n in counts.values()))


def _check_function_protos(ctx, entries):
    """onnx.checker.check_function on every scripted (non trace-only) torch_lib function's FunctionProto
    (registered ones and the private helpers found in the ops modules)."""
    import importlib
    import pkgutil

    import onnx
    import onnx.checker
    from onnxscript import values
    from onnxscript.function_libs.torch_lib import ops as ops_pkg
    fns = {}
    for e in entries:
        if not e["traced"]:
            fns[id(e["fn"])] = (e["fname"], e["fn"], e["qname"])
    for m in sorted(pkgutil.iter_modules(ops_pkg.__path__), key=lambda m: m.name):
        mod = importlib.import_module(ops_pkg.__name__ + "." + m.name)
        for k in sorted(vars(mod)):
            v = vars(mod)[k]
            if isinstance(v, values.OnnxFunction) and id(v) not in fns:
                fns[id(v)] = (v.name, v, f"(unregistered) {mod.__name__}.{k}")
    n_ok = 0
    for name, fn, where in sorted(fns.values(), key=lambda t: (t[0], t[2])):
        try:
            fp = fn.to_function_proto()
            cctx = onnx.checker.C.CheckerContext()
            cctx.ir_version = onnx.IR_VERSION
            cctx.opset_imports = {o.domain: o.version for o in fp.opset_import}
            onnx.checker.check_function(fp, cctx)
            n_ok += 1
            ctx.case(("function-proto", len(fp.node) > 3, len(fp.attribute) + len(fp.attribute_proto) > 0, len(fp.input)))
        except Exception as ex:  # checker rejection or failure to build the proto
            ctx.violation(f"C16|{name}|function-proto|-|checker", f"FunctionProto of scripted function {name} ({where}) fails the ONNX checker: {str(ex)[:300]}",
                          {"function": name, "registered_as": where, "error": str(ex)[:2000]})
    ctx.obligation("onnx.checker.check_function passes on every scripted torch_lib function", n_ok == len(fns), f"{n_ok}/{len(fns)}")
    ctx.cover(scripted_functions_checked=len(fns))


def run(ctx):
    ctx.assume("a call is described by its shape (number of positional arguments, set of keyword-only arguments supplied); FX nodes of the exporter "
               "pass non-keyword-only schema arguments positionally, omit trailing arguments equal to their default, and pass keyword-only arguments by name")
    ctx.assume("`accepts` for an attribute parameter is what the exporter's own conversion chain turns into an attribute of the declared type "
               "(recomputed from the real functions on representative values); an input parameter accepts any tensor or Python constant")
    ctx.assume("trace-only functions are called as plain Python functions (TracedOnnxFunction.__call__), scripted ones through "
               "_construct_named_inputs_and_attrs of the installed torch; both are modelled and compared on every run")
    ctx.assume("not modelled: values (None passed for an optional argument), variadic inputs and non positional-or-keyword parameters "
               "(translator fails closed on them), the numerical meaning of a function (C08); names of positional parameters are not compared with the schema")
    ctx.assume("names in the namespaces _operator / math denote Python builtins (the exporter resolves them with getattr(operator|math, name)): "
               "checked for existence and positional arity only; torchvision:: operators are read from the installed torchvision package; "
               "quantized_decomposed:: from torch.ao.quantization.fx._decomposed")
    ctx.trust("translator harness/c16_extract.py + harness/c16.py: registry / op_signature / torch schema -> Gen/TorchRegistry.v (fail-closed on unknown types)")
    ctx.trust("installed PyTorch: torch.ops schemas, torch.onnx._internal.exporter._building / _schemas / _core as the reference for binding and conversion")
    if _STATE.get("broken"):
        ctx.check_props()
        return
    entries, counts = _load()
    ok = ctx.check_props()
    _check_registry_entries(ctx, entries)
    _check_variants(ctx, entries)
    _check_live_registry_shape(ctx, entries, counts)
    _check_bind_correspondence(ctx, entries)
    _check_accept_table(ctx)
    _check_signature_sources(ctx, entries)
    _check_names(ctx, entries)
    _check_registry_model(ctx)
    _check_function_protos(ctx, entries)
    statuses = {}
    for e in entries:
        statuses[e["status"]] = statuses.get(e["status"], 0) + 1
    mism = sum(1 for e in entries if e["status"] == "aten"
               for a, p in zip([a for a in e["schema"] if not a["kwonly"]], e["params"]) if a["name"] != p["name"])
    ctx.cover(entry_status=statuses, traced_entries=sum(e["traced"] for e in entries), complex_entries=sum(e["complex"] for e in entries),
              positional_name_mismatches_not_flagged=mism, gen_file_rewritten=bool(_STATE.get("gen_changed")),
              generator="exhaustive over the live registry (every entry x admissible positional prefixes x keyword subsets + near misses); "
                        "synthetic signatures/calls, names, registration sequences from the seeded PRNG")
    ctx.sample({"entry": entries[len(entries) // 2]["qname"], "schema": entries[len(entries) // 2].get("schema_str"),
                "parameters": entries[len(entries) // 2]["params"]})
    if ctx.tier == "thorough" and ok:
        ctx.coqchk(["Props.C16"])


def replay(doc):
    """./check C16 --replay <path>: put the recorded input to the real code again."""
    r = doc.get("replay", {})
    print(json.dumps({k: doc.get(k) for k in ("property", "key", "what")}, indent=1)[:3000])
    if "name" in r:  # name check
        from onnxscript.function_libs.torch_lib import registration
        try:
            registration._check_and_normalize_names(r["name"])
            print(f"_check_and_normalize_names accepts {r['name']!r}")
            return 1
        except ValueError as ex:
            print(f"rejected: {ex}")
            return 0
    if "registrations" in r:
        import warnings

        from onnxscript.function_libs.torch_lib import registration
        reg = registration.Registry()
        for j, nm, cx in r["registrations"]:
            with warnings.catch_warnings():
                warnings.simplefilter("ignore")
                reg.register(f"fn{j}", nm, complex=cx)
        state = {nm: (ov.overloads, ov.complex) for nm, ov in reg.items()}
        print(state)
        return 1 if any(len(a) > 1 or len(b) > 1 for a, b in state.values()) else 0
    if "qualified_name" not in r:
        print("nothing to replay for this record (broken proof / correspondence: re-run ./check C16)")
        return 0
    entries, _ = _load()
    match = [e for e in entries if e["qname"] == r["qualified_name"] and e["complex"] == r.get("complex", False)]
    if not match:
        print(f"{r['qualified_name']} is no longer registered")
        return 0
    e = match[0]
    if "lookup" in r:
        print(f"lookup in the installed PyTorch: {e['status']} {e['target']}")
        return 1 if e["status"] == "undefined" else 0
    if "schema" not in e:
        print(f"no schema: {e['status']}")
        return 1
    rev = {v: k for k, v in WHY.items()}
    cs = r["call_shape"]
    confirmed, seen = _replay_failure(e, r["argument"], rev[r["reason"]], cs["n_positional"], cs["keywords"])
    print(f"schema     {e['schema_str']}\nparameters {e['params']}\ncall shape {cs}\nobserved   {seen}\n"
          f"-> the failure {'is reproduced' if confirmed else 'is NOT reproduced'}")
    return 1 if confirmed else 0
