From Coq Require Import ZArith List Bool Lia ZifyBool QArith.
Require Import OV.Torch.Onnx OV.Torch.Spec OV.Torch.Lemmas OV.Torch.Misc4 OV.Torch.AxisProofs.
Import ListNotations.
Local Open Scope Z_scope.

Lemma baddbmm_finite_correct : forall zf s mm beta alpha,
  (beta <> 0 \/ exists z, s = XFin z) -> aten_baddbmm zf s mm beta alpha = torch_baddbmm s mm beta alpha.
Proof.
  intros zf s mm beta alpha H. unfold aten_baddbmm, torch_baddbmm.
  destruct (beta =? 0) eqn:Eb.
  - assert (beta = 0) by lia. subst beta. destruct H as [H | [z ->]]; [lia|].
    destruct zf; cbn [andb]; destruct (alpha =? 1) eqn:Ea; destruct mm; cbn; try reflexivity; try (f_equal; lia).
  - rewrite Bool.andb_false_r.
    destruct (alpha =? 1) eqn:Ea; destruct (beta =? 1) eqn:E1; destruct s, mm; cbn; try reflexivity; f_equal; lia.
Qed.

Lemma baddbmm_beta_zero_refuted : exists s mm alpha, torch_baddbmm s mm 0 alpha = XFin 6 /\ aten_baddbmm false s mm 0 alpha = XNaN.
Proof. exists XNaN, (XFin 3), 2. split; reflexivity. Qed.

Lemma baddbmm_fixed_correct : forall s mm beta alpha, aten_baddbmm true s mm beta alpha = torch_baddbmm s mm beta alpha.
Proof.
  intros s mm beta alpha. unfold aten_baddbmm, torch_baddbmm. cbn [andb].
  destruct (beta =? 0) eqn:Eb.
  - destruct (alpha =? 1) eqn:Ea; destruct mm; cbn; try reflexivity; f_equal; lia.
  - destruct (alpha =? 1) eqn:Ea; destruct (beta =? 1) eqn:E1; destruct s, mm; cbn; try reflexivity; f_equal; lia.
Qed.

Lemma addmm_correct : forall s mm beta alpha, aten_addmm s mm beta alpha = torch_baddbmm s mm beta alpha.
Proof.
  intros. unfold aten_addmm, torch_baddbmm. destruct (beta =? 0); [reflexivity|]. destruct s, mm; cbn; try reflexivity. f_equal. lia.
Qed.

Lemma layer_norm_stats_correct : forall s normalized out,
  torch_layer_norm_stats s normalized = Some out -> aten_layer_norm_stats s normalized = Some out.
Proof.
  intros s nm out. unfold torch_layer_norm_stats, aten_layer_norm_stats, ln_stats_shape, norm_axis.
  pose proof (zlen_nonneg _ s). pose proof (zlen_nonneg _ nm).
  destruct ((1 <=? zlen nm) && (zlen nm <=? zlen s) && shape_eqz (drop (zlen s - zlen nm) s) nm) eqn:E; [|discriminate].
  intro Ho; inversion Ho; subst out; clear Ho.
  replace ((- zlen s <=? - zlen nm) && (- zlen nm <? zlen s)) with true by lia. cbn [obind].
  replace (- zlen nm <? 0) with true by lia. replace (- zlen nm + zlen s) with (zlen s - zlen nm) by lia.
  replace (zlen s - (zlen s - zlen nm)) with (zlen nm) by lia. reflexivity.
Qed.

Lemma embedding_correct : forall A (rows : list A) idx out,
  torch_embedding rows idx = Some out -> aten_embedding rows idx = Some out.
Proof.
  intros A rows idx out H. unfold torch_embedding, torch_index_select, aten_embedding, gather_axis in *.
  refine (omap_all_weaken _ _ _ _ _ _ _ H). intros x y Hx.
  destruct ((0 <=? x) && (x <? zlen rows)) eqn:E; [|discriminate]. unfold gather1.
  replace ((- zlen rows <=? x) && (x <? zlen rows)) with true by lia. replace (x <? 0) with false by lia. exact Hx.
Qed.

(* arange with float arguments and an int64 result: the count is taken after truncating the arguments (sweep findings
   aten_arange_start_step int64 #28 and #31) *)
Lemma arange_int64_float_end_refuted : exists s e st, torch_arange_count s e st = Some 1 /\ aten_arange_int64_count s e st = Some 0.
Proof. exists 0%Q, (Qmake 1 2), 1%Q. split; reflexivity. Qed.
Lemma arange_int64_float_step_refuted : exists s e st, torch_arange_count s e st = Some 10 /\ aten_arange_int64_count s e st = None.
Proof. exists 5%Q, 0%Q, (Qmake (-1) 2). split; reflexivity. Qed.
