"""C05 family: _remove_optional_bias.py (Conv, ConvTranspose, QLinearConv, Gemm).

Model coq/Rules/OptionalBias.v, proofs OptionalBiasProofs.v, property theorems Props/C05_optbias.v.
Correspondence: the rule set applied to generated hosts -- the four operators; bias all zero / -0.0 / one non-zero entry /
denormal-sized entry / not constant / initializer that is also a graph input; initializer vs Constant node; Gemm bias of shape
[N], [1,N], [M,N], scalar with alpha, beta, transA, transB; Conv attributes (strides, pads, dilations, group, auto_pad);
declared opset 9-18 -- fired?, the number of inputs of the emitted node and that every attribute is carried over unchanged are
compared with OptionalBias.ob_rule.  Direct oracle: host vs rewritten on onnxruntime / onnx.reference (exact), onnx.checker.
"""
from __future__ import annotations

from fractions import Fraction

import numpy as np

from harness import c05_b_util as U
from harness.common import cbool, clist, cnat, copt, cz

FAM = "optbias"
OPS = {"Conv": "OConv", "ConvTranspose": "OConvTranspose", "QLinearConv": "OQLinearConv", "Gemm": "OGemm"}
IRV = {9: 4, 10: 5, 11: 6, 13: 7, 18: 9}


def _instance(rng, i):
    op = ("Conv", "Gemm", "ConvTranspose", "QLinearConv", "Gemm")[i % 5]
    inst = dict(op=op, opset=rng.choice([10, 11, 13, 18, 18]) if op != "Gemm" else rng.choice([9, 10, 11, 13, 18, 18]),
                const_kind=rng.choice(["init", "node"]),
                bias=rng.choice(["zero", "zero", "zero", "negzero", "one_nonzero", "tiny", "input", "overridable"]))
    if inst["opset"] < 11 and inst["const_kind"] == "node" and False:
        inst["const_kind"] = "init"
    if op in ("Conv", "ConvTranspose", "QLinearConv"):
        n = rng.choice([1, 2])
        g = rng.choice([1, 2]) if op != "QLinearConv" else 1
        inst.update(n=n, group=g, kernel=[rng.choice([1, 2, 3]) for _ in range(n)], xs=[rng.choice([4, 5]) for _ in range(n)],
                    strides=rng.choice([None, [rng.choice([1, 2]) for _ in range(n)]]),
                    pads=rng.choice([None, [rng.choice([0, 1]) for _ in range(2 * n)]]),
                    dil=rng.choice([None, None, [rng.choice([1, 2]) for _ in range(n)]]) if op == "Conv" else None,
                    auto_pad=rng.choice([None, None, "SAME_UPPER"]) if op == "Conv" else None)
        if inst["auto_pad"]:
            inst["pads"] = None
            inst["dil"] = None
        inst["xs"] = [max(x, (k - 1) * d + 1) for x, k, d in zip(inst["xs"], inst["kernel"], inst["dil"] or [1] * n)]   # the dilated kernel must fit
    else:
        inst.update(M=rng.choice([1, 2, 3]), K=rng.choice([1, 2]), N=rng.choice([1, 2, 4]), transA=rng.random() < 0.3, transB=rng.random() < 0.4,
                    alpha=rng.choice([None, 2.0, 0.5]), gbeta=rng.choice([None, 1.0, 2.0, 0.0]),
                    cshape=rng.choice(["N", "1N", "MN", "scalar"]))
    return inst


def _host(inst, rs):
    op = inst["op"]
    nodes, inits, inputs = [], [], []

    def const(name, arr, kind=None, also_input=False):
        kind = kind or inst["const_kind"]
        if kind == "init":
            inits.append(U.init(name, arr))
            if also_input:
                inputs.append((name, str(arr.dtype), list(arr.shape)))
        else:
            nodes.append(U.const_node(name, arr))
        return name

    attrs = {}
    if op == "Gemm":
        M, K, N = inst["M"], inst["K"], inst["N"]
        xshape = [K, M] if inst["transA"] else [M, K]
        W = rs.randint(-2, 3, [N, K] if inst["transB"] else [K, N]).astype(np.float32)
        bshape = {"N": (N,), "1N": (1, N), "MN": (M, N), "scalar": ()}[inst["cshape"]]
        bdt, xdt, ydt, orank = np.float32, "float32", "float32", 2
        for k_, a_ in (("transA", inst["transA"]), ("transB", inst["transB"])):
            if a_:
                attrs[k_] = 1
        if inst["alpha"] is not None:
            attrs["alpha"] = inst["alpha"]
        if inst["gbeta"] is not None:
            attrs["beta"] = inst["gbeta"]
    else:
        n, g = inst["n"], inst["group"]
        C = 2 * g
        xshape = [1, C] + inst["xs"]
        Mo = 2 * g
        if op == "ConvTranspose":
            W = rs.randint(-2, 3, [C, Mo // g] + inst["kernel"]).astype(np.float32)
        elif op == "QLinearConv":
            W = rs.randint(0, 5, [Mo, C // g] + inst["kernel"]).astype(np.uint8)
        else:
            W = rs.randint(-2, 3, [Mo, C // g] + inst["kernel"]).astype(np.float32)
        bshape = (Mo,)
        bdt = np.int32 if op == "QLinearConv" else np.float32
        xdt = "uint8" if op == "QLinearConv" else "float32"
        ydt, orank = xdt, n + 2
        if g != 1:
            attrs["group"] = g
        for k_ in ("strides", "pads", "auto_pad"):
            if inst.get(k_) is not None and not (op == "ConvTranspose" and k_ == "auto_pad"):
                attrs[k_] = inst[k_]
        if inst.get("dil") is not None:
            attrs["dilations"] = inst["dil"]
    inputs.insert(0, ("x", xdt, xshape))
    kind = inst["bias"]
    B = np.zeros(bshape, bdt)
    if kind == "negzero" and bdt == np.float32:
        B = -B
    if kind == "one_nonzero":
        B.reshape(-1)[-1] = 1
    if kind == "tiny":
        B.reshape(-1)[0] = 1 if bdt == np.int32 else np.float32(1e-30)
    if kind == "input":
        inputs.append(("b", str(np.dtype(bdt)), list(bshape)))
        bname = "b"
    elif kind == "overridable":
        bname = const("b", B, kind="init", also_input=True)
    else:
        bname = const("b", B)
    if op == "QLinearConv":
        ins = ["x", const("xs", np.array(0.5, np.float32)), const("xz", np.array(1, np.uint8)), const("w", W), const("ws", np.array(0.25, np.float32)),
               const("wz", np.array(0, np.uint8)), const("ys", np.array(2.0, np.float32)), const("yz", np.array(3, np.uint8)), bname]
    else:
        ins = ["x", const("w", W), bname]
    nodes.append(U.node(op, ins, ["y"], **attrs))
    nodes.sort(key=lambda nd: 0 if nd.op_type == "Constant" else 1)
    m = U.model(nodes, inputs, [("y", ydt, [f"d{k}" for k in range(orank)])], inits=inits, opset=inst["opset"], ir_version=IRV[inst["opset"]])
    return m, dict(B=B, xshape=xshape, xdt=xdt, attrs=attrs)


def _defect(inst):
    if inst["bias"] in ("zero", "negzero") and inst["op"] == "Gemm" and inst["opset"] < 11:
        return "gemm-old-opset"
    if inst["bias"] == "overridable":
        return "overridable"
    return None


def family(ctx):
    from onnxscript.rewriter.rules.common import _remove_optional_bias as mod
    ctx.assume("optbias: Conv/ConvTranspose/Gemm/QLinearConv add the (broadcast) bias to the accumulated products before any further step "
               "(operator documents); operator input arity per opset from onnx.defs (Gemm.C optional since opset 11)")
    rng = ctx.rng
    n_inst = 130 if ctx.tier == "quick" else 1300
    corpus = [dict(op="Gemm", opset=9, const_kind="init", bias="zero", M=2, K=3, N=4, transA=False, transB=False, alpha=None, gbeta=None, cshape="N"),
              dict(op="Conv", opset=18, const_kind="init", bias="overridable", n=2, group=1, kernel=[3, 3], xs=[5, 5], strides=None, pads=None, dil=None, auto_pad=None),
              dict(op="Gemm", opset=13, const_kind="node", bias="zero", M=2, K=3, N=4, transA=True, transB=True, alpha=2.0, gbeta=2.0, cshape="MN")]
    cases, meta = [], []
    fired = 0
    for i in range(n_inst + len(corpus)):
        inst = corpus[i] if i < len(corpus) else _instance(rng, i)
        rs = np.random.RandomState(rng.randrange(1 << 30))
        host, t = _host(inst, rs)
        if not U.host_ok(host):
            ctx.tie_broken("harness", FAM, f"generated host is not checker-valid: {inst}")
            continue
        new, exc = U.apply(host, mod.rules)
        ctx.case((inst["op"], inst["opset"], inst["bias"], inst["const_kind"], inst.get("cshape"), inst.get("group"), inst.get("gbeta"), inst.get("auto_pad")))
        if exc is not None:
            U.report(ctx, FAM, f"raises:{type(exc).__name__}", "rule set raised", {"instance": inst}, [repr(exc)[:200]])
            continue
        nd0, nd1 = U.nodes_of(host, inst["op"])[0], U.nodes_of(new, inst["op"])[0]
        did = len(nd1.input) < len(nd0.input)
        obs = len(nd1.input) if did else None
        if did:
            fired += 1
            if list(nd1.input) != list(nd0.input)[:-1]:
                ctx.tie_broken("correspondence", FAM, f"inputs after rewrite {list(nd1.input)} vs {list(nd0.input)}")
            if U.attrs(nd0) != U.attrs(nd1):
                ctx.tie_broken("correspondence", FAM, f"attributes changed: {U.attrs(nd0)} -> {U.attrs(nd1)}")
        feeds = []
        for k in range(3):
            r2 = np.random.RandomState(800 + k)
            f = {"x": r2.randint(0, 9, t["xshape"]).astype(np.uint8) if t["xdt"] == "uint8" else r2.randint(-3, 4, t["xshape"]).astype(np.float32)}
            if inst["bias"] == "input":
                f["b"] = t["B"]
            if inst["bias"] == "overridable":
                f["b"] = np.asarray(t["B"] + (k + 1), dtype=t["B"].dtype)      # the caller overrides the default
            feeds.append(f)
        reasons, _ = U.oracle(host, new, feeds, exact=True)
        if reasons:
            kc = {"gemm-old-opset": "gemm-opset-lt-11-requires-C", "overridable": "overridable-initializer-operand"}.get(_defect(inst), f"{inst['op']}:{inst['bias']}")
            U.report(ctx, FAM, kc, f"zero bias removed from {inst['op']} changes the model / makes it invalid", {"instance": inst}, reasons)
        bl = None if inst["bias"] == "input" else [Fraction(float(v)) for v in t["B"].reshape(-1)]
        lit = "{| ob_op := %s; ob_opset := %s; ob_bias := %s; ob_bias_graph_input := %s |}" % (
            OPS[inst["op"]], cz(inst["opset"]), copt(bl, U.cql), cbool(inst["bias"] == "overridable"))
        cases.append(f"({lit}, {copt(obs, cnat)})")
        meta.append(inst)
    ok, di, df, raw = U.eval_cases(ctx, ["OV.Rules.OptionalBias"], "ob_case", cases, "ob_dis", prelude="From Coq Require Import QArith.\n", chunk=500)
    if not ok:
        ctx.tie_broken("correspondence", f"{FAM}:model-evaluation", raw[-800:])
        return
    nbad, variant = U.settle(ctx, FAM, "rules", meta, di, df, _defect)
    ctx.sample({"family": FAM, "instance": meta[len(meta) // 2]})
    ctx.cover(optbias_instances=len(cases), optbias_fired=fired, optbias_variant=variant, c05b_oracle_stats=dict(U.STATS))
    ctx.obligation("correspondence optbias: fired?, inputs and attributes of the emitted node = OptionalBias.ob_rule (as read or repaired) on every instance", nbad == 0)
