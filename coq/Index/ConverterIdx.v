(* C11 -- model of Converter._translate_subscript_expr (onnxscript/_internal/converter.py).
   No proofs in this file.

   The index elements are partitioned into non-trivial slices, constant ints ("scalar") and
   everything else (tensor-valued, "non-scalar").  With a slice or two or more scalars: each scalar
   i becomes the slice i:i+1:1 and its axis is squeezed afterwards; all slices go into one Slice
   op (explicit slices first, then the scalars); then one Gather per remaining index.  Otherwise
   only Gathers (tensor-valued ones first, then the single scalar, if any).

   `fx` selects how the Gather axes are numbered:
     false  the original axis numbers, in the order above (the code at the pinned commit);
     true   proposed_fixes/C11_gather_axis_after_removed_axis.diff: highest axis first, each axis
            number reduced by the number of squeezed axes in front of it. *)
From Coq Require Import ZArith List Bool.
Import ListNotations.
Require Import OV.Index.NumpySpec OV.Index.OnnxSlice.
Open Scope Z_scope.

Definition MAXI : Z := 9223372036854775807.       (* (1 << 63) - 1 *)
Definition MINI : Z := -9223372036854775808.      (* -(1 << 63) *)

Definition dflt (x : Z) (b : bound) : Z := match bval b with None => x | Some z => z end.

(* translate_slice: (start, stop, step) operands; None = RuntimeError at conversion
   ("Default start/stop not supported when step direction is unknown") *)
Definition conv_bounds (a b s : bound) : option (Z * Z * Z) :=
  match s with
  | BDyn st =>
      match bval a, bval b with
      | Some x, Some y => Some (x, y, st)
      | _, _ => None
      end
  | _ =>
      let st := dflt 1 s in
      if 0 <? st then Some (dflt 0 a, dflt MAXI b, st)
      else Some (dflt MAXI a, dflt MINI b, st)
  end.

(* one axis: what the emitted Slice selects on an axis of length d; None = refused or Slice error (step 0) *)
Definition conv_slice (d : Z) (a b s : bound) : option (list Z) :=
  match conv_bounds a b s with
  | None => None
  | Some (x, y, st) => onnx_slice d x y st
  end.

Fixpoint enum_from {A : Type} (k : nat) (l : list A) : list (nat * A) :=
  match l with [] => [] | x :: t => (k, x) :: enum_from (S k) t end.

Definition is_trivial (c : comp) : bool :=
  match c with CSlice BNone BNone BNone => true | _ => false end.
Definition is_sliced (c : comp) : bool := is_slice c && negb (is_trivial c).
Definition is_cint (c : comp) : bool := match c with CInt _ => true | _ => false end.
Definition is_tensor (c : comp) : bool := match c with CT0 _ => true | CT1 _ => true | _ => false end.

Definition slice_spec (p : nat * comp) : option spec :=
  match snd p with
  | CSlice a b s => match conv_bounds a b s with Some (x, y, st) => Some (x, y, fst p, st) | None => None end
  | _ => None
  end.
Definition scalar_spec (p : nat * comp) : spec :=
  match snd p with CInt i => (i, i + 1, fst p, 1) | _ => (0, 0, fst p, 1) end.

(* entry for axis k in a list of (axis, x) pairs *)
Fixpoint find_axis {A : Type} (k : nat) (l : list (nat * A)) : option A :=
  match l with
  | [] => None
  | (a, x) :: t => if Nat.eqb a k then Some x else find_axis k t
  end.

Definition gix (c : comp) : gidx :=
  match c with CInt i => G0 i | CT0 i => G0 i | CT1 l => G1 l | CSlice _ _ _ => G0 0 end.

(* stable insertion sort, highest axis first *)
Fixpoint insert_desc {A} (x : nat * A) (l : list (nat * A)) : list (nat * A) :=
  match l with
  | [] => [x]
  | y :: t => if Nat.ltb (fst x) (fst y) then y :: insert_desc x t else x :: l
  end.
Fixpoint sort_desc {A} (l : list (nat * A)) : list (nat * A) :=
  match l with [] => [] | x :: t => insert_desc x (sort_desc t) end.

Definition count_below (a : nat) (sq : list nat) : nat := length (filter (fun s => Nat.ltb s a) sq).

Definition gathers (fx : bool) (sq : list nat) (l : list (nat * comp)) : list op :=
  if fx then map (fun p => OGather (fst p - count_below (fst p) sq) (gix (snd p))) (sort_desc l)
  else map (fun p => OGather (fst p) (gix (snd p))) l.

Definition conv_ops (fx : bool) (idx : list comp) : option (list op) :=
  let en := enum_from 0 idx in
  let sliced := filter (fun p => is_sliced (snd p)) en in
  let scalars := filter (fun p => is_cint (snd p)) en in
  let tens := filter (fun p => is_tensor (snd p)) en in
  match sliced, scalars, tens with
  | [], [], [] => Some [OIdentity]
  | _, _, _ =>
      if negb (Nat.eqb (length sliced) 0) || Nat.ltb 1 (length scalars) then
        match mapM slice_spec sliced with
        | None => None
        | Some specs =>
            let sq := map fst scalars in
            Some (OSlice (specs ++ map scalar_spec scalars)
                  :: (match sq with [] => [] | _ => [OSqueeze sq] end)
                  ++ gathers fx sq tens)
        end
      else Some (gathers fx [] (tens ++ scalars))
  end.

Definition run_conv (fx : bool) (shape : list Z) (idx : list comp) : option view :=
  match conv_ops fx idx with
  | None => None
  | Some ops => run_ops ops (full shape)
  end.
