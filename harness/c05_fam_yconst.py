"""C05 family: "value only approximately equal ... does not fire" -- every matched constant of every shipped rule.

Translator harness/c05_consts_py2v.py (run by c05.regenerate on every check) enumerates from the AST, fail-closed, each
numeric constant a rule matches against together with the tolerance arguments it is matched with, into coq/Gen/C05Consts.v.
Proof obligations (Props/C05_xval.v, re-proved against the regenerated table): C05_consts_exact_or_listed (every row is
tolerance 0, or an integer operand whose tolerance cannot confuse two integers, or one of the two listed numpy.isclose tests),
C05_consts_sound_partial (such a row matches nothing but its value).

Tie: for every row that matches a FLOAT operand a host generator is registered below (a row without generator fails the
obligation "constant without near-miss host").  The hosts carry the constant exact, off by one ulp, by 1e-9 and by 1e-6 in both
directions, as float32 and float64, in both operand orders where the operator commutes; fired? is compared inside Coq with
XNoOp.match_const evaluated with THE ROW'S tolerances on the exact rational value of the stored constant; a host that fires
on a constant different from the target and whose output differs from the original's is a violation with that input.
"""
from __future__ import annotations

from fractions import Fraction

import numpy as np

from harness import c05 as base
from harness import c05_b_util as U
from harness import common
from harness.common import cbool, clist

FAM = "yconst"


def _perturbed(v, dt):
    t = np.dtype(dt).type
    e = t(v)
    out = [("exact", e), ("ulp+", np.nextafter(e, t(np.inf))), ("ulp-", np.nextafter(e, t(-np.inf)))]
    for tag, d in (("1e-9", 1e-9), ("1e-6", 1e-6)):
        out += [(tag + "+", t(float(v) + d)), (tag + "-", t(float(v) - d))]
    return out


def _probe_x(dt, n=12):
    return np.array([-7.5, -3.0, -2.9999, -1.25, -0.3, 0.0, 0.7, 1.0, 2.9, 3.0005, 1048576.0, 100.0][:n], dt)


# ---- host generators: row -> list of (tag, stored constant (numpy scalar), host, rules, fired_predicate(new), feeds, key)
def _gen_noop(row):
    from onnxscript.rewriter.rules.common import _no_op as mod
    fn = row["where"].split(":")[0]
    forms = {"mul_by_1": [("Mul", 0), ("Mul", 1)], "add_0": [("Add", 0), ("Add", 1)], "sub_0": [("Sub", 0)], "div_by_1": [("Div", 0)]}[fn]
    for dt in ("float32", "float64"):
        for tag, c in _perturbed(row["value"], dt):
            for op, order in forms:
                m = U.model([U.node(op, ["x", "c"] if order == 0 else ["c", "x"], ["y"])], [("x", dt, ["N"])], [("y", dt, ["N"])],
                            inits=[U.init("c", np.array(c, dt))])
                yield (f"{fn}:{op}:{order}:{dt}:{tag}", c, m, mod.rules, lambda new: U.ops(new) == ["Identity"], {"x": _probe_x(dt)},
                       "C05:noop:approximately-equal-constant")


def _gen_ln(row):
    from harness import c05_fam_fusion as FF
    from onnxscript.rewriter.rules.fusion._layer_norm import fuse_layer_normalization as fn
    for dt in ("float32", "float64"):
        for tag, c in _perturbed(row["value"], dt):
            p = dict(shape=[2, 3, 8], dtype=dt, sq="pow", norm="recip", eps=1e-5, exponent=float(c))
            yield (f"layer_norm:{dt}:{tag}", c, FF._ln_model(p), fn, "LayerNormalization", None, "C05:fusion:layer-norm:approximate-pow-exponent")


def _gen_rms(row):
    from harness import c19_norm as N
    from onnxscript.rewriter.rules.fusion._rms_normalization import fuse_rms_normalization as fn
    for dt in ("float32", "float64"):
        for tag, c in _perturbed(row["value"], dt):
            p = dict(shape=[2, 8], xdtype=dt, sdtype=dt, compute=None, cast_back=None, mul_order=True, eps=1e-5, out_dtype=dt, opset=23,
                     exponent=float(c))
            yield (f"rms_norm:{dt}:{tag}", c, N.rms_model(p), fn, "RMSNormalization", None, "C05:fusion:rms-norm:approximate-pow-exponent")


def _gen_hardswish(row):
    from harness import c05_fam_hardswish as HS
    from onnxscript.rewriter.rules.common import _fuse_hardswish as mod
    which = {"clip_min": "cmin", "clip_max": "cmax", "bias": "bias", "divisor": "div"}[row["where"].split("is_singleton_value(")[1].split(",")[0]]
    rules = mod.fuse_hardswish_rules()
    exact = dict(bias=3.0, cmin=0.0, cmax=6.0, div=6.0)
    for kind, want in (("swish", "HardSwish"), ("sigmoid", "HardSigmoid")):
        for tag, c in _perturbed(row["value"], "float32"):
            for sw in (False, True):
                inst = dict(kind=kind, xr=1, const_kind="init", add_swapped=sw, mul_swapped=sw, miss="none", vals=dict(exact, **{which: float(c)}),
                            bshape=(), dshape=())
                host, xshape = HS._host(inst)
                yield (f"hardswish:{kind}:{which}:{tag}:{'swapped' if sw else 'plain'}", c, host, rules, (lambda new, w=want: U.ops(new) == [w]),
                       {"x": HS.PTS.copy()}, "C05:hardswish:approximate-constant")


def _gen_from_sigmoid(row):
    from harness import c05_fam_hardswish as HS
    from onnxscript.rewriter.rules.common import _fuse_hardswish as mod
    rules = mod.fuse_hardswish_rules()
    is_alpha = "alpha" in row["where"]
    a0, b0 = float(np.float32(1 / 6)), 0.5
    for tag, c in _perturbed(np.float32(row["value"]), "float32"):       # the attribute is stored as float32
        for sw in (False, True):
            inst = dict(kind="from_sigmoid", xr=1, const_kind="init", add_swapped=False, mul_swapped=sw, miss="none", vals={}, bshape=(), dshape=(),
                        alpha=float(c) if is_alpha else a0, beta=b0 if is_alpha else float(c))
            host, xshape = HS._host(inst)
            yield (f"from_sigmoid:{'alpha' if is_alpha else 'beta'}:{tag}:{'swapped' if sw else 'plain'}", c, host, rules,
                   lambda new: U.ops(new) == ["HardSwish"], {"x": np.linspace(-3.3, 3.3, 67).astype(np.float32)},
                   "C05:hardswish:from-hardsigmoid:approximate-alpha")


def _generator(row):
    f, k = row["file"], row["kind"]
    if f == "rules/common/_no_op.py" and k == "pattern":
        return _gen_noop
    if f == "rules/fusion/_layer_norm.py" and k == "pattern":
        return _gen_ln
    if f == "rules/fusion/_rms_normalization.py" and k == "pattern":
        return _gen_rms
    if f == "rules/common/_fuse_hardswish.py" and k == "singleton":
        return _gen_hardswish
    if f == "rules/common/_fuse_hardswish.py" and k == "np_isclose":
        return _gen_from_sigmoid
    return None


def family(ctx):
    from harness import c05_consts_py2v as T
    got = getattr(ctx, "c05_consts", None)
    rows, stats, problems = got if got is not None else T.scan()
    ctx.obligation("translator consts: every numeric constant matched by a rule of rules.common / rules.fusion enumerated from the AST with its "
                   "tolerance arguments (fail-closed: unrecognised construct = broken tie)", not problems,
                   f"{len(rows)} rows in {stats['files']} files, {stats['pattern_functions']} pattern functions, {stats['attr_patterns']} attribute patterns (==), "
                   f"{stats['dynamic_singletons']} computed integer singletons, {stats.get('named_constants', 0)} constants written as expressions / names, "
                   f"{stats.get('saturating_slice_bounds', 0)} Slice bounds >= 2**62 (clamped sentinel, counted only); problems: {problems[:3]}")
    ctx.cover(consts_saturating_slice_bounds=stats.get("saturating_slice_bounds", 0), consts_named_constants=stats.get("named_constants", 0))
    float_rows = [r for r in rows if r["kind"] in ("pattern", "singleton", "np_isclose", "math_isclose")]
    int_rows = [r for r in rows if r["kind"] in ("pattern_int", "singleton_int")]
    nonzero_tol = [r for r in float_rows if r["rel"] != 0 or r["abs"] != 0]
    listed = [r for r in nonzero_tol if r["kind"] == "np_isclose" and r["file"] == "rules/common/_fuse_hardswish.py"]
    ctx.cover(consts_rows=len(rows), consts_float_rows=len(float_rows), consts_integer_operand_rows=len(int_rows),
              consts_nonzero_tolerance_float_rows=[f"{r['file']}:{r['line']} {r['where']}" for r in nonzero_tol])
    missing = [r for r in float_rows if _generator(r) is None]
    ctx.obligation("consts: every float-operand row of Gen/C05Consts.v has a near-miss host generator (exact, +-1 ulp, +-1e-9, +-1e-6; both operand orders)",
                   not missing, "; ".join(f"{r['file']}:{r['line']}" for r in missing))
    for r in missing:
        ctx.tie_broken("harness", f"{FAM}:generator", f"no host generator for the matched constant {r}")
    cases, meta = [], []
    per_row = {}
    for r in float_rows:
        gen = _generator(r)
        if gen is None:
            continue
        rid = f"{r['file']}:{r['line']}"
        st = per_row.setdefault(rid, {"hosts": 0, "fired": 0, "fired_exact": 0, "declined_ulp": 0})
        target = Fraction(r["value"])
        for tag, c, host, rules, fired_pred, feeds, key in gen(r):
            stored = Fraction(float(c))
            try:
                if callable(rules) and not hasattr(rules, "apply_to_model") and not isinstance(rules, (list, tuple)):
                    from harness.c19_build import apply_ir, find, ort_run
                    m = host.model()
                    new, cnt = apply_ir(m, rules)
                    did = bool(cnt) and bool(find(new, fired_pred))
                    host_m = m
                else:
                    new, exc = U.apply(host, rules)
                    if exc is not None:
                        raise exc
                    did = bool(fired_pred(new))
                    host_m = host
            except Exception as e:  # noqa: BLE001
                ctx.violation(f"C05:{FAM}:raises:{type(e).__name__}", f"{tag}: rule raised {e!r}", {"family": FAM, "row": rid, "host": tag})
                continue
            ctx.case((FAM, rid, tag.split(":")[0], tag.split(":")[-1] if "swapped" in tag or "plain" in tag else "", str(c.dtype), tag))
            # the exact target of an attribute stored as float32 is the float32 nearest to the written value
            exact_target = Fraction(float(np.float32(r["value"]))) if r["kind"] == "np_isclose" else target
            st["hosts"] += 1
            st["fired"] += did
            st["fired_exact"] += did and stored == exact_target
            if not did and "ulp" in tag:
                st["declined_ulp"] += 1
            np_style = "true" if r["kind"] == "np_isclose" else "false"
            cases.append(f"({np_style}, {T.cq(r['rel'])}, {T.cq(r['abs'])}, {T.cq(r['value'])}, (QFin {U.cq(stored)}), {cbool(did)})")
            meta.append((rid, tag, float(c), did))
            if did and stored != exact_target:
                fl = [feeds] if feeds is not None else None
                differs = None
                try:
                    if fl is None:
                        from harness.c19_build import feeds_for, ort_run
                        rng = np.random.default_rng(5)
                        fl = [feeds_for(host, rng) for _ in range(2)]
                        differs = any(not base.same_outputs(ort_run(host_m, f), ort_run(new, f)) for f in fl)
                    else:
                        a, b = U._Sess("ort", host_m), U._Sess("ort", new)
                        differs = any(not base.same_outputs(a.run(f)[0], b.run(f)[0]) for f in fl)
                except Exception as e:  # noqa: BLE001
                    differs = f"rewritten model fails: {e!r}"
                if differs:
                    ctx.violation(key, f"{tag}: the rule fired on the constant {float(c)!r} (target {float(target)!r}, matched with rel_tol={r['rel']}, "
                                  f"abs_tol={r['abs']} at {rid}) and the rewritten model's output differs from the original's",
                                  {"family": FAM, "row": rid, "host": tag, "constant": repr(float(c)), "target": repr(float(target)), "tolerances": [r["rel"], r["abs"]]})
    bad = []
    for off in range(0, len(cases), 400):
        part = cases[off:off + 400]
        ok, vals, raw = ctx.coq_eval(["OV.Rules.XNoOp"], "From Coq Require Import QArith.\n" f"Definition cc : list ccase := {clist(part)}.\nEval vm_compute in (cdis cc).")
        if not ok or not vals:
            ctx.tie_broken("correspondence", f"{FAM}:model-evaluation", raw[-600:])
            return
        bad += [off + i for i in common.parse_nat_list(vals[0])]
    for i in bad[:6]:
        ctx.tie_broken("correspondence", FAM, f"{meta[i]}: fired? differs from XNoOp.match_const with the row's tolerances")
    ctx.obligation("correspondence consts: on every near-miss host fired? = match_const(row's tolerances, row's value, exact rational value of the stored constant)",
                   not bad, f"{len(cases)} hosts, {len(bad)} differ")
    weak = [rid for rid, st in per_row.items() if st["fired_exact"] == 0 or (st["declined_ulp"] == 0 and not any(rid == f"{r['file']}:{r['line']}" for r in listed))]
    ctx.obligation("consts: per row, the exact constant fires at least once and (rows with tolerance 0) a constant one ulp away is declined at least once",
                   not weak, f"weak rows: {weak}")
    ctx.cover(consts_hosts=len(cases), consts_per_row=per_row)
    ctx.sample({"family": FAM, "rows": [f"{r['file']}:{r['line']} {r['kind']} value={r['value']} rel={r['rel']} abs={r['abs']}" for r in float_rows]})
