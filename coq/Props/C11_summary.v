(* C11 property theorems: eager half of the advanced-indexing theorems (Tensor.__getitem__ with the start clamp of 54bfea1,
   model Index/EagerFix.v, cl = true), the property-level summary for both front ends, and the exact characterisation of the
   converter's negative-step corner.  Statements only. *)
From Coq Require Import ZArith List Bool.
Import ListNotations.
Require Import OV.Index.NumpySpec OV.Index.OnnxSlice OV.Index.ConverterIdx OV.Index.EagerIdx OV.Index.ViewProofs
               OV.Index.AdvSpec OV.Index.AdvProofs OV.Index.EagerFix OV.Index.AdvEagerProofs OV.Index.AdvSummary.
Open Scope Z_scope.

(* eager: the op chain (Slice + numpy.squeeze, or the Gather of the lone scalar, then one Gather per tensor index of rank >= 1
   from the last axis to the first) computes NumPy's per-axis view, for every index tuple, every rank and shape: sound ... *)
Theorem C11_eager_chain_is_per_axis_view_sound : forall shape idx v,
  dims_nat shape -> (length idx <= length shape)%nat ->
  run_eager_c true shape idx = Some v -> np_index shape idx = Some v.
Proof. exact eager_view_sound_all. Qed.
Print Assumptions C11_eager_chain_is_per_axis_view_sound.

(* ... and complete (the scalar -1 through Slice(-1, 0) + squeeze is the one spurious error) *)
Theorem C11_eager_chain_is_per_axis_view_complete : forall shape idx v,
  dims_nat shape -> eager_minus1_ok idx = true ->
  np_index shape idx = Some v -> run_eager_c true shape idx = Some v.
Proof. exact eager_view_complete_all. Qed.
Print Assumptions C11_eager_chain_is_per_axis_view_complete.

Theorem C11_eager_adv_good_sound : forall shape aidx n,
  dims_nat shape -> (length aidx <= length shape)%nat ->
  good_form (full_form shape aidx) = true ->
  eager_nest_c true shape aidx = Some n -> np_nest shape aidx = Some n.
Proof. exact eager_adv_good_sound. Qed.
Print Assumptions C11_eager_adv_good_sound.

Theorem C11_eager_adv_good_complete : forall shape aidx n,
  dims_nat shape -> eager_minus1_ok (map flat aidx) = true ->
  good_form (full_form shape aidx) = true ->
  np_nest shape aidx = Some n -> eager_nest_c true shape aidx = Some n.
Proof. exact eager_adv_good_complete. Qed.
Print Assumptions C11_eager_adv_good_complete.

(* on any form eager returns the outer arrangement of NumPy's per-axis view: the bad forms are accepted, not rescued by an error *)
Theorem C11_eager_result_is_outer_arrangement : forall shape aidx,
  dims_nat shape -> (length aidx <= length shape)%nat -> eager_minus1_ok (map flat aidx) = true ->
  eager_nest_c true shape aidx = outer_nest shape aidx.
Proof. exact eager_nest_is_outer_nest. Qed.
Print Assumptions C11_eager_result_is_outer_arrangement.

(* THE PROPERTY, both front ends: for every index expression (python ints, slices with omitted / int / tensor-valued bounds,
   rank-0 tensors, tensor indices of any rank, omitted trailing axes) on a tensor of any rank and shape, the outcome is an
   error or NumPy's result -- unless the form is one of the exactly characterised advanced-index forms (~ good_form:
   C11_arrangement_differs_iff, C11_two_tensor_indices_rank_differs; known findings two-1d-tensor-indices,
   several-tensor-indices-of-rank-2, scalar-and-{1d,2d}-tensor-index-split-by-slice) or, for the converter only, a slice sits in
   the negative-step corner (C11_converter_slice_differs_iff; known finding converter:negative-step-start-below-minus-dim).
   The exceptions are exactly the known findings; nothing else can return a different tensor. *)
Theorem C11_indexing_summary : forall shape aidx,
  dims_ok shape -> (length aidx <= length shape)%nat ->
  (acceptable (conv_nest shape aidx) (np_nest shape aidx)
     \/ good_form (full_form shape aidx) = false
     \/ hazard_free shape (map flat aidx) = false)
  /\
  (acceptable (eager_nest_c true shape aidx) (np_nest shape aidx)
     \/ good_form (full_form shape aidx) = false).
Proof. exact indexing_summary. Qed.
Print Assumptions C11_indexing_summary.

(* the converter's negative-step corner, exactly: the emitted Slice differs from Python's slice iff the step is negative, the
   axis non-empty, the start given and below -d, and the stop omitted or below -d ... *)
Theorem C11_converter_slice_differs_iff : forall d a b s,
  0 <= d <= MAXI -> conv_bounds a b s <> None ->
  (conv_slice d a b s <> py_slice d (bval a) (bval b) (bval s) <-> corner d (bval a) (bval b) (bval s)).
Proof. exact conv_slice_differs_iff. Qed.
Print Assumptions C11_converter_slice_differs_iff.

(* ... and there it returns element 0 where Python returns nothing *)
Theorem C11_converter_slice_corner_value : forall d a b s,
  0 <= d <= MAXI -> conv_bounds a b s <> None -> corner d (bval a) (bval b) (bval s) ->
  conv_slice d a b s = Some [0] /\ py_slice d (bval a) (bval b) (bval s) = Some [].
Proof. exact conv_slice_corner_value. Qed.
Print Assumptions C11_converter_slice_corner_value.
