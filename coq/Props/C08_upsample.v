(* C08 property theorems, upsample / interpolate output extents (nn.py): statements only.

   Modelled: which argument decides the extent (output_size or the scale factors) per overload family, and the float32
   arithmetic of Resize on the scales path (scale rounded to float32, product rounded to float32, floor) against PyTorch's
   floor(input_size * scale) -- the latter modelled exactly over the rationals (see Upsample.v for what that excludes).
   NOT covered: the interpolated values and coordinate transformation modes, antialias; on the scales path only the two
   refutations are proved (a positive statement, e.g. "integer scales below 2^24 agree", needs round24 lemmas for products
   >= 2^24, which F32Proofs does not provide): C08_upsample_scales_path_full states it. *)
From Coq Require Import ZArith List Bool QArith.
Require Import OV.Torch.Onnx OV.Torch.F32 OV.Torch.Upsample OV.Torch.UpsampleProofs.
Import ListNotations.
Local Open Scope Z_scope.

Theorem C08_upsample_size_path : forall k ns size scales,
  aten_upsample_uses_scales k scales = false -> (k = UVec -> size <> []) ->
  aten_upsample_extents k ns size scales = torch_upsample_extents k ns size scales.
Proof. exact upsample_size_path. Qed.
Print Assumptions C08_upsample_size_path.
Theorem C08_upsample_size_only : forall ns size scales,
  aten_upsample_extents USizeOnly ns size scales = size /\ torch_upsample_extents USizeOnly ns size scales = size.
Proof. exact upsample_size_only. Qed.
Print Assumptions C08_upsample_size_only.

Definition C08_upsample_scales_path_full : Prop := forall n q, 0 < n -> (0 < q)%Q -> onnx_scale_extent n q = torch_scale_extent n q.
(* false of the code: *)
Theorem C08_upsample_scale_float32_refuted : exists n q, 0 < n /\ torch_scale_extent n q = 28 /\ onnx_scale_extent n q = 29.
Proof. exact upsample_scale_float32_refuted. Qed.
Print Assumptions C08_upsample_scale_float32_refuted.
Theorem C08_upsample_vec_scales_refuted : exists ns scales,
  aten_upsample_extents UVec ns [] scales <> torch_upsample_extents UVec ns [] scales.
Proof. exact upsample_vec_scales_refuted. Qed.
Print Assumptions C08_upsample_vec_scales_refuted.
Theorem C08_upsample_nearest_ignores_output_size_refuted : exists ns size scales,
  torch_upsample_extents UNearest ns size scales = size /\ aten_upsample_extents UNearest ns size scales <> size.
Proof. exact upsample_nearest_ignores_output_size_refuted. Qed.
Print Assumptions C08_upsample_nearest_ignores_output_size_refuted.
