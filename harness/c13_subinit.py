"""C13 family `subinit`: models whose SUBGRAPHS (If branches, Loop bodies) own initializers.

ONNX scopes the names of a subgraph to that subgraph: the then-branch and the else-branch of an If, or the bodies of two
Loop nodes, may each hold an initializer called "W" with different contents.  The exporter prints a subgraph's
initializer as a Constant line inside the branch (or inlines it), and with skip_initializers=True turns every
initializer of more than 4 elements -- of whatever graph -- into a parameter of make_model(); one Python parameter
cannot stand for two tensors, so two skipped initializers that get the same Python name must be refused.

    subgraph_init_cases(rng, count)   -> (cases, rejected)     hand-made corner cases + generated ones
    skipped_in_order(model)           -> [(name, array)]       the initializers skip_initializers moves out, in the order in
                                                               which the exporter meets them (= make_model's parameters)
    dup_skipped(model)                -> bool                  two of them share a name

Every case carries `large_inits` in that order (the make_model protocol of harness/c13_rt.py) and `dup_skipped`.
Sizes straddle the thresholds: 1 (0-d / [1]: inlinable), 2..4 (kept; rank 1 inlinable, rank 2 not), 5..10 (skipped).
"""
from __future__ import annotations

import random as _random

import numpy as np
import onnx
from onnx import TensorProto as TP
from onnx import helper as h
from onnx import numpy_helper as nh

OPSET = 18


def _vi(n, t, s):
    return h.make_tensor_value_info(n, t, list(s))


def _size(t):
    return int(np.prod(list(t.dims) or [1]))


def skipped_in_order(model):
    out = []

    def graph(g):
        for i in g.initializer:
            if _size(i) > 4:
                out.append((i.name, nh.to_array(i)))
        for n in g.node:
            subs = [a for a in n.attribute if a.type == onnx.AttributeProto.GRAPH]
            if n.op_type == "If" and len(subs) == 2:  # the exporter prints the then-branch first
                subs = sorted(subs, key=lambda a: a.name != "then_branch")
            for a in subs:
                graph(a.g)

    graph(model.graph)
    return out


def dup_skipped(model):
    names = [n for n, _ in skipped_in_order(model)]
    return len(set(names)) != len(names)


class _Gen:
    def __init__(self, rng):
        self.rng = rng
        self.R = rng.choice([1, 2, 2])
        self.L = rng.choice([2, 3, 4, 5])
        self.k = 0
        self.big = None
        self.pool = rng.choice([["W", "V", "U"], ["w.0", "w_0", "v.1"], ["weight", "bias", "1w"], ["W", "w.0", "if"]])

    def fresh(self, hint):
        self.k += 1
        return f"{hint}{self.k}"

    def tensor(self, name, kind=None, base=0):
        r = self.rng
        kind = kind or r.choice(["L", "L", "RL", "RL", "1L", "s", "1"])
        shape = {"L": [self.L], "RL": [self.R, self.L], "1L": [1, self.L], "s": [], "1": [1]}[kind]
        n = int(np.prod(shape or [1]))
        vals = np.array([base + r.choice([-3, -2, -1, 1, 2, 3, 4]) for _ in range(n)], dtype=np.float32).reshape(shape)
        return nh.from_array(vals, name)

    def branch(self, tag, names, src="x", depth=0, kinds=None):
        """a subgraph without inputs that owns one initializer per name: out = src (op) w1 (op) w2 ..."""
        r = self.rng
        nodes, inits, cur = [], [], src
        for j, nm in enumerate(names):
            inits.append(self.tensor(nm, kinds[j] if kinds else (self.big if j == 0 else None), base=10 * (1 + self.k % 3)))
            o = self.fresh(tag)
            nodes.append(h.make_node(r.choice(["Add", "Mul", "Sub"]), [cur, nm], [o]))
            cur = o
        if not names:
            o = self.fresh(tag)
            nodes.append(h.make_node("Neg", [cur], [o]))
            cur = o
        return nodes, inits, cur

    def graph_of(self, tag, nodes, inits, out):
        return h.make_graph(nodes, f"{tag}_g", [], [_vi(out, TP.FLOAT, [self.R, self.L])], initializer=inits)

    def if_node(self, cond, out, tg, eg):
        if self.rng.random() < 0.5:
            return h.make_node("If", [cond], [out], then_branch=tg, else_branch=eg)
        return h.make_node("If", [cond], [out], else_branch=eg, then_branch=tg)

    def while_loop(self, tag, acc0, names, counter_inits):
        """Loop in the while form: k counts to a limit, acc = acc (op) W with W an initializer of the BODY;
        counter_inits: the constants 1 / limit are initializers of the body too (INT64 scalars, never skipped)"""
        r = self.rng
        it, cin, k, acc = (self.fresh(tag + x) for x in ("_it", "_cin", "_k", "_acc"))
        one, lim, k2, cout = (self.fresh(tag + x) for x in ("_one", "_lim", "_k2", "_cout"))
        nodes, inits = [], []
        limit = r.choice([1, 2, 3])
        if counter_inits:
            inits += [nh.from_array(np.asarray(1, dtype=np.int64), one), nh.from_array(np.asarray(limit, dtype=np.int64), lim)]
        else:
            nodes += [h.make_node("Constant", [], [one], value=nh.from_array(np.asarray(1, dtype=np.int64), "value")),
                      h.make_node("Constant", [], [lim], value=nh.from_array(np.asarray(limit, dtype=np.int64), "value"))]
        bn, binits, cur = self.branch(tag, names, src=acc)
        inits = binits + inits if r.random() < 0.5 else inits + binits
        nodes += bn + [h.make_node("Add", [k, one], [k2]), h.make_node("Less", [k2, lim], [cout])]
        body = h.make_graph(nodes, f"{tag}_body",
                            [_vi(it, TP.INT64, []), _vi(cin, TP.BOOL, []), _vi(k, TP.INT64, []), _vi(acc, TP.FLOAT, [self.R, self.L])],
                            [_vi(cout, TP.BOOL, []), _vi(k2, TP.INT64, []), _vi(cur, TP.FLOAT, [self.R, self.L])], initializer=inits)
        k0, c0, a0, kf, af = (self.fresh(tag + x) for x in ("_k0", "_c0", "_a0", "_kf", "_af"))
        pre = [h.make_node("Constant", [], [k0 + "c"], value=nh.from_array(np.asarray(0, dtype=np.int64), "value")), h.make_node("Identity", [k0 + "c"], [k0]),
               h.make_node("Constant", [], [c0 + "c"], value=nh.from_array(np.asarray(True), "value")), h.make_node("Identity", [c0 + "c"], [c0]),
               h.make_node("Identity", [acc0], [a0])]
        return pre + [h.make_node("Loop", ["", c0, k0, a0], [kf, af], body=body)], af

    def build(self, topo):
        r = self.rng
        P = self.pool
        same = r.random() < 0.55
        self.big = r.choice(["RL", "RL", "1L", "L"]) if (same and r.random() < 0.6) else None  # both siblings above the threshold more often
        tn = [P[0]] + ([P[2]] if r.random() < 0.3 else [])
        en = [P[0] if same else P[1]] + ([P[2]] if r.random() < 0.2 else [])
        main_inits, nodes = [], []
        x = "x"
        if topo == "shadow":  # (outside the ONNX name rules: the branch initializer hides a visible outer name; used before the If only)
            shadow_kind = r.choice(["RL", "RL", "1L", "L"])  # (shape inference wants one rank per name)
            main_inits.append(self.tensor(P[0], shadow_kind))
            o = self.fresh("m")
            nodes.append(h.make_node("Add", ["x", P[0]], [o]))
            x = o
            tn, en = [P[0]], [P[1]]
        if topo == "main-large":
            main_inits.append(self.tensor("M.big", "RL"))
            o = self.fresh("m")
            nodes.append(h.make_node("Mul", ["x", "M.big"], [o]))
            x = o
        if topo in ("if", "shadow", "main-large"):
            tnodes, tinits, tout = self.branch("t", tn, src=x, kinds=[shadow_kind] if topo == "shadow" else None)
            enodes, einits, eout = self.branch("e", en, src=x)
            nodes.append(self.if_node("b", "r", self.graph_of("then", tnodes, tinits, tout), self.graph_of("else", enodes, einits, eout)))
            res = "r"
        elif topo == "if-nested":
            i_t, i_ti, i_to = self.branch("it", tn, src=x)
            i_e, i_ei, i_eo = self.branch("ie", en, src=x)
            inner = self.if_node("b2", "ri", self.graph_of("ithen", i_t, i_ti, i_to), self.graph_of("ielse", i_e, i_ei, i_eo))
            onodes, oinits, oout = self.branch("ot", ["O.w"], src="ri")  # (an inner name equal to this one would hide a visible outer name)
            tg = self.graph_of("then", [inner] + onodes, oinits, oout)
            enodes, einits, eout = self.branch("e", [r.choice(P)], src=x)
            nodes.append(self.if_node("b", "r", tg, self.graph_of("else", enodes, einits, eout)))
            res = "r"
        elif topo == "loops":
            l1, a1 = self.while_loop("p", x, tn, r.random() < 0.5)
            l2, a2 = self.while_loop("q", a1, en, r.random() < 0.5)
            nodes += l1 + l2
            res = a2
        elif topo == "loop-in-if":
            ln, af = self.while_loop("p", x, tn, r.random() < 0.5)
            tg = h.make_graph(ln, "then_g", [], [_vi(af, TP.FLOAT, [self.R, self.L])],
                              initializer=[self.tensor(P[1], None)] if r.random() < 0.3 else [])
            enodes, einits, eout = self.branch("e", en, src=x)
            nodes.append(self.if_node("b", "r", tg, self.graph_of("else", enodes, einits, eout)))
            res = "r"
        else:
            raise ValueError(topo)
        nodes.append(h.make_node("Identity", [res], ["y"]))
        ins = [_vi("x", TP.FLOAT, [self.R, self.L]), _vi("b", TP.BOOL, [])]
        if topo == "if-nested":
            ins.append(_vi("b2", TP.BOOL, []))
        g = h.make_graph(nodes, "g", ins, [_vi("y", TP.FLOAT, [self.R, self.L])], initializer=main_inits)
        m = h.make_model(g, opset_imports=[h.make_opsetid("", OPSET)], ir_version=9)
        feeds = []
        for k in range(4):
            f = {"x": np.array([r.choice([-2.0, -1.0, 0.5, 1.0, 2.0, 3.0]) for _ in range(self.R * self.L)], dtype=np.float32).reshape(self.R, self.L),
                 "b": np.asarray(k % 2 == 0)}
            if topo == "if-nested":
                f["b2"] = np.asarray(k // 2 == 0)
            feeds.append(f)
        return m, feeds


TOPOLOGIES = ["if", "if", "if", "if-nested", "loops", "loop-in-if", "shadow", "main-large"]


def _demo_case():
    """the model of seeded/C13-8/demo.py: both branches call their [2,3] initializer "W" """
    wt = np.arange(6, dtype=np.float32).reshape(2, 3)
    we = -np.ones((2, 3), dtype=np.float32)
    tg = h.make_graph([h.make_node("MatMul", ["x", "W"], ["t"])], "then_body", [], [_vi("t", TP.FLOAT, ["N", 3])], initializer=[nh.from_array(wt, "W")])
    eg = h.make_graph([h.make_node("MatMul", ["x", "W"], ["e"])], "else_body", [], [_vi("e", TP.FLOAT, ["N", 3])], initializer=[nh.from_array(we, "W")])
    g = h.make_graph([h.make_node("If", ["b"], ["y"], then_branch=tg, else_branch=eg)], "branches",
                     [_vi("x", TP.FLOAT, ["N", 2]), _vi("b", TP.BOOL, [])], [_vi("y", TP.FLOAT, ["N", 3])])
    m = h.make_model(g, opset_imports=[h.make_opsetid("", OPSET)], ir_version=8)
    x = np.array([[1.0, 2.0], [3.0, -1.0]], dtype=np.float32)
    return m, [{"x": x, "b": np.asarray(True)}, {"x": x, "b": np.asarray(False)}, {"x": x * 2, "b": np.asarray(False)}]


def _case(cid, m, feeds, topo):
    return {"id": cid, "kind": "model", "origin": "subinit", "profile": "subinit", "proto": m, "feeds": feeds,
            "large_inits": skipped_in_order(m), "dup_skipped": dup_skipped(m), "topology": topo}


def subgraph_init_cases(rng, count):
    cases, rejected = [], 0
    m, feeds = _demo_case()
    cases.append(_case("subinit:demo:both-branches-own-W", m, feeds, "if"))
    attempts = 0
    while len(cases) < count + 1 and attempts < count * 6:
        attempts += 1
        topo = TOPOLOGIES[(len(cases) - 1) % len(TOPOLOGIES)]
        gen = _Gen(_random.Random(rng.getrandbits(64)))
        try:
            m, feeds = gen.build(topo)
            onnx.checker.check_model(m, full_check=True)
        except Exception:  # noqa: BLE001 -- an invalid model is not a case
            rejected += 1
            continue
        cases.append(_case(f"subinit{len(cases)}:{topo}", m, feeds, topo))
    return cases, rejected
