"""C13 directed-but-generic streams (added after seeded mutations C13-1 / C13-2 were missed).

attr_nesting_cases   FunctionProtos with attribute parameters referenced inside nested If/Loop bodies, whose value
                     names systematically coincide with `<attr>`, `<attr>_0`, `<attr>_1` at every nesting level
                     (exercises _handle_attrname_conflict / _names_used through the round-trip oracle).
rank_const_cases     models in which a small constant (shapes [], [1], [2], [1,1], ...; FLOAT and INT64; Constant node
                     or initializer) sits in a rank-sensitive operand position; outputs are declared without shape so
                     that only the computation decides the result's rank (exercises inline_const's literal rule).
const_repr_samples   Constant nodes for the correspondence of `_get_const_repr` with Export/ConstRepr.v.

Both streams avoid the catalogued defect classes of the unmodified exporter, so that they run (and must agree)
under the option tuples listed with each case.
"""
from __future__ import annotations

import itertools
import struct

import numpy as np
import onnx
from onnx import AttributeProto as AP
from onnx import TensorProto as TP
from onnx import helper as h
from onnx import numpy_helper as nh

OPSET = 18


# ------------------------------------------------------------------------------------------------ (a) attributes

def _attr_ref_node(op, ins, outs, attr_name, attr_type, ref):
    n = h.make_node(op, ins, outs)
    a = n.attribute.add()
    a.name = attr_name
    a.type = attr_type
    a.ref_attr_name = ref
    return n


class _AttrFn:
    """One function  f <A: float, N: int> (x, w [, <A>_0]) => (y)  with two nested constructs.

    placement: dict special-name -> level (0 top, 1, 2; -1 = function input); kinds: (k1, k2) in {If, Loop}^2."""

    def __init__(self, rng, attr, nattr, placement, promo, kinds, idx):
        self.rng = rng
        self.A, self.N = attr, nattr
        self.placement = placement      # e.g. {"alpha": 1, "alpha_0": 2, "alpha_1": 0}
        self.promo = promo              # names that are Constant<value_float=@A> (attribute promoted to a value)
        self.kinds = kinds
        self.k = 0
        self.idx = idx
        self.trip_names = [nattr, f"{nattr}_0", f"{nattr}_1"]  # values named like the int attribute, too
        self.reserved = set(placement) | set(self.trip_names) | {attr, nattr}

    def fresh(self, hint="t"):
        self.k += 1
        return f"{hint}{self.k}"

    def level(self, lvl, cur, visible):
        """-> (nodes, name of the block's result); `visible` = special values of enclosing scopes [(name, is_scalar)]."""
        r = self.rng
        nodes = []
        nxt = self.fresh()
        nodes.append(h.make_node(r.choice(["Abs", "Tanh", "Relu", "Sigmoid"]), [cur], [nxt]))
        cur = nxt
        visible = list(visible)
        for name, l in sorted(self.placement.items()):
            if l != lvl:
                continue
            if name in self.promo:
                nodes.append(_attr_ref_node("Constant", [], [name], "value_float", AP.FLOAT, self.A))
                visible.append((name, True))
            else:
                nodes.append(h.make_node(r.choice(["Neg", "Abs", "Floor", "Identity"]), [cur], [name]))
                visible.append((name, False))
        if lvl < 2:
            sub, cur = self.construct(self.kinds[lvl], lvl + 1, cur, visible)
            nodes += sub
        # every visible special value is used after all of them (and the nested ones) have been defined
        for name, scalar in visible:
            nxt = self.fresh()
            op = r.choice(["Mul", "Add"]) if scalar else r.choice(["Add", "Sub", "Max", "Mul"])
            nodes.append(h.make_node(op, [cur, name], [nxt]))
            cur = nxt
        if r.random() < 0.5:
            nxt = self.fresh()
            nodes.append(_attr_ref_node("LeakyRelu", [cur], [nxt], "alpha", AP.FLOAT, self.A))
            cur = nxt
        return nodes, cur

    def construct(self, kind, inner, cur, visible):
        r = self.rng
        nodes = []
        vec = lambda n: h.make_tensor_value_info(n, TP.FLOAT, [3])  # noqa: E731
        if kind == "If":
            s, thr, c = self.fresh("s"), self.fresh("thr"), self.fresh("c")
            nodes.append(h.make_node("ReduceSum", [cur], [s], keepdims=0))
            nodes.append(h.make_node("Constant", [], [thr], value_float=r.choice([0.0, 0.5, 2.0])))
            nodes.append(h.make_node(r.choice(["Greater", "Less"]), [s, thr], [c]))
            tn, tout = self.level(inner, cur, visible)
            e = self.fresh("e")
            en = [h.make_node(r.choice(["Neg", "Abs"]), [cur], [e])]
            then_g = h.make_graph(tn, f"then{self.k}", [], [vec(tout)])
            else_g = h.make_graph(en, f"else{self.k}", [], [vec(e)])
            out = self.fresh("r")
            if r.random() < 0.5:
                then_g, else_g = else_g, then_g  # the nested content sits in the else branch
            nodes.append(h.make_node("If", [c], [out], then_branch=then_g, else_branch=else_g))
            return nodes, out
        trip = self.trip_names.pop(0) if r.random() < 0.7 else self.fresh("trip")
        nodes.append(_attr_ref_node("Constant", [], [trip], "value_int", AP.INT, self.N))
        it, cin, st, cout = self.fresh("i"), self.fresh("cin"), self.fresh("st"), self.fresh("cout")
        bn, bout = self.level(inner, st, visible)
        bn.append(h.make_node("Identity", [cin], [cout]))
        body = h.make_graph(bn, f"body{self.k}",
                            [h.make_tensor_value_info(it, TP.INT64, []), h.make_tensor_value_info(cin, TP.BOOL, []), vec(st)],
                            [h.make_tensor_value_info(cout, TP.BOOL, []), vec(bout)])
        out = self.fresh("fin")
        nodes.append(h.make_node("Loop", [trip, "", cur], [out], body=body))
        return nodes, out

    def build(self):
        inputs = ["x", "w"] + [n for n, l in sorted(self.placement.items()) if l == -1]
        start = self.fresh()
        nodes = [h.make_node("Add", ["x", "w"], [start])]
        visible = [(n, False) for n in inputs[2:]]
        body, out = self.level(0, start, visible)
        nodes += body
        nodes.append(h.make_node("Identity", [out], ["y"]))
        fp = h.make_function("this", f"attr_fn_{self.idx}", inputs, ["y"], nodes,
                             opset_imports=[h.make_opsetid("", OPSET)], attributes=[self.A, self.N])
        return fp, inputs


def attr_nesting_cases(rng, count):
    """Sample `count` functions from the product: level of the value named <A> (an attribute promoted to a value),
    of <A>_0, of <A>_1 (each top / nested once / nested twice; <A>_0 may also be a function input), which of the three
    are promotions, and the two construct kinds.  The sample is stratified so that every level triple appears."""
    combos = []
    for lA, l0, l1 in itertools.product([0, 1, 2], [-1, 0, 1, 2], [None, 0, 1, 2]):
        combos.append((lA, l0, l1))
    rng.shuffle(combos)
    cases, rejected = [], 0
    i = 0
    while len(cases) < count and i < len(combos) * 3:
        lA, l0, l1 = combos[i % len(combos)]
        i += 1
        attr = rng.choice(["alpha", "alpha", "scale", "v2"])
        nattr = rng.choice(["n", "k", "v1"])
        placement = {attr: lA, f"{attr}_0": l0}
        if l1 is not None:
            placement[f"{attr}_1"] = l1
        promo = {attr}
        if l1 is not None and rng.random() < 0.5:
            promo.add(f"{attr}_1")
        if l0 >= 0 and rng.random() < 0.2:
            promo.add(f"{attr}_0")
        kinds = (rng.choice(["If", "Loop"]), rng.choice(["If", "Loop"]))
        fn = _AttrFn(rng, attr, nattr, placement, promo, kinds, len(cases))
        try:
            fp, inputs = fn.build()
        except Exception:  # noqa: BLE001
            rejected += 1
            continue
        vec = lambda n: h.make_tensor_value_info(n, TP.FLOAT, [3])  # noqa: E731
        feeds = []
        for base in ([1.0, -2.0, 3.0], [0.25, 0.5, -0.125], [-1.0, -1.0, 4.0]):
            f = {}
            for j, n in enumerate(inputs):
                f[n] = np.array(base, dtype=np.float32) * np.float32([1.0, 0.5, -2.0][j % 3]) + np.float32(j)
            feeds.append(f)
        call_attrs = {attr: rng.choice([0.5, -1.5, 2.0]), nattr: rng.choice([1, 2, 3])}
        cases.append({"id": f"attrnest{len(cases)}:A@{lA},A_0@{l0},A_1@{l1}:{kinds[0]}/{kinds[1]}:{attr}/{nattr}",
                      "kind": "function", "origin": "generated", "profile": "attr-nesting", "proto": fp, "feeds": feeds,
                      "iface": ([vec(n) for n in inputs], [vec("y")]), "call_attrs": call_attrs,
                      "placement": (lA, l0, l1)})
    return cases, rejected


# ------------------------------------------------------------------------------------------------ (b) small constants

def _i(v):
    return np.array(v, dtype=np.int64)


def _f(v):
    return np.array(v, dtype=np.float32)


def _templates():
    """name -> (list of constant operands (each: list of candidate arrays, one per shape), builder)
    builder(cnames) -> (nodes, result names).  Inputs available: X FLOAT[4,3], Y FLOAT[3], Z FLOAT[2,1]."""
    T = {}
    idx = [_i(1), _i([1]), _i([0, 2]), _i([[1]]), _i([[0, 2]])]
    T["gather_axis0"] = ([idx], lambda c: ([h.make_node("Gather", ["X", c[0]], ["o"], axis=0)], ["o"]))
    T["gather_axis1"] = ([idx], lambda c: ([h.make_node("Gather", ["X", c[0]], ["o"], axis=1)], ["o"]))
    T["gather_then_reduce"] = ([idx], lambda c: ([h.make_node("Gather", ["X", c[0]], ["g"], axis=0),
                                                   h.make_node("ReduceMax", ["g"], ["o"], axes=[0], keepdims=0)], ["o"])) \
        if OPSET < 18 else ([idx], lambda c: ([h.make_node("Gather", ["X", c[0]], ["g"], axis=0),
                                               h.make_node("Constant", [], ["ax_"], value_ints=[0]),
                                               h.make_node("ReduceMax", ["g", "ax_"], ["o"], keepdims=0)], ["o"]))
    T["reshape"] = ([[_i([-1]), _i([2, 6]), _i([2, 3, 2]), _i([12])]], lambda c: ([h.make_node("Reshape", ["X", c[0]], ["o"])], ["o"]))
    T["expand"] = ([[_i([3]), _i([2, 3]), _i([1]), _i([1, 1, 3])]], lambda c: ([h.make_node("Expand", ["Y", c[0]], ["o"])], ["o"]))
    T["unsqueeze"] = ([[_i([0]), _i([0, 3]), _i([2]), _i([-1])]], lambda c: ([h.make_node("Unsqueeze", ["X", c[0]], ["o"])], ["o"]))
    T["squeeze"] = ([[_i([1]), _i([-1])]], lambda c: ([h.make_node("Squeeze", ["Z", c[0]], ["o"])], ["o"]))
    T["reducesum_axes"] = ([[_i([0]), _i([0, 1]), _i([1]), _i([-1])]], lambda c: ([h.make_node("ReduceSum", ["X", c[0]], ["o"], keepdims=0)], ["o"]))
    T["tile"] = ([[_i([2]), _i([1])]], lambda c: ([h.make_node("Tile", ["Y", c[0]], ["o"])], ["o"]))
    T["topk"] = ([[_i([2]), _i([1])]], lambda c: ([h.make_node("TopK", ["Y", c[0]], ["o", "oi"])], ["o", "oi"]))
    T["slice"] = ([[_i([1]), _i([0])], [_i([3]), _i([2])], [_i([0]), _i([1])]],
                  lambda c: ([h.make_node("Slice", ["X", c[0], c[1], c[2]], ["o"])], ["o"]))
    T["constant_of_shape"] = ([[_i([3]), _i([2, 2]), _i([1])]], lambda c: ([h.make_node("ConstantOfShape", [c[0]], ["k_"]),
                                                                           h.make_node("Add", ["k_", "Y"], ["o"])], ["o"]))
    fl = [_f(2.0), _f([2.0]), _f([[2.0]]), _f([2.0, 3.0]), _f([-0.5]), _f([1.5, -1.0, 0.25])]
    T["scalar_plus_const"] = ([fl], lambda c: ([h.make_node("ReduceSum", ["X"], ["s_"], keepdims=0),
                                                h.make_node("Add", ["s_", c[0]], ["o"])], ["o"]))
    T["const_minus_scalar"] = ([fl], lambda c: ([h.make_node("ReduceMax", ["Y"], ["s_"], keepdims=0),
                                                 h.make_node("Sub", [c[0], "s_"], ["o"])], ["o"]))
    T["vector_times_const"] = ([[_f(2.0), _f([2.0]), _f([[2.0]]), _f([1.0, -1.0, 0.5]), _f([[3.0], [4.0]])]],
                               lambda c: ([h.make_node("Mul", ["Y", c[0]], ["o"])], ["o"]))
    T["concat_vectors"] = ([[_f([7.0]), _f([7.0, 8.0]), _f([1.0, 2.0, 3.0, 4.0]), _f([])]], lambda c: ([h.make_node("Concat", ["Y", c[0]], ["o"], axis=0)], ["o"]))
    T["concat_rows"] = ([[_f([[7.0]]), _f([[7.0], [8.0]])]], lambda c: ([h.make_node("Concat", ["Z", c[0]], ["o"], axis=0)], ["o"]))
    T["pow_int_exponent"] = ([[_i(2), _i([2]), _i([[2]]), _i([1, 2, 3])]], lambda c: ([h.make_node("Abs", ["Y"], ["a_"]),
                                                                                      h.make_node("Pow", ["a_", c[0]], ["o"])], ["o"]))
    T["clip_bounds"] = ([[_f(-1.0)], [_f(1.5)]], lambda c: ([h.make_node("Clip", ["X", c[0], c[1]], ["o"])], ["o"]))
    T["where_const"] = ([fl], lambda c: ([h.make_node("Greater", ["Y", c[0]], ["m_"]),
                                          h.make_node("Where", ["m_", "Y", c[0]], ["o"])], ["o"]))
    T["matmul_vec"] = ([[_f([1.0, -1.0, 0.5]), _f([[1.0], [2.0], [3.0]])]], lambda c: ([h.make_node("MatMul", ["X", c[0]], ["o"])], ["o"]))
    T["range"] = ([[_i(0), _f(0.0)], [_i(4), _f(4.0)], [_i(2), _f(1.5)]], None)  # handled specially (dtypes must agree)
    return T


def rank_const_cases(rng):
    """Every (template, constant shape choice, representation) that onnx.checker + onnxruntime accept."""
    cases, rejected = [], 0
    X = h.make_tensor_value_info("X", TP.FLOAT, [4, 3])
    Y = h.make_tensor_value_info("Y", TP.FLOAT, [3])
    Z = h.make_tensor_value_info("Z", TP.FLOAT, [2, 1])
    feeds = [
        {"X": np.arange(12, dtype=np.float32).reshape(4, 3) - 4, "Y": _f([1.0, -2.0, 3.0]), "Z": _f([[0.5], [-1.5]])},
        {"X": (np.arange(12, dtype=np.float32).reshape(4, 3) * 0.5)[::-1].copy(), "Y": _f([0.0, 2.0, 2.0]), "Z": _f([[2.0], [2.0]])},
        {"X": np.ones((4, 3), dtype=np.float32) * 2, "Y": _f([2.0, 2.0, 2.0]), "Z": _f([[0.0], [7.0]])},
    ]
    for tname, (operands, builder) in sorted(_templates().items()):
        if tname == "range":
            choices = []
            for col in (0, 1):
                choices.append([ops[col] for ops in operands])
            builder = lambda c: ([h.make_node("Range", [c[0], c[1], c[2]], ["o"])], ["o"])  # noqa: E731
        else:
            choices = [list(t) for t in itertools.product(*operands)]
            if len(operands) > 1:  # vary the operands together rather than the full product
                n = max(len(o) for o in operands)
                choices = [[o[j % len(o)] for o in operands] for j in range(n)]
        for arrays in choices:
            for rep in ("node", "init"):
                cnames = [f"c{j}" for j in range(len(arrays))]
                nodes, inits = [], []
                for cn, arr in zip(cnames, arrays):
                    if rep == "node":
                        nodes.append(h.make_node("Constant", [], [cn], value=nh.from_array(arr, rng.choice([cn, "value"]))))
                    else:
                        inits.append(nh.from_array(arr, cn))
                body, results = builder(cnames)
                nodes += body
                outs, extra = [], []
                for res in results:
                    shp = f"{res}_shape"
                    extra.append(h.make_node("Shape", [res], [shp]))
                    et = TP.INT64 if res == "oi" else TP.FLOAT
                    if tname == "range" and arrays[0].dtype == np.int64:
                        et = TP.INT64
                    outs.append(h.make_tensor_value_info(res, et, None))       # no declared shape: the computation decides
                    outs.append(h.make_tensor_value_info(shp, TP.INT64, None))
                g = h.make_graph(nodes + extra, f"rank_{tname}", [X, Y, Z], outs, initializer=inits)
                m = h.make_model(g, opset_imports=[h.make_opsetid("", OPSET)], ir_version=9)
                try:
                    # (onnx.checker insists on a declared output shape; legality is decided by onnxruntime instead)
                    from harness.c13_rt import ort_session
                    ort_session(m).run(None, feeds[0])
                except Exception:  # noqa: BLE001  -- this shape is not legal in this operand position
                    rejected += 1
                    continue
                shapes = "x".join(str(list(a.shape)) for a in arrays).replace(" ", "")
                cases.append({"id": f"rankconst:{tname}:{shapes}:{arrays[0].dtype}:{rep}", "kind": "model", "origin": "generated",
                              "profile": "rank-const", "proto": m, "feeds": feeds, "large_inits": [],
                              "const_shapes": [list(a.shape) for a in arrays]})
    return cases, rejected


# ------------------------------------------------------------------------------------------------ _get_const_repr samples

def f32_bits(x):
    return struct.unpack("<I", struct.pack("<f", float(x)))[0]


def const_repr_samples(rng, count):
    """-> list of (node, dtype tag, dims, payload as integers (int64 value / float32 bit pattern))"""
    out = []
    shapes = [[], [0], [1], [2], [3], [4], [5], [7], [1, 1], [2, 2], [1, 4], [4, 1], [1, 1, 1]]
    dts = [("FLOAT", np.float32), ("INT64", np.int64), ("OTHER", np.int32), ("OTHER", np.float64), ("OTHER", np.bool_)]
    for shape in shapes:
        for tag, dt in dts:
            out.append(_one_const(rng, shape, tag, dt))
    while len(out) < count:
        tag, dt = rng.choice(dts[:2] * 3 + dts)
        out.append(_one_const(rng, rng.choice(shapes), tag, dt))
    # forms without a tensor attribute are never inlined
    out.append((h.make_node("Constant", [], ["c"], value_float=1.5), "NOTENSOR", [], []))
    out.append((h.make_node("Constant", [], ["c"], value_ints=[1, 2]), "NOTENSOR", [2], []))
    return out


def _one_const(rng, shape, tag, dt):
    n = int(np.prod(shape)) if shape else 1
    if dt == np.float32:
        vals = [rng.choice([0.0, 1.0, -1.5, 0.1, 2.5, 1e-3, 100.0, -0.0, 3.0e8, 7.25]) for _ in range(n)]
    elif dt == np.bool_:
        vals = [rng.random() < 0.5 for _ in range(n)]
    else:
        vals = [rng.choice([0, 1, -1, 2, 5, 12, -7, 100000]) for _ in range(n)]
    arr = np.array(vals, dtype=dt).reshape(shape)
    node = h.make_node("Constant", [], ["c"], value=nh.from_array(arr, "c"))
    if tag == "FLOAT":
        payload = [f32_bits(v) for v in arr.ravel().tolist()]
    elif tag == "INT64":
        payload = [int(v) for v in arr.ravel().tolist()]
    else:
        payload = [int(v) for v in np.asarray(arr, dtype=np.float64).ravel().tolist()]
    return node, tag, list(shape), payload
