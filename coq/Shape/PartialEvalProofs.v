(* C09 -- the recorded shape values are sound for every binding, and so are the simplifications
   derived from them. *)
From Coq Require Import String ZArith List Bool Lia ZifyBool.
Require Import OV.Shape.SymDim OV.Shape.SymDimProofs OV.Shape.Broadcast OV.Shape.BroadcastProofs OV.Shape.PartialEval.
Import ListNotations.
Open Scope Z_scope.

(* ---- list plumbing -------------------------------------------------------------------------- *)
Lemma Forall2_len : forall {A B} (R : A -> B -> Prop) l m, Forall2 R l m -> List.length l = List.length m.
Proof. induction 1; simpl; congruence. Qed.

Lemma Forall2_firstn : forall {A B} (R : A -> B -> Prop) n l m, Forall2 R l m -> Forall2 R (firstn n l) (firstn n m).
Proof. induction n; intros l m H; simpl; [constructor|]. destruct H; constructor; auto. Qed.

Lemma Forall2_skipn : forall {A B} (R : A -> B -> Prop) n l m, Forall2 R l m -> Forall2 R (skipn n l) (skipn n m).
Proof. induction n; intros l m H; simpl; [assumption|]. destruct H; [constructor|auto]. Qed.

Lemma pyslice_F2 : forall {A B} (R : A -> B -> Prop) l m a b, Forall2 R l m -> Forall2 R (pyslice l a b) (pyslice m a b).
Proof.
  intros. unfold pyslice. rewrite (Forall2_len _ _ _ H).
  apply Forall2_firstn, Forall2_skipn. assumption.
Qed.

Lemma Forall2_nth_error : forall {A B} (R : A -> B -> Prop) l m, Forall2 R l m ->
  forall n a b, nth_error l n = Some a -> nth_error m n = Some b -> R a b.
Proof.
  induction 1; intros [|n] a b Ha Hb; simpl in *; try discriminate.
  - inversion Ha; inversion Hb; subst; assumption.
  - eauto.
Qed.

Lemma py_index_F2 : forall {A B} (R : A -> B -> Prop) l m, Forall2 R l m ->
  forall i a b, py_index l i = Some a -> py_index m i = Some b -> R a b.
Proof.
  intros A B R l m H i a b. unfold py_index. rewrite (Forall2_len _ _ _ H).
  destruct ((0 <=? i) && (i <? Z.of_nat (List.length m))).
  - apply Forall2_nth_error; assumption.
  - destruct ((i <? 0) && (- Z.of_nat (List.length m) <=? i)); [|discriminate].
    apply Forall2_nth_error; assumption.
Qed.

Lemma gather_F2 : forall {A B} (R : A -> B -> Prop) l m, Forall2 R l m ->
  forall idx r q, gather l idx = Some r -> gather m idx = Some q -> Forall2 R r q.
Proof.
  intros A B R l m H. induction idx as [|i idx IH]; intros r q Hr Hq; simpl in *.
  - inversion Hr; inversion Hq; constructor.
  - destruct (py_index l i) eqn:E1; [|discriminate]. destruct (gather l idx) eqn:E2; [|discriminate].
    destruct (py_index m i) eqn:E3; [|discriminate]. destruct (gather m idx) eqn:E4; [|discriminate].
    inversion Hr; inversion Hq; subst. constructor; [eapply (py_index_F2 R l m H i); eauto|eauto].
Qed.

(* ---- pieces ----------------------------------------------------------------------------------- *)
Lemma const_denotes : forall rho l, Forall2 (denotes rho) (map DInt l) l.
Proof. induction l; simpl; constructor; simpl; auto. Qed.

Lemma known_denotes_val : forall rho d c, denotes rho d c -> is_unk d = false -> c = dim_val rho d.
Proof. intros rho [z|s|] c H K; simpl in *; try discriminate; assumption. Qed.

Lemma show_dim_known : forall d s, show_dim d = Some s -> is_unk d = false.
Proof. intros [z|n|] s H; simpl in *; try discriminate; reflexivity. Qed.

Lemma add_dims_old_sound : forall rho d0 d1 d c0 c1,
  add_dims_old d0 d1 = Some d ->
  match d with DSym n => Z.of_nat (rho n) = dim_val rho d0 + dim_val rho d1 | _ => True end ->
  denotes rho d0 c0 -> denotes rho d1 c1 -> denotes rho d (c0 + c1).
Proof.
  intros rho d0 d1 d c0 c1 H P D0 D1. unfold add_dims_old in H.
  destruct d0 as [a|s0|]; destruct d1 as [b|s1|]; simpl in H; try discriminate;
    inversion H; subst; simpl in *; try lia.
Qed.

Lemma add_dims_is_old : forall d0 d1 d, add_dims d0 d1 = Some d -> add_dims_old d0 d1 = Some d.
Proof.
  unfold add_dims. intros [a|s0|] [b|s1|] d H; simpl in *; try exact H;
    try (destruct (a <? 0); [discriminate|exact H]); try (destruct (b <? 0); [discriminate|exact H]).
Qed.

Lemma add_dims_sound : forall rho d0 d1 d c0 c1,
  add_dims d0 d1 = Some d ->
  match d with DSym n => Z.of_nat (rho n) = dim_val rho d0 + dim_val rho d1 | _ => True end ->
  denotes rho d0 c0 -> denotes rho d1 c1 -> denotes rho d (c0 + c1).
Proof. intros. eapply add_dims_old_sound; eauto using add_dims_is_old. Qed.

Lemma no_neg_abs : forall rho s c, no_neg s = true -> Forall2 (denotes rho) s c -> map Z.abs c = c.
Proof.
  unfold no_neg. intros rho s c H F. apply negb_true_iff in H.
  induction F as [|d n s c D F IH]; [reflexivity|]. simpl in *.
  apply orb_false_iff in H as [H1 H2]. rewrite (IH H2). f_equal.
  destruct d as [z|t|]; simpl in *; lia.
Qed.

Lemma all_int_abs : forall rho s c, all_int s = true -> Forall2 (denotes rho) s c ->
  Forall2 (denotes rho) (map abs_dim s) (map Z.abs c).
Proof.
  intros rho s c H F. induction F as [|d n s c D F IH]; simpl in *; [constructor|].
  apply andb_true_iff in H as [H1 H2]. constructor; auto.
  destruct d; try discriminate. simpl in *. congruence.
Qed.

(* ---- shape_value_sound: the ir.Shape recorded for an INT64 tensor denotes its runtime contents --- *)
Theorem shape_value_sound : forall rho e, plus_closed rho e ->
  forall s c, sv_sym e = Some s -> sv_runs rho e c -> Forall2 (denotes rho) s c.
Proof.
  intros rho. induction e as [l|x st en|v IH idx|a IHa b IHb|a IHa b IHb|v IH|v IH|v IH]; intros P s c Hs Hr; simpl in *.
  - inversion Hr; subst. destruct (Nat.leb (List.length c) 10); [|discriminate]. inversion Hs; subst. apply const_denotes.
  - inversion Hr; subst. inversion Hs; subst. apply pyslice_F2. assumption.
  - inversion Hr as [| |v' c0 idx' r Hv Hg| | | | |]; subst. destruct (sv_sym v) as [sv0|] eqn:E; [|discriminate].
    exact (gather_F2 _ _ _ (IH P _ _ eq_refl Hv) idx _ _ Hs Hg).
  - destruct P as [Pa Pb]. inversion Hr as [| | |a' b' ca cb Ha Hb| | | |]; subst.
    destruct (sv_sym a) as [sa|]; [|discriminate]. destruct (sv_sym b) as [sb|]; [|discriminate].
    inversion Hs; subst. apply Forall2_app; auto.
  - destruct P as [Pa [Pb Pn]]. inversion Hr as [| | | |a' b' ca cb Ha Hb| | |]; subst.
    destruct (sv_sym a) as [[|d0 [|? ?]]|]; try discriminate.
    destruct (sv_sym b) as [[|d1 [|? ?]]|]; try discriminate.
    destruct (add_dims d0 d1) as [d|] eqn:E; [|discriminate]. simpl in Hs. inversion Hs; subst.
    specialize (IHa Pa _ _ eq_refl Ha). specialize (IHb Pb _ _ eq_refl Hb).
    inversion IHa; subst. inversion IHb; subst.
    constructor; [|constructor]. eapply add_dims_sound; eauto; destruct d; auto.
  - inversion Hr as [| | | | |v' c0 Hv| |]; subst. destruct (sv_sym v) as [s0|] eqn:E; [|discriminate].
    specialize (IH P _ _ eq_refl Hv).
    destruct (no_neg s0) eqn:N.
    + inversion Hs; subst. rewrite (no_neg_abs _ _ _ N IH). assumption.
    + destruct (all_int s0) eqn:A; [|discriminate]. inversion Hs; subst. apply all_int_abs; assumption.
  - inversion Hr as [| | | | | |v' c0 Hv|]; subst. destruct (sv_sym v) as [s0|] eqn:E; [|discriminate].
    destruct (all_int s0); [|discriminate]. inversion Hs; subst. exact (IH P _ _ eq_refl Hv).
  - inversion Hr as [| | | | | | |v' c0 Hv]; subst. exact (IH P _ _ Hs Hv).
Qed.

(* an all-int recorded value is the tensor itself: Shape/Gather -> Constant(value_ints) is sound *)
Lemma all_int_determines : forall rho s c, all_int s = true -> Forall2 (denotes rho) s c -> s = map DInt c.
Proof.
  intros rho s c H F. induction F as [|d n s c D F IH]; simpl in *; [reflexivity|].
  apply andb_true_iff in H as [H1 H2]. destruct d; try discriminate. simpl in D. subst. f_equal. auto.
Qed.

Theorem shape_value_constant_fold_sound : forall rho e s c, plus_closed rho e ->
  sv_sym e = Some s -> all_int s = true -> sv_runs rho e c -> s = map DInt c.
Proof. intros. eapply all_int_determines; eauto using shape_value_sound. Qed.

(* ---- Reshape ---------------------------------------------------------------------------------- *)
Lemma resolve0_self : forall az cx, resolve0 az cx cx = Some cx.
Proof.
  induction cx as [|a cx IH]; simpl; [reflexivity|]. rewrite IH.
  destruct ((a =? 0) && negb az); reflexivity.
Qed.

Lemma nonneg_no_lt_m1 : forall cx, Forall (fun n => 0 <= n) cx -> existsb (fun d => d <? -1) cx = false.
Proof. induction 1; simpl; [reflexivity|]. rewrite IHForall. destruct (x <? -1) eqn:E; [lia|reflexivity]. Qed.

Lemma nonneg_count_m1 : forall cx, Forall (fun n => 0 <= n) cx -> count_m1 cx = 0%nat.
Proof.
  unfold count_m1. induction 1; simpl; [reflexivity|]. destruct (x =? -1) eqn:E; [lia|assumption].
Qed.

Lemma reshape_out_self : forall az cx, Forall (fun n => 0 <= n) cx -> reshape_out az cx cx = Some cx.
Proof.
  intros az cx H. unfold reshape_out.
  rewrite (nonneg_no_lt_m1 _ H), (nonneg_count_m1 _ H). simpl.
  rewrite andb_false_r. rewrite resolve0_self. rewrite Z.eqb_refl. reflexivity.
Qed.

(* Reshape(x, v) with the recorded value of v "equal" to x's annotation is the identity at every
   binding: same output shape (and Reshape never changes the row-major data), whatever allowzero is,
   also when a dim is 0 or a symbol occurs twice. *)
Theorem reshape_identity_sound : forall x e, reshape_is_identity (Some x) e = true ->
  forall rho cx c, plus_closed rho e -> shape_denotes rho x cx -> sv_runs rho e c ->
  Forall (fun n => 0 <= n) cx ->
  forall allowzero, reshape_out allowzero cx c = Some cx.
Proof.
  unfold reshape_is_identity, reshape_is_identity_with. intros x e H rho cx c P Hx Hr Hn az.
  destruct (sv_sym e) as [s|] eqn:E; [|discriminate].
  pose proof (shape_value_sound rho e P s c E Hr) as Hs.
  rewrite <- (cf_same_shape_sound _ _ H rho cx c Hx Hs). apply reshape_out_self. assumption.
Qed.

(* ---- Expand ------------------------------------------------------------------------------------ *)
Lemma bcast_self : forall cx, bcast cx cx = Some cx.
Proof. intro. unfold bcast. rewrite rb_diag. simpl. rewrite rev_involutive. reflexivity. Qed.

Theorem expand_identity_sound : forall x e, expand_is_identity (Some x) e = true ->
  forall rho cx c, plus_closed rho e -> shape_denotes rho x cx -> sv_runs rho e c ->
  bcast cx c = Some cx.
Proof.
  unfold expand_is_identity, expand_is_identity_with. intros x e H rho cx c P Hx Hr.
  destruct (sv_sym e) as [s|] eqn:E; [|discriminate].
  pose proof (shape_value_sound rho e P s c E Hr) as Hs.
  rewrite <- (cf_same_shape_sound _ _ H rho cx c Hx Hs). apply bcast_self.
Qed.

(* ExpandIdentity rule and the constant branch of the expand() evaluator *)
Theorem expand_identity_const_sound : forall x e, expand_identity_const x e = true ->
  forall rho cx, shape_denotes rho x cx -> bcast cx e = Some cx.
Proof.
  unfold expand_identity_const. intros x e H rho cx Hx.
  assert (cx = e).
  { revert e H. induction Hx as [|d n x cx D F IH]; intros [|z e] H; simpl in *; try discriminate; [reflexivity|].
    apply andb_true_iff in H as [H1 H2]. destruct d; simpl in *; try discriminate.
    f_equal; [lia|auto]. }
  subst. apply bcast_self.
Qed.

(* ---- Abs ---------------------------------------------------------------------------------------- *)
(* With the repaired Add evaluator every recorded dim is exact when it is an int and non-negative
   otherwise -- for EVERY binding, also one that binds an invented "a+b" name inconsistently. *)
Definition weak (d : dim) (n : Z) : Prop := match d with DInt z => n = z | _ => 0 <= n end.

Lemma denotes_weak : forall rho d n, denotes rho d n -> weak d n.
Proof. intros rho [z|s|] n H; simpl in *; lia. Qed.

Lemma weak_const : forall l, Forall2 weak (map DInt l) l.
Proof. induction l; simpl; constructor; simpl; auto. Qed.

Lemma add_dims_weak : forall d0 d1 d c0 c1, add_dims d0 d1 = Some d -> weak d0 c0 -> weak d1 c1 -> weak d (c0 + c1).
Proof.
  intros d0 d1 d c0 c1 H W0 W1. unfold add_dims, add_dims_old in H.
  destruct d0 as [a|s0|], d1 as [b|s1|]; simpl in *;
    repeat match type of H with context[if ?c then _ else _] => destruct c eqn:? end;
    try discriminate; inversion H; subst; simpl; lia.
Qed.

Lemma weak_no_neg_abs : forall s c, no_neg s = true -> Forall2 weak s c -> map Z.abs c = c.
Proof.
  unfold no_neg. intros s c H F. apply negb_true_iff in H.
  induction F as [|d n s c D F IH]; [reflexivity|]. simpl in *.
  apply orb_false_iff in H as [H1 H2]. rewrite (IH H2). f_equal.
  destruct d as [z|t|]; simpl in *; lia.
Qed.

Lemma weak_all_int_abs : forall s c, all_int s = true -> Forall2 weak s c -> Forall2 weak (map abs_dim s) (map Z.abs c).
Proof.
  intros s c H F. induction F as [|d n s c D F IH]; simpl in *; [constructor|].
  apply andb_true_iff in H as [H1 H2]. constructor; auto.
  destruct d; try discriminate. simpl in *. congruence.
Qed.

Lemma shape_denotes_weak : forall rho x cx, shape_denotes rho x cx -> Forall2 weak x cx.
Proof. induction 1; constructor; eauto using denotes_weak. Qed.

Theorem shape_value_nonneg : forall rho e s c, sv_sym e = Some s -> sv_runs rho e c -> Forall2 weak s c.
Proof.
  intros rho. induction e as [l|x st en|v IH idx|a IHa b IHb|a IHa b IHb|v IH|v IH|v IH]; intros s c Hs Hr; simpl in *.
  - inversion Hr; subst. destruct (Nat.leb (List.length c) 10); [|discriminate]. inversion Hs; subst. apply weak_const.
  - inversion Hr; subst. inversion Hs; subst. apply pyslice_F2. eapply shape_denotes_weak; eauto.
  - inversion Hr as [| |v' c0 idx' r Hv Hg| | | | |]; subst. destruct (sv_sym v) as [sv0|] eqn:E; [|discriminate].
    exact (gather_F2 _ _ _ (IH _ _ eq_refl Hv) idx _ _ Hs Hg).
  - inversion Hr as [| | |a' b' ca cb Ha Hb| | | |]; subst.
    destruct (sv_sym a) as [sa|]; [|discriminate]. destruct (sv_sym b) as [sb|]; [|discriminate].
    inversion Hs; subst. apply Forall2_app; auto.
  - inversion Hr as [| | | |a' b' ca cb Ha Hb| | |]; subst.
    destruct (sv_sym a) as [[|d0 [|? ?]]|]; try discriminate.
    destruct (sv_sym b) as [[|d1 [|? ?]]|]; try discriminate.
    destruct (add_dims d0 d1) as [d|] eqn:E; [|discriminate]. simpl in Hs. inversion Hs; subst.
    specialize (IHa _ _ eq_refl Ha). specialize (IHb _ _ eq_refl Hb).
    inversion IHa; subst. inversion IHb; subst.
    constructor; [|constructor]. eapply add_dims_weak; eauto.
  - inversion Hr as [| | | | |v' c0 Hv| |]; subst. destruct (sv_sym v) as [s0|] eqn:E; [|discriminate].
    specialize (IH _ _ eq_refl Hv).
    destruct (no_neg s0) eqn:N.
    + inversion Hs; subst. rewrite (weak_no_neg_abs _ _ N IH). assumption.
    + destruct (all_int s0) eqn:A; [|discriminate]. inversion Hs; subst. apply weak_all_int_abs; assumption.
  - inversion Hr as [| | | | | |v' c0 Hv|]; subst. destruct (sv_sym v) as [s0|] eqn:E; [|discriminate].
    destruct (all_int s0); [|discriminate]. inversion Hs; subst. exact (IH _ _ eq_refl Hv).
  - inversion Hr as [| | | | | | |v' c0 Hv]; subst. exact (IH _ _ Hs Hv).
Qed.

(* Abs -> Identity with the repaired Add evaluator: sound for every binding, no side condition *)
Theorem abs_identity_sound : forall e, abs_is_identity e = true ->
  forall rho c, sv_runs rho e c -> map Z.abs c = c.
Proof.
  unfold abs_is_identity, abs_is_identity_with. intros e H rho c Hr.
  destruct (sv_sym e) as [s|] eqn:E; [|discriminate].
  eapply weak_no_neg_abs; eauto using shape_value_nonneg.
Qed.

(* as shipped: Add records the name "N+-1" for Shape(z)[0] + (-1), Abs then assumes it is non-negative:
   at N = 0 the tensor holds -1, Abs gives 1, the optimized model (Identity) -1 *)
Lemma abs_identity_old_refuted : exists e rho c,
  abs_is_identity_old e = true /\ sv_runs rho e c /\ map Z.abs c <> c.
Proof.
  exists (SAdd (SShape [DSym "N"] 0 None) (SConst [-1])), (fun _ => O), [0 + -1].
  split; [reflexivity|]. split.
  - apply RAdd; [|apply RConst]. apply (RShape (fun _ => O) [DSym "N"] [0] 0 None). repeat constructor.
  - vm_compute. discriminate.
Qed.

(* ---- non-vacuity -------------------------------------------------------------------------------- *)
(* x : [N, 0, N+M] reshaped to Concat(Shape(z)[0:1], [0], Shape(z)[0:1] + Shape(w)[-1:]) with z:[N,3], w:[2,M] *)
Definition ex_e : sv :=
  SConcat (SShape [DSym "N"; DInt 3] 0 (Some 1))
          (SConcat (SConst [0]) (SAdd (SGather (SShape [DSym "N"; DInt 3] 0 None) [0]) (SShape [DInt 2; DSym "M"] (-1) None))).
Definition ex_rho : valuation := fun s => if String.eqb s "N" then 2%nat else if String.eqb s "M" then 5%nat else 7%nat.
Example reshape_identity_example :
  reshape_is_identity (Some [DSym "N"; DInt 0; DSym "N+M"]) ex_e = true
  /\ plus_closed ex_rho ex_e
  /\ sv_runs ex_rho ex_e [2; 0; 7]
  /\ shape_denotes ex_rho [DSym "N"; DInt 0; DSym "N+M"] [2; 0; 7].
Proof.
  split; [reflexivity|]. split; [simpl; intuition reflexivity|]. split.
  - change [2; 0; 7] with ([2] ++ ([0] ++ [2 + 5])).
    apply RConcat.
    + apply (RShape ex_rho [DSym "N"; DInt 3] [2; 3] 0 (Some 1)). repeat constructor.
    + apply RConcat; [apply RConst|]. apply RAdd.
      * apply RGather with (c := [2; 3]); [|reflexivity].
        apply (RShape ex_rho [DSym "N"; DInt 3] [2; 3] 0 None). repeat constructor.
      * apply (RShape ex_rho [DInt 2; DSym "M"] [2; 5] (-1) None). repeat constructor.
  - repeat constructor.
Qed.
