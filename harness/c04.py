"""C04 -- optimize() is total on valid models; the result is valid and keeps the interface (DESIGN.md section 5, C04).

Shares the model (coq/Opt/Fold.v), the translator and the generators with C03.  Checks on every valid generated model and
entry point (optimize, optimize_ir, fold_constants, rewrite; ModelProto and ir.Model; sampled option tuples):
  no exception (an exception = violation keyed by exception type and raising site); result passes onnx.checker; the
  verified checkers wf_graphb / imports_ok (coq/Graph/Wf.v) evaluated in Coq on the real result; signature kept;
  referenced functions still present; initializer-inputs (overridable defaults) still have their default and the
  optimized model agrees with the original for override values.
Theorems: coq/Props/C04.v (signature preservation, graph-input guard, guarded / unguarded initializer-inputs).
"""
from __future__ import annotations

import collections
import re

import numpy as np
import onnx

from harness import c03_check as K
from harness import c03_gen as G
from harness import c03_run as R
from harness import c03_tables, graphlit
from harness.common import clist, parse_nat_list

PROPERTY = "C04"
LEVEL = "proof"


def regenerate(ctx):
    return c03_tables.regenerate(ctx)


def replay(doc):
    if doc.get("replay", {}).get("family") in ("rewrite-new-domain", "rewrite-existing-value"):
        from harness import c04_rewrite
        return c04_rewrite.replay(doc)
    return K.replay(doc)


def _norm_msg(msg):
    m = str(msg).split("\n")[0]
    m = re.sub(r"'[^']*'|\"[^\"]*\"", "<name>", m)
    m = re.sub(r"\d+", "N", m)
    return m[:70]


def _functions_referenced(model):
    known = {(f.domain, f.name) for f in model.functions}
    used = set()

    def walk(g):
        for n in g.node:
            used.add((n.domain, n.op_type))
            for a in n.attribute:
                if a.type == onnx.AttributeProto.GRAPH:
                    walk(a.g)
    walk(model.graph)
    for f in model.functions:
        for n in f.node:
            used.add((n.domain, n.op_type))
    return known, used


def check_result(ctx, case, entry, opts, as_ir, m2, wf_batch, stats, base=None):
    """Structural checks of one result (everything except the Coq-evaluated checkers, which are batched)."""
    doc = lambda extra=None: K.replay_doc(case, entry, opts, as_ir, extra)  # noqa: E731

    def known_class(still_bad):
        """keys of the known folder defects (C03's classes, as they surface here) that explain the failed check: an equivalent
        variant of the model that avoids the defect passes it"""
        if base is None:
            return []
        return ["C04" + k[3:] for k in K.known_class_by_variant(case, base, entry, opts, as_ir, still_bad)]
    # a graph output that lost its declared type or the shape field of it (the checker failure and the signature change below are
    # its consequences)
    t0 = {o.name: (o.type.tensor_type.elem_type, o.type.tensor_type.HasField("shape")) for o in case.model.graph.output if o.type.HasField("tensor_type")}

    def _lost(mm):
        res = []
        for o in mm.graph.output:
            want = t0.get(o.name)
            if want and want[0]:
                tt = o.type.tensor_type if o.type.HasField("tensor_type") else None
                if tt is None or not tt.elem_type or (want[1] and not tt.HasField("shape")):
                    res.append(o.name)
        return res
    lost = _lost(m2)
    if lost:
        stage = K.attribute_stage(case, entry, opts, as_ir, lambda mm: bool(_lost(mm)))
        if stage == "pipeline":
            # which pass of the real pipeline drops the declared type
            try:
                from harness import c03_passes as P
                for pname, _b, a, _m in P.observe(case.model, opts):
                    if a is not None and _lost(a):
                        stage = pname
                        break
            except Exception:
                pass
        ctx.violation(f"C04:graph-output-type-lost:{stage}", f"{entry} (opts={opts}): graph outputs {lost} lost their declared type / shape; the result fails onnx.checker",
                      doc({"outputs": lost}))
        stats["violations"] += 1
        return
    try:
        onnx.checker.check_model(m2)
    except Exception as e:
        stage = K.attribute_stage(case, entry, opts, as_ir, lambda mm: _checker_fails(mm))
        try:
            e2 = {"fold": "fold_constants", "rewrite": "rewrite", "dce": "remove_unused_nodes"}.get(stage, entry)
            cul = K.culprit(case.model, R.apply_entry(e2, case.model, opts if e2 in ("fold_constants", "optimize", "optimize_ir") else None, as_ir))
        except Exception:
            cul = K.culprit(case.model, m2)
        structural = K.known_structural_class(case.model, m2)
        if structural is None and "in initializer but not in graph input" in str(e) and case.model.ir_version < 4:
            structural = "ir-version-lt-4:lifted-constant-is-an-initializer-that-is-not-a-graph-input"
        kc = known_class(_checker_fails) if structural is None else []
        if structural is not None:
            ctx.violation("C04:" + structural, f"result of {entry} fails onnx.checker: {str(e)[:200]}", doc({"checker": str(e)[:300]}))
        elif kc:
            for key in kc:
                ctx.violation(key, f"result of {entry} fails onnx.checker: {str(e)[:200]}", doc({"checker": str(e)[:300]}))
        else:
            ctx.violation(f"C04:checker:{stage}:{cul}:{_norm_msg(e)}", f"result of {entry} fails onnx.checker: {str(e)[:200]}", doc({"checker": str(e)[:300]}))
        stats["violations"] += 1
    d = R.signature_diff(case.model, m2)
    if d is not None:
        kc = known_class(lambda mm: R.signature_diff(case.model, mm) is not None)
        for key in (kc or [f"C04:signature:{d[0]}:{entry}"]):
            ctx.violation(key, f"{entry}: {d[1]}", doc({"signature": d[1]}))
        stats["violations"] += 1
    known0, used0 = _functions_referenced(case.model)
    known2, used2 = _functions_referenced(m2)
    missing = sorted(k for k in used2 if k in known0 and k not in known2)
    if missing:
        ctx.violation(f"C04:function-removed-but-referenced:{entry}", f"{entry}: functions {missing} are still called but were removed", doc())
        stats["violations"] += 1
    g0 = graphlit.graph_lit(_sub_inits_as_constants(case.model).graph)
    g2 = graphlit.graph_lit(_sub_inits_as_constants(m2).graph)
    im0, im2 = graphlit.imports_lit(case.model.opset_import), graphlit.imports_lit(m2.opset_import)
    # every function with ITS OWN imports (a function body is serialized with the function's opset_import, not the model's)
    funs0 = [f"({graphlit.imports_lit(f.opset_import)}, {graphlit.function_lit(f)})" for f in case.model.functions]
    funs2 = [f"({graphlit.imports_lit(f.opset_import)}, {graphlit.function_lit(f)})" for f in m2.functions]
    sig = (g0, g2, im0, im2, tuple(funs2))
    if (g0, im0) == (g2, im2) and not funs2:
        stats["wf-skipped-unchanged-result"] += 1          # nothing to check: the result is the original graph
    elif sig in wf_batch.seen:
        stats["wf-skipped-duplicate"] += 1
    else:
        wf_batch.seen.add(sig)
        wf_batch.append((case, entry, opts, as_ir, g0, im0, g2, im2, funs2, funs0))
    # initializer-inputs: default still there, and same outputs for override values
    if case.overridable and entry in ("optimize", "optimize_ir", "fold_constants"):
        stats["overridable-runs"] += 1
        inits2 = {i.name for i in m2.graph.initializer}
        ins2 = {i.name for i in m2.graph.input}
        for name, arr, kind in case.overridable:
            if name in ins2 and name not in inits2:
                ctx.violation("C04:initializer-input:default-removed",
                              f"{entry}: the default initializer of graph input {name} was removed (the input became required)", doc({"input": name}))
                stats["violations"] += 1
        # override values: the family's own list (shape-override: every value changes a shape) or one random set
        for ov in (getattr(case, "overrides", None) or [G.override_values(ctx.rng, case)]):
            nv0 = stats["violations"]
            if ov:
                feeds = [dict(fd, **ov) for fd in case.feeds]
                s1, o1 = R.run_ort(case.model, feeds)
                if s1 == "ok":
                    # supply every initializer-input explicitly so that a dropped default does not mask the comparison
                    full = [dict(fd, **{n: (ov[n] if n in ov else a) for n, a, _ in case.overridable}) for fd in case.feeds]
                    s0, o0 = R.run_ort(case.model, full)
                    s2, o2 = R.run_ort(m2, full)
                    if s0 == "ok" and s2 == "ok":
                        # does the optimized model differ from the original already for the DEFAULT values (all of them fed
                        # explicitly)?  Then the difference has nothing to do with the override: it is C03's finding, reported there
                        dflt = [dict(fd, **{n: a for n, a, _ in case.overridable}) for fd in case.feeds]
                        sd0, od0 = R.run_ort(case.model, dflt)
                        sd2, od2 = R.run_ort(m2, dflt)
                        if sd0 == "ok" and (sd2 != "ok" or any(R.compare_outputs(a, b, case.exact) is not None for a, b in zip(od0, od2))):
                            stats["differs-for-default-values-too(C03)"] += 1
                            o0, o2 = [], []
                            # ... unless the optimized model no longer DEPENDS on the initializer-input where the original does: a
                            # consumer of the default was evaluated at optimization time (whatever value it was given)
                            lost = _dependence_lost(od0, R.run_ort(case.model, full)[1], od2 if sd2 == "ok" else None, R.run_ort(m2, full))
                            fams = _rewrite_rule_families(case, [n for n, _, _ in case.overridable], full, opts) if lost is not None and entry != "fold_constants" else []
                            for fam in fams:
                                ctx.violation(f"C04:initializer-input:rewrite-rule-reads-default:{fam}",
                                              f"{entry}: a rewrite rule ({fam}) treated the default of an initializer-input as a constant (output {lost} no "
                                              f"longer depends on it)", doc({"override": {k: np.asarray(v).tolist() for k, v in ov.items()}, "stage": "rewrite"}))
                            if fams:
                                stats["violations"] += 1
                            elif lost is not None:
                                names = [n for n, _, _ in case.overridable]
                                ops = ",".join(_changed_consumers(case.model, m2, names) or ["unknown"])
                                ctx.violation(f"C04:initializer-input:folded:generic:{ops}",
                                              f"{entry}: output {lost} of the original model depends on an initializer-input, the same output of the "
                                              f"optimized model does not (a consumer of the default was evaluated at optimization time)",
                                              doc({"override": {k: np.asarray(v).tolist() for k, v in ov.items()}}))
                                stats["violations"] += 1
                        for a, b in zip(o0, o2):
                            dd = R.compare_outputs(a, b, case.exact)
                            if dd is not None:
                                names = [n for n, _, _ in case.overridable]
                                fams = _rewrite_rule_families(case, names, full, opts) if entry != "fold_constants" else []
                                if fams:
                                    # the default rewrite rules alone (no folding) already bake the default in: a constant-matching rule
                                    # read const_value of the initializer-input
                                    for fam in fams:
                                        ctx.violation(f"C04:initializer-input:rewrite-rule-reads-default:{fam}",
                                                      f"{entry}: a rewrite rule ({fam}) treated the default of an initializer-input as a constant: with "
                                                      f"override values the optimized model differs: {dd}",
                                                      doc({"override": {k: np.asarray(v).tolist() for k, v in ov.items()}, "stage": "rewrite"}))
                                    stats["violations"] += 1
                                    break
                                ops = _const_reading_consumers(case.model, names)
                                if not ops:
                                    # no partial evaluator reads these inputs: the generic folding path must have baked the default in
                                    ops = ["generic:" + ",".join(_changed_consumers(case.model, m2, names) or ["unknown"])]
                                for op in ops:
                                    ctx.violation(f"C04:initializer-input:folded:{op}",
                                                  f"{entry}: the default of an initializer-input was baked into its consumer {op}: with override values "
                                                  f"the optimized model differs: {dd}",
                                                  doc({"override": {k: np.asarray(v).tolist() for k, v in ov.items()}}))
                                stats["violations"] += 1
                                break
                    elif s0 == "ok" and _fails_for_defaults_too(case, m2):
                        stats["differs-for-default-values-too(C03)"] += 1
                    elif s0 == "ok":
                        ctx.violation(f"C04:initializer-input:optimized-fails-with-override:{_norm_msg(o2)}",
                                      f"{entry}: optimized model fails with override values: {o2[:200]}", doc())
                        stats["violations"] += 1
            if stats["violations"] > nv0:
                break          # one failing override value per run is enough


# consumer op of the initializer-input -> family of constant-matching rewrite rules (the names used by C05's findings)
_RULE_FAMILY = {"Add": "noop", "Sub": "noop", "Mul": "noop", "Div": "noop", "Min": "minmax", "Max": "minmax", "Unsqueeze": "unsqueeze",
                "Slice": "collapse-slice", "Expand": "expand", "Reshape": "reshape", "ScatterND": "scatternd-static"}


def _rewrite_rule_families(case, names, full, opts=None):
    """[] unless the default rewrite rules bake the default in: rewrite() alone (no constant folding) already makes the model
    differ for the override values, or - inside the real pipeline, observed pass by pass - a RewritePass step whose
    (before, after) pair differs for them.  Then the rule families of the consumers of the initializer-inputs it changed."""
    def differs(a, b):
        s0, o0 = R.run_ort(a, full)
        s1, o1 = R.run_ort(b, full)
        return s0 == "ok" and (s1 != "ok" or any(R.compare_outputs(x, y, case.exact) is not None for x, y in zip(o0, o1)))
    pair = None
    try:
        m3 = R.apply_entry("rewrite", case.model)
        if differs(case.model, m3):
            pair = (case.model, m3)
    except Exception:
        pass
    if pair is None:
        try:
            from harness import c03_passes as P
            for pname, b, a, modified in P.observe(case.model, opts):
                if b is None or a is None or b.SerializeToString(deterministic=True) == a.SerializeToString(deterministic=True):
                    continue
                if pname == "RewritePass" and differs(b, a):
                    pair = (b, a)
                    break
        except Exception:
            pass
    if pair is None:
        return []
    ops = _changed_consumers(pair[0], pair[1], names) or ["unknown"]
    return sorted({_RULE_FAMILY.get(op, op) for op in ops})


def _dependence_lost(orig_dflt, orig_over, opt_dflt, opt_over_run):
    """index of an output that differs between default and override values in the original model on some feed and is identical
    for both in the optimized model on every feed; None otherwise"""
    st, opt_over = opt_over_run
    if opt_dflt is None or st != "ok":
        return None
    try:
        n_out = len(orig_dflt[0])
        for k in range(n_out):
            dep0 = any(R.compare_outputs([a[k]], [b[k]], None) is not None for a, b in zip(orig_dflt, orig_over))
            dep2 = any(R.compare_outputs([a[k]], [b[k]], None) is not None for a, b in zip(opt_dflt, opt_over))
            if dep0 and not dep2:
                return k
    except Exception:
        return None
    return None


def _fails_for_defaults_too(case, m2):
    """the optimized model already fails / differs when every initializer-input is fed its DEFAULT value: the difference has
    nothing to do with overriding (C03's finding, reported there)"""
    dflt = [dict(fd, **{n: a for n, a, _ in case.overridable}) for fd in case.feeds]
    sd0, od0 = R.run_ort(case.model, dflt)
    sd2, od2 = R.run_ort(m2, dflt)
    return sd0 == "ok" and (sd2 != "ok" or any(R.compare_outputs(a, b, case.exact) is not None for a, b in zip(od0, od2)))


def _sub_inits_as_constants(model):
    """wf_graphb wants the outputs of a subgraph to be produced by a node of that subgraph.  ONNX also allows an
    initializer of the subgraph as its output (the folder produces that when a whole branch folds); an initializer is the
    same thing as a Constant node at the start of the graph, so such initializers are re-encoded as Constant nodes."""
    m = onnx.ModelProto()
    m.CopyFrom(model)

    def fix(g, is_sub):
        if is_sub:
            outs = {o.name for o in g.output}
            keep = [i for i in g.initializer if i.name not in outs]
            moved = [i for i in g.initializer if i.name in outs]
            if moved:
                del g.initializer[:]
                g.initializer.extend(keep)
                nodes = [onnx.helper.make_node("Constant", [], [i.name], value=i) for i in moved] + list(g.node)
                del g.node[:]
                g.node.extend(nodes)
        for n in g.node:
            for a in n.attribute:
                if a.type == onnx.AttributeProto.GRAPH:
                    fix(a.g, True)
    fix(m.graph, False)
    _uniquify_sibling_scopes(m.graph, set(), "")
    return m


def _uniquify_sibling_scopes(g, outer_visible, path):
    """wf_graphb asks for names that are unique in the whole model; ONNX only forbids a subgraph to redefine a name of an
    enclosing scope, sibling subgraphs may reuse names (the graph-local name authority of onnx_ir produces val_0 in each of
    them).  Names defined inside a subgraph that do not shadow a visible outer name are prefixed with the path of the
    subgraph (consistently: definitions, uses, nested uses, outputs); a name that does shadow an outer one is left alone,
    so that wf_graphb still rejects it."""
    local = [i.name for i in g.input] + [i.name for i in g.initializer] + [o for n in g.node for o in n.output]
    ren = {}
    if path:
        for x in local:
            if x and x not in outer_visible:
                ren[x] = f"{path}::{x}"
    _apply_renaming(g, ren)
    visible = set(outer_visible) | {ren.get(x, x) for x in local}
    k = 0
    for n in g.node:
        for a in n.attribute:
            if a.type == onnx.AttributeProto.GRAPH:
                k += 1
                _uniquify_sibling_scopes(a.g, visible, f"{path}/{n.op_type}{k}.{a.name}")


def _apply_renaming(g, ren):
    """rename in graph g and, for uses only, in the graphs nested in it (their own definitions are handled when visited)"""
    if not ren:
        return
    for i in g.input:
        i.name = ren.get(i.name, i.name)
    for i in g.initializer:
        i.name = ren.get(i.name, i.name)
    for o in g.output:
        o.name = ren.get(o.name, o.name)
    for v in g.value_info:
        v.name = ren.get(v.name, v.name)

    def uses(gr, shadow):
        for n in gr.node:
            for j, x in enumerate(n.input):
                if x in ren and x not in shadow:
                    n.input[j] = ren[x]
            for a in n.attribute:
                if a.type == onnx.AttributeProto.GRAPH:
                    inner = {i.name for i in a.g.input} | {i.name for i in a.g.initializer} | {o for nn in a.g.node for o in nn.output}
                    uses(a.g, shadow | inner)
                    for o in a.g.output:
                        if o.name in ren and o.name not in (shadow | inner):
                            o.name = ren[o.name]
    for n in g.node:
        for j, x in enumerate(n.output):
            n.output[j] = ren.get(x, x)
    uses(g, set())


# (op, input position) at which a registered partial evaluator reads a constant value
_CONST_READING = {("If", 0), ("Dropout", 1), ("Dropout", 2), ("Reshape", 1), ("Expand", 1), ("Gather", 1), ("SequenceAt", 1),
                  ("SplitToSequence", 1)}


def _const_reading_consumers(orig, names):
    """op types of the nodes of `orig` that read one of `names` at a position where a partial evaluator of the folder looks
    at the constant value (the known way in which the default of an initializer-input gets baked in)."""
    res = set()

    def walk(g):
        for n in g.node:
            for k, i in enumerate(n.input):
                if i in names and (n.op_type, k) in _CONST_READING:
                    res.add(n.op_type)
            for a in n.attribute:
                if a.type == onnx.AttributeProto.GRAPH:
                    walk(a.g)
    walk(orig.graph)
    return sorted(res)


def _changed_consumers(orig, opt, names):
    """op types of the nodes of `orig` (nested graphs included) that consume one of `names` and are no longer there
    (same first output produced by the same op) in `opt`."""
    def nodes(g, acc):
        for n in g.node:
            acc.append(n)
            for a in n.attribute:
                if a.type == onnx.AttributeProto.GRAPH:
                    nodes(a.g, acc)
        return acc
    after = {(n.output[0] if n.output else ""): n.op_type for n in nodes(opt.graph, [])}
    res = set()
    for n in nodes(orig.graph, []):
        if any(i in names for i in n.input) and n.output and after.get(n.output[0]) != n.op_type:
            res.add(n.op_type)
    return sorted(res)


_CUSTOM_RULES = None


def custom_domain_rules():
    """Rewrite rules whose replacement lives in a domain the model does not import yet (what the ORT fusions do):
    Abs -> verif.custom::VerifAbs, Neg -> verif.custom::VerifNeg.  Used to observe _update_opset_imports for matches in
    the main graph, in functions and inside If / Loop bodies."""
    global _CUSTOM_RULES
    if _CUSTOM_RULES is None:
        from onnxscript.rewriter import pattern
        _CUSTOM_RULES = [
            pattern.RewriteRule(lambda op, x: op.Abs(x), lambda op, x: op.VerifAbs(x, _domain="verif.custom")),
            pattern.RewriteRule(lambda op, x: op.Neg(x), lambda op, x: op.VerifNeg(x, _domain="verif.custom")),
        ]
    return _CUSTOM_RULES


def check_custom_domain(ctx, case, stats):
    """rewrite(model, pattern_rewrite_rules=<rules introducing a new domain>): every domain used by the result must be imported."""
    from onnxscript import rewriter

    def domains(g, acc, depth, where):
        for n in g.node:
            if n.domain not in ("", "ai.onnx"):
                acc.add(n.domain)
                where.add("subgraph" if depth else "main")
            for a in n.attribute:
                if a.type == onnx.AttributeProto.GRAPH:
                    domains(a.g, acc, depth + 1, where)
        return acc
    m = onnx.ModelProto()
    m.CopyFrom(case.model)
    try:
        m2 = rewriter.rewrite(m, pattern_rewrite_rules=custom_domain_rules())
    except Exception as e:
        t, site, msg = R.root_cause(e)
        ctx.violation(f"C04:raises:{t}:{site}", f"rewrite with a custom-domain rule raised {t} at {site}: {msg}",
                      K.replay_doc(case, "rewrite-custom-domain", None, False))
        stats["raised"] += 1
        return
    where = set()
    used = domains(m2.graph, set(), 0, where)
    imported = {o.domain for o in m2.opset_import}
    fmissing = []
    for f in m2.functions:
        fimp = {o.domain for o in f.opset_import}
        fw = set()
        # recursively through the If / Loop bodies of the function: they are serialized with the function's imports
        for dname in sorted(domains(f, set(), 0, fw)):
            where.add("function")
            if dname not in fimp:
                fmissing.append(f"{f.name}:{dname}")
        if "subgraph" in fw:
            where.add("function-subgraph")
    if fmissing:
        ctx.violation("C04:opset-import-missing:function-body",
                      f"rewrite(): function bodies use domains without an opset import in the function: {sorted(set(fmissing))[:4]}",
                      K.replay_doc(case, "rewrite-custom-domain", None, False, {"missing": fmissing[:10]}))
        stats["violations"] += 1
    if "verif.custom" in used or "function" in where:
        stats["custom-domain-rule-fired"] += 1
        for w in where:
            stats["custom-domain-rule-fired-in-" + w] += 1
        ctx.case(("custom-domain", tuple(sorted(where))))
    missing = sorted(d for d in used if d not in imported)
    if missing:
        ctx.violation("C04:opset-import-missing:" + ",".join(sorted(w for w in where if not w.startswith("function"))),
                      f"rewrite(): the result uses domains {missing} without an opset import (rule fired in: {sorted(where)})",
                      K.replay_doc(case, "rewrite-custom-domain", None, False, {"missing": missing}))
        stats["violations"] += 1


_shadowing = K.shadowing


def _checker_fails(m):
    try:
        onnx.checker.check_model(m)
        return False
    except Exception:
        return True


def eval_wf(ctx, wf_batch, stats):
    """wf_graphb / imports_ok (Graph/Wf.v) inside Coq on the original and on the real result of every run."""
    if not wf_batch:
        return
    for start in range(0, len(wf_batch), 250):
        chunk = wf_batch[start:start + 250]
        defs = []
        for i, (_c, _e, _o, _a, g0, im0, g2, im2, funs, funs0) in enumerate(chunk):
            defs.append(f"Definition o_{i} : graph := {g0}.\nDefinition r_{i} : graph := {g2}.\n"
                        f"Definition c_{i} : bool * bool * bool * bool := "
                        f"(wf_graphb o_{i} && fwf {clist(funs0)}, wf_graphb r_{i} && fwf {clist(funs)}, imports_ok {im0} o_{i} && fimp {clist(funs0)}, "
                        f"imports_ok {im2} r_{i} && fimp {clist(funs)}).\n")
        body = ("Definition fwf (l : list (list string * graph)) : bool := forallb (fun p => wf_graphb (snd p)) l.\n"
                "Definition fimp (l : list (list string * graph)) : bool := forallb (fun p => imports_ok (fst p) (snd p)) l.\n") + "".join(defs)
        body += ("Fixpoint bad (k : nat) (i : nat) (l : list (bool * bool * bool * bool)) : list nat := match l with [] => [] | (a, b, c, d) :: t => "
                 "(if match k with O => a && negb b | _ => c && negb d end then [i] else []) ++ bad k (S i) t end.\n")
        lst = clist([f"c_{i}" for i in range(len(chunk))])
        body += f"Eval vm_compute in (bad 0 0 {lst}).\nEval vm_compute in (bad 1 0 {lst}).\n"
        body += f"Eval vm_compute in (List.length (filter (fun x => fst (fst (fst x))) {lst})).\n"
        ok, vals, raw = ctx.coq_eval(["OV.Graph.Syntax", "OV.Graph.Wf"], body, timeout=900)
        if not ok:
            ctx.tie_broken("checker", "wf_graphb:evaluation", raw[-1200:])
            return
        stats["wf-evaluated"] += len(chunk)
        stats["wf-original-true"] += int(re.sub(r"%\w+", "", vals[2]).strip())
        for which, name in ((0, "wf_graphb"), (1, "imports_ok")):
            for i in parse_nat_list(vals[which]):
                case, entry, opts, as_ir = chunk[i][:4]
                shadow = []
                try:
                    m2 = R.apply_entry(entry, case.model, opts, as_ir)
                    cul = K.culprit(case.model, m2)
                    shadow = _shadowing(m2) if name == "wf_graphb" and not _shadowing(case.model) else []
                except Exception:
                    cul = "?"
                structural = None
                try:
                    structural = K.known_structural_class(case.model, m2)
                except Exception:
                    pass
                if structural is not None and not shadow:
                    ctx.violation("C04:" + structural, f"{name} holds for the original model but not for the result of {entry}",
                                  K.replay_doc(case, entry, opts, as_ir))
                elif shadow:
                    stage = K.attribute_stage(case, entry, opts, as_ir, lambda mm: bool(_shadowing(mm)))
                    ctx.violation(f"C04:{stage}:fresh-name-shadows-enclosing-graph-value",
                                  f"{entry}: a value defined in a subgraph of the result has the name of a value of an enclosing graph ({shadow[:3]})",
                                  K.replay_doc(case, entry, opts, as_ir, {"shadowing": shadow[:10]}))
                else:
                    ctx.violation(f"C04:{name}:{entry}:{cul}", f"{name} holds for the original model but not for the result of {entry} (opts={opts})",
                                  K.replay_doc(case, entry, opts, as_ir))
                stats["violations"] += 1


def run(ctx):
    ctx.assume("totality and validity of the real code are observed (exceptions, onnx.checker, verified checkers evaluated in Coq on the real "
               "outputs); the theorems of Props/C04.v are about the Gallina model of FoldConstantsPass (coq/Opt/Fold.v), tied to the source by "
               "the translator (tables, order of tests, guards) and the decision-trace correspondence")
    ctx.assume("wf_graphb asks for unique value names across all nested graphs, which is stronger than onnx.checker: it is required of the "
               "result only when it holds for the original model")
    ctx.assume("declared input / output types may be refined by the optimizer (a symbolic or unknown dimension may become the value that shape "
               "inference derives); element type, rank, declared dimension values and the names of symbolic input dimensions must be kept")
    info = regenerate(ctx)
    ctx.check_props()
    ctx.build(["Opt/FoldInst.vo"])          # the executable instance used by the correspondence
    rng = ctx.rng
    rng.random()           # decorrelate from C03 at the same seed
    quick = ctx.tier == "quick"

    try:
        from harness import c03_pipeline
        from harness import common as _common
        ctx.cover(optimize_ir_restores_declared_output_types=c03_pipeline.parse(_common.REPO)["restores_output_types"])
    except Exception as e:      # C03 reports an unreadable pipeline as a broken translator
        ctx.cover(optimize_ir_restores_declared_output_types=f"unreadable: {e}"[:120])
    # which of the two worlds of Props/C04.v is the current source in?
    if info is not None:
        ctx.cover(source_guards={"_get_numpy_value ignores graph inputs": info["guard"], "_clear_unused_initializers keeps graph inputs": info["clear_keeps"]})

    # decision-trace correspondence with initializer-inputs in the generator
    n_trace = 40 if quick else 300
    import itertools
    tstats = K.trace_stream(ctx, rng, itertools.chain(K.alias_stream(rng), K.fold_family_stream(rng), K.dag_stream(rng, n_trace, overridable_every=2, start=5000)), "C04")
    agree = tstats["agree"] + tstats["agree(outside-theorem-side-conditions)"]
    ctx.obligation("correspondence fold_constants (models with overridable initializer-inputs): decisions and resulting graph = Opt/Fold.v",
                   tstats["disagree"] == 0 and agree > 0, f"{dict(tstats)}")
    if agree < n_trace // 3:
        ctx.tie_broken("correspondence", "fold-trace:generator-degenerate", f"only {agree} of {n_trace} cases compared: {dict(tstats)}")

    stats = collections.Counter()
    discards = collections.Counter()
    exc_kinds = collections.Counter()
    class _Batch(list):
        pass
    wf_batch = _Batch()
    wf_batch.seen = set()

    def one_case(c, plan, base=None):
        for entry, opts, as_ir in plan:
            stats["runs"] += 1
            try:
                m2 = R.apply_entry(entry, c.model, opts, as_ir)
            except Exception as e:
                t, site, msg = R.root_cause(e)
                exc_kinds[f"{t}:{site}"] += 1
                ctx.violation(f"C04:raises:{t}:{site}", f"{entry}{'(ir.Model)' if as_ir else ''} opts={opts} raised {t} at {site}: {msg}",
                              K.replay_doc(c, entry, opts, as_ir, {"exception": t, "site": site, "message": msg}))
                stats["raised"] += 1
                continue
            check_result(ctx, c, entry, opts, as_ir, m2, wf_batch, stats, base=base)

    # validity after EVERY pass of the real pipeline (checker, declared signature): C04 is about the result of the entry points, so an
    # intermediate model that is invalid but repaired by a later pass (NameFix, OutputFix, the type restoration of optimize_ir) is
    # counted per pass; an invalidity that survives to the final model is a violation attributed to the FIRST pass that introduced it
    pstats = collections.Counter()
    n_pass_cases = [0]
    wf_inter, wf_inter_seen = [], set()

    def per_pass_validity(c, opts, base=None):
        from harness import c03_passes as P
        try:
            recs = P.observe(c.model, opts)
        except Exception:
            pstats["optimize_ir-raised(reported by the entry-point check)"] += 1
            return
        pstats["pipelines-observed"] += 1
        first_bad = {}
        last = None
        for k, (pname, b, a, modified) in enumerate(recs):
            if a is None:
                continue
            pstats["pass-results-checked"] += 1
            last = a
            if len(wf_inter) < (400 if quick else 1500) and modified:
                try:
                    lit = graphlit.graph_lit(_sub_inits_as_constants(a).graph)
                    if lit not in wf_inter_seen:
                        wf_inter_seen.add(lit)
                        wf_inter.append((pname, k == len(recs) - 1, lit))
                except Exception:
                    pstats["intermediate-not-printable"] += 1
            bad_chk = _checker_fails(a)
            bad_sig = R.signature_diff(c.model, a) is not None
            for kind, bad in (("checker", bad_chk), ("signature", bad_sig)):
                if bad:
                    pstats[f"intermediate-{kind}-invalid-after:{pname}"] += 1
                    first_bad.setdefault(kind, (k, pname))
                else:
                    if kind in first_bad:
                        pstats[f"{kind}-invalidity-of:{first_bad[kind][1]}:repaired-by:{pname}"] += 1
                        del first_bad[kind]
        if last is not None and first_bad and not _checker_fails(c.model):
            # the result of the ENTRY POINT is what the property is about: optimize_ir restores the declared output types after the last
            # pass (outside every pass), so the verdict is taken on its real final model, not on the output of the last pass
            try:
                final = R.apply_entry("optimize_ir", c.model, opts, True)
            except Exception:
                final = last
            for kind, (k, pname) in list(first_bad.items()):
                still_bad = (lambda mm: _checker_fails(mm)) if kind == "checker" else (lambda mm: R.signature_diff(c.model, mm) is not None)
                if not still_bad(final):
                    pstats[f"{kind}-invalidity-of:{pname}:repaired-by:optimize_ir-epilogue"] += 1
                    continue
                kc = ["C04" + x[3:] for x in K.known_class_by_variant(c, base, "optimize_ir", opts, True, still_bad)] if base is not None else []
                if kc:
                    # a known defect of the folder (an equivalent variant of the model that avoids it stays valid), seen per pass
                    for key in kc:
                        ctx.violation(key, f"optimize_ir (opts={opts}): {kind}-invalid after {pname}", K.replay_doc(c, "optimize_ir", opts, True, {"pass": pname, "step": k}))
                    stats["violations"] += 1
                    continue
                structural = K.known_structural_class(c.model, last)
                lost = [o.name for o in last.graph.output if not (o.type.HasField("tensor_type") and o.type.tensor_type.elem_type)]
                key = ("C04:" + structural) if structural else (f"C04:graph-output-type-lost:{pname}" if lost else f"C04:{kind}-invalid-from-pass:{pname}")
                ctx.violation(key, f"optimize_ir (opts={opts}): the model is {kind}-invalid after {pname} (step {k}) and stays so until the end of the pipeline",
                              K.replay_doc(c, "optimize_ir", opts, True, {"pass": pname, "step": k}))
                stats["violations"] += 1

    n_dag = 90 if quick else 560
    import itertools
    import random as _random
    from harness import c04_ifinits, c04_shapeov
    # the two hand-built families draw from their own generators derived from the seed (the random DAG stream keeps its sequence)
    fam_rng = _random.Random(f"{ctx.seed}:C04:families")
    ifinit_cases = []
    fam = collections.Counter()
    for c in itertools.chain(K.corpus_stream(rng, "C04"), K.alias_stream(rng, 15 if quick else 30), K.pass_family_stream(rng),
                             c04_shapeov.cases(fam_rng), c04_ifinits.cases(fam_rng, quick),
                             K.dag_stream(rng, n_dag, overridable_every=3, start=7000)):
        if not isinstance(c, G.Case):
            discards["generator-error: " + c[1][:60]] += 1
            continue
        base, reason = K.validity(c)
        if c.kind == "if-inits":
            ifinit_cases.append(c)
        if base is None and c.kind == "if-inits" and reason.startswith("runtimes disagree"):
            # a branch initializer shadows an initializer of the enclosing graph: the model passes the checker and executes on both
            # runtimes, which disagree on the value a branch reads.  Totality, checker validity and the signature are still owed
            try:
                onnx.checker.check_model(c.model, full_check=True)
            except Exception:
                discards["if-initializers: checker"] += 1
                continue
            fam["if-initializers:totality-and-validity-only(runtimes disagree on a shadowed initializer)"] += 1
            ctx.case(("if-initializers", tuple(c.features[:4]), "totality-only"))
            one_case(c, c.plan, None)
            continue
        if base is None:
            discards[(c.kind + ": " if c.kind in ("if-inits", "shape-ov") else "") + reason.split(":")[0].split("(")[0].strip()] += 1
            continue
        if c.kind in ("if-inits", "shape-ov"):
            fam[{"if-inits": "if-initializers", "shape-ov": "shape-override"}[c.kind] + ":valid-models"] += 1
            fam[c.features[0]] += 1
            nv0 = len(ctx.violations)
            ctx.case((c.kind, tuple(c.features[:4])))
            one_case(c, c.plan, base)
            fam[{"if-inits": "if-initializers", "shape-ov": "shape-override"}[c.kind] + ":runs"] += len(c.plan)
            if c.kind == "shape-ov":
                fam["shape-override:override-values"] += len(c.overrides)
            fam["violations"] += len(ctx.violations) - nv0
            continue
        stats["valid-dag-models"] += 1
        ctx.case(("dag", tuple(f for f in c.features if not f.startswith("value_info"))[:12], bool(c.overridable)))
        plan = [("optimize", None, False), ("optimize", R.option_tuples(rng, 2)[1], rng.random() < 0.5),
                ("fold_constants", R.option_tuples(rng, 2)[1], rng.random() < 0.5), ("rewrite", None, rng.random() < 0.5)]
        if not quick:
            plan += [("optimize_ir", R.option_tuples(rng, 2)[1], True), ("optimize", R.option_tuples(rng, 2)[1], True)]
        if c.kind == "corpus":
            # minimised past failures are replayed under the small size limits too (size-gating code paths)
            plan += [("fold_constants", (1, False, True, True, 8192, 4), False), ("optimize", (1, True, True, True, 8192, 0), True),
                     ("optimize", (2, False, False, True, 4, 262144), False),
                     ("fold_constants", (1, True, True, True, 0, 0), True)]
        one_case(c, plan, base)
        if not c.kind.startswith("dag") or n_pass_cases[0] < (25 if quick else 120):
            n_pass_cases[0] += int(c.kind.startswith("dag"))
            per_pass_validity(c, None if rng.random() < 0.5 else R.option_tuples(rng, 2)[1], base)
        if stats["valid-dag-models"] % 2 == 0:
            check_custom_domain(ctx, c, stats)
        if stats["valid-dag-models"] == 2:
            ctx.sample({"ident": c.ident, "features": c.features, "overridable": [n for n, _, _ in c.overridable]})
    n_lift = 50 if quick else None
    for c in K.lifted_stream(rng, n_lift or 0, thorough=not quick):
        base, reason = K.validity(c)
        if base is None:
            discards["lifted: " + reason.split(":")[0].split("(")[0].strip()] += 1
            continue
        stats["valid-lifted-models"] += 1
        ctx.case(("lifted", c.kind, c.features[-1] if c.features else ""))
        one_case(c, [("optimize", None, False), ("fold_constants", None, False), ("rewrite", None, True)], base)
    eval_wf(ctx, wf_batch, stats)

    # if-initializers: every call of the real _move_initializers_to_graph on the family = Opt/MoveInits.v (chosen names)
    mstats = c04_ifinits.run_tie(ctx, ifinit_cases)
    ctx.obligation("if-initializers (k = 1..4 sibling / nested constant-condition Ifs whose taken branches own initializers with clashing names, also "
                   "clashing with initializers of the destination and with already-bumped names): no entry point raises, results valid; every call "
                   "of _move_initializers_to_graph = Opt/MoveInits.v observed_ok (the chosen names are the first unused name_<n>)",
                   mstats["calls"] >= 20 and mstats["calls-with-a-second-bump"] >= 5 and mstats["calls-disagreeing"] == 0 and mstats["calls-raised"] == 0
                   and fam["if-initializers:valid-models"] >= 10,
                   f"{dict(mstats)}; {dict((k, v) for k, v in fam.items() if k.startswith('if-init'))}")
    ctx.obligation("shape-override (shape-like operand that is an initializer AND a graph input feeding Reshape / Expand / Slice / ConstantOfShape / "
                   "Tile / Range, followed by Shape consumers): optimize / optimize_ir / fold_constants with ONNX shape inference on and off agree "
                   "with the original for every override value (onnxruntime); signature kept; default kept",
                   fam["shape-override:valid-models"] >= 7 and fam["shape-override:runs"] >= 40,
                   f"{dict((k, v) for k, v in fam.items() if k.startswith('shape-') or k == 'violations')}")
    # every read of a constant value in _constant_folding.py is behind the graph-input guard (or has a written reason)
    sites = (info or {}).get("const_read_sites") or []
    ung = (info or {}).get("const_reads_unguarded")
    ctx.obligation("all_const_reads_guarded: every `.const_value` read / _get_numpy_value / get_constant_value call in _constant_folding.py (enumerated "
                   "by AST, fail-closed) is behind the graph-input guard or listed with a reason; the _do_inference site reads through _get_numpy_value",
                   info is not None and len(sites) >= 10 and not ung and bool(info.get("do_inference_through_numpy_value")),
                   f"{len(sites)} sites; unguarded: {[(s[0], s[1], s[4]) for s in (ung or [])]}; classes: "
                   f"{dict(collections.Counter(s[3] or 'UNGUARDED' for s in sites))}")
    if info is not None and (ung or not info.get("do_inference_through_numpy_value")):
        ctx.tie_broken("translator", "const-reads:unguarded-site",
                       f"unguarded read(s) of a constant value: {[(s[0], s[1], s[4]) for s in (ung or [])]} (Props/C04_guard.v no longer holds of the source)")
    if info is not None and not info.get("move_inits_search_loops"):
        ctx.tie_broken("translator", "move-inits:fresh-name-search-is-not-a-loop",
                       "_move_initializers_to_graph tries a single bumped name (Props/C04_moveinits.v: C04_one_bump_raises_on_double_clash_refuted)")
    ctx.cover(families=dict(fam), move_inits_tie=dict(mstats))

    # rewrite / RewriteRuleSet.apply_to_model / RewritePass with rules that introduce a domain, functions NOT inlined: imports per
    # serialized container (model, every function), matches in the main graph / functions / their If and Loop bodies
    from harness import c04_rewrite
    rw = c04_rewrite.run_family(ctx, quick)
    ctx.obligation("rewrite with rules introducing a new domain (functions not inlined; matches in main graph, function bodies, If / Loop bodies "
                   "nested up to 3 times): imports_ok (Graph/Wf.v) in Coq for the model and for every function, checker, signature, onnxruntime",
                   rw["fired"] >= 40 and rw["coq-evaluated"] == rw["fired"] and rw["fired-in:function-subgraph"] >= 10 and rw["fired-in:main-subgraph"] >= 5,
                   f"{dict(rw)}")

    # user rules whose replacement RETURNS an existing value (Neg(Neg(x)) -> x, Identity(x) -> x, Add(x, 0) -> x) on hosts where the pattern output
    # is a graph output / interior and x is a graph input / initializer / another graph output / interior, main graph and If branches
    xv = c04_rewrite.run_existing_value_family(ctx, quick)
    ctx.obligation("rewrite with user rules whose replacement returns an existing value (pattern output = graph output / interior / branch output; x = graph "
                   "input / initializer / initializer-input / another graph output / interior; rewrite(proto), rewrite(ir), RewriteRuleSet.apply_to_model, "
                   "RewritePass): no exception, checker (full), signature, onnxruntime = original, imports_ok / wf_graphb in Coq",
                   xv["fired"] >= 50 and xv["forwarding-Identity-inserted"] >= 20 and xv["raised"] == 0 and xv["coq-evaluated"] >= xv["fired"]
                   and all(xv[f"entry:{e}"] >= 10 for e in c04_rewrite.ENTRIES), f"{dict(xv)}")
    ctx.cover(rewrite_existing_value=dict(xv))

    # Props/C04_refs.v: RemoveUnusedFunctions / RemoveUnusedOpsets / InlinePass models against the real passes (hand-built function hosts)
    from harness import c03_inline
    from harness import c03_passes as _P
    itie = c03_inline.InlineTie(ctx, "C04")
    for label, hm, hfeeds in c03_inline.function_hosts(rng, quick):
        itie.add_model(label, hm, hfeeds)
        try:
            itie.add_pass_records(label, _P.observe(hm, (1, True, False, True, 8192, 512 * 512)))
        except Exception:
            pass
    ctx.cover(inline_tie=dict(itie.finish()))

    # the witness of C04_unguarded_initializer_input_folded_refuted on the real code (If on an overridable condition)
    replay_witness(ctx, stats)
    inline_returns_formal_witness(ctx, stats)
    function_if_initializer_witness(ctx, stats)

    if stats["valid-dag-models"] < n_dag // 2:
        ctx.tie_broken("harness", "generator-degenerate", f"only {stats['valid-dag-models']} valid DAG models of {n_dag}: {dict(discards)}")
    ctx.obligation("verified checkers wf_graphb / imports_ok (Graph/Wf.v) evaluated in Coq on every real result", stats["wf-evaluated"] > 0,
                   f"{stats['wf-evaluated']} results, original well-formed in {stats['wf-original-true']}")
    ctx.obligation("no exception / checker failure / signature change / lost default on valid generated models (known findings excepted)",
                   not ctx.violations, f"{dict(stats)}")
    # wf_graphb (Graph/Wf.v) on the intermediate models: counted per pass (the final models are checked against the original above)
    for start in range(0, len(wf_inter), 200):
        chunk = wf_inter[start:start + 200]
        body = "".join(f"Definition w_{i} : graph := {lit}.\n" for i, (_p, _l, lit) in enumerate(chunk))
        body += ("Fixpoint bad (i : nat) (l : list graph) : list nat := match l with [] => [] | g :: t => (if wf_graphb g then [] else [i]) ++ bad (S i) t end.\n"
                 f"Eval vm_compute in (bad 0 {clist([f'w_{i}' for i in range(len(chunk))])}).\n")
        ok, vals, raw = ctx.coq_eval(["OV.Graph.Syntax", "OV.Graph.Wf"], body, timeout=900, name="wfinter")
        if not ok or not vals:
            ctx.tie_broken("checker", "wf_graphb:intermediate-models", raw[-800:])
            break
        badset = set(parse_nat_list(vals[0]))
        for i, (pname, is_last, _lit) in enumerate(chunk):
            pstats["intermediate-wf_graphb-evaluated"] += 1
            if i in badset:
                pstats[f"intermediate-wf_graphb-false-after:{pname}"] += 1
    ctx.obligation("validity after every pass of the real pipeline: no checker / signature invalidity survives to the final model (known findings excepted)",
                   pstats["pipelines-observed"] > 0, f"{dict(pstats)}")
    ctx.cover(rewrite_new_domain=dict(rw))
    ctx.cover(trace=dict(tstats), checks=dict(stats), per_pass_validity=dict(pstats), discarded=dict(discards), exception_kinds=dict(exc_kinds))
    if ctx.tier == "thorough":
        ctx.coqchk(["Props.C04"])


def replay_witness(ctx, stats):
    """Props/C04.v: w_node = If(c){Neg x}{Identity x} with c an initializer that is also a graph input."""
    from onnx import TensorProto, helper, numpy_helper
    then_g = helper.make_graph([helper.make_node("Neg", ["x"], ["t"])], "then", [], [helper.make_tensor_value_info("t", TensorProto.FLOAT, [2])])
    else_g = helper.make_graph([helper.make_node("Identity", ["x"], ["e"])], "else", [], [helper.make_tensor_value_info("e", TensorProto.FLOAT, [2])])
    g = helper.make_graph([helper.make_node("If", ["c"], ["y"], then_branch=then_g, else_branch=else_g)], "w",
                          [helper.make_tensor_value_info("x", TensorProto.FLOAT, [2]), helper.make_tensor_value_info("c", TensorProto.BOOL, [])],
                          [helper.make_tensor_value_info("y", TensorProto.FLOAT, [2])], initializer=[numpy_helper.from_array(np.array(True), "c")])
    m = helper.make_model(g, opset_imports=[helper.make_opsetid("", 18)], ir_version=9)
    onnx.checker.check_model(m, full_check=True)
    case = G.Case(m, [{"x": np.array([1, -2], dtype=np.float32)}], ["witness:if-on-overridable-condition"], [True], "witness", "witness-if",
                  overridable=[("c", np.array(True), "bool")])
    try:
        m2 = R.apply_entry("fold_constants", m)
    except Exception as e:
        t, site, msg = R.root_cause(e)
        ctx.violation(f"C04:raises:{t}:{site}", f"fold_constants raised on the witness: {msg}", K.replay_doc(case, "fold_constants", None, False))
        return
    inlined = "If" not in [n.op_type for n in m2.graph.node]
    stats["witness-if-inlined"] = int(inlined)
    ctx.case(("witness", inlined))
    feeds = [{"x": np.array([1, -2], dtype=np.float32), "c": np.array(False)}]
    s0, o0 = R.run_ort(m, feeds)
    s2, o2 = R.run_ort(m2, feeds)
    if s0 == "ok" and (s2 != "ok" or R.compare_outputs(o0[0], o2[0], [True]) is not None):
        ctx.violation("C04:initializer-input:folded:If",
                      "If on an overridable condition (initializer that is also a graph input) is inlined on its default: with c=False the folded "
                      "model returns the then-branch", K.replay_doc(case, "fold_constants", None, False, {"override": {"c": False}}))
        stats["violations"] += 1
    inits2 = {i.name for i in m2.graph.initializer}
    if "c" in {i.name for i in m2.graph.input} and "c" not in inits2:
        ctx.violation("C04:initializer-input:default-removed", "the default of the overridable condition was removed", K.replay_doc(case, "fold_constants", None, False))
        stats["violations"] += 1


def inline_returns_formal_witness(ctx, stats):
    """A function that returns one of its formals, called on a graph input: the class the InlinePass model refuses (Opt/InlineFn.v:
    site_okb wants every returned value to be defined by a body node).  onnx_ir's replace_nodes_and_values gives the value returned
    for an output the NAME of that output - here a value of the caller, the graph input."""
    import onnx.parser
    text = """
<ir_version: 8, opset_import: [ "" : 18, "local" : 1]>
agraph (float[2] x) => (float[2] z, float[2] w)
{
    z, w = local.f (x)
}
<domain: "local", opset_import: [ "" : 18]>
f (a) => (r, a)
{
    r = Neg (a)
}
"""
    m = onnx.parser.parse_model(text)
    onnx.checker.check_model(m, full_check=True)
    feeds = [{"x": np.array([1, -2], dtype=np.float32)}]
    s0, o0 = R.run_ref(m, feeds)          # onnxruntime does not load a function whose output is one of its inputs; onnx.reference runs it
    case = G.Case(m, feeds, ["witness:function-returns-its-input"], [True, True], "witness", "witness-inline-returns-formal")
    try:
        m2 = R.apply_entry("optimize", m)
    except Exception as e:
        t, site, msg = R.root_cause(e)
        ctx.violation(f"C04:raises:{t}:{site}", f"optimize raised on the witness: {msg}", K.replay_doc(case, "optimize", None, False))
        return
    d = R.signature_diff(m, m2)
    stats["witness-inline-returns-formal:signature-kept"] = int(d is None)
    ctx.case(("witness-inline-returns-formal", d is None))
    if s0 == "ok" and d is not None:
        ctx.violation("C04:inline:function-returns-its-input:graph-input-renamed",
                      f"optimize(): {d[1]} (a model-local function returns its formal input, the call sits on a graph input; the original runs on "
                      "onnx.reference)", K.replay_doc(case, "optimize", None, False, {"signature": d[1]}))
        stats["violations"] += 1


def function_if_initializer_witness(ctx, stats):
    """A model-local function whose body has an If on a constant condition and whose branches own an initializer, functions NOT inlined
    (fold_constants; optimize(inline=False)): if_op splices the taken branch into the function body and `_move_initializers_to_graph`
    registers the branch initializer in the function's underlying graph - a function has no initializers, so it is not serialized and
    the function body reads a value nobody defines.  The same If inside the main graph (k = 1 of the if-initializers family) is fine."""
    import onnx.helper as oh
    import onnx.numpy_helper as onh
    F = onnx.TensorProto.FLOAT

    def branch(name, op, val, out):
        return oh.make_graph([oh.make_node(op, ["a", "scale"], [out])], name, [], [oh.make_tensor_value_info(out, F, ["N"])],
                             initializer=[onh.from_array(np.array([val], dtype=np.float32), name="scale")])
    fnodes = [oh.make_node("Constant", [], ["c"], value=onh.from_array(np.array(True))),
              oh.make_node("If", ["c"], ["r"], then_branch=branch("th", "Mul", 2.0, "to"), else_branch=branch("el", "Add", -2.0, "eo"))]
    f = oh.make_function("local", "f", ["a"], ["r"], fnodes, [oh.make_opsetid("", 18)])
    g = oh.make_graph([oh.make_node("f", ["x"], ["y"], domain="local")], "main", [oh.make_tensor_value_info("x", F, ["N"])], [oh.make_tensor_value_info("y", F, ["N"])])
    m = oh.make_model(g, opset_imports=[oh.make_opsetid("", 18), oh.make_opsetid("local", 1)], ir_version=8, functions=[f])
    onnx.checker.check_model(m, full_check=True)
    feeds = [{"x": np.array([1, -2, 0.5], dtype=np.float32)}]
    case = G.Case(m, feeds, ["witness:function-body-if-with-branch-initializer"], [True], "witness", "witness-function-if-initializer")
    s0, o0 = R.run_ort(m, feeds)
    for entry, opts in (("fold_constants", None), ("optimize", (2, True, False, True, 8192, 512 * 512)), ("optimize", None)):
        try:
            m2 = R.apply_entry(entry, m, opts)
        except Exception as e:
            t, site, msg = R.root_cause(e)
            ctx.violation(f"C04:raises:{t}:{site}", f"{entry} raised on the witness: {msg}", K.replay_doc(case, entry, opts, False))
            continue
        bad = _checker_fails(m2)
        s2, o2 = R.run_ort(m2, feeds)
        differs = s0 == "ok" and (s2 != "ok" or R.compare_outputs(o0[0], o2[0], [True]) is not None)
        label = entry + ("(inline=False)" if opts else "")
        stats[f"witness-function-if-initializer:{label}:valid"] = int(not bad and not differs)
        ctx.case(("witness-function-if-initializer", label, not bad and not differs))
        if bad or differs:
            ctx.violation("C04:fold:if-in-function-body:branch-initializer-lost",
                          f"{label}: an If on a constant condition inside a model-local function whose taken branch owns an initializer is inlined "
                          f"into the function body; the initializer is registered in the function's underlying graph, which is not serialized: the "
                          f"result {'fails onnx.checker' if bad else 'differs'} ({'onnxruntime: ' + str(o2)[:120] if s2 != 'ok' else ''})",
                          K.replay_doc(case, entry, opts, False))
            stats["violations"] += 1
