(* Soundness of the dead-node removal model (Opt/Dce.v), for arbitrary kernel semantics: whenever the original graph
   evaluates, the swept graph evaluates to the same outputs; inputs and outputs are untouched.  The argument is a
   simulation on environments that agree on the names the kept nodes still read (`agree_on`), so no uniqueness of names
   is needed. *)
From Coq Require Import List String ZArith Bool Lia.
Require Import OV.Graph.Syntax OV.Graph.Sem OV.Graph.Names OV.Graph.SemProofs OV.Opt.Dce.
Import ListNotations.
Local Open Scope list_scope.

Lemma reads_node_eq : forall d o ins outs a subs,
  reads_node (Node d o ins outs a subs) = present ins ++ reads_subs subs.
Proof. intros. reflexivity. Qed.
Lemma reads_graph_eq : forall i ii ns o, reads_graph (Graph i ii ns o) = o ++ reads_nodes ns.
Proof. intros. reflexivity. Qed.

Lemma mem_true_iff x l : mem x l = true <-> In x l.
Proof.
  unfold mem. rewrite existsb_exists. split.
  - intros [y [Hy E]]. apply String.eqb_eq in E. subst. exact Hy.
  - intro H. exists x. split; [exact H|apply String.eqb_refl].
Qed.

Lemma any_live_false live outs : any_live live outs = false -> forall x, In x outs -> ~ In x live.
Proof.
  unfold any_live. intros H x Hx Hl.
  assert (existsb (fun o => mem o live) outs = true) as E.
  { apply existsb_exists. exists x. split; [exact Hx|apply mem_true_iff; exact Hl]. }
  rewrite E in H. discriminate.
Qed.

Lemma sweep_subs_id : forall s, sweep_subs (fun g => g) s = s.
Proof. unfold sweep_subs. induction s as [|[k g] s IH]; [reflexivity|]. cbn [map fst snd]. rewrite IH. reflexivity. Qed.
Lemma sweep_node_id : forall n, sweep_node (fun g => g) n = n.
Proof. intros [d o i u a s]. cbn [sweep_node]. rewrite sweep_subs_id. reflexivity. Qed.

Section P.
  Variable V : Type.
  Variable sem : string -> string -> list (string * attrv) -> list (option V) -> option (list V).
  Variable truth : V -> option bool.
  Variable trip : V -> option nat.
  Variable of_nat : nat -> V.
  Variable of_bool : bool -> V.
  Variable limit : nat.

  Notation env := (list (vname * V)).
  Notation eval_node := (eval_node V sem truth trip of_nat of_bool limit).
  Notation run := (run V sem truth trip of_nat of_bool limit).
  Notation eval_body := (eval_body V sem truth trip of_nat of_bool limit).
  Notation eval_graph := (eval_graph V sem truth trip of_nat of_bool limit).
  Notation loop_iter := (loop_iter V truth of_nat of_bool).
  Notation evaluator := (env -> graph -> list V -> option (list V)).

  Definition agree_on (L : list vname) (e1 e2 : env) : Prop := forall x, In x L -> lookup e1 x = lookup e2 x.

  Lemma agree_on_refl L e : agree_on L e e.
  Proof. intros x _. reflexivity. Qed.
  Lemma agree_on_incl L L' e1 e2 : incl L' L -> agree_on L e1 e2 -> agree_on L' e1 e2.
  Proof. intros I A x Hx. apply A, I, Hx. Qed.
  Lemma agree_on_cons L e1 e2 x v : agree_on L e1 e2 -> agree_on L ((x, v) :: e1) ((x, v) :: e2).
  Proof. intros A y Hy. cbn. destruct (String.eqb y x); [reflexivity|apply A; exact Hy]. Qed.

  Lemma bind_transfer xs vs (e1 e2 : env) a : bind xs vs e1 = Some a ->
    exists b, bind xs vs e2 = Some b /\ forall L, agree_on L e1 e2 -> agree_on L a b.
  Proof.
    revert vs a. induction xs as [|x t IH]; intros [|v vt] a; cbn; try discriminate.
    - intro H; inversion H; subst. exists e2. split; [reflexivity|auto].
    - destruct (bind t vt e1) as [r|] eqn:B; cbn; [|discriminate]. intro H; inversion H; subst.
      destruct (IH vt r B) as [r' [B' A]]. rewrite B'. cbn. eexists; split; [reflexivity|].
      intros L AL. apply agree_on_cons. apply A. exact AL.
  Qed.

  Lemma agree_on_lookups L e1 e2 xs : agree_on L e1 e2 -> incl xs L -> lookups e1 xs = lookups e2 xs.
  Proof.
    intros A I. induction xs as [|x t IH]; cbn; [reflexivity|].
    rewrite (A x) by (apply I; left; reflexivity).
    rewrite IH; [reflexivity|]. intros y Hy. apply I. right. exact Hy.
  Qed.

  Lemma agree_on_lookup_opts L e1 e2 xs : agree_on L e1 e2 -> incl (present xs) L -> lookup_opts e1 xs = lookup_opts e2 xs.
  Proof.
    intros A I. induction xs as [|[x|] t IH]; cbn; [reflexivity| |].
    - rewrite (A x) by (apply I; left; reflexivity).
      rewrite IH; [reflexivity|]. intros y Hy. apply I. right. exact Hy.
    - rewrite IH; [reflexivity|exact I].
  Qed.

  (* the evaluator of the swept nested graphs simulates the evaluator of the original ones *)
  Definition ev_rel (rec : graph -> graph) (ev ev' : evaluator) : Prop :=
    forall e1 e2 g args r, agree_on (reads_graph (rec g)) e1 e2 -> ev e1 g args = Some r -> ev' e2 (rec g) args = Some r.

  Lemma find_sub_sweep rec name subs sg : find_sub name subs = Some sg ->
    find_sub name (sweep_subs rec subs) = Some (rec sg) /\ incl (reads_graph (rec sg)) (reads_subs (sweep_subs rec subs)).
  Proof.
    induction subs as [|[k h] t IH]; cbn; [discriminate|].
    destruct (String.eqb k name).
    - intro H; inversion H; subst. split; [reflexivity|]. apply incl_appl, incl_refl.
    - intro H. destruct (IH H) as [F I]. split; [exact F|]. apply incl_appr. exact I.
  Qed.

  Lemma loop_iter_sweep rec ev ev' e1 e2 body bounded k : ev_rel rec ev ev' ->
    agree_on (reads_graph (rec body)) e1 e2 -> forall i c st r,
    loop_iter ev e1 body bounded k i c st = Some r -> loop_iter ev' e2 (rec body) bounded k i c st = Some r.
  Proof.
    intros R A. induction k as [|k IH]; intros i c st r; cbn.
    - auto.
    - destruct (negb c); [auto|].
      destruct (ev e1 body (of_nat i :: of_bool c :: st)) as [res|] eqn:E; [|discriminate].
      rewrite (R e1 e2 body _ res A E).
      destruct res as [|cv' st']; [discriminate|].
      destruct (Nat.eqb _ _); [|discriminate]. destruct (truth cv'); [|discriminate]. apply IH.
  Qed.

  Lemma present_two m c (carried : list (option vname)) : incl (present [m; c]) (present (m :: c :: carried)).
  Proof. intros x Hx. destruct m, c; cbn in *; tauto. Qed.
  Lemma present_rest m c (carried : list (option vname)) : incl (present carried) (present (m :: c :: carried)).
  Proof. intros x Hx. destruct m, c; cbn; auto. Qed.

  Lemma eval_node_sweep rec ev ev' e1 e2 n a : ev_rel rec ev ev' ->
    agree_on (reads_node (sweep_node rec n)) e1 e2 -> eval_node ev e1 n = Some a ->
    exists b, eval_node ev' e2 (sweep_node rec n) = Some b /\ forall L, agree_on L e1 e2 -> agree_on L a b.
  Proof.
    intros R A. destruct n as [dom op ins outs attrs subs]. cbn [sweep_node] in *.
    rewrite reads_node_eq in A.
    assert (Ai : agree_on (present ins) e1 e2) by (eapply agree_on_incl; [|exact A]; apply incl_appl, incl_refl).
    assert (As : agree_on (reads_subs (sweep_subs rec subs)) e1 e2) by (eapply agree_on_incl; [|exact A]; apply incl_appr, incl_refl).
    unfold Sem.eval_node.
    destruct (is_if dom op).
    - rewrite <- (agree_on_lookup_opts _ e1 e2 ins Ai (incl_refl _)).
      destruct (lookup_opts e1 ins) as [[|[c|] [|? ?]]|]; try discriminate.
      destruct (truth c) as [b|]; try discriminate.
      destruct (find_sub _ subs) as [sg|] eqn:F; try discriminate.
      destruct (find_sub_sweep rec _ _ _ F) as [F' I]. rewrite F'.
      destruct (ev e1 sg []) as [vs|] eqn:E; try discriminate.
      rewrite (R e1 e2 sg [] vs (agree_on_incl _ _ _ _ I As) E).
      apply bind_transfer.
    - destruct (is_loop dom op).
      + destruct ins as [|m [|c carried]]; try discriminate.
        destruct (find_sub "body"%string subs) as [body|] eqn:F; try discriminate.
        destruct (find_sub_sweep rec _ _ _ F) as [F' I]. rewrite F'.
        rewrite <- (agree_on_lookup_opts _ e1 e2 [m; c] Ai (present_two m c carried)).
        rewrite <- (agree_on_lookups _ e1 e2 (present carried) Ai (present_rest m c carried)).
        destruct (lookup_opts e1 [m; c]) as [[|mv [|cv [|? ?]]]|]; try discriminate.
        destruct (lookups e1 (present carried)) as [st0|]; try discriminate.
        destruct (match mv with Some v => option_map Some (trip v) | None => Some None end) as [mt|]; try discriminate.
        destruct (match cv with Some v => truth v | None => Some true end) as [c0|]; try discriminate.
        pose proof (agree_on_incl _ _ _ _ I As) as Ab.
        destruct mt as [k|].
        * destruct (loop_iter ev e1 body true k 0 c0 st0) as [stf|] eqn:E; try discriminate.
          rewrite (loop_iter_sweep rec ev ev' e1 e2 body true k R Ab _ _ _ _ E). apply bind_transfer.
        * destruct (loop_iter ev e1 body false limit 0 c0 st0) as [stf|] eqn:E; try discriminate.
          rewrite (loop_iter_sweep rec ev ev' e1 e2 body false limit R Ab _ _ _ _ E). apply bind_transfer.
      + rewrite <- (agree_on_lookup_opts _ e1 e2 ins Ai (incl_refl _)).
        destruct (lookup_opts e1 ins) as [vs|]; try discriminate.
        destruct (sem dom op attrs vs) as [rs|]; try discriminate. apply bind_transfer.
  Qed.

  Lemma lookup_app_skip (b e : env) x : ~ In x (map fst b) -> lookup (b ++ e) x = lookup e x.
  Proof.
    induction b as [|[y v] t IH]; cbn; [reflexivity|]. intro H.
    destruct (String.eqb x y) eqn:E; [apply String.eqb_eq in E; subst; tauto|apply IH; tauto].
  Qed.

  Lemma agree_on_drop L (b e1 e2 : env) : (forall x, In x L -> ~ In x (map fst b)) -> agree_on L e1 e2 -> agree_on L (b ++ e1) e2.
  Proof. intros N A x Hx. rewrite (lookup_app_skip b e1 x (N x Hx)). apply A. exact Hx. Qed.

  (* the walk: the kept nodes are read only through `live`; the environments agree on what the kept nodes read *)
  Lemma sweep_nodes_sound rec ev ev' : ev_rel rec ev ev' -> forall ns live0 ns' live,
    sweep_nodes rec ns live0 = (ns', live) ->
    incl (reads_nodes ns' ++ live0) live /\
    forall e1 e2 a, agree_on (reads_nodes ns' ++ live0) e1 e2 -> run ev e1 ns = Some a ->
      exists b, run ev' e2 ns' = Some b /\ agree_on live0 a b.
  Proof.
    intros R. induction ns as [|n t IH]; intros live0 ns' live; cbn [sweep_nodes].
    - intro H; inversion H; subst. split; [cbn; apply incl_refl|].
      intros e1 e2 a A H1. cbn in H1. inversion H1; subst. exists e2. split; [reflexivity|exact A].
    - destruct (sweep_nodes rec t live0) as [t' live_t] eqn:S.
      destruct (IH live0 t' live_t S) as [I IHB].
      destruct (any_live live_t (n_outs n)) eqn:L; intro H; inversion H; subst; clear H.
      + split.
        * cbn [reads_nodes]. rewrite <- app_assoc. apply incl_app; [apply incl_appl, incl_refl|apply incl_appr; exact I].
        * intros e1 e2 a A. cbn [Sem.run reads_nodes] in *. rewrite <- app_assoc in A.
          destruct (eval_node ev e1 n) as [a1|] eqn:E; [|discriminate]. intro H1.
          destruct (eval_node_sweep rec ev ev' e1 e2 n a1 R (agree_on_incl _ _ _ _ (incl_appl _ (incl_refl _)) A) E) as [b1 [E' T]].
          rewrite E'. apply (IHB a1 b1 a); [|exact H1]. apply T. eapply agree_on_incl; [|exact A]. apply incl_appr, incl_refl.
      + split.
        * apply incl_appr. exact I.
        * intros e1 e2 a A. cbn [Sem.run].
          destruct (eval_node ev e1 n) as [a1|] eqn:E; [|discriminate]. intro H1.
          apply (IHB a1 e2 a); [|exact H1].
          destruct (eval_node_shape V sem truth trip of_nat of_bool limit ev e1 n a1 E) as [b [-> Hb]].
          apply agree_on_drop; [|exact A]. intros x Hx. rewrite Hb. intro Ho.
          exact (any_live_false _ _ L x Ho (I x Hx)).
  Qed.

  Lemma eval_body_sweep rec ev ev' : ev_rel rec ev ev' -> ev_rel (sweep_graph_with rec) (eval_body ev) (eval_body ev').
  Proof.
    intros R e1 e2 g args r. destruct g as [gi gn ns go]. cbn [sweep_graph_with].
    destruct (sweep_nodes rec ns go) as [ns' live] eqn:S. cbn [fst]. rewrite reads_graph_eq.
    destruct (sweep_nodes_sound rec ev ev' R ns go ns' live S) as [_ B].
    intro A. unfold Sem.eval_body. cbn [g_ins g_nodes g_outs].
    destruct (bind gi args e1) as [a0|] eqn:B1; [|discriminate].
    destruct (bind_transfer gi args e1 e2 a0 B1) as [b0 [B2 T]]. rewrite B2.
    destruct (run ev a0 ns) as [a|] eqn:R1; [|discriminate].
    assert (A0 : agree_on (reads_nodes ns' ++ go) a0 b0).
    { apply T. eapply agree_on_incl; [|exact A]. intros x Hx. apply in_app_or in Hx. apply in_or_app. tauto. }
    destruct (B a0 b0 a A0 R1) as [b [R2 Ao]]. rewrite R2.
    rewrite <- (agree_on_lookups go a b go Ao (incl_refl _)). auto.
  Qed.

  (* coincidence in the `agree_on` form: a graph evaluates alike in environments that agree on the names it reads *)
  Lemma eval_graph_id_rel F : ev_rel (fun g => g) (eval_graph F) (eval_graph F).
  Proof.
    induction F as [|f IH]; [intros e1 e2 g args r _ H; discriminate|].
    intros e1 e2 g args r A H. cbn [Sem.eval_graph] in *.
    revert A H. destruct g as [gi gn ns go]. rewrite reads_graph_eq. intros A.
    unfold Sem.eval_body. cbn [g_ins g_nodes g_outs].
    destruct (bind gi args e1) as [a0|] eqn:B1; [|discriminate].
    destruct (bind_transfer gi args e1 e2 a0 B1) as [b0 [B2 T]]. rewrite B2.
    assert (K : forall ns a0 b0 L, agree_on (reads_nodes ns ++ L) a0 b0 -> forall a, run (eval_graph f) a0 ns = Some a ->
                 exists b, run (eval_graph f) b0 ns = Some b /\ agree_on L a b).
    { clear - IH. induction ns as [|n t IHt]; intros a0 b0 L A a; cbn [Sem.run reads_nodes] in *.
      - intro H; inversion H; subst. exists b0. split; [reflexivity|exact A].
      - rewrite <- app_assoc in A.
        destruct (eval_node (eval_graph f) a0 n) as [a1|] eqn:E; [|discriminate]. intro H1.
        assert (An : agree_on (reads_node (sweep_node (fun g => g) n)) a0 b0).
        { rewrite sweep_node_id. eapply agree_on_incl; [|exact A]. apply incl_appl, incl_refl. }
        destruct (eval_node_sweep (fun g => g) (eval_graph f) (eval_graph f) a0 b0 n a1 IH An E) as [b1 [E' T]].
        rewrite sweep_node_id in E'. rewrite E'. apply (IHt a1 b1 L); [|exact H1].
        apply T. eapply agree_on_incl; [|exact A]. apply incl_appr, incl_refl. }
    destruct (run (eval_graph f) a0 ns) as [a|] eqn:R1; [|discriminate].
    assert (A0 : agree_on (reads_nodes ns ++ go) a0 b0).
    { apply T. eapply agree_on_incl; [|exact A]. intros x Hx. apply in_app_or in Hx. apply in_or_app. tauto. }
    destruct (K ns a0 b0 go A0 a R1) as [b [R2 Ao]]. rewrite R2.
    rewrite <- (agree_on_lookups go a b go Ao (incl_refl _)). auto.
  Qed.

  Theorem sweep_graph_rel : forall d F, ev_rel (sweep_graph d) (eval_graph F) (eval_graph F).
  Proof.
    induction d as [|d IH]; intro F.
    - cbn [sweep_graph]. apply eval_graph_id_rel.
    - destruct F as [|f]; [intros e1 e2 g args r _ H; discriminate|].
      cbn [sweep_graph Sem.eval_graph]. apply eval_body_sweep. apply IH.
  Qed.

  (* ---- the statements used by Props/C03.v and Props/C04.v *)
  Theorem sweep_graph_sound : forall d F outer g args r,
    eval_graph F outer g args = Some r -> eval_graph F outer (sweep_graph d g) args = Some r.
  Proof. intros d F outer g args r H. exact (sweep_graph_rel d F outer outer g args r (agree_on_refl _ _) H). Qed.

  Lemma eval_graph_inits_irrelevant : forall F outer gi ii ii' ns go args,
    eval_graph F outer (Graph gi ii ns go) args = eval_graph F outer (Graph gi ii' ns go) args.
  Proof. intros [|f]; intros; reflexivity. Qed.

  Theorem dce_main_sound : forall d F outer g args r,
    eval_graph F outer g args = Some r -> eval_graph F outer (dce_main d g) args = Some r.
  Proof.
    intros d F outer g args r H. unfold dce_main.
    pose proof (sweep_graph_sound d F outer g args r H) as H'.
    destruct (sweep_graph d g) as [gi ii ns go].
    rewrite (eval_graph_inits_irrelevant F outer gi _ ii ns go args). exact H'.
  Qed.

  Theorem dce_sound : forall F outer g args r,
    eval_graph F outer g args = Some r -> eval_graph F outer (dce g) args = Some r.
  Proof. intros. apply dce_main_sound. assumption. Qed.
End P.

(* ---- C04: the interface of the graph is untouched *)
Lemma sweep_graph_signature : forall d g, g_ins (sweep_graph d g) = g_ins g /\ g_outs (sweep_graph d g) = g_outs g.
Proof. intros [|d] [gi ii ns go]; cbn; auto. Qed.

Theorem dce_signature : forall g, g_ins (dce g) = g_ins g /\ g_outs (dce g) = g_outs g.
Proof.
  intro g. unfold dce, dce_main. pose proof (sweep_graph_signature (depth_graph g) g) as [A B].
  destruct (sweep_graph (depth_graph g) g) as [gi ii ns go]. cbn in *. auto.
Qed.

(* initializers that are graph inputs (overridable defaults) or graph outputs are never dropped *)
Theorem dce_keeps_input_initializers : forall g x, In x (g_inits g) -> In x (g_ins g) \/ In x (g_outs g) -> In x (g_inits (dce g)).
Proof.
  intros g x Hi Hio. unfold dce, dce_main.
  assert (S : forall d g, g_inits (sweep_graph d g) = g_inits g) by (intros [|d] [gi ii ns go]; reflexivity).
  pose proof (sweep_graph_signature (depth_graph g) g) as [A B]. pose proof (S (depth_graph g) g) as C.
  destruct (sweep_graph (depth_graph g) g) as [gi ii ns go]. cbn in *. subst.
  apply filter_In. split; [exact Hi|]. apply mem_true_iff. apply in_or_app. right. apply in_or_app. tauto.
Qed.

(* a removed node really was unread: every kept node list is a sub-list of the original (nothing is invented) *)
Lemma sweep_nodes_sublist : forall rec ns live0, List.length (fst (sweep_nodes rec ns live0)) <= List.length ns.
Proof.
  intros rec ns live0. induction ns as [|n t IH]; cbn; [lia|].
  destruct (sweep_nodes rec t live0) as [t' live]. cbn in *. destruct (any_live live (n_outs n)); cbn; lia.
Qed.
