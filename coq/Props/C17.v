(* C17 property theorems: generated opset classes mirror the ONNX operator schemas exactly.
   Statements only, each closed by `exact`, Print Assumptions beneath.
   Model: Registry/OpsetMethod.v; general proofs: Registry/OpsetMethodProofs.v; the regenerated finite
   statement: Registry/OpsetGen.v over Gen/OpsetMethods.v + Gen/OpsetSchemas.v. *)
From Coq Require Import List String ZArith Bool.
Import ListNotations.
Require Import OV.Registry.OpsetMethod OV.Registry.OpsetMethodProofs OV.Registry.OpsetEmit OV.Registry.OpsetEmitProofs
               OV.Registry.OpsetChain OV.Registry.OpsetChainProofs OV.Registry.OpsetGen.

(* Opset._prepare_inputs removes trailing None and nothing else: the result is a prefix, what was cut off
   is None only, and the result has no trailing None left (for every list). *)
Theorem C17_prepare_inputs_trims_only_trailing : forall (V : Type) (l : list (option V)),
  (exists k, l = strip l ++ repeat None k) /\ (forall l', strip l <> l' ++ [None]).
Proof. exact (fun V l => conj (strip_prefix V l) (strip_no_trailing_none V l)). Qed.
Print Assumptions C17_prepare_inputs_trims_only_trailing.

(* ... so every input keeps its schema position, and no given value is ever dropped. *)
Theorem C17_prepare_inputs_keeps_positions : forall (V : Type) (l : list (option V)) i,
  nth i (strip l) None = nth i l None.
Proof. exact strip_nth. Qed.
Print Assumptions C17_prepare_inputs_keeps_positions.

Theorem C17_prepare_inputs_keeps_values : forall (V : Type) (l : list (option V)) i v,
  nth_error l i = Some (Some v) -> nth_error (strip l) i = Some (Some v).
Proof. exact strip_keeps_values. Qed.
Print Assumptions C17_prepare_inputs_keeps_values.

(* Meaning of the get_schema model: the registered schema of that name and domain with the greatest
   since_version <= N. *)
Theorem C17_get_schema_spec : forall reg name N dom s,
  resolve reg name N dom = Some s ->
  In s reg /\ s_name s = name /\ s_domain s = dom /\ (s_since s <= N)%Z /\
  forall s', In s' reg -> s_name s' = name -> s_domain s' = dom -> (s_since s' <= N)%Z -> (s_since s' <= s_since s)%Z.
Proof. exact resolve_spec. Qed.
Print Assumptions C17_get_schema_spec.

(* The computable per-method test is sound: parameters = inputs in order ++ attributes, defaults equal,
   every argument forwarded under its own name. *)
Theorem C17_method_ok_mirrors : forall m s, method_ok m s = true -> mirrors m s.
Proof. exact method_ok_mirrors. Qed.
Print Assumptions C17_method_ok_mirrors.

(* For every call that Python accepts, what a mirroring method hands to the evaluator is the bare node of
   the same call: same operator and version, the inputs given with only trailing None removed, and every
   attribute -- given, given as None, or left out -- meaning the same value as in the bare node. *)
Theorem C17_call_equals_bare_node : forall (V : Type) reg m s,
  static_schema reg m = Some s -> mirrors m s ->
  forall (a : args V) pe ke, bind m a = Some (pe, ke) ->
    exists n, call_method reg m a = Some n /\ n_inputs n = strip (a_pos a) /\ node_equiv s n (bare_node s a).
Proof. exact call_sound. Qed.
Print Assumptions C17_call_equals_bare_node.

(* An inherited method stays right exactly while the operator has no newer schema. *)
Theorem C17_inherited_method_valid : forall reg m s N,
  static_schema reg m = Some s -> (m_since m <= N)%Z ->
  (forall s', In s' reg -> s_name s' = m_op m -> s_domain s' = m_domain m -> (s_since s' <= N)%Z -> (s_since s' <= m_since m)%Z) ->
  resolve reg (m_op m) N (m_domain m) = Some s.
Proof. exact inherited_method_valid. Qed.
Print Assumptions C17_inherited_method_valid.

(* General form: any registry and class set passing the computable test has the property, for every
   operator outside the claimed exemptions `ex` (s_deprecated: every deprecated schema; exempt_in l: the
   deprecated schemas of the listed operators; no_exemption: none). *)
Theorem C17_registry_sound : forall ex reg cs,
  registry_ok ex reg cs = true ->
  forall c, In c cs ->
  forall op s, dyn_getitem reg c op = Some s -> ex s = false ->
    (covered c = true -> exists m, static_lookup cs c op = Some m) /\
    forall m, static_lookup cs c op = Some m ->
      static_schema reg m = Some s /\ mirrors m s /\
      forall V (a : args V) pe ke, bind m a = Some (pe, ke) ->
        exists n, call_method reg m a = Some n /\ n_inputs n = strip (a_pos a) /\ node_equiv s n (bare_node s a).
Proof. exact registry_sound. Qed.
Print Assumptions C17_registry_sound.

(* THE PROPERTY on the code as it is now (Gen/* re-extracted on every check): for every generated class
   OpsetN and every operator that onnx.defs resolves at (domain, N) -- every live operator (C17_exemptions_
   only_deprecated) and every deprecated one that is not in the regenerated exemption list: the method visible
   on the class (own or inherited) uses exactly that schema, mirrors it, and an eager call equals the bare node.
   The exemption list is the set of deprecated operators for which the deprecation-version class has no method
   of its own; each one that inherits an older method is reported by the harness under its own key. *)
Theorem C17_generated_classes_mirror_schemas : forall c, In c gen_classes ->
  forall op s, dyn_getitem gen_schemas c op = Some s -> gen_exempt s = false ->
    (covered c = true -> exists m, static_lookup gen_classes c op = Some m) /\
    forall m, static_lookup gen_classes c op = Some m ->
      static_schema gen_schemas m = Some s /\ mirrors m s /\
      forall V (a : args V) pe ke, bind m a = Some (pe, ke) ->
        exists n, call_method gen_schemas m a = Some n /\ n_inputs n = strip (a_pos a) /\ node_equiv s n (bare_node s a).
Proof. exact gen_sound. Qed.
Print Assumptions C17_generated_classes_mirror_schemas.

(* Coverage: opset1..opset23 of the default domain and every ai.onnx.ml / preview class have a method for
   every live operator of their version. *)
Theorem C17_coverage : forall c, In c gen_classes -> covered c = true ->
  forall op s, dyn_getitem gen_schemas c op = Some s -> gen_exempt s = false ->
    exists m, static_lookup gen_classes c op = Some m.
Proof. exact gen_coverage. Qed.
Print Assumptions C17_coverage.

(* Opset.__contains__/__getitem__/__getattr__ agree with the static class: opsetN.Op denotes the same
   schema in eager mode (generated method) and in translation (opset[name]). *)
Theorem C17_dynamic_lookup_agrees : forall c, In c gen_classes -> forall op,
    (dyn_contains gen_schemas c op = true <-> exists s, dyn_getitem gen_schemas c op = Some s) /\
    (forall s, dyn_getitem gen_schemas c op = Some s -> gen_exempt s = false -> getattr_schema gen_schemas gen_classes c op = Some s) /\
    (dyn_getitem gen_schemas c op = None -> getattr_schema gen_schemas gen_classes c op = None /\ static_lookup gen_classes c op = None).
Proof. exact gen_dynamic. Qed.
Print Assumptions C17_dynamic_lookup_agrees.

Theorem C17_exemptions_only_deprecated : forall s, s_deprecated s = false -> gen_exempt s = false.
Proof. exact gen_exempt_live. Qed.
Print Assumptions C17_exemptions_only_deprecated.

(* As read (generator skips deprecated schemas), and false: for an operator ONNX marks deprecated at
   version N the inherited method still denotes the last live schema while opset[name] denotes the
   deprecated one (witness in the shape of Upsample 9/10; the harness replays opset10.Upsample on the real
   code for every operator in the exemption list). *)
Theorem C17_deprecated_operator_inherited_refuted : exists reg cs c op m s,
  registry_ok s_deprecated reg cs = true /\ In c cs /\
  static_lookup cs c op = Some m /\ dyn_getitem reg c op = Some s /\
  s_deprecated s = true /\ static_schema reg m <> Some s.
Proof. exact deprecated_gap. Qed.
Print Assumptions C17_deprecated_operator_inherited_refuted.

(* Repaired (the generator emits a method for a deprecated schema like for any other): a registry passing the
   test with NO exemption has the property for every operator onnx.defs resolves, deprecated or not, and
   opsetN.Op denotes the same schema through the static class (eager) and through Opset.__getitem__
   (translation). *)
Theorem C17_registry_sound_fixed : forall reg cs,
  registry_ok no_exemption reg cs = true ->
  forall c, In c cs ->
  forall op s, dyn_getitem reg c op = Some s ->
    getattr_schema reg cs c op = Some s /\
    (covered c = true -> exists m, static_lookup cs c op = Some m) /\
    forall m, static_lookup cs c op = Some m ->
      static_schema reg m = Some s /\ mirrors m s /\
      forall V (a : args V) pe ke, bind m a = Some (pe, ke) ->
        exists n, call_method reg m a = Some n /\ n_inputs n = strip (a_pos a) /\ node_equiv s n (bare_node s a).
Proof. exact registry_sound_fixed. Qed.
Print Assumptions C17_registry_sound_fixed.

(* ... its hypothesis is met by the repaired shape of the witness (Opset10 overrides Upsample from the
   deprecation record), where the deprecated operator denotes the same schema both ways *)
Theorem C17_deprecated_operator_fixed : 
  registry_ok no_exemption ex_reg ex_classes_fixed = true /\
  exists c op m s,
    In c ex_classes_fixed /\ static_lookup ex_classes_fixed c op = Some m /\ dyn_getitem ex_reg c op = Some s /\
    s_deprecated s = true /\ static_schema ex_reg m = Some s /\ getattr_schema ex_reg ex_classes_fixed c op = Some s.
Proof. exact (conj ex_registry_fixed_ok deprecated_fixed). Qed.
Print Assumptions C17_deprecated_operator_fixed.

(* ... and on this tree: when the regenerated exemption list is empty, every operator is covered. *)
Theorem C17_generated_classes_all_operators_when_repaired : gen_exempt_ops = [] ->
  forall c, In c gen_classes -> forall op s, dyn_getitem gen_schemas c op = Some s ->
    getattr_schema gen_schemas gen_classes c op = Some s /\
    (covered c = true -> exists m, static_lookup gen_classes c op = Some m) /\
    forall m, static_lookup gen_classes c op = Some m -> static_schema gen_schemas m = Some s /\ mirrors m s.
Proof. exact gen_sound_when_repaired. Qed.
Print Assumptions C17_generated_classes_all_operators_when_repaired.

(* THE GENERATOR (opgen/onnx_opset_builder.py, modelled in Registry/OpsetEmit.v): for every schema passing
   the stated well-formedness test (parameter names distinct and none of self/schema/op; a variadic input
   is the last input) the emitted method passes the per-method test against that schema -- inputs in order,
   then the attributes as keyword-only parameters with the schema defaults, each forwarded under its own
   name -- and names a schema with the same (name, domain, since_version).
   Not covered: the class skeleton (base class, __new__) and inheritance, which stay with the finite
   registry statement; docstrings and type annotations. *)
Theorem C17_generator_emits_mirroring_method : forall s, schema_wfb s = true ->
  method_ok (emit_method s) s = true /\ mirrors (emit_method s) s.
Proof. exact (fun s W => conj (emit_method_ok s W) (method_ok_mirrors _ _ (emit_method_ok s W))). Qed.
Print Assumptions C17_generator_emits_mirroring_method.

Theorem C17_generator_names_its_schema : forall reg s, In s reg ->
  exists s', static_schema reg (emit_method s) = Some s' /\
             s_name s' = s_name s /\ s_domain s' = s_domain s /\ s_since s' = s_since s.
Proof. exact emit_resolves. Qed.
Print Assumptions C17_generator_names_its_schema.

(* Classes whose methods are what the model generator emits pass the per-method test by construction. *)
Theorem C17_emitted_classes_ok : forall skip reg cs,
  classes_emitted skip reg cs = true -> forallb schema_wfb reg = true ->
  forall c, In c cs -> forall m, In m (c_methods c) ->
    exists s, In s reg /\ s_domain s = c_domain c /\ s_since s = c_version c /\ skip s = false /\
              m = emit_method s /\ method_ok m s = true /\
              exists s', static_schema reg m = Some s' /\
                         s_name s' = s_name s /\ s_domain s' = s_domain s /\ s_since s' = s_since s.
Proof. exact classes_emitted_ok. Qed.
Print Assumptions C17_emitted_classes_ok.

(* The checked-in classes ARE the model generator's output on the installed onnx.defs (every schema is well
   formed; equality of the method lists decided by evaluation on the regenerated data), so every one of the
   ~630 checked-in methods satisfies method_ok as an instance of the generator theorem. *)
Theorem C17_checked_in_methods_are_generated : forall c, In c gen_classes -> forall m, In m (c_methods c) ->
  exists s, In s gen_schemas /\ s_domain s = c_domain c /\ s_since s = c_version c /\ gen_exempt s = false /\
            m = emit_method s /\ method_ok m s = true /\
            exists s', static_schema gen_schemas m = Some s' /\
                       s_name s' = s_name s /\ s_domain s' = s_domain s /\ s_since s' = s_since s.
Proof. exact gen_methods_by_generator. Qed.
Print Assumptions C17_checked_in_methods_are_generated.

(* THE GENERATOR, WHOLE REGISTRIES (class skeleton and inheritance, Registry/OpsetChain.v): a class is
   generated for every (domain, version) that has a schema the generator does not skip (`skip`: s_deprecated
   as read, no_exemption repaired) and that is not excluded; it defines itself the operators whose
   since_version is its version and derives from the class of the previous version of the domain.
   For EVERY registry passing reg_wfb (per-method preconditions; (name, domain, since_version) identifies a
   schema, i.e. the since_versions of an operator are pairwise different; versions >= 1; class names distinct;
   no gap below a generated class) and every generated class (domain, N): looking Op up through the emitted
   inheritance chain yields the method emitted from the schema get_schema(Op, N, domain) returns -- the
   greatest since_version <= N (C17_get_schema_spec) --, that method names exactly this schema and mirrors it;
   and there is no method where get_schema finds nothing.  Deprecation records included when skip = no_exemption. *)
Theorem C17_emitted_chain_resolves : forall skip excl reg, reg_wfb skip excl reg = true ->
  forall k, In k (class_keys skip excl reg) -> forall op,
    match resolve reg op (snd k) (fst k) with
    | Some s => skip s = false ->
        static_lookup (emit_classes skip excl reg) (emit_class skip reg k) op = Some (emit_method s) /\
        static_schema reg (emit_method s) = Some s /\ method_ok (emit_method s) s = true
    | None => static_lookup (emit_classes skip excl reg) (emit_class skip reg k) op = None
    end.
Proof. exact emitted_chain_resolves. Qed.
Print Assumptions C17_emitted_chain_resolves.

(* ... hence what the generator emits passes the registry test, for every well-formed registry *)
Theorem C17_emitted_registry_ok : forall skip excl reg, reg_wfb skip excl reg = true ->
  registry_ok skip reg (emit_classes skip excl reg) = true.
Proof. exact emitted_registry_ok. Qed.
Print Assumptions C17_emitted_registry_ok.

(* ... and no class is forgotten: every schema that is neither skipped nor excluded has the class of its
   (domain, since_version), in which its method is defined *)
Theorem C17_emitted_classes_complete : forall skip excl reg s,
  In s reg -> skip s = false -> (1 <= s_since s)%Z -> key_mem (s_domain s, s_since s) excl = false ->
  In (s_domain s, s_since s) (class_keys skip excl reg).
Proof. exact class_keys_complete. Qed.
Print Assumptions C17_emitted_classes_complete.

(* The hypotheses are met by a registry in the shape of the real one, refused for the real reasons (a version
   gap, two domains folding to one class name, an excluded version in the middle of a domain). *)
Theorem C17_generator_wf_nonvacuous :
  reg_wfb no_exemption [] ex_reg_full = true /\ reg_wfb s_deprecated [] ex_reg_full = true /\
  reg_wfb no_exemption [] ex_reg = false /\
  reg_wfb no_exemption [] [mkS "a.b" "X" 1 false [] []; mkS "a_b" "X" 1 false [] []] = false /\
  reg_wfb no_exemption [("", 8%Z)] ex_reg_full = false.
Proof.
  exact (conj (proj1 (proj2 ex_reg_wf)) (conj (proj1 (proj2 (proj2 ex_reg_wf))) (conj (proj1 ex_reg_wf)
        (conj (proj1 (proj2 ex_name_clash)) (proj1 ex_excluded_gap))))).
Qed.
Print Assumptions C17_generator_wf_nonvacuous.

(* The 33-class instance as a corollary: the installed onnx.defs is a well-formed registry and the checked-in
   classes (names, base classes, (domain, version), method lists; ast-extracted on every check) are the model
   generator's output on it -- both decided by evaluation -- so C17_generated_classes_mirror_schemas above is
   obtained from C17_emitted_registry_ok (OpsetGen.gen_registry_ok is proved by rewriting, not by evaluation). *)
Theorem C17_checked_in_classes_are_generated :
  reg_wfb gen_exempt gen_excluded gen_schemas = true /\
  gen_classes = emit_classes gen_exempt gen_excluded gen_schemas.
Proof. exact (conj gen_reg_wf gen_classes_are_emitted). Qed.
Print Assumptions C17_checked_in_classes_are_generated.

(* The test is not vacuous: a wrong default fails it and does change what the call means. *)
Theorem C17_wrong_default_detected :
  exists s, static_schema ex_reg ex_clip6_bad = Some s /\ method_ok ex_clip6_bad s = false /\
    exists n, call_method ex_reg ex_clip6_bad (mkArgs [Some 1%Z] []) = Some n /\
              effective s n "max" <> effective s (bare_node s (mkArgs [Some 1%Z] [])) "max".
Proof. exact wrong_default_detected. Qed.
Print Assumptions C17_wrong_default_detected.
