"""C20: fail-closed recogniser of the guard and of the data-file name of torch_2_5.save_model_with_external_data.

`analyse(text)` returns (all_graphs, problems): the scope of the uninitialised-initializer guard (written to Gen/C20Guard.v)
and the reasons the function is not of the shape coq/ExtData/Save.v models (each one a tie-broken report).  The function is
recognised by ROLE, not by the spelling of its locals, after the rewrites below; every rewrite maps a function to one
with the same behaviour, and a function no rewrite brings to a recognised shape is reported (nothing is ever assumed).

  1 fresh tree / annotations   c09_norm step 1-2: comments, positions, docstrings, annotations are not evaluated at call time.
  2 expression helpers         c09_norm step 0 (expression_helpers / unfold_helpers): `h(a..)` of a module-level, once-defined,
                               undecorated `def h(p..): return E` with name / attribute-chain / constant arguments is E[p := a]
                               (capture checked there).
  3 statement helpers          a TOP-LEVEL statement `T = h(a1..an)` / `return h(..)` / `h(..)` of the function body, h a
                               module-level function defined once, undecorated, plain positional parameters, body `S..; return E`
                               with that single return as last top-level statement and no def / lambda / class / global /
                               nonlocal / yield / await inside, parameters never re-bound in h, every argument a plain NAME or
                               a constant (a name keeps denoting the same object while S runs: h cannot re-bind a caller's
                               local), is replaced by  S'..; T = E'  where every name h binds is renamed to a fresh name that
                               occurs nowhere in caller or helper and parameters are replaced by the arguments.  The global
                               names h reads must not be bound in the caller (no capture).  This is the call unfolded: h's frame
                               becomes fresh locals of the caller (a local unbound in h is equally unbound after renaming).
                               Only at top level of the body: no enclosing try / loop changes where an exception of S goes.
  4 if-swap / early return     `if not c: A else: B` == `if c: B else: A` (the truth value of c is taken once in both);
                               `if c: <ends in raise/return> else: R` == `if c: ...; R`  (c01_pynorm.flatten).
  5 loop -> comprehension      adjacent top-level `U = []` ; `for t1 in I1: [for t2 in I2:] [if c:] U.append(E)` (also
                               `if c: continue` first in a loop body == `if not c: <rest>`) is `U = [E for t1 in I1 for t2 in I2
                               if c]` when the loops have no else / break, the targets are plain names, distinct, not parameters,
                               occurring nowhere else in the function, and U does not occur in I, c, E: same iteration order,
                               same elements appended in the same order; the partially built list is visible to nobody (U is
                               not read by I / c / E and an exception leaves the function: top level, no try).
  6 conditions                 comprehension `if a and b` == `if a if b` (short-circuit in both); `not (x is not y)` == `x is y`,
                               `not (x is y)` == `x is not y`, `not not x` == x as a truth value; operands of is / is not sorted
                               (identity is symmetric, no user code runs).
  7 truth of a list            U built by a list display / comprehension is a list: `if U`, `if bool(U)`, `if len(U) > 0`,
                               `len(U) != 0`, `len(U) >= 1`, `0 < len(U)`, `0 != len(U)`, `1 <= len(U)` take the same branch (len / bool not re-bound in
                               the module or the function).
  8 names                      comprehension targets, the guard list, the path locals, the progress-bar and callback names
                               are matched by binding position / role (placeholders `$0 $1 $M $P` cannot clash with an identifier:
                               consistent renaming without capture).  Parameter NAMES stay part of the recognised shape
                               (callers may pass them by keyword).
  9 single-assignment locals   the `external_data=` argument is resolved through locals bound exactly once, by a top-level
                               `v = E` that precedes the statement holding the ir.save call, to an expression over the path
                               parameter; accepted iff that is f"{pathlib.Path(P).name}.data" or pathlib.Path(P).name + ".data"
                               (PurePath.name is a str; constructing a Path is pure, P and pathlib are not re-bound).

Recognised guard:  U = [<elt without call of a walrus / yield> for v in M.graph.initializers.values() if v.const_value is None]
(all_graphs = false) or  [.. for g in M.graphs() for v in g.initializers.values() if v.const_value is None]  (true); a later
top-level `if <truth of U>: raise ValueError..`; nothing between them mentions U; U bound once, never an attribute root
(no U.append / U.clear elsewhere); every ir.save(M, P, external_data=<name>, [callback=..]) in a later top-level statement.
Every other call in the function must belong to the modelled step sequence (pathlib.Path, importlib.util.find_spec,
tqdm.tqdm, <with-target>.update / .set_description, <callback parameter>.dtype.short_name, ValueError, len, bool).
"""
from __future__ import annotations

import ast
import copy

from harness import c01_pynorm as pn
from harness import c09_norm as cn

FN = "save_model_with_external_data"
_FORBIDDEN_IN_HELPER = (ast.FunctionDef, ast.AsyncFunctionDef, ast.Lambda, ast.ClassDef, ast.Global, ast.Nonlocal,
                        ast.Yield, ast.YieldFrom, ast.Await, ast.Try)


def _u(n):
    return ast.unparse(n)


def _ids(n):
    out = set()
    for x in ast.walk(n):
        if isinstance(x, ast.Name):
            out.add(x.id)
        elif isinstance(x, ast.arg):
            out.add(x.arg)
        elif isinstance(x, (ast.FunctionDef, ast.ClassDef)):
            out.add(x.name)
        elif isinstance(x, ast.alias):
            out.add((x.asname or x.name).split(".")[0])
        elif isinstance(x, ast.ExceptHandler) and x.name:
            out.add(x.name)
    return out


def _stores(n):
    out = []
    for x in ast.walk(n):
        if isinstance(x, ast.Name) and isinstance(x.ctx, (ast.Store, ast.Del)):
            out.append(x.id)
        elif isinstance(x, ast.alias):
            out.append((x.asname or x.name).split(".")[0])
        elif isinstance(x, ast.ExceptHandler) and x.name:
            out.append(x.name)
        elif isinstance(x, (ast.FunctionDef, ast.ClassDef)) and x is not n:
            out.append(x.name)
    return out


def _module_bind_count(tree):
    count = {}
    for st in tree.body:
        names = [st.name] if isinstance(st, (ast.FunctionDef, ast.AsyncFunctionDef, ast.ClassDef)) else _stores(st)
        for nm in names:
            count[nm] = count.get(nm, 0) + 1
    return count


class _Rename(ast.NodeTransformer):
    def __init__(self, names, exprs=None):
        self.names, self.exprs = names, exprs or {}

    def visit_Name(self, n):
        if n.id in self.exprs and isinstance(n.ctx, ast.Load):
            return copy.deepcopy(self.exprs[n.id])
        if n.id in self.names:
            return ast.copy_location(ast.Name(id=self.names[n.id], ctx=n.ctx), n)
        return n


# ----------------------------------------------------------------------------- step 3
def _statement_helpers(tree):
    count = _module_bind_count(tree)
    out = {}
    for st in tree.body:
        if not isinstance(st, ast.FunctionDef) or st.decorator_list or count.get(st.name) != 1 or st.name == FN:
            continue
        a = st.args
        if a.vararg or a.kwarg or a.kwonlyargs or a.defaults or a.posonlyargs:
            continue
        body = pn.strip_doc(ast.parse(ast.unparse(st)).body[0].body)
        if len(body) < 2 or not isinstance(body[-1], ast.Return) or body[-1].value is None:
            continue
        inner = [x for s in body for x in ast.walk(s)]
        if any(isinstance(x, _FORBIDDEN_IN_HELPER) for x in inner) or sum(isinstance(x, ast.Return) for x in inner) != 1:
            continue
        params = [x.arg for x in a.args]
        bound = set(_stores(ast.Module(body=body, type_ignores=[])))
        if bound & set(params) or len(set(params)) != len(params):
            continue
        free = {x.id for x in inner if isinstance(x, ast.Name)} - bound - set(params)
        out[st.name] = (params, body, bound, free)
    return out


def _inline_statement_helpers(fn, helpers):
    if not helpers:
        return fn, 0
    caller_bound = set(_stores(fn)) | {x.arg for x in ast.walk(fn) if isinstance(x, ast.arg)}
    done = 0
    new_body = []
    for st in fn.body:
        call = st.value if isinstance(st, (ast.Assign, ast.Return, ast.Expr)) else None
        ok = (isinstance(call, ast.Call) and isinstance(call.func, ast.Name) and call.func.id in helpers
              and call.func.id not in caller_bound and not call.keywords
              and (not isinstance(st, ast.Assign) or (len(st.targets) == 1 and isinstance(st.targets[0], ast.Name))))
        if ok:
            params, body, bound, free = helpers[call.func.id]
            ok = (len(call.args) == len(params) and not (free & caller_bound)
                  and all(isinstance(x, ast.Constant) or (isinstance(x, ast.Name) and isinstance(x.ctx, ast.Load)) for x in call.args))
        if not ok:
            new_body.append(st)
            continue
        used = _ids(fn) | _ids(ast.Module(body=body, type_ignores=[])) | {s.id if isinstance(s, ast.Name) else "" for s in call.args}
        fresh = {}
        for nm in sorted(bound):
            k = 0
            while f"{nm}__h{k}" in used:
                k += 1
            fresh[nm] = f"{nm}__h{k}"
            used.add(fresh[nm])
        r = _Rename(fresh, dict(zip(params, call.args)))
        stmts = [r.visit(copy.deepcopy(s)) for s in body]
        last = copy.copy(st)
        last.value = stmts[-1].value
        new_body.extend(stmts[:-1] + [last])
        done += 1
    fn.body = new_body
    return ast.fix_missing_locations(fn), done


# ----------------------------------------------------------------------------- steps 4-6
def _swap_not_else(stmts):
    out = []
    for st in stmts:
        if isinstance(st, ast.If) and st.orelse and isinstance(st.test, ast.UnaryOp) and isinstance(st.test.op, ast.Not):
            st = ast.copy_location(ast.If(test=st.test.operand, body=st.orelse, orelse=st.body), st)
        out.append(st)
    return out


def _norm_cond(c):
    """-> list of conjuncts in normal form (evaluated left to right, short-circuit)."""
    if isinstance(c, ast.BoolOp) and isinstance(c.op, ast.And):
        return [x for v in c.values for x in _norm_cond(v)]
    if isinstance(c, ast.UnaryOp) and isinstance(c.op, ast.Not):
        o = c.operand
        if isinstance(o, ast.UnaryOp) and isinstance(o.op, ast.Not):
            return _norm_cond(o.operand)
        if isinstance(o, ast.Compare) and len(o.ops) == 1 and isinstance(o.ops[0], (ast.Is, ast.IsNot)):
            op = ast.IsNot() if isinstance(o.ops[0], ast.Is) else ast.Is()
            return _norm_cond(ast.Compare(left=o.left, ops=[op], comparators=o.comparators))
    if isinstance(c, ast.Compare) and len(c.ops) == 1 and isinstance(c.ops[0], (ast.Is, ast.IsNot)):
        a, b = sorted([c.left, c.comparators[0]], key=lambda e: (isinstance(e, ast.Constant), _u(e)))
        return [ast.Compare(left=a, ops=c.ops, comparators=[b])]
    return [c]


def _loop_to_comp(u, loop, fn):
    """The comprehension a `for` nest appending to `u` builds, or None."""
    gens, targets = [], []
    node = [loop]
    while True:
        if len(node) >= 2 and isinstance(node[0], ast.If) and not node[0].orelse and len(node[0].body) == 1 \
                and isinstance(node[0].body[0], ast.Continue) and gens:
            node = [ast.If(test=ast.UnaryOp(op=ast.Not(), operand=node[0].test), body=node[1:], orelse=[])]
        if len(node) != 1:
            return None
        st = node[0]
        if isinstance(st, ast.For) and not st.orelse and isinstance(st.target, ast.Name):
            gens.append(ast.comprehension(target=st.target, iter=st.iter, ifs=[], is_async=0))
            targets.append(st.target.id)
            node = st.body
        elif isinstance(st, ast.If) and not st.orelse and gens:
            gens[-1].ifs.append(st.test)
            node = st.body
        elif isinstance(st, ast.Expr) and isinstance(st.value, ast.Call) and gens:
            c = st.value
            if not (isinstance(c.func, ast.Attribute) and c.func.attr == "append" and isinstance(c.func.value, ast.Name)
                    and c.func.value.id == u and len(c.args) == 1 and not c.keywords and not isinstance(c.args[0], ast.Starred)):
                return None
            elt = c.args[0]
            break
        else:
            return None
    params = {x.arg for x in ast.walk(fn) if isinstance(x, ast.arg)}
    if len(set(targets)) != len(targets) or set(targets) & params or u in targets:
        return None
    inside = sum(1 for x in ast.walk(loop) if isinstance(x, ast.Name) and x.id in targets)
    total = sum(1 for x in ast.walk(fn) if isinstance(x, ast.Name) and x.id in targets)
    if inside != total:
        return None
    if any(isinstance(x, (ast.Break, ast.NamedExpr)) for x in ast.walk(loop)):
        return None
    if sum(1 for x in ast.walk(loop) if isinstance(x, ast.Name) and x.id == u) != 1:
        return None
    return ast.ListComp(elt=elt, generators=gens)


def _loops_to_comps(fn):
    body, out, i = fn.body, [], 0
    while i < len(body):
        st = body[i]
        if (isinstance(st, ast.Assign) and len(st.targets) == 1 and isinstance(st.targets[0], ast.Name)
                and ((isinstance(st.value, ast.List) and not st.value.elts) or _u(st.value) == "list()")
                and i + 1 < len(body) and isinstance(body[i + 1], ast.For)):
            comp = _loop_to_comp(st.targets[0].id, body[i + 1], fn)
            if comp is not None:
                out.append(ast.copy_location(ast.Assign(targets=st.targets, value=comp), st))
                i += 2
                continue
        out.append(st)
        i += 1
    fn.body = out
    return ast.fix_missing_locations(fn)


def _drop_copies(fn):
    """Adjacent top-level `X = E; Y = X` with X occurring nowhere else in the function  ==  `Y = E`."""
    body, out, i = fn.body, [], 0
    while i < len(body):
        st = body[i]
        nxt = body[i + 1] if i + 1 < len(body) else None
        if (isinstance(st, ast.Assign) and len(st.targets) == 1 and isinstance(st.targets[0], ast.Name)
                and isinstance(nxt, ast.Assign) and len(nxt.targets) == 1 and isinstance(nxt.targets[0], ast.Name)
                and isinstance(nxt.value, ast.Name) and nxt.value.id == st.targets[0].id
                and nxt.targets[0].id != st.targets[0].id
                and sum(1 for x in ast.walk(fn) if isinstance(x, ast.Name) and x.id == st.targets[0].id) == 2):
            out.append(ast.copy_location(ast.Assign(targets=nxt.targets, value=st.value), st))
            i += 2
            continue
        out.append(st)
        i += 1
    fn.body = out
    return ast.fix_missing_locations(fn)


def _unfold_expression_helpers(fn, helpers):
    """c09_norm step 0 with the caller's bound names taken conservatively (every name bound anywhere in the function, nested
    scopes and parameters included; c09_norm.unfold_helpers gives up on a nested `nonlocal`, which this function has)."""
    if not helpers:
        return fn
    caller_bound = set(_stores(fn)) | {x.arg for x in ast.walk(fn) if isinstance(x, ast.arg)}
    for _ in range(4):
        u = cn._Unfold(helpers, caller_bound)
        fn = ast.fix_missing_locations(u.visit(fn))
        if not u.n:
            break
    return fn


# ----------------------------------------------------------------------------- recognition
def _guard_scope(lc, model):
    """ListComp -> True / False (all graphs / main graph) or a text saying why it is not a recognised guard."""
    if not isinstance(lc, ast.ListComp) or any(g.is_async for g in lc.generators):
        return "not a list comprehension"
    targets = [g.target.id if isinstance(g.target, ast.Name) else None for g in lc.generators]
    if None in targets or len(set(targets)) != len(targets) or model in targets:
        return f"comprehension targets not plain distinct names: {[_u(g.target) for g in lc.generators]}"
    ren = _Rename({**{t: f"${i}" for i, t in enumerate(targets)}, model: "$M"})
    gens = []
    for g in lc.generators:
        g = ren.visit(copy.deepcopy(g))
        gens.append((_u(g.target), _u(g.iter), [_u(x) for c in g.ifs for x in _norm_cond(c)]))
    if any(isinstance(x, (ast.NamedExpr, ast.Yield, ast.YieldFrom, ast.Await)) for x in ast.walk(lc)):
        return "walrus / yield / await inside the guard comprehension"
    if gens == [("$0", "$M.graph.initializers.values()", ["$0.const_value is None"])]:
        return False
    if gens == [("$0", "$M.graphs()", []), ("$1", "$0.initializers.values()", ["$1.const_value is None"])]:
        return True
    return f"guard comprehension not recognised: {gens}"


def _truth_of(test, u_name, lc_ok):
    """Is `test` the truth value of the guard list?  u_name: the list's local name."""
    def is_u(e):
        return isinstance(e, ast.Name) and e.id == u_name

    def is_len(e):
        return isinstance(e, ast.Call) and _u(e.func) == "len" and len(e.args) == 1 and not e.keywords and is_u(e.args[0])
    if is_u(test):
        return True
    if not lc_ok:
        return False
    if isinstance(test, ast.Call) and _u(test.func) == "bool" and len(test.args) == 1 and not test.keywords and is_u(test.args[0]):
        return True
    if isinstance(test, ast.Compare) and len(test.ops) == 1:
        l, op, r = test.left, test.ops[0], test.comparators[0]
        const = lambda e, v: isinstance(e, ast.Constant) and type(e.value) is int and e.value == v
        if is_len(l):
            return (isinstance(op, (ast.Gt, ast.NotEq)) and const(r, 0)) or (isinstance(op, ast.GtE) and const(r, 1))
        if is_len(r):
            return (isinstance(op, (ast.Lt, ast.NotEq)) and const(l, 0)) or (isinstance(op, ast.LtE) and const(l, 1))
    return False


def _contains_save(st):
    return any(isinstance(x, ast.Call) and _u(x.func) == "ir.save" for x in ast.walk(st))


def normal_form(tree):
    """The function after steps 1-5 (None when it is not there)."""
    fn = next((n for n in tree.body if isinstance(n, ast.FunctionDef) and n.name == FN), None)
    if fn is None:
        return None
    fn = cn._strip(ast.parse(ast.unparse(fn)).body[0])
    ehelpers = cn.expression_helpers(tree, lambda st: st.name == FN)
    shelpers = _statement_helpers(tree)
    for _ in range(4):
        before = ast.dump(fn)
        fn = _unfold_expression_helpers(fn, ehelpers)
        fn, _n = _inline_statement_helpers(fn, shelpers)
        if ast.dump(fn) == before:
            break
    fn.body = pn.flatten(_swap_not_else(fn.body))
    fn = _drop_copies(_loops_to_comps(ast.fix_missing_locations(fn)))
    return ast.parse(ast.unparse(ast.fix_missing_locations(fn))).body[0]


def analyse(text):
    problems = []
    tree = ast.parse(text)
    count = _module_bind_count(tree)
    if count.get(FN, 0) > 1:
        return None, [f"{FN} bound {count[FN]} times at module level"]
    fn = normal_form(tree)
    if fn is None:
        return None, [f"{FN} not found"]
    args = [a.arg for a in fn.args.args]
    if args[:2] != ["model", "model_path"] or fn.args.posonlyargs:
        problems.append(f"unexpected parameters {args}")
        if len(args) < 2:
            return None, problems
    M, P = args[0], args[1]
    stores = _stores(fn)
    for nm in (M, P, "ir", "pathlib", "len", "bool", "ValueError"):
        if nm in stores or (nm in ("len", "bool", "ValueError") and count.get(nm)):
            problems.append(f"`{nm}` is re-bound")
    nested_params = {x.arg for d in ast.walk(fn) if isinstance(d, (ast.FunctionDef, ast.Lambda)) and d is not fn
                     for x in ast.walk(d.args) if isinstance(x, ast.arg)}
    if {M, P} & nested_params:
        problems.append("a nested function re-uses a parameter name")
    body = fn.body

    # ---- guard
    all_graphs, a_idx, b_idx, u_name, guard_node, why = None, None, None, None, None, []
    for i, st in enumerate(body):
        if not (isinstance(st, ast.If) and st.body and isinstance(st.body[0], ast.Raise) and "ValueError" in _u(st.body[0])):
            continue
        if isinstance(st.test, ast.ListComp):                      # the list is the test itself
            sc = _guard_scope(st.test, M)
            if isinstance(sc, bool):
                all_graphs, a_idx, b_idx, guard_node = sc, i, i, st.test
                break
            why.append(sc)
            continue
        for j in range(i - 1, -1, -1):
            d = body[j]
            if not (isinstance(d, ast.Assign) and len(d.targets) == 1 and isinstance(d.targets[0], ast.Name)):
                continue
            nm = d.targets[0].id
            if not _truth_of(st.test, nm, True):
                continue
            sc = _guard_scope(d.value, M)
            if not isinstance(sc, bool):
                why.append(sc)
                break
            if stores.count(nm) != 1:
                why.append(f"guard list `{nm}` is bound more than once")
                break
            if any(isinstance(x, ast.Attribute) and isinstance(x.value, ast.Name) and x.value.id == nm for x in ast.walk(fn)) or \
                    any(isinstance(x, ast.Subscript) and isinstance(x.value, ast.Name) and x.value.id == nm
                        and not isinstance(x.ctx, ast.Load) for x in ast.walk(fn)):
                why.append(f"guard list `{nm}` is modified after it is built")
                break
            if any(nm in _ids(s) for s in body[j + 1:i]):
                why.append(f"guard list `{nm}` is used between its construction and the test")
                break
            all_graphs, a_idx, b_idx, u_name, guard_node = sc, j, i, nm, d.value
            break
        if all_graphs is not None:
            break
    if all_graphs is None:
        problems.extend(why or ["guard `U = [.. if v.const_value is None]; if U: raise ValueError` not found at the top level "
                                "of the function"])

    # ---- ir.save calls and the data file name
    save_idx = [i for i, st in enumerate(body) if _contains_save(st)]
    if not save_idx:
        problems.append("no ir.save(model, model_path, external_data=data_path) call")
    elif b_idx is not None and not (b_idx < min(save_idx)):
        problems.append("guard does not precede every ir.save call")
    single = {}
    for i, st in enumerate(body):
        if isinstance(st, ast.Assign) and len(st.targets) == 1 and isinstance(st.targets[0], ast.Name) \
                and stores.count(st.targets[0].id) == 1:
            single[st.targets[0].id] = (i, st.value)

    def resolve(e, before, depth=0):
        class R(ast.NodeTransformer):
            def visit_Name(s, n):
                if isinstance(n.ctx, ast.Load) and n.id in single and single[n.id][0] < before and depth < 6:
                    return resolve(copy.deepcopy(single[n.id][1]), single[n.id][0], depth + 1)
                return n
        return R().visit(e)
    canon = [ast.dump(ast.parse(s, mode="eval").body) for s in
             (f"f'{{pathlib.Path({P}).name}}.data'", f"pathlib.Path({P}).name + '.data'")]
    for i in save_idx:
        for call in [x for x in ast.walk(body[i]) if isinstance(x, ast.Call) and _u(x.func) == "ir.save"]:
            a = [_u(x) for x in call.args]
            kw = {k.arg: k.value for k in call.keywords}
            if a != [M, P] or "external_data" not in kw or set(kw) - {"external_data", "callback"}:
                problems.append(f"ir.save call not recognised: args={a} kw={ {k: _u(v) for k, v in kw.items()} }")
                continue
            e = resolve(copy.deepcopy(kw["external_data"]), i)
            if ast.dump(ast.parse(_u(e), mode="eval").body) not in canon:
                problems.append(f'data file name is not f"{{pathlib.Path({P}).name}}.data": external_data={_u(e)}')

    # ---- every other call belongs to the modelled step sequence
    with_targets = {w.optional_vars.id for x in ast.walk(fn) if isinstance(x, ast.With) for w in x.items
                    if isinstance(w.optional_vars, ast.Name)}
    other_calls = []
    skip = {id(x) for x in ast.walk(guard_node)} if guard_node is not None else set()
    for x in ast.walk(fn):
        if not isinstance(x, ast.Call) or id(x) in skip:
            continue
        f = _u(x.func)
        if f in ("pathlib.Path", "importlib.util.find_spec", "tqdm.tqdm", "ValueError", "ir.save", "len", "bool"):
            continue
        if isinstance(x.func, ast.Attribute):
            root, chain = x.func, []
            while isinstance(root, ast.Attribute):
                chain.append(root.attr)
                root = root.value
            chain = ".".join(reversed(chain))
            if isinstance(root, ast.Name):
                if chain in ("update", "set_description") and root.id in with_targets:
                    continue
                if chain == "dtype.short_name" and root.id in nested_params:
                    continue
        other_calls.append(f)
    if other_calls:
        problems.append(f"calls outside the modelled step sequence: {sorted(set(other_calls))}")
    return all_graphs, problems
