(* C08 (third group of families) -- models of the trace-time Python of torch_lib's core.py: aten_all / aten_any (+ .dim, .dims),
   aten_argmax / aten_argmin, aten_prod / aten_prod_dim_int, aten_logsumexp, the var / std family (_aten_var_onnx,
   _aten_var_dim_onnx, _aten_var_mean_onnx, _aten_var_mean_dim_onnx), aten_scatter_src / _value / _add / _reduce,
   aten_convolution / aten_conv{1,2,3}d attribute handling.
   For each: the composition of ONNX operators it emits (`aten_f`, operator semantics of Onnx.v / Onnx2.v / Onnx3.v) and the
   skeleton of the emitted graph (`skel_f`).  Both follow what the code DOES (pinned commit).  No proofs in this file. *)
From Coq Require Import ZArith List Bool String QArith.
Require Import OV.Torch.Onnx OV.Torch.Onnx2 OV.Torch.Onnx3 OV.Torch.Spec OV.Torch.Spec2 OV.Torch.Spec3 OV.Torch.Aten OV.Torch.Aten2.
Import ListNotations.
Local Open Scope string_scope.
Local Open Scope Z_scope.

(* ================================================================== aten_all_dim / aten_any_dim
   Cast(self, BOOL); Cast(.., INT64); dims = Reshape(dim, [-1]); ReduceMin | ReduceMax(.., dims, keepdims); Cast(.., BOOL) *)
Definition aten_allany_dim_shape (s : list Z) (dim : Z) (keepdim : bool) : option (list Z) :=
  reduce_shape s (Some [dim]) keepdim.
Definition aten_all_fiber (l : list Z) : bool := cast_bool (reduce_min_i64 (map (fun v => cast_b2i (cast_bool v)) l)).
Definition aten_any_fiber (l : list Z) : bool := cast_bool (reduce_max_i64 (map (fun v => cast_b2i (cast_bool v)) l)).
Definition red_name (any : bool) : string := if any then "ReduceMax" else "ReduceMin".
Definition skel_allany_dim (any : bool) (dim : Z) (keepdim : bool) : skel :=
  [("Cast", [[9]]); ("Cast", [[7]]); ("Reshape", [[0]; [dim]; [-1]]); (red_name any, [kd keepdim; [0]]); ("Cast", [[9]])].

(* aten_all_dims / aten_any_dims: `if not dim` (None and () alike): _no_dim variant; otherwise one aten_*_dim(keepdim = True)
   per entry, then Squeeze(self, list(dim)) when keepdim is false.
   _no_dim (also aten_all / aten_any with keepdims = False): rank 0: Cast(self, BOOL); else Cast, Cast, ReduceMin | ReduceMax
   (no axes, keepdims), Cast *)
Fixpoint allany_fold (s : list Z) (ds : list Z) : option (list Z) :=
  match ds with
  | [] => Some s
  | d :: t => obind (aten_allany_dim_shape s d true) (fun s1 => allany_fold s1 t)
  end.
Definition aten_allany_nodim_shape (s : list Z) (keepdim : bool) : option (list Z) :=
  if zlen s =? 0 then Some s else reduce_shape s None keepdim.
Definition aten_allany_dims_shape (s : list Z) (dims : option (list Z)) (keepdim : bool) : option (list Z) :=
  match dims with
  | None | Some [] => aten_allany_nodim_shape s keepdim
  | Some ds => obind (allany_fold s ds) (fun s1 => if keepdim then Some s1 else squeeze_axes s1 ds)
  end.
Definition skel_allany_nodim (any : bool) (s : list Z) (keepdim : bool) : skel :=
  if zlen s =? 0 then [("Cast", [[9]])]
  else [("Cast", [[9]]); ("Cast", [[7]]); (red_name any, [kd keepdim; [0]]); ("Cast", [[9]])].
Definition skel_allany_dims (any : bool) (s : list Z) (dims : option (list Z)) (keepdim : bool) : skel :=
  match dims with
  | None | Some [] => skel_allany_nodim any s keepdim
  | Some ds => (flat_map (fun d => skel_allany_dim any d true) ds ++ (if keepdim then [] else [("Squeeze", [ds])]))%list
  end.
(* proposed_fixes/C08_any_empty_reduction.diff: Greater(ReduceMax(..), 0) instead of Cast(ReduceMax(..), BOOL) *)
Definition aten_any_fiber_fixed (l : list Z) : bool := 0 <? reduce_max_i64 (map (fun v => cast_b2i (cast_bool v)) l).

(* ================================================================== aten_argmax / aten_argmin
   dim None: self = Reshape(self, [-1]); ArgMax(self, keepdims = keepdim) (axis defaults to 0); rank 0: Squeeze(result).
   dim given: rank 0: Reshape(self, [-1]); ArgMax(self, axis = dim, keepdims = keepdim); rank 0: Squeeze(result) *)
Definition aten_argmax_shape (s : list Z) (dim : option Z) (keepdim : bool) : option (list Z) :=
  let scalar := zlen s =? 0 in
  obind (match dim with
         | None => reshape_shape s [-1] false
         | Some _ => if scalar then reshape_shape s [-1] false else Some s
         end) (fun s1 =>
  obind (argmax_shape s1 (match dim with None => 0 | Some d => d end) keepdim) (fun s2 =>
    Some (if scalar then squeeze_all s2 else s2))).
Definition skel_argmax (is_min : bool) (s : list Z) (dim : option Z) (keepdim : bool) : skel :=
  let scalar := zlen s =? 0 in
  let nm := if is_min then "ArgMin" else "ArgMax" in
  ((match dim with None => [("Reshape", [[0]; [-1]])] | Some _ => if scalar then [("Reshape", [[0]; [-1]])] else [] end)
   ++ [(nm, [[match dim with None => 0 | Some d => d end]; kd keepdim; [0]])]
   ++ (if scalar then [("Squeeze", [])] else []))%list.
(* repaired (ready/C08_06_argmax_keepdim_no_dim.diff): dim None, keepdim, rank > 1: Reshape(result, [1] * rank) *)
Definition aten_argmax_shape_fixed (s : list Z) (dim : option Z) (keepdim : bool) : option (list Z) :=
  match dim with
  | None => obind (aten_argmax_shape s None keepdim) (fun s2 =>
              if keepdim && (1 <? zlen s) then reshape_shape s2 (repeat 1 (List.length s)) false else Some s2)
  | Some _ => aten_argmax_shape s dim keepdim
  end.
Definition skel_argmax_v (fixed is_min : bool) (s : list Z) (dim : option Z) (keepdim : bool) : skel :=
  (skel_argmax is_min s dim keepdim ++
   (match dim with
    | None => if fixed && keepdim && (1 <? zlen s) then [("Reshape", [[0]; repeat 1 (List.length s)])] else []
    | Some _ => []
    end))%list.

(* ================================================================== aten_prod / aten_prod_dim_int
   prod: dtype given: Cast(self, dtype); elif self.dtype.is_integer() (bool is not): Cast(self, INT64); ReduceProd(keepdims = 0).
   prod.dim_int: dtype given: Cast; ReduceProd(self, axes = [dim], keepdims).  ReduceProd has no BOOL kernel / type. *)
Definition is_integer_ir (t : Z) : bool := has t [2; 3; 4; 5; 6; 7; 12; 13].
Definition aten_prod_dtype (t : Z) (dtype : option Z) : option Z :=
  let t1 := match dtype with Some d => d | None => if is_integer_ir t then 7 else t end in
  if t1 =? 9 then None else Some t1.
Definition aten_prod_dim_dtype (t : Z) (dtype : option Z) : option Z :=
  let t1 := match dtype with Some d => d | None => t end in
  if t1 =? 9 then None else Some t1.
Definition aten_prod_dim_shape (s : list Z) (dim : Z) (keepdim : bool) : option (list Z) := reduce_shape s (Some [dim]) keepdim.
Definition skel_cast_opt (dtype : option Z) : skel := match dtype with Some d => [("Cast", [[d]])] | None => [] end.
Definition skel_prod (t : Z) (dtype : option Z) : skel :=
  (match dtype with Some d => [("Cast", [[d]])] | None => if is_integer_ir t then [("Cast", [[7]])] else [] end
   ++ [("ReduceProd", [[0]; [0]])])%list.
Definition skel_prod_dim (dtype : option Z) (dim : Z) (keepdim : bool) : skel :=
  (skel_cast_opt dtype ++ [("ReduceProd", [kd keepdim; [0]; [dim]])])%list.

(* ================================================================== aten_logsumexp: rank 0: self; else ReduceLogSumExp(self, dim, keepdims) *)
Definition aten_logsumexp_shape (s : list Z) (dims : list Z) (keepdim : bool) : option (list Z) :=
  if zlen s =? 0 then Some s else reduce_shape s (Some dims) keepdim.
Definition skel_logsumexp (s : list Z) (dims : list Z) (keepdim : bool) : skel :=
  if zlen s =? 0 then [] else [("ReduceLogSumExp", [kd keepdim; [0]; dims])].

(* ================================================================== var / std family
   no dim (_aten_var_onnx): mean = ReduceMean(self, keepdims); var = ReduceMean((self - mean)^2, keepdims);
     correction > 0: numel = ReduceProd(Shape(self)); var = var * numel / (numel - correction)
   dims (_aten_var_dim_onnx): dims = Reshape(dims, [-1]); self - ReduceMean(self, dims, keepdims = 1); var = ReduceMean(.., dims,
     keepdims); correction > 0: numel = ReduceProd(Gather(Shape(self), dims, axis = 0)); same adjustment.
   (an int `dim` is reshaped to a one-entry list: the harness passes it as such) *)
Definition aten_var_shape (s : list Z) (dims : option (list Z)) (keepdim : bool) : option (list Z) :=
  match dims with
  | None => reduce_shape s None keepdim
  | Some ds => obind (reduce_shape s (Some ds) true) (fun _ => reduce_shape s (Some ds) keepdim)
  end.
Definition aten_var_count (s : list Z) (dims : option (list Z)) : option Z :=
  match dims with
  | None => Some (prodZ s)
  | Some ds => option_map prodZ (gather_axis s ds)
  end.
(* per output element: ssd = the exact sum of squared deviations of its n inputs (n = what ReduceMean divides by), numel = the
   count the code computes for the adjustment; ReduceMean over an empty set is undefined *)
Definition aten_var_val (ssd : Q) (n numel : Z) (c : Q) : fval :=
  if n =? 0 then NaN
  else let v := (ssd / inject_Z n)%Q in
       if qpos c then fdiv (v * inject_Z numel) (inject_Z numel - c) else Fin v.
Definition cint (c : Q) : list (list Z) := if (Zpos (Qden c) =? 1) then [[Qnum c]] else [].
Definition skel_var (with_mean sqrt_ : bool) (dims : option (list Z)) (c : Q) (keepdim : bool) : skel :=
  let tail := (if qpos c
               then ([("Shape", [[0]])] ++ (match dims with None => [] | Some _ => [("Gather", [[0]])] end)
                     ++ [("ReduceProd", [[0]; [0]]); ("CastLike", []); ("Mul", []); ("CastLike", cint c); ("Sub", []); ("Div", [])])%list
               else []) in
  ((match dims with
    | None => [("ReduceMean", [kd keepdim; [0]]); ("Sub", []); ("Mul", []); ("ReduceMean", [kd keepdim; [0]])]
    | Some ds => ([("Reshape", [[0]; ds; [-1]])] ++ (if with_mean then [("ReduceMean", [kd keepdim; [0]])] else [])
                  ++ [("ReduceMean", [[1]; [0]]); ("Sub", []); ("Mul", []); ("ReduceMean", [kd keepdim; [0]])])%list
    end) ++ tail ++ (if sqrt_ then [("Sqrt", [])] else []))%list.
(* proposed_fixes/C08_var_count_and_clamp.diff: numel from the reduced shape (every dimension when dims is empty), divisor Max(numel - correction, 0) *)
Definition aten_var_count_fixed (s : list Z) (dims : option (list Z)) : option Z :=
  match dims with
  | None | Some [] => Some (prodZ s)
  | Some ds => option_map prodZ (gather_axis s ds)
  end.
Definition aten_var_val_fixed (ssd : Q) (n numel : Z) (c : Q) : fval :=
  if n =? 0 then NaN
  else let v := (ssd / inject_Z n)%Q in
       if qpos c then fdiv (v * inject_Z numel) (qmax0 (inject_Z numel - c)) else Fin v.

(* ================================================================== scatter family
   scatter.src: a 0-d index / src is unsqueezed at 0; ScatterElements(self, index, src, axis = dim)
   scatter.value: a 0-d index is unsqueezed; src = ConstantOfShape(Shape(index)); ScatterElements
   scatter_add: ScatterElements(self, index, src, axis = dim, reduction = "add") as is
   scatter_reduce.two: a 0-d self: self, index, src reshaped to [-1], the result squeezed; include_self = False: first
   ScatterElements(self, index, ConstantOfShape(Shape(src)), ...) *)
Definition unsq0 (s : list Z) : option (list Z) := if zlen s =? 0 then unsqueeze_axes s [0] else Some s.
Definition aten_scatter_src_shape (s : list Z) (dim : Z) (idx src : list Z) : option (list Z) :=
  obind (unsq0 idx) (fun i1 => obind (unsq0 src) (fun s1 => scatter_elements_shape s dim i1 s1)).
Definition aten_scatter_value_shape (s : list Z) (dim : Z) (idx : list Z) : option (list Z) :=
  obind (unsq0 idx) (fun i1 => scatter_elements_shape s dim i1 i1).
Definition aten_scatter_add_shape (s : list Z) (dim : Z) (idx src : list Z) : option (list Z) :=
  scatter_elements_shape s dim idx src.
Definition aten_scatter_reduce_shape (s : list Z) (dim : Z) (idx src : list Z) (include_self : bool) : option (list Z) :=
  let scalar := zlen s =? 0 in
  let rs := fun x => if scalar then reshape_shape x [-1] false else Some x in
  obind (rs s) (fun s1 => obind (rs idx) (fun i1 => obind (rs src) (fun r1 =>
  obind (if include_self then Some s1 else scatter_elements_shape s1 dim i1 r1) (fun s2 =>
  obind (scatter_elements_shape s2 dim i1 r1) (fun s3 => Some (if scalar then squeeze_all s3 else s3)))))).
Definition skel_unsq0 (s : list Z) : skel := if zlen s =? 0 then [("Unsqueeze", [[0]])] else [].
Definition skel_scatter_src (dim : Z) (idx src : list Z) : skel :=
  (skel_unsq0 idx ++ skel_unsq0 src ++ [("ScatterElements", [[dim]])])%list.
Definition skel_scatter_value (dim : Z) (idx : list Z) : skel :=
  (skel_unsq0 idx ++ [("Shape", [[0]]); ("ConstantOfShape", []); ("ScatterElements", [[dim]])])%list.
Definition skel_scatter_add (dim : Z) : skel := [("ScatterElements", [[dim]])].
Definition skel_scatter_reduce (s : list Z) (dim : Z) (include_self : bool) : skel :=
  let scalar := zlen s =? 0 in
  ((if scalar then [("Reshape", [[0]; [-1]]); ("Reshape", [[0]; [-1]]); ("Reshape", [[0]; [-1]])] else [])
   ++ (if include_self then [] else [("Shape", [[0]]); ("ConstantOfShape", []); ("ScatterElements", [[dim]])])
   ++ [("ScatterElements", [[dim]])] ++ (if scalar then [("Squeeze", [])] else []))%list.

(* ================================================================== convolution attribute handling
   aten_convolution: image_d = rank - 2; a one-entry padding / dilation / stride list is repeated image_d times;
   pads = [*padding, *padding]; output_padding is passed on as it is.
   aten_conv1d / 2d / 3d: lists are taken as they are; bias None: a zero bias of shape Expand(Shape(weight)[0:1], [1])
   (conv1d, conv2d) resp. Concat(Shape(weight)[0:1], [2]) (conv3d: rank 2).
   Returned: (strides, pads, dilations, output_padding) when Conv / ConvTranspose accepts the node. *)
Definition conv_expand1 (e : Z) (l : list Z) : list Z := match l with [v] => repeat v (Z.to_nat e) | _ => l end.
Definition aten_convolution_attrs (e : Z) (stride padding dilation : list Z) (transposed : bool) (output_padding : list Z)
  : option (list Z * list Z * list Z * list Z) :=
  let pd := conv_expand1 e padding in
  let st := conv_expand1 e stride in
  let dl := conv_expand1 e dilation in
  let pads := (pd ++ pd)%list in
  if (if transposed then convT_attrs_ok e st pads dl output_padding 1 else conv_attrs_ok e st pads dl 1)
  then Some (st, pads, dl, output_padding) else None.
Definition aten_convnd_attrs (e : Z) (stride padding dilation : list Z) (has_bias : bool)
  : option (list Z * list Z * list Z * list Z) :=
  let pads := (padding ++ padding)%list in
  let bias_rank := if has_bias then 1 else if e =? 3 then 2 else 1 in
  if conv_attrs_ok e stride pads dilation bias_rank then Some (stride, pads, dilation, []) else None.
(* proposed_fixes/C08_conv_expand_one_entry_lists.diff *)
Definition aten_convolution_attrs_fixed (e : Z) (stride padding dilation : list Z) (transposed : bool) (output_padding : list Z)
  : option (list Z * list Z * list Z * list Z) :=
  aten_convolution_attrs e stride padding dilation transposed (conv_expand1 e output_padding).
Definition aten_convnd_attrs_fixed (e : Z) (stride padding dilation : list Z) (has_bias : bool)
  : option (list Z * list Z * list Z * list Z) :=
  let pd := conv_expand1 e padding in
  let st := conv_expand1 e stride in
  let dl := conv_expand1 e dilation in
  if conv_attrs_ok e st (pd ++ pd)%list dl 1 then Some (st, (pd ++ pd)%list, dl, []) else None.
(* output shape [N, C_out, spatial...] (an unbatched input is unsqueezed at 0 and the result squeezed at 0) *)
Fixpoint conv_dims (ns ks ss pbs pes ds : list Z) : list Z :=
  match ns, ks, ss, pbs, pes, ds with
  | n :: ns', k :: ks', s :: ss', pb :: pbs', pe :: pes', d :: ds' => conv_out n k s pb pe d :: conv_dims ns' ks' ss' pbs' pes' ds'
  | _, _, _, _, _, _ => []
  end.
Fixpoint convT_dims (ns ks ss pbs pes ds ops : list Z) : list Z :=
  match ns, ks, ss, pbs, pes, ds, ops with
  | n :: ns', k :: ks', s :: ss', pb :: pbs', pe :: pes', d :: ds', op :: ops' =>
      convT_out n k s pb pe d op :: convT_dims ns' ks' ss' pbs' pes' ds' ops'
  | _, _, _, _, _, _, _ => []
  end.
Definition conv_shape (s w : list Z) (groups : Z) (transposed : bool) (attrs : list Z * list Z * list Z * list Z) : option (list Z) :=
  let '(st, pads, dl, op) := attrs in
  let e := zlen w - 2 in
  let nobatch := negb (zlen s =? zlen w) in
  obind (if nobatch then unsqueeze_axes s [0] else Some s) (fun s1 =>
  match s1, w with
  | n :: _ :: sp, w0 :: w1 :: ks =>
      let out := if transposed then n :: w1 * groups :: convT_dims sp ks st (take e pads) (drop e pads) dl op
                 else n :: w0 :: conv_dims sp ks st (take e pads) (drop e pads) dl in
      if nobatch then squeeze_axes out [0] else Some out
  | _, _ => None
  end).
Definition skel_conv_core (s w : list Z) (groups : Z) (transposed : bool) (attrs : list Z * list Z * list Z * list Z) : skel :=
  let '(st, pads, dl, op) := attrs in
  let nobatch := negb (zlen s =? zlen w) in
  ((if nobatch then [("Unsqueeze", [[0]])] else [])
   ++ [if transposed then ("ConvTranspose", [dl; [groups]; drop 2 w; op; pads; st]) else ("Conv", [dl; [groups]; drop 2 w; pads; st])]
   ++ (if nobatch then [("Squeeze", [[0]])] else []))%list.
Definition skel_zero_bias (e : Z) (has_bias : bool) : skel :=
  if has_bias then []
  else [("Shape", [[1]; [0]]); (if e =? 3 then ("Concat", [[0]; [2]]) else ("Expand", [[1]])); ("CastLike", [[0]]); ("Expand", [])].

(* ================================================================== repaired variants (proposed_fixes/ready/C08_*.diff); the harness picks
   them when the skeleton it observes shows the repaired code.  A flag that is false gives the code as read at the pinned commit. *)
(* C08_04: Greater(ReduceMax(..), 0) instead of Cast(.., BOOL) in aten_any / aten_any_dim / _aten_any_dims_no_dim *)
Definition last_allany (any gt : bool) : string * list (list Z) := if any && gt then ("Greater", [[0]]) else ("Cast", [[9]]).
Definition skel_allany_dim_v (gt any : bool) (dim : Z) (keepdim : bool) : skel :=
  [("Cast", [[9]]); ("Cast", [[7]]); ("Reshape", [[0]; [dim]; [-1]]); (red_name any, [kd keepdim; [0]]); last_allany any gt].
Definition skel_allany_nodim_v (gt any : bool) (s : list Z) (keepdim : bool) : skel :=
  if zlen s =? 0 then [("Cast", [[9]])]
  else [("Cast", [[9]]); ("Cast", [[7]]); (red_name any, [kd keepdim; [0]]); last_allany any gt].
(* C08_05: dim None -> no-dim variant; dim = () or a 0-d input -> Cast(self, BOOL); else as before *)
Definition aten_allany_dims_shape_fixed (s : list Z) (dims : option (list Z)) (keepdim : bool) : option (list Z) :=
  match dims with
  | None => aten_allany_nodim_shape s keepdim
  | Some ds => if (zlen ds =? 0) || (zlen s =? 0) then Some s else aten_allany_dims_shape s (Some ds) keepdim
  end.
Definition skel_allany_dims_v (gt df any : bool) (s : list Z) (dims : option (list Z)) (keepdim : bool) : skel :=
  match dims with
  | None => skel_allany_nodim_v gt any s keepdim
  | Some ds =>
      if df && ((zlen ds =? 0) || (zlen s =? 0)) then [("Cast", [[9]])]
      else match ds with
           | [] => skel_allany_nodim_v gt any s keepdim
           | _ => (flat_map (fun d => skel_allany_dim_v gt any d true) ds ++ (if keepdim then [] else [("Squeeze", [ds])]))%list
           end
  end.
(* C08_07: integral inputs (BOOL included) are cast to INT64 in aten_prod and aten_prod_dim_int; C08_08: a 0-d input of prod.dim_int
   is returned through Identity *)
Definition aten_prod_dtype_fixed (t : Z) (dtype : option Z) : option Z :=
  let t1 := match dtype with Some d => d | None => if is_integral t then 7 else t end in
  if t1 =? 9 then None else Some t1.
Definition aten_prod_dim_shape_fixed (s : list Z) (dim : Z) (keepdim : bool) : option (list Z) :=
  if zlen s =? 0 then Some s else aten_prod_dim_shape s dim keepdim.
Definition skel_prod_v (pf : bool) (t : Z) (dtype : option Z) : skel :=
  (match dtype with Some d => [("Cast", [[d]])] | None => if is_integer_ir t || (pf && (t =? 9)) then [("Cast", [[7]])] else [] end
   ++ [("ReduceProd", [[0]; [0]])])%list.
Definition skel_prod_dim_v (pf zf : bool) (s : list Z) (t : Z) (dtype : option Z) (dim : Z) (keepdim : bool) : skel :=
  (match dtype with Some d => [("Cast", [[d]])] | None => if pf && is_integral t then [("Cast", [[7]])] else [] end
   ++ (if zf && (zlen s =? 0) then [("Identity", [])] else [("ReduceProd", [kd keepdim; [0]; [dim]])]))%list.

(* ================================================================== prims_var (prims.py; the registered variance): `if not dims: dims = None`;
   inp - ReduceMean(inp, dims, keepdims = 1); var = ReduceMean(.., dims, keepdims = 0); `if correction != 0`: numel =
   ReduceProd(Gather(Shape(inp), dims, axis = 0)) -- with dims None the Gather has no indices and tracing fails --;
   var * numel / (numel - correction).  Flags: cf = C08_09 (count from the whole shape without dims), nf = C08_10 (divisor clamped at 0) *)
Definition pv_dims (dims : list Z) : option (list Z) := match dims with [] => None | _ => Some dims end.
Definition prims_var_shape (s : list Z) (dims : list Z) : option (list Z) :=
  obind (reduce_shape s (pv_dims dims) true) (fun _ => reduce_shape s (pv_dims dims) false).
Definition prims_var_count (cf : bool) (s : list Z) (dims : list Z) : option Z :=
  match dims with
  | [] => if cf then Some (prodZ s) else None
  | _ => option_map prodZ (gather_axis s dims)
  end.
Definition prims_var_val (nf : bool) (ssd : Q) (n numel : Z) (c : Q) : fval :=
  if n =? 0 then NaN
  else let v := (ssd / inject_Z n)%Q in
       if qzero c then Fin v
       else fdiv (v * inject_Z numel) (if nf then qmax0 (inject_Z numel - c) else (inject_Z numel - c)%Q).
Definition skel_prims_var (cf nf : bool) (dims : list Z) (c : Q) : skel :=
  let ax := match dims with [] => [] | _ => [dims] end in
  ([("ReduceMean", ([1] :: [0] :: ax)); ("Sub", []); ("Mul", []); ("ReduceMean", ([0] :: [0] :: ax))]
   ++ (if qzero c then []
       else ([("Shape", [[0]])] ++ (match dims with [] => [] | _ => [("Gather", [[0]; dims])] end)
             ++ [("ReduceProd", [[0]; [0]]); ("CastLike", []); ("Mul", []); ("CastLike", cint c); ("Sub", [])]
             ++ (if nf then [("CastLike", [[0]]); ("Max", [])] else []) ++ [("Div", [])])))%list.

(* ================================================================== convolution, flagged: of = C08_11 (output_padding expanded), lf = C08_12 (conv2d / conv3d
   expand one-entry lists), bf = C08_13 (conv3d builds a 1-D zero bias) *)
Definition aten_convolution_attrs_v (of : bool) (e : Z) (stride padding dilation : list Z) (transposed : bool) (output_padding : list Z) :=
  aten_convolution_attrs e stride padding dilation transposed (if of then conv_expand1 e output_padding else output_padding).
Definition aten_convnd_attrs_v (lf bf : bool) (e : Z) (stride padding dilation : list Z) (has_bias : bool) :=
  let x := fun l => if lf then conv_expand1 e l else l in
  aten_convnd_attrs e (x stride) (x padding) (x dilation) (has_bias || bf).
Definition skel_zero_bias_v (bf : bool) (e : Z) (has_bias : bool) : skel :=
  if has_bias then []
  else [("Shape", [[1]; [0]]); (if (e =? 3) && negb bf then ("Concat", [[0]; [2]]) else ("Expand", [[1]])); ("CastLike", [[0]]); ("Expand", [])].

(* ================================================================== scatter_add / scatter_reduce, flagged: uf = C08_14 (a 0-d index / src is unsqueezed at 0 as in scatter.src;
   scatter_reduce only when self is not 0-d) *)
Definition aten_scatter_add_shape_v (uf : bool) (s : list Z) (dim : Z) (idx src : list Z) : option (list Z) :=
  if uf then aten_scatter_src_shape s dim idx src else aten_scatter_add_shape s dim idx src.
Definition aten_scatter_reduce_shape_v (uf : bool) (s : list Z) (dim : Z) (idx src : list Z) (include_self : bool) : option (list Z) :=
  if uf && negb (zlen s =? 0)
  then obind (unsq0 idx) (fun i1 => obind (unsq0 src) (fun s1 => aten_scatter_reduce_shape s dim i1 s1 include_self))
  else aten_scatter_reduce_shape s dim idx src include_self.
Definition skel_scatter_add_v (uf : bool) (dim : Z) (idx src : list Z) : skel :=
  if uf then skel_scatter_src dim idx src else skel_scatter_add dim.
Definition skel_scatter_reduce_v (uf : bool) (s : list Z) (dim : Z) (idx src : list Z) (include_self : bool) : skel :=
  ((if uf && negb (zlen s =? 0) then (skel_unsq0 idx ++ skel_unsq0 src)%list else []) ++ skel_scatter_reduce s dim include_self)%list.

(* proposed_fixes/ready/C08_17: scatter.src / scatter.value / scatter_add on a 0-d self: Reshape(self, [-1]), ScatterElements, Squeeze *)
Definition scalar_detour (sf : bool) (s : list Z) (f : list Z -> option (list Z)) : option (list Z) :=
  if sf && (zlen s =? 0) then obind (reshape_shape s [-1] false) (fun s1 => option_map squeeze_all (f s1)) else f s.
Definition aten_scatter_src_shape_v (sf : bool) (s : list Z) (dim : Z) (idx src : list Z) : option (list Z) :=
  scalar_detour sf s (fun s1 => aten_scatter_src_shape s1 dim idx src).
Definition aten_scatter_value_shape_v (sf : bool) (s : list Z) (dim : Z) (idx : list Z) : option (list Z) :=
  scalar_detour sf s (fun s1 => aten_scatter_value_shape s1 dim idx).
Definition skel_detour (sf : bool) (s : list Z) (front last : skel) : skel :=
  if sf && (zlen s =? 0) then (front ++ [("Reshape", [[0]; [-1]])] ++ last ++ [("Squeeze", [])])%list else (front ++ last)%list.
Definition skel_scatter_src_v (sf : bool) (s : list Z) (dim : Z) (idx src : list Z) : skel :=
  skel_detour sf s (skel_unsq0 idx ++ skel_unsq0 src)%list [("ScatterElements", [[dim]])].
Definition skel_scatter_value_v (sf : bool) (s : list Z) (dim : Z) (idx : list Z) : skel :=
  skel_detour sf s (skel_unsq0 idx ++ [("Shape", [[0]]); ("ConstantOfShape", [])])%list [("ScatterElements", [[dim]])].
(* scatter_add: uf (C08_14, already applied upstream) must be on for the detour to exist *)
Definition aten_scatter_add_shape_v2 (uf sf : bool) (s : list Z) (dim : Z) (idx src : list Z) : option (list Z) :=
  if uf then aten_scatter_src_shape_v sf s dim idx src else aten_scatter_add_shape s dim idx src.
Definition skel_scatter_add_v2 (uf sf : bool) (s : list Z) (dim : Z) (idx src : list Z) : skel :=
  if uf then skel_scatter_src_v sf s dim idx src else skel_scatter_add dim.
