(* The three catalogued defects of the exporter that have no repair yet, as instances of proved statements (C13). *)
From Coq Require Import List String Bool Arith Lia.
Require Import OV.Export.Cleanup OV.Export.CleanupProofs.
Require Import OV.Graph.Syntax OV.Graph.Names OV.Script.Syntax OV.Script.Sets OV.Script.Translate OV.Script.TranslateForDefs OV.Script.TranslateNestDefs
               OV.Export.Emit OV.Export.EmitProofs OV.Export.EmitCF.
Import ListNotations.
Local Open Scope string_scope.

(* ---- 1. trip count AND condition: `for i in range(n): if not c: break; ...` ------------------------------------ *)
(* the converter model translates a loop body statement by statement; a conditional break is accepted only as the
   LAST statement and only with a NAME as its condition: a body that starts with `if not c: break` is refused *)
Theorem break_head_rejected : forall globals cic afuel inputs fu lo_body c rest sc_b,
  tr_loop_body globals cic afuel inputs fu lo_body (SIf (EUn "Not" c) [SBreak] [] :: rest) sc_b = fail.
Proof. intros. rewrite tr_loop_body_cons. reflexivity. Qed.

(* and that is what the exporter prints exactly for the Loop nodes of the form FForBreak (the trip count or the
   iteration number is used, and the condition is used) *)
Theorem forbreak_emits_break_head : forall rename infun il rm consts sub ins outs bn body t ss,
  emit_loop rename infun il rm consts sub ins outs [] ((bn, body) :: t) = Some ss ->
  loop_form_of ins body = Some FForBreak ->
  exists pre i n x inner post, ss = (pre ++ [SFor i n (SIf (EUn "Not" (EVar x)) [SBreak] [] :: inner)] ++ post)%list.
Proof.
  intros rename infun il rm consts sub ins outs bn body t ss H Hf. unfold emit_loop in H. rewrite Hf in H.
  destruct (g_ins body) as [|iv [|cin fins]]; try discriminate. destruct (g_outs body) as [|cout fouts]; try discriminate.
  destruct (sub body) as [sb|]; [|discriminate]. inversion H. do 6 eexists. reflexivity.
Qed.
Theorem other_forms_emit_no_break_head : forall rename infun il rm consts sub ins outs bn body t ss form,
  emit_loop rename infun il rm consts sub ins outs [] ((bn, body) :: t) = Some ss ->
  loop_form_of ins body = Some form -> form <> FForBreak ->
  exists pre loop post, ss = (pre ++ [loop] ++ post)%list /\
    match loop with SFor _ _ inner | SWhile _ inner => exists sb tail, sub body = Some sb /\ inner = (sb ++ tail)%list | _ => False end.
Proof.
  intros rename infun il rm consts sub ins outs bn body t ss form H Hf Hne. unfold emit_loop in H. rewrite Hf in H.
  destruct (g_ins body) as [|iv [|cin fins]]; try discriminate. destruct (g_outs body) as [|cout fouts]; try discriminate.
  destruct (sub body) as [sb|] eqn:Es; [|discriminate].
  destruct form; try (contradiction Hne; reflexivity); try discriminate.
  - destruct infun; [|discriminate]. inversion H. do 3 eexists. split; [reflexivity|]. do 2 eexists. split; reflexivity.
  - inversion H. do 3 eexists. split; [reflexivity|]. do 2 eexists. split; reflexivity.
Qed.

Lemma forallb_false_ex : forall A (f : A -> bool) l, forallb f l = false -> exists x, In x l /\ f x = false.
Proof.
  induction l as [|a t IH]; cbn [forallb]; intros H; [discriminate|]. apply andb_false_iff in H. destruct H as [H|H].
  - exists a. split; [left; reflexivity|exact H].
  - destruct (IH H) as (x & Hx & Hf). exists x. split; [right; exact Hx|exact Hf].
Qed.

(* ---- 3. the placeholder `_<i>` of an omitted node output ------------------------------------------------------ *)
(* the side condition of the soundness theorems fails exactly when some printed placeholder is the Python name of a value *)
Theorem placeholders_free_iff : forall rename g,
  placeholders_freeb rename g = false <->
  exists n p x, In n (g_nodes g) /\ In p (ph_names 0 (n_outs n)) /\ In x (gnames g) /\ rename x = p.
Proof.
  intros rename g. unfold placeholders_freeb. split.
  - intros H. destruct (forallb_false_ex _ _ _ H) as (n & Hn & Hf). destruct (forallb_false_ex _ _ _ Hf) as (p & Hp & Hm).
    apply negb_false_iff in Hm. apply memb_In in Hm. apply in_map_iff in Hm. destruct Hm as (x & Ex & Hx).
    exists n, p, x. repeat split; assumption.
  - intros (n & p & x & Hn & Hp & Hx & E). apply Bool.not_true_iff_false. intros C. rewrite forallb_forall in C.
    specialize (C n Hn). rewrite forallb_forall in C. specialize (C p Hp). apply negb_true_iff in C. apply memb_false_In in C.
    apply C. rewrite <- E. apply in_map. exact Hx.
Qed.
