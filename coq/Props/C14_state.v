(* C14 property theorems, part C'': every piece of state that outlives one operation, four classes (Determinism/StateClasses.v).
   Statements only, each closed by `exact`.  The inventory of the current sources (Gen/StateInventory.v: module-level objects,
   cache decorators, class attributes, `global` statements, and instance attributes written outside the constructors, over every
   module of onnxscript on the way to the results) is checked against `bad_inventory` by the harness on every run.
   Not covered by a theorem: that the translator's reading of a source shape as a class is faithful (trusted; a site in class
   SExperiment is covered by the named history experiments of the direct oracle only). *)
From Coq Require Import List String.
Require Import OV.Determinism.KeyedCache OV.Determinism.ProcessState OV.Determinism.StateClasses OV.Determinism.StateClassesProofs.
Import ListNotations.

(* C''. the generic lemma, generalising C14_keyed_process_state_history_independent: tables keyed completely, cells reset when an
   operation starts or written before they are read on every path, logs never read  ==>  a well-behaved operation gives the same
   result after every history of ARBITRARY operations (also failing ones, also ones that are not well behaved) as in a fresh process *)
Theorem C14_four_classes_history_independent :
  forall (T X K V R C L : Type) (T_eq_dec : forall a b : T, {a = b} + {a <> b}) (K_eq_dec : forall a b : K, {a = b} + {a <> b})
         (C_eq_dec : forall a b : C, {a = b} + {a <> b}) (L_eq_dec : forall a b : L, {a = b} + {a <> b})
         (k : T -> X -> K) (f : T -> X -> V) (reset_value : C -> option V) (dflt : C -> V),
  all_keyed_completely k f ->
  four_class_history_independent T X K V R C L T_eq_dec K_eq_dec C_eq_dec L_eq_dec k f reset_value dflt.
Proof. exact four_classes_history_independent. Qed.
Print Assumptions C14_four_classes_history_independent.

(* C''. the classes are needed: one cell that is neither reset nor written before it is read *)
Theorem C14_unclassified_cell_refuted :
  exists (h : list (cop unit unit nat nat unit unit)),
    fst (crun unit unit unit nat nat unit unit unit_dec unit_dec unit_dec unit_dec (fun _ _ => tt) (fun _ _ => 0) (fun _ => None) leak_get
              (cafter unit unit unit nat nat unit unit unit_dec unit_dec unit_dec unit_dec (fun _ _ => tt) (fun _ _ => 0) (fun _ => None) h
                      (cfresh unit unit nat unit unit (fun _ => 0)))) <>
    fst (crun unit unit unit nat nat unit unit unit_dec unit_dec unit_dec unit_dec (fun _ _ => tt) (fun _ _ => 0) (fun _ => None) leak_get
              (cfresh unit unit nat unit unit (fun _ => 0))).
Proof. exact unclassified_cell_refuted. Qed.
Print Assumptions C14_unclassified_cell_refuted.

(* C''. translator data: when bad_inventory is empty every site is in one of the classes of the lemma (or names its experiments) *)
Theorem C14_inventory_ok_classes : forall l, bad_inventory l = [] ->
  forall s, In s l -> in_four_classes s = true \/ exists ops, iv_class s = SExperiment ops /\ ops <> [].
Proof. exact inventory_ok_classes. Qed.
Print Assumptions C14_inventory_ok_classes.

(* C''. ... and a keyed site accepted by the inventory has a key through which every computation that uses only the parameters the
   source mentions factors (the hypothesis all_keyed_completely of the lemma) *)
Theorem C14_inventory_keyed_complete : forall s kp fp, iv_class s = SKeyed kp fp -> inv_ok s = true ->
  forall (V : Type) (g : env -> V), depends_only_on g fp -> factors_through_key (project kp) g.
Proof. exact inventory_keyed_complete. Qed.
Print Assumptions C14_inventory_keyed_complete.
