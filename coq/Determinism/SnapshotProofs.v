(* Proofs about Snapshot.v: which capture disciplines make later results independent of later
   mutations of the module namespace. *)
From Coq Require Import List String ZArith Bool Arith Lia.
Require Import OV.Determinism.Snapshot.
Import ListNotations.
Local Open Scope string_scope.

Lemma apply_cons : forall m ms st, apply (m :: ms) st = apply ms (apply1 m st).
Proof. reflexivity. Qed.

(* rebinding allocates: objects that existed before keep their content *)
Lemma rebinds_keep_heap : forall ms st, forallb is_rebind ms = true ->
  s_next st <= s_next (apply ms st) /\ forall l, l < s_next st -> s_heap (apply ms st) l = s_heap st l.
Proof.
  induction ms as [|m ms IH]; intros st H.
  - split; [apply le_n | reflexivity].
  - cbn [forallb] in H. apply andb_true_iff in H. destruct H as [Hm Hms].
    destruct m as [n v | n v]; [|discriminate].
    rewrite apply_cons. destruct (IH (apply1 (Rebind n v) st) Hms) as [A B].
    assert (N : s_next (apply1 (Rebind n v) st) = S (s_next st)) by reflexivity.
    rewrite N in A, B.
    split; [lia|]. intros l Hl. rewrite B by lia.
    change (s_heap (apply1 (Rebind n v) st) l) with (if Nat.eqb l (s_next st) then Some v else s_heap st l).
    destruct (Nat.eqb l (s_next st)) eqn:E; [apply Nat.eqb_eq in E; lia | reflexivity].
Qed.

(* Deep: the captured values are all that is ever read *)
Theorem deep_fixed : later_results_fixed Deep.
Proof. intros b st _ _ ms x. reflexivity. Qed.

Theorem deep_fixed_without_side_conditions : forall (b : body) (st now : store) (x : Z),
  denote Deep (decorate b st) now x = denote Deep (decorate b st) st x.
Proof. reflexivity. Qed.

(* Shallow: stable as long as names are only rebound *)
Theorem shallow_fixed_under_rebinding : later_results_fixed_under_rebinding Shallow.
Proof.
  intros b st Hb Hwf ms x Hms. unfold denote. cbn [decorate f_body]. apply Hb. intros n.
  unfold view. cbn [decorate f_env]. destruct (s_env st n) as [l|] eqn:E; [|reflexivity].
  apply (proj2 (rebinds_keep_heap ms st Hms)). exact (Hwf n l E).
Qed.

Theorem deep_fixed_under_rebinding : later_results_fixed_under_rebinding Deep.
Proof. intros b st Hb Hwf ms x _. apply deep_fixed; assumption. Qed.

(* at decoration time all disciplines denote the same thing: the eager call and the generated proto
   agree until something is mutated *)
Theorem all_agree_at_decoration : forall c (b : body) (st : store) (x : Z),
  denote c (decorate b st) st x = denote Deep (decorate b st) st x.
Proof. intros [| |] b st x; reflexivity. Qed.

Lemma ex_respects : respects ex_body.
Proof. intros v1 v2 E x. unfold ex_body. rewrite !E. reflexivity. Qed.

Lemma ex_wf : wf ex_store.
Proof.
  intros n l. unfold ex_store. cbn [s_env s_next].
  destruct (String.eqb n "SCALE"); [intros H; injection H as <-; lia|].
  destruct (String.eqb n "TABLE"); [intros H; injection H as <-; lia | discriminate].
Qed.

(* AsRead: rebinding SCALE after decoration changes the next call  (2*1+10 = 12 before, 99*1+10 after) *)
Theorem as_read_refuted : ~ later_results_fixed_under_rebinding AsRead.
Proof.
  intro H. specialize (H ex_body ex_store ex_respects ex_wf [Rebind "SCALE" (VNum 99)] 1%Z eq_refl).
  vm_compute in H. discriminate.
Qed.

Theorem as_read_refuted_full : ~ later_results_fixed AsRead.
Proof.
  intro H. apply as_read_refuted. intros b st Hb Hwf ms x _. apply H; assumption.
Qed.

(* Shallow: TABLE[0] = 41 after decoration changes the next call / the next serialization *)
Theorem shallow_in_place_refuted : ~ later_results_fixed Shallow.
Proof.
  intro H. specialize (H ex_body ex_store ex_respects ex_wf [InPlace "TABLE" (VList [41; 20]%Z)] 1%Z).
  vm_compute in H. discriminate.
Qed.

(* the prediction table used by the correspondence check is exactly what has been proved *)
Theorem predict_spec : forall c,
  (predict c true = true -> later_results_fixed_under_rebinding c) /\
  (predict c true = false -> ~ later_results_fixed_under_rebinding c) /\
  (predict c false = true -> later_results_fixed c) /\
  (predict c false = false -> ~ later_results_fixed c).
Proof.
  intros [| |]; cbn [predict].
  - split; [discriminate|]. split; [intros _; exact as_read_refuted|].
    split; [discriminate|]. intros _; exact as_read_refuted_full.
  - split; [intros _; exact shallow_fixed_under_rebinding|]. split; [discriminate|].
    split; [discriminate|]. intros _; exact shallow_in_place_refuted.
  - split; [intros _; exact deep_fixed_under_rebinding|]. split; [discriminate|].
    split; [intros _; exact deep_fixed|]. discriminate.
Qed.

(* non-vacuity: the example function really computes, and Deep keeps its result through both kinds of mutation *)
Example ex_deep_value :
  denote Deep (decorate ex_body ex_store)
         (apply [Rebind "SCALE" (VNum 99); InPlace "TABLE" (VList [41; 20]%Z)] ex_store) 1%Z = Some 12%Z.
Proof. vm_compute. reflexivity. Qed.

Example ex_consistent_as_read : map capture_code (consistent [(true, false); (false, false)]) = [0].
Proof. vm_compute. reflexivity. Qed.
Example ex_consistent_deep : map capture_code (consistent [(true, true); (false, true)]) = [2].
Proof. vm_compute. reflexivity. Qed.
