(* C06 -- what the local conditions of Spec.v (`nlocal`, `vlocal`, `const_ok`) say, feature by feature, as plain
   propositions; and exactness of the returned bindings.  Both directions of the matcher with respect to these
   conditions are the soundness theorem (SoundProofs.run_sound: every feature) and the completeness theorems
   (CompleteProofs.run_complete_orfree, MultiProofs.run_complete_orfree_multi_full; with OrValue:
   CommittedProofs.run_eq_committed). *)
From Coq Require Import List ZArith String Bool Arith Lia QArith Qabs.
Require Import OV.Match.Pattern OV.Match.Matcher OV.Match.Spec OV.Match.SoundProofs OV.Match.CompleteProofs.
Import ListNotations.
Close Scope Q_scope.

(* ------------------------------------------------------------------ attributes *)
(* a constant attribute pattern: the attribute is present and equal (the one oddity of tuple(..) == tuple(..):
   an empty list attribute equals the empty string pattern) *)
Theorem attr_const_matches_true : forall c a,
  attr_const_matches c a = Some true <-> c = a \/ (c = AStr EmptyString /\ a = AInts []).
Proof.
  intros c a. destruct a as [x|x|l]; destruct c as [y|y|l']; simpl.
  all: try (split; [discriminate | intros [H|[H1 H2]]; [discriminate H | first [discriminate H1 | discriminate H2]]]).
  - split; intro H.
    + inversion H as [E]. apply Z.eqb_eq in E. subst. auto.
    + destruct H as [H|[H _]]; [|discriminate H]. inversion H; subst. rewrite Z.eqb_refl; auto.
  - split; intro H.
    + inversion H as [E]. apply String.eqb_eq in E. subst. auto.
    + destruct H as [H|[_ H]]; [|discriminate H]. inversion H; subst. rewrite String.eqb_refl; auto.
  - split; intro H.
    + destruct l; inversion H as [E]. apply String.eqb_eq in E. subst. auto.
    + destruct H as [H|[H1 H2]]; [discriminate H|]. inversion H1; inversion H2; subst. reflexivity.
  - split; intro H.
    + inversion H as [E]. left. f_equal. symmetry. eapply list_eqb_eq; eauto. intros; apply Z.eqb_eq; auto.
    + destruct H as [H|[H _]]; [|discriminate H]. inversion H; subst.
      rewrite list_eqb_refl; auto. apply Z.eqb_refl.
Qed.

Theorem attr_const_local_iff : forall s h name c,
  attr_local s h (name, APConst c) = true <->
  exists a, assoc String.eqb name (h_attrs h) = Some a /\ attr_const_matches c a = Some true.
Proof.
  intros s h name c. unfold attr_local; cbn [fst snd].
  destruct (assoc String.eqb name (h_attrs h)) as [a|].
  - destruct (attr_const_matches c a) as [[|]|] eqn:M; split; intro H.
    + eauto.
    + reflexivity.
    + discriminate H.
    + destruct H as (a' & E & M'). inversion E; subst. congruence.
    + discriminate H.
    + destruct H as (a' & E & M'). inversion E; subst. congruence.
  - split; [discriminate|]. intros (a & E & _); discriminate.
Qed.

(* an attribute variable stands for the attribute; when the attribute is absent it stands for None, if it may *)
Theorem attr_var_local_iff : forall s h name x none_ok,
  attr_local s h (name, APVar (Some x) none_ok) = true <->
  (exists a, assoc String.eqb name (h_attrs h) = Some a /\ var_is s x (BAttr name a) = true) \/
  (assoc String.eqb name (h_attrs h) = None /\ none_ok = true /\ var_is s x BNone = true).
Proof.
  intros s h name x none_ok. unfold attr_local; cbn [fst snd].
  destruct (assoc String.eqb name (h_attrs h)) as [a|].
  - split; intro H; eauto. destruct H as [(a' & E & V)|(E & _)]; [inversion E; subst; auto | discriminate].
  - split; intro H.
    + apply andb_true_iff in H as [H1 H2]. right; auto.
    + destruct H as [(a' & E & _)|(_ & H1 & H2)]; [discriminate|]. rewrite H1, H2; auto.
Qed.

Lemma assoc_some_in : forall (V : Type) name (l : list (string * V)) v,
  assoc String.eqb name l = Some v -> In (name, v) l.
Proof.
  induction l as [| [n' v'] t IH]; simpl; intros v H; try discriminate.
  destruct (String.eqb name n') eqn:E.
  - apply String.eqb_eq in E. inversion H; subst; auto.
  - right; auto.
Qed.

(* allow_other_attributes = False: every attribute of the node is named in the pattern *)
Theorem no_other_attrs_iff : forall np h,
  no_other_attrs np h = true <->
  forall name a, In (name, a) (h_attrs h) -> exists ap, assoc String.eqb name (np_attrs np) = Some ap.
Proof.
  intros np h. unfold no_other_attrs. rewrite forallb_forall. split.
  - intros H name a I. specialize (H _ I). cbn [fst] in H.
    destruct (assoc String.eqb name (np_attrs np)); [eauto | discriminate].
  - intros H [name a] I. cbn [fst]. destruct (H _ _ I) as (ap & E). rewrite E. reflexivity.
Qed.

(* ------------------------------------------------------------------ inputs *)
(* position by position, the node's inputs padded with None: a None in the pattern needs an absent input, a value
   pattern is satisfied by the input (an optional variable by None as well: see vlocal) *)
Theorem inputs_local_iff : forall g s pins ins,
  inputs_local g s pins ins = true <->
  forall i pp, nth_error pins i = Some pp ->
    match pp with
    | None => nth i ins None = None
    | Some pv => vlocal g s pv (nth i ins None) = true
    end.
Proof.
  intros g s. induction pins as [| pp ptl IH]; intros ins; simpl.
  - split; auto. intros _ [|i] pp H; discriminate.
  - rewrite andb_true_iff, IH. split.
    + intros [H1 H2] [|i] pp' E; simpl in E.
      * inversion E; subst. destruct ins as [| a atl]; simpl; destruct pp'; auto.
        -- destruct a; auto; discriminate.
      * specialize (H2 _ _ E). destruct ins as [| a atl]; simpl; auto.
        destruct pp'; [destruct i|destruct i]; auto.
    + intro H. split.
      * specialize (H 0 pp eq_refl). destruct ins as [| a atl]; simpl in *; destruct pp; auto.
        rewrite H; auto.
      * intros i pp' E. specialize (H (S i) pp' E). destruct ins as [| a atl]; simpl in *; auto.
        destruct pp'; [destruct i|destruct i]; auto.
Qed.

(* more inputs than the pattern lists are allowed only with allow_other_inputs; fewer always (the missing ones
   are None) *)
Theorem input_count_iff : forall g s p np h, nlocal g s p np h = true ->
  List.length (h_ins h) <= List.length (np_ins np) \/ np_other_ins np = true.
Proof.
  intros g s p np h H. unfold nlocal in H. do 2 (apply andb_true_iff in H as [H _]).
  apply andb_true_iff in H as [_ H]. apply orb_true_iff in H as [H|H]; auto. left. apply Nat.leb_le; auto.
Qed.

(* ------------------------------------------------------------------ constants *)
Lemma qmax_le : forall x a b, (x <= qmax a b)%Q <-> (x <= a)%Q \/ (x <= b)%Q.
Proof.
  intros x a b. unfold qmax. destruct (Qle_bool a b) eqn:E.
  - apply Qle_bool_iff in E. split; auto. intros [H|H]; auto. eapply Qle_trans; eauto.
  - assert (L : (b < a)%Q).
    { apply Qnot_le_lt. intro K. apply Qle_bool_iff in K. congruence. }
    split; auto. intros [H|H]; auto. eapply Qle_trans; eauto. apply Qlt_le_weak; auto.
Qed.

(* math.isclose: within the relative tolerance (of the larger magnitude) or within the absolute tolerance *)
Theorem isclose_iff : forall a b rel abs,
  isclose a b rel abs = true <->
  (Qabs (a - b) <= rel * qmax (Qabs a) (Qabs b))%Q \/ (Qabs (a - b) <= abs)%Q.
Proof. intros. unfold isclose. rewrite Qle_bool_iff. apply qmax_le. Qed.

Lemma all_close_length : forall ys ps rel abs, all_close ys ps rel abs = true -> List.length ys = List.length ps.
Proof.
  induction ys as [| y t IH]; intros [| p ps] rel abs H; simpl in *; try discriminate; auto.
  apply andb_true_iff in H as [_ H]. f_equal; eauto.
Qed.

Lemma shape_eqb_eq : forall a b, shape_eqb a b = true <-> a = b.
Proof.
  intros a b. unfold shape_eqb. split.
  - apply list_eqb_eq. intros x y H. apply Nat.eqb_eq; auto.
  - intros ->. apply list_eqb_refl. apply Nat.eqb_refl.
Qed.

(* a scalar constant pattern: the value is a constant read as a 0-d tensor (numpy_value.ndim == 0) whose one element
   is within tolerance.  (`cval_view` = (shape, elements): CScalar y and CTensor [] [y] are the two encodings of 0-d) *)
Theorem const_scalar_iff : forall g q rel abs x,
  const_ok g (CPScalar q rel abs) x = true <->
  exists cv y, assoc Nat.eqb x (g_consts g) = Some cv /\ cval_view cv = Some ([], [y]) /\ isclose y q rel abs = true.
Proof.
  intros. unfold const_ok. destruct (assoc Nat.eqb x (g_consts g)) as [cv|].
  2:{ split; [discriminate|]. intros (cv & y & E & _); discriminate. }
  destruct (cval_view cv) as [[sh ys]|] eqn:V.
  2:{ split; [discriminate|]. intros (cv' & y & E & V' & _). inversion E; subst. congruence. }
  split.
  - intro H. destruct sh; [|discriminate]. destruct ys as [|y [|]]; try discriminate. exists cv, y. auto.
  - intros (cv' & y & E & V' & H). inversion E; subst cv'. rewrite V in V'. inversion V'; subst. exact H.
Qed.

(* a list constant pattern: the value is a constant of shape (len(list),) -- rank 1, that length -- whose elements are
   within tolerance position by position *)
Theorem const_vector_iff : forall g ps rel abs x,
  const_ok g (CPVec ps rel abs) x = true <->
  exists cv ys, assoc Nat.eqb x (g_consts g) = Some cv /\ cval_view cv = Some ([List.length ps], ys) /\
                all_close ys ps rel abs = true.
Proof.
  intros. unfold const_ok. destruct (assoc Nat.eqb x (g_consts g)) as [cv|].
  2:{ split; [discriminate|]. intros (cv & y & E & _); discriminate. }
  destruct (cval_view cv) as [[sh ys]|] eqn:V.
  2:{ split; [discriminate|]. intros (cv' & y & E & V' & _). inversion E; subst. congruence. }
  split.
  - intro H. apply andb_true_iff in H as [S A]. apply shape_eqb_eq in S. subst sh. exists cv, ys. auto.
  - intros (cv' & ys' & E & V' & H). inversion E; subst cv'. rewrite V in V'. inversion V'; subst.
    apply andb_true_iff. split; auto. apply shape_eqb_eq; auto.
Qed.

(* the literal forms for the canonical encodings *)
Theorem const_scalar_of_scalar : forall g q rel abs x y,
  assoc Nat.eqb x (g_consts g) = Some (CScalar y) -> const_ok g (CPScalar q rel abs) x = isclose y q rel abs.
Proof. intros. unfold const_ok. rewrite H. reflexivity. Qed.

Theorem const_vector_of_vector : forall g ps rel abs x ys,
  assoc Nat.eqb x (g_consts g) = Some (CVec ys) -> const_ok g (CPVec ps rel abs) x = all_close ys ps rel abs.
Proof.
  intros. unfold const_ok. rewrite H. cbn [cval_view]. destruct (all_close ys ps rel abs) eqn:A.
  - apply all_close_length in A. rewrite A. apply andb_true_iff; split; auto. apply shape_eqb_eq; auto.
  - apply andb_false_r.
Qed.

(* the scalar-vs-tensor rule: a scalar pattern does not match a 1-element vector of the same number, a list pattern
   does not match a scalar, and a list pattern needs the same length *)
Theorem const_scalar_not_vector : forall g q rel abs x ys,
  assoc Nat.eqb x (g_consts g) = Some (CVec ys) -> const_ok g (CPScalar q rel abs) x = false.
Proof. intros. unfold const_ok. rewrite H. reflexivity. Qed.

Theorem const_vector_not_scalar : forall g ps rel abs x y,
  assoc Nat.eqb x (g_consts g) = Some (CScalar y) -> const_ok g (CPVec ps rel abs) x = false.
Proof. intros. unfold const_ok. rewrite H. reflexivity. Qed.

Theorem const_vector_length : forall g ps rel abs x ys,
  assoc Nat.eqb x (g_consts g) = Some (CVec ys) -> const_ok g (CPVec ps rel abs) x = true ->
  List.length ys = List.length ps.
Proof.
  intros g ps rel abs x ys E H. rewrite (const_vector_of_vector _ _ _ _ _ _ E) in H. eapply all_close_length; eauto.
Qed.

(* a value that is not a known constant matches no Constant pattern *)
Theorem const_needs_constant : forall g c x, assoc Nat.eqb x (g_consts g) = None -> const_ok g c x = false.
Proof. intros. unfold const_ok. rewrite H. reflexivity. Qed.

(* ------------------------------------------------------------------ exactness of the bindings *)
(* OR-free, one output node: what is returned is an instance (nothing missing: every variable, attribute variable,
   output name, unnamed pattern and pattern node the instance conditions mention is bound as they require), and it
   is below EVERY instance at that node (nothing extra: each returned binding -- node, value, attribute, None --
   is forced; the only other entries are the pattern inputs that were not reached, bound to None) *)
Theorem bindings_exact_orfree : forall fl p g root r m,
  repaired fl = true -> or_free p = true -> topo p = true -> output_nodes p = [r] -> outs_reachable p r ->
  run fl p g root false = Ok m ->
  instanceb g p [root] (sigma_of m) = true /\
  spec_outputs (gp_nodes p) (sigma_of m) (gp_outs p) = Some (m_outs m) /\
  forall s, instanceb g p [root] s = true ->
    (forall q n, assoc Nat.eqb q (m_nb m) = Some n -> node_is s q n = true) /\
    (forall x b, assoc String.eqb x (m_b m) = Some b -> var_is s x b = true \/ (b = BNone /\ In x (gp_inputs p))) /\
    (forall k v, assoc vkey_eqb k (m_vb m) = Some v -> key_is s k v = true).
Proof.
  intros fl p g root r m Hrep Hor Htp Hr Hre H.
  destruct (run_sound fl g p Hrep root false m H) as (cand & Hd & I & _ & O & _).
  assert (Ec : cand = [root]).
  { unfold instanceb in I. rewrite Hr in I. apply andb_true_iff in I as [I1 _].
    destruct cand as [| c [| c2 ct]]; simpl in I1; try discriminate.
    - inversion Hd; subst; auto.
    - apply andb_true_iff in I1 as [_ I1]. discriminate. }
  subst cand. split; [exact I|]. split; [exact O|].
  intros s Is. destruct (run_complete_orfree fl p g root r s Hrep Hor Htp Hr Hre Is) as (m' & H' & A).
  rewrite H in H'. inversion H'; subst m'. exact A.
Qed.
