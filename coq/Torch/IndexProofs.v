(* C08 (fourth group) -- advanced indexing: the Transpose / GatherND / ScatterND composition of aten_index and aten_index_put
   places every axis where PyTorch's advanced indexing does, for every mask of index positions, every rank and every label list. *)
From Coq Require Import ZArith List Bool Lia Permutation.
Require Import OV.Torch.Onnx OV.Torch.Onnx2 OV.Torch.Aten OV.Torch.IndexModel.
Import ListNotations.

Lemma omap_all_app : forall A B (f : A -> option B) a b x y,
  omap_all f a = Some x -> omap_all f b = Some y -> omap_all f (a ++ b) = Some (x ++ y).
Proof.
  induction a as [|u a IH]; intros b x y Ha Hb; cbn in *.
  - inversion Ha; subst. exact Hb.
  - destruct (f u) as [v|]; [|discriminate]. destruct (omap_all f a) as [r|] eqn:E; [|discriminate]. inversion Ha; subst.
    rewrite (IH b r y eq_refl Hb). reflexivity.
Qed.

Section Axes.
Context {A : Type}.

Fixpoint rej (m : list bool) (l : list A) : list A :=
  match m, l with b :: m', x :: l' => if b then rej m' l' else x :: rej m' l' | _, _ => [] end.

Lemma reject_rej : forall m (s : list A), length m <= length s -> reject m s = rej m s ++ skipn (length m) s.
Proof.
  induction m as [|b m IH]; intros s H; [destruct s; reflexivity|].
  destruct s as [|x s]; [cbn in H; lia|]. cbn in *. destruct b; rewrite IH by lia; reflexivity.
Qed.

Lemma nth_error_pre : forall (pre : list A) x s, nth_error (pre ++ x :: s) (length pre) = Some x.
Proof. induction pre; intros; [reflexivity | cbn; apply IHpre]. Qed.

Lemma pos_sel : forall v m (pre s : list A), length m <= length s ->
  omap_all (nth_error (pre ++ s)) (pos_of v (length pre) m) = Some (if v then select m s else rej m s).
Proof.
  intros v m. induction m as [|b m IH]; intros pre s H.
  - destruct v; destruct s; reflexivity.
  - destruct s as [|x s]; [cbn in H; lia|]. cbn [pos_of].
    assert (Hrest : omap_all (nth_error (pre ++ x :: s)) (pos_of v (S (length pre)) m) = Some (if v then select m s else rej m s)).
    { replace (pre ++ x :: s) with ((pre ++ [x]) ++ s) by (rewrite <- app_assoc; reflexivity).
      replace (S (length pre)) with (length (pre ++ [x])) by (rewrite app_length; cbn; lia). apply IH. cbn in H. lia. }
    destruct b, v; cbn [Bool.eqb select rej app].
    + cbn [omap_all]. rewrite nth_error_pre, Hrest. reflexivity.
    + exact Hrest.
    + exact Hrest.
    + cbn [omap_all]. rewrite nth_error_pre, Hrest. reflexivity.
Qed.

Lemma seq_seg : forall n a (l : list A), a + n <= length l -> omap_all (nth_error l) (seq a n) = Some (firstn n (skipn a l)).
Proof.
  induction n as [|n IH]; intros a l H; [reflexivity|]. cbn [seq omap_all].
  destruct (nth_error l a) as [x|] eqn:E; [|apply nth_error_None in E; lia].
  rewrite (IH (S a) l) by lia. f_equal.
  revert a E H. induction l as [|y l IHl]; intros a E H; [destruct a; discriminate|].
  destruct a; cbn in *; [inversion E; reflexivity|]. apply IHl; [assumption | lia].
Qed.

Lemma select_length : forall m (s : list A), length m <= length s -> length (select m s) = count_true m.
Proof.
  induction m as [|b m IH]; intros s H; [reflexivity|]. destruct s as [|x s]; [cbn in H; lia|].
  unfold count_true in *. cbn in *. destruct b; cbn; rewrite IH by lia; reflexivity.
Qed.

Lemma skipn_app_exact : forall (a b : list A), skipn (length a) (a ++ b) = b.
Proof. induction a; intros; [reflexivity | cbn; apply IHa]. Qed.
Lemma firstn_app_exact : forall (a b : list A), firstn (length a) (a ++ b) = a.
Proof. induction a; intros; [reflexivity | cbn; f_equal; apply IHa]. Qed.

Theorem permute_index_perm : forall m (s : list A), length m <= length s ->
  permute (index_perm m (length s)) s = Some (select m s ++ reject m s).
Proof.
  intros m s H. unfold permute, index_perm. rewrite (reject_rej m s H).
  apply omap_all_app; [exact (pos_sel true m [] s H)|].
  apply omap_all_app; [exact (pos_sel false m [] s H)|].
  rewrite seq_seg by lia. f_equal. rewrite firstn_all2; [reflexivity | rewrite skipn_length; lia].
Qed.

(* rotation lemmas for the two follow-up transpositions *)
Lemma permute_rot : forall (B F K : list A),
  permute (final_perm (length B) (length F) (length B + length F + length K)) (B ++ F ++ K) = Some (F ++ B ++ K).
Proof.
  intros B F K. unfold permute, final_perm.
  apply omap_all_app; [|apply omap_all_app].
  - rewrite seq_seg by (rewrite !app_length; lia). rewrite skipn_app_exact, firstn_app_exact. reflexivity.
  - rewrite seq_seg by (rewrite !app_length; lia). cbn [skipn]. rewrite firstn_app_exact. reflexivity.
  - rewrite seq_seg by (rewrite !app_length; lia). rewrite app_assoc. rewrite <- (app_length B F), skipn_app_exact.
    rewrite firstn_all2; [reflexivity | lia].
Qed.
Lemma permute_rot2 : forall (B F K : list A),
  permute (values_perm (length B) (length F) (length F + length B + length K)) (F ++ B ++ K) = Some (B ++ F ++ K).
Proof.
  intros B F K. unfold permute, values_perm.
  apply omap_all_app; [|apply omap_all_app].
  - rewrite seq_seg by (rewrite !app_length; lia). rewrite skipn_app_exact, firstn_app_exact. reflexivity.
  - rewrite seq_seg by (rewrite !app_length; lia). cbn [skipn]. rewrite firstn_app_exact. reflexivity.
  - rewrite seq_seg by (rewrite !app_length; lia). rewrite app_assoc. rewrite <- (app_length F B), skipn_app_exact.
    rewrite firstn_all2; [reflexivity | lia].
Qed.

(* the axes without index when the index tensors are adjacent *)
Lemma reject_all_false : forall m (s : list A), forallb negb m = true -> reject m s = s.
Proof.
  induction m as [|b m IH]; intros s H; [destruct s; reflexivity|]. cbn in H. destruct b; [discriminate|].
  destruct s as [|x s]; [reflexivity|]. cbn. rewrite IH by assumption. reflexivity.
Qed.
Lemma count_all_false : forall m, forallb negb m = true -> count_true m = 0.
Proof. induction m as [|b m IH]; intro H; [reflexivity|]. cbn in H. destruct b; [discriminate|]. unfold count_true in *. cbn. apply IH. assumption. Qed.
Lemma reject_after_true : forall m (s : list A), after_true m = true -> reject m s = skipn (count_true m) s.
Proof.
  induction m as [|b m IH]; intros s H; [destruct s; reflexivity|]. destruct b.
  - destruct s as [|x s]; [unfold count_true; cbn; reflexivity|]. cbn [reject]. unfold count_true. cbn. apply IH. exact H.
  - cbn in H. rewrite (reject_all_false (false :: m) s) by (cbn; exact H).
    unfold count_true. cbn. fold (count_true m). rewrite (count_all_false m H). reflexivity.
Qed.
Lemma reject_contig : forall m (s : list A), contiguousb m = true ->
  reject m s = firstn (lead_false m) s ++ skipn (lead_false m + count_true m) s.
Proof.
  induction m as [|b m IH]; intros s H; [destruct s; reflexivity|]. destruct b.
  - cbn [lead_false firstn app plus]. apply reject_after_true. exact H.
  - destruct s as [|x s]; [reflexivity|]. cbn [reject lead_false firstn]. unfold count_true. cbn. fold (count_true m).
    rewrite IH by exact H. reflexivity.
Qed.
End Axes.

Lemma count_le : forall m, count_true m <= length m.
Proof. induction m as [|b m IH]; [cbn; lia|]. unfold count_true in *. destruct b; cbn; lia. Qed.
Lemma lead_count_le : forall m, lead_false m + count_true m <= length m.
Proof.
  induction m as [|b m IH]; [cbn; lia|]. destruct b.
  - pose proof (count_le (true :: m)). cbn [lead_false length] in *. lia.
  - unfold count_true in *. cbn. lia.
Qed.

Theorem aten_index_correct : forall A m (B s : list A), length m <= length s ->
  aten_index_axes m B s = Some (torch_index_axes m B s).
Proof.
  intros A m B s H. unfold aten_index_axes, torch_index_axes. rewrite (permute_index_perm m s H). cbn [obind].
  rewrite <- (select_length m s H), skipn_app_exact. destruct (contiguousb m) eqn:Ec; [|reflexivity].
  rewrite (reject_contig m s Ec). rewrite (select_length m s H).
  pose proof (lead_count_le m) as Hl.
  set (F := firstn (lead_false m) s). set (K := skipn (lead_false m + count_true m) s).
  assert (HF : length F = lead_false m) by (unfold F; rewrite firstn_length; lia).
  assert (HK : length K = length s - (lead_false m + count_true m)) by (unfold K; rewrite skipn_length; lia).
  rewrite <- HF. replace (length s - count_true m + length B) with (length B + length F + length K) by lia.
  apply permute_rot.
Qed.

(* ------------------------------------------------------------------ index_put *)
Lemma pos_of_app : forall v a b i, pos_of v i (a ++ b) = pos_of v i a ++ pos_of v (i + length a) b.
Proof.
  induction a as [|x a IH]; intros b i; cbn; [rewrite Nat.add_0_r; reflexivity|].
  rewrite IH. rewrite <- app_assoc. replace (S i + length a) with (i + S (length a)) by lia. reflexivity.
Qed.
Lemma pos_of_falses : forall n i, pos_of true i (repeat false n) = [] /\ pos_of false i (repeat false n) = seq i n.
Proof. induction n; intro i; cbn; [split; reflexivity|]. destruct (IHn (S i)) as [H1 H2]. rewrite H1, H2. split; reflexivity. Qed.
Lemma put_perm_index_perm : forall m r, put_perm m r = index_perm m r.
Proof.
  intros m r. unfold put_perm, index_perm, pad_mask. rewrite !pos_of_app. cbn [plus].
  destruct (pos_of_falses (r - length m) (length m)) as [H1 H2]. rewrite H1, H2, app_nil_r. reflexivity.
Qed.

Theorem put_transposed_axes : forall A m (s : list A), length m <= length s ->
  permute (put_perm m (length s)) s = Some (select m s ++ reject m s).
Proof. intros. rewrite put_perm_index_perm. apply permute_index_perm. assumption. Qed.

Theorem put_values_aligned : forall A m (B s : list A), length m <= length s ->
  aten_put_values_axes m B s = Some (put_target_axes m B s).
Proof.
  intros A m B s H. unfold aten_put_values_axes, put_target_axes, torch_index_axes.
  destruct (contiguousb m) eqn:Ec; [|reflexivity]. rewrite (reject_contig m s Ec).
  pose proof (lead_count_le m) as Hl.
  set (F := firstn (lead_false m) s). set (K := skipn (lead_false m + count_true m) s).
  assert (HF : length F = lead_false m) by (unfold F; rewrite firstn_length; lia).
  rewrite <- HF. rewrite !app_length. rewrite Nat.add_assoc. apply permute_rot2.
Qed.

Lemma pos_of_permutation : forall m i, Permutation (pos_of true i m ++ pos_of false i m) (seq i (length m)).
Proof.
  induction m as [|b m IH]; intro i; [constructor|]. cbn [pos_of length seq]. destruct b; cbn [Bool.eqb app].
  - constructor. apply IH.
  - apply Permutation_sym, Permutation_cons_app, Permutation_sym, IH.
Qed.

Lemma index_of_spec : forall p j, In j p -> nth_error p (index_of j p) = Some j.
Proof.
  induction p as [|x p IH]; intros j H; [destruct H|]. cbn. destruct (Nat.eqb_spec x j); [subst; reflexivity|].
  cbn. apply IH. destruct H; [congruence | assumption].
Qed.
Lemma omap_all_nth : forall A B (f : A -> option B) l r i x, omap_all f l = Some r -> nth_error l i = Some x -> nth_error r i = f x.
Proof.
  induction l as [|a l IH]; intros r i x H Hx; [destruct i; discriminate|]. cbn in H.
  destruct (f a) as [b|] eqn:Ea; [|discriminate]. destruct (omap_all f l) as [r'|] eqn:El; [|discriminate]. inversion H; subst.
  destruct i; cbn in *; [inversion Hx; subst; symmetry; assumption | apply (IH r' i x eq_refl Hx)].
Qed.
Lemma omap_all_ext_in : forall A B (f g : A -> option B) l, (forall x, In x l -> f x = g x) -> omap_all f l = omap_all g l.
Proof.
  induction l as [|a l IH]; intro H; [reflexivity|]. cbn. rewrite (H a (or_introl eq_refl)), IH; [reflexivity|].
  intros; apply H; right; assumption.
Qed.

Lemma omap_all_comp : forall A B C (h : B -> option C) (g : A -> B) l, omap_all h (map g l) = omap_all (fun x => h (g x)) l.
Proof. induction l; [reflexivity|]. cbn. rewrite IHl. reflexivity. Qed.

Theorem inverse_perm_correct : forall A p (s t : list A),
  Permutation p (seq 0 (length s)) -> permute p s = Some t -> permute (inverse_perm p) t = Some s.
Proof.
  intros A p s t Hp Ht. unfold permute, inverse_perm in *. rewrite (Permutation_length Hp), seq_length.
  assert (Hs : omap_all (nth_error s) (seq 0 (length s)) = Some s).
  { rewrite seq_seg by lia. cbn [skipn]. rewrite firstn_all. reflexivity. }
  rewrite omap_all_comp. rewrite <- Hs. apply omap_all_ext_in. intros j Hin.
  assert (In j p) by (apply (Permutation_in _ (Permutation_sym Hp)); assumption).
  apply (omap_all_nth _ _ _ _ _ _ _ Ht). apply index_of_spec. assumption.
Qed.

Theorem aten_index_put_axes_correct : forall A m (s : list A), length m <= length s -> aten_index_put_axes m s = Some s.
Proof.
  intros A m s H. unfold aten_index_put_axes. rewrite (put_transposed_axes A m s H). cbn [obind].
  apply inverse_perm_correct; [|apply put_transposed_axes; assumption].
  unfold put_perm. replace (length s) with (length (pad_mask m (length s))) at 3 by (unfold pad_mask; rewrite app_length, repeat_length; lia).
  apply pos_of_permutation.
Qed.

(* shapes: the instance A = Z *)
Theorem aten_index_shape_correct : forall m idx s out,
  torch_index_shape m idx s = Some out -> aten_index_shape m idx s = Some out.
Proof.
  intros m idx s out. unfold torch_index_shape, aten_index_shape.
  destruct (Nat.leb (length m) (length s)) eqn:El; [|discriminate]. cbn [andb].
  destruct (Nat.ltb 0 (count_true m) && Nat.eqb (count_true m) (length idx)); [|discriminate].
  destruct (bcast_all idx) as [B|]; [|discriminate]. cbn [option_map obind]. intro H; inversion H; subst.
  apply aten_index_correct. apply Nat.leb_le. assumption.
Qed.
