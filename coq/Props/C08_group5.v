(* C08 property theorems, fifth group of families (session 6): aten_select_scatter, aten_slice_scatter, aten_repeat_interleave_Tensor,
   aten_repeat_interleave_self_int, aten_pixel_shuffle, aten_pixel_unshuffle, aten_max_dim, aten_min_dim, aten_atleast_1d/2d/3d,
   aten_reflection_pad1d/2d/3d, aten_replication_pad1d/2d/3d, aten_native_group_norm, aten_group_norm, aten_glu: statements only.
   Models: Torch/Group5.v (PyTorch semantics `torch_*`, emitted composition `aten_*`, skeletons `skel_*`); the skeleton and the
   onnxruntime output of every traced call are compared with these models in Coq on every run (Torch/Check5.v).
   NOT covered: values of max / min / pads / normalisations / glu (kernel arithmetic, direct oracle); repeat_interleave.self_int and
   pixel_unshuffle for every rank (only stated: `_full`), see the comments. *)
From Coq Require Import ZArith List Bool.
Require Import OV.Torch.Onnx OV.Torch.Onnx2 OV.Torch.Onnx3 OV.Torch.Spec OV.Torch.Spec2 OV.Torch.Aten OV.Torch.Aten2
               OV.Torch.ShapeProofs OV.Torch.Group5 OV.Torch.Group5Proofs OV.Torch.Group5ProofsB OV.Torch.Group5ProofsC.
Import ListNotations.
Local Open Scope Z_scope.

(* select_scatter: for every rank (0-d refused on both sides), every dim in [-r, r-1] and every index in [-n, n-1] the slab list along
   the wrapped dim is self's with slab `index` replaced by src -- Unsqueeze / Expand / ScatterElements take the raw negative values *)
Theorem C08_select_scatter : forall (A : Type) r dim (xs : list A) u index, 0 <= r ->
  aten_select_scatter r dim xs u index = torch_select_scatter r dim xs u index.
Proof. exact select_scatter_correct. Qed.
Print Assumptions C08_select_scatter.
Example C08_select_scatter_ex : aten_select_scatter 2 (-1) [[1]; [2]; [3]] [9] (-3) = Some (1, [[9]; [2]; [3]]).
Proof. reflexivity. Qed.

(* slice_scatter: every rank >= 1, dim, optional start / end (negative, beyond the extent), step > 0: the slabs written are exactly
   those torch's slice selects (Slice over Range(0, n) clamps like at::slice), in the same order, with the same arity check *)
Theorem C08_slice_scatter : forall (A : Type) r dim (xs us : list A) start end_ step, 0 < r -> 0 < step ->
  aten_slice_scatter r dim xs us start end_ step = torch_slice_scatter r dim xs us start end_ step.
Proof. exact slice_scatter_correct. Qed.
Print Assumptions C08_slice_scatter.
Example C08_slice_scatter_ex : aten_slice_scatter 2 (-1) [[1]; [2]; [3]; [4]; [5]] [[7]; [8]] (Some (-4)) (Some 100) 2 = Some (1, [[1]; [7]; [3]; [8]; [5]]).
Proof. reflexivity. Qed.
(* the perm python builds by swapping entries 0 and dim of list(range(rank)) is a permutation for every rank / accepted dim ... *)
Theorem C08_slice_scatter_perm_valid : forall r dim p, swap0_perm r dim = Some p -> is_perm r p = true.
Proof. exact swap0_is_perm. Qed.
Print Assumptions C08_slice_scatter_perm_valid.
(* ... it is its own inverse (the Transpose after ScatterND restores the axis order) ... *)
Theorem C08_slice_scatter_perm_involutive : forall r dim p i, swap0_perm r dim = Some p -> 0 <= i < r ->
  obind (nthZ p i) (nthZ p) = Some i.
Proof. exact swap0_involutive. Qed.
Print Assumptions C08_slice_scatter_perm_involutive.
(* ... and brings the wrapped dim to axis 0, where ScatterND writes *)
Theorem C08_slice_scatter_perm_axis : forall r dim p, swap0_perm r dim = Some p -> nthZ p 0 = norm_axis r dim.
Proof. exact swap0_first. Qed.
Print Assumptions C08_slice_scatter_perm_axis.

(* repeat_interleave.Tensor(repeats): n - #{i : j < cumsum(repeats)[i]} for j < sum(repeats), gathered from Range(0, n), is index i
   repeated repeats[i] times -- every non-empty list of non-negative counts (zeros anywhere) *)
Theorem C08_repeat_interleave_tensor : forall reps, reps <> [] -> Forall (fun r => 0 <= r) reps ->
  aten_repeat_interleave_tensor reps = torch_repeat_interleave_tensor reps.
Proof. exact repeat_interleave_tensor_correct. Qed.
Print Assumptions C08_repeat_interleave_tensor.
Example C08_repeat_interleave_tensor_ex : aten_repeat_interleave_tensor [0; 3; 0; 1] = Some [1; 1; 1; 3].
Proof. reflexivity. Qed.
(* empty repeats: the emitted Gather(ci, [-1]) fails, PyTorch returns an empty tensor (skip "input tensor is empty" in ops_test_data.py) *)
Theorem C08_repeat_interleave_tensor_empty_refuted :
  aten_repeat_interleave_tensor [] = None /\ torch_repeat_interleave_tensor [] = Some [].
Proof. exact repeat_interleave_tensor_empty_refuted. Qed.
Print Assumptions C08_repeat_interleave_tensor_empty_refuted.

(* repeat_interleave.self_int: the full statement (every rank, positive extents, every dim, repeats >= 0) is stated, not proved;
   the model is compared with the traced graph and onnxruntime on every run.  Refuted for a zero extent beside the repeated dimension
   (the 0 in the Reshape target copies the extent of `tiled` at that position; skip "input tensor is empty" in ops_test_data.py) *)
Definition C08_repeat_interleave_int_full : Prop := forall s k dim out,
  shape_pos s -> torch_repeat_interleave_int_shape s k dim = Some out -> aten_repeat_interleave_int_shape s k dim = Some out.
Theorem C08_repeat_interleave_int_zero_extent_refuted :
  aten_repeat_interleave_int_shape [2; 0] 3 (Some 0) = Some [0; 3] /\ torch_repeat_interleave_int_shape [2; 0] 3 (Some 0) = Some [6; 0].
Proof. exact repeat_interleave_int_zero_extent_refuted. Qed.
Print Assumptions C08_repeat_interleave_int_zero_extent_refuted.

(* pixel_shuffle: every rank >= 3 (DepthToSpace directly for rank 4, Reshape / DepthToSpace / Reshape otherwise), positive extents,
   every upscale factor: [.., C r^2, H, W] -> [.., C, H r, W r] *)
Theorem C08_pixel_shuffle_shape : forall s r out, shape_pos s ->
  torch_pixel_shuffle_shape s r = Some out -> aten_pixel_shuffle_shape s r = Some out.
Proof. exact pixel_shuffle_shape_correct. Qed.
Print Assumptions C08_pixel_shuffle_shape.
Example C08_pixel_shuffle_ex : aten_pixel_shuffle_shape [2; 3; 8; 2; 5] 2 = Some [2; 3; 2; 4; 10] /\ torch_pixel_shuffle_shape [2; 3; 8; 2; 5] 2 = Some [2; 3; 2; 4; 10].
Proof. split; reflexivity. Qed.
(* rank <> 4 with a zero extent among C, H, W: the collapsing Reshape reads the 0 as "copy"; the graph fails, PyTorch returns an empty tensor *)
Theorem C08_pixel_shuffle_zero_extent_refuted :
  aten_pixel_shuffle_shape [4; 0; 2] 2 = None /\ torch_pixel_shuffle_shape [4; 0; 2] 2 = Some [1; 0; 4].
Proof. exact pixel_shuffle_zero_extent_refuted. Qed.
Print Assumptions C08_pixel_shuffle_zero_extent_refuted.
(* pixel_unshuffle: stated, not proved (three Reshapes and the Transpose [0,1,3,5,2,4]); instances below, correspondence on every run *)
Definition C08_pixel_unshuffle_shape_full : Prop := forall s r out, shape_pos s ->
  torch_pixel_unshuffle_shape s r = Some out -> aten_pixel_unshuffle_shape s r = Some out.
Example C08_pixel_unshuffle_ex : aten_pixel_unshuffle_shape [2; 3; 2; 4; 6] 2 = Some [2; 3; 8; 2; 3] /\ torch_pixel_unshuffle_shape [2; 3; 2; 4; 6] 2 = Some [2; 3; 8; 2; 3].
Proof. split; reflexivity. Qed.

(* max.dim / min.dim: shapes of values and indices for every rank incl. 0-d (dim 0 / -1, keepdim ignored), negative dim, keepdim;
   a reduced extent 0 is refused on both sides *)
Theorem C08_maxmin_dim_shapes : forall s dim kd out,
  torch_maxmin_dim_shapes s dim kd = Some out -> aten_maxmin_dim_shapes s dim kd = Some out.
Proof. exact maxmin_dim_correct. Qed.
Print Assumptions C08_maxmin_dim_shapes.
Example C08_maxmin_dim_ex : aten_maxmin_dim_shapes [2; 0; 3] (-1) true = Some ([2; 0; 1], [2; 0; 1]) /\ aten_maxmin_dim_shapes [] (-1) true = Some ([], []).
Proof. split; reflexivity. Qed.

(* atleast_1d / 2d / 3d: every rank and extent (incl. 0): Reshape [1] / [1, -1] / [1, -1, 1] or Unsqueeze(-1) give PyTorch's shape *)
Theorem C08_atleast_shape : forall k s, shape_ok s -> k = 1 \/ k = 2 \/ k = 3 ->
  aten_atleast_shape k s = Some (torch_atleast_shape k s).
Proof. exact atleast_shape_correct. Qed.
Print Assumptions C08_atleast_shape.

(* reflection_pad{1,2,3}d / replication_pad{1,2,3}d: whenever PyTorch accepts, Pad with the reordered list produces its shape
   (e = 1, 2, 3 spatial dims, batched or not, negative pads) *)
Theorem C08_padnd_shape : forall reflect e s pad out,
  shape_ok s -> torch_padnd_shape reflect e s pad = Some out -> aten_pad_shape s pad = Some out.
Proof. exact padnd_shape_correct. Qed.
Print Assumptions C08_padnd_shape.
Example C08_padnd_ex : torch_padnd_shape true 2 [1; 3; 4] [1; 2; 0; 1] = Some [1; 4; 7] /\ aten_pad_shape [1; 3; 4] [1; 2; 0; 1] = Some [1; 4; 7].
Proof. split; reflexivity. Qed.

(* native_group_norm: mean and rstd have shape [N, group] for every rank >= 2 and positive extents (Reshape [N, group, -1], ReduceMean axis 2) *)
Theorem C08_native_group_norm_stats : forall s g out, shape_pos s ->
  torch_native_group_norm_stats s g = Some out -> aten_native_group_norm_stats s g = Some out.
Proof. exact native_group_norm_stats_correct. Qed.
Print Assumptions C08_native_group_norm_stats.
(* the normalised output (Reshape [0, group, -1], Reshape back, Unsqueeze(weight, Range(1, rank - 1)), broadcast): stated, not proved *)
Definition C08_group_norm_shape_full : Prop := forall native s g out, shape_pos s ->
  torch_group_norm_shape s g = Some out -> aten_group_norm_shape native s g = Some out.
Example C08_group_norm_ex : aten_group_norm_shape false [2; 6; 3; 2] 3 = Some [2; 6; 3; 2] /\ aten_group_norm_shape true [2; 4] 2 = Some [2; 4].
Proof. split; reflexivity. Qed.

(* glu: every rank >= 1, dim, even positive extent: Split(num_outputs = 2) halves the dimension *)
Theorem C08_glu_shape : forall s dim out, shape_pos s ->
  torch_glu_shape s dim = Some out -> aten_glu_shape s dim = Some out.
Proof. exact glu_shape_correct. Qed.
Print Assumptions C08_glu_shape.
