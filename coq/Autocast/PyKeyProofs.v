(* C12 -- proofs about cache keys under Python's ==/hash on all numbers (model: PyKey.v). *)
From Coq Require Import ZArith NArith List Bool Lia.
Require Import OV.Autocast.Autocast OV.Autocast.AutocastProofs OV.Autocast.PyKey.
Import ListNotations.

Lemma b2z_inj' a b : b2z a = b2z b -> a = b.
Proof. destruct a, b; cbn; intro H; try reflexivity; discriminate. Qed.

Lemma eqb_bool_eq a b : Bool.eqb a b = true -> a = b.
Proof. apply Bool.eqb_prop. Qed.

(* an element of one key matches the element of another and has the same sign entry: the same value, or a bool and the
   int it equals *)
Lemma match_sign_norm a b : pv_match a b = true -> opt_bool_eqb (psign a) (psign b) = true -> pnorm a = pnorm b.
Proof.
  unfold pv_match. intros M S.
  destruct a as [x|x|[n1 m1 e1|n1|n1 i]], b as [y|y|[n2 m2 e2|n2|n2 j]]; cbn in *; try discriminate;
    repeat match goal with
           | H : _ || _ = true |- _ => apply orb_true_iff in H; destruct H as [H|H]
           | H : _ && _ = true |- _ => apply andb_true_iff in H; destruct H as [H ?]
           | H : false = true |- _ => discriminate H
           end;
    repeat match goal with
           | H : Bool.eqb _ _ = true |- _ => apply eqb_bool_eq in H
           | H : (_ =? _)%N = true |- _ => apply N.eqb_eq in H
           | H : (_ =? _)%Z = true |- _ => apply Z.eqb_eq in H
           | H : Nat.eqb _ _ = true |- _ => apply Nat.eqb_eq in H
           end; subst; try reflexivity; try (f_equal; lia).
  all: try (destruct x, y; cbn in *; try reflexivity; discriminate).
  all: try (destruct y; cbn in *; f_equal; lia).
  all: try (destruct x; cbn in *; f_equal; lia).
Qed.

Lemma match_sign_norm_list : forall l1 l2, list_eqb pv_match l1 l2 = true ->
  list_eqb opt_bool_eqb (map psign l1) (map psign l2) = true -> map pnorm l1 = map pnorm l2.
Proof.
  induction l1 as [|a t IH]; intros [|b u] M S; cbn in *; try discriminate; [reflexivity|].
  apply andb_true_iff in M. destruct M as [M1 M2]. apply andb_true_iff in S. destruct S as [S1 S2].
  f_equal; [apply match_sign_norm; assumption | apply IH; assumption].
Qed.

Lemma pnorm_bool_inj a b : pkind a = KBool -> pkind b = KBool -> pnorm a = pnorm b -> a = b.
Proof.
  destruct a, b; cbn; intros; try discriminate. f_equal. apply b2z_inj'. inversion H1. reflexivity.
Qed.

Lemma isinstance_bool k : isinstance_kind k KBool = true -> k = KBool.
Proof. destruct k; cbn; intro; try discriminate; reflexivity. Qed.

Lemma pnorm_bools_inj : forall l1 l2, (forall v, In v l1 -> pkind v = KBool) -> (forall v, In v l2 -> pkind v = KBool) ->
  map pnorm l1 = map pnorm l2 -> l1 = l2.
Proof.
  induction l1 as [|a t IH]; intros [|b u] H1 H2 E; cbn in *; try discriminate; [reflexivity|].
  inversion E. f_equal.
  - apply pnorm_bool_inj; auto.
  - apply IH; auto.
Qed.

Lemma presolve_none l d : presolve l d = None -> d = None /\ pkind (phead l) = KBool.
Proof. unfold presolve. destruct d; [discriminate|]. destruct (pkind (phead l)); intro; try discriminate. split; reflexivity. Qed.

Lemma pcached_bool_elems l : pcached l = true -> pkind (phead l) = KBool -> forall v, In v (pelems l) -> pkind v = KBool.
Proof.
  destruct l as [v0|h t]; cbn; intros C K v [<-|I]; try assumption; try contradiction.
  rewrite forallb_forall in C. specialize (C _ I). rewrite K in C. apply isinstance_bool. exact C.
Qed.

Lemma pylit_of_elems l1 l2 : p_is_list l1 = p_is_list l2 -> pelems l1 = pelems l2 -> l1 = l2.
Proof. destruct l1, l2; cbn; intros; try discriminate; inversion H0; reflexivity. Qed.

Lemma pnorm_lit_of_elems l1 l2 : p_is_list l1 = p_is_list l2 -> map pnorm (pelems l1) = map pnorm (pelems l2) ->
  pnorm_lit l1 = pnorm_lit l2.
Proof. destruct l1, l2; cbn; intros; try discriminate; inversion H0; reflexivity. Qed.

Section CacheProofs.
  Variable T : Type.
  Variable mk : pylit -> option dtype -> T.
  (* the only thing asked of the creation function: at an explicit dtype a bool is converted like the int it equals *)
  Hypothesis mk_norm : forall l d, mk l (Some d) = mk (pnorm_lit l) (Some d).

  Theorem key_match_same_creation : forall l1 d1 l2 d2,
    pcached l1 = true -> pcached l2 = true -> pkey_match (pkey_of l1 d1) (pkey_of l2 d2) = true ->
    mk l1 (presolve l1 d1) = mk l2 (presolve l2 d2).
  Proof.
    intros l1 d1 l2 d2 C1 C2 M. unfold pkey_match, pkey_of in M. cbn in M.
    repeat (apply andb_true_iff in M; destruct M as [M ?]).
    apply eqb_bool_eq in M. apply opt_dtype_eqb_eq in H0.
    pose proof (match_sign_norm_list _ _ H1 H) as E.
    rewrite H0. destruct (presolve l2 d2) as [d|] eqn:R2.
    - rewrite (mk_norm l1), (mk_norm l2). f_equal. apply pnorm_lit_of_elems; assumption.
    - apply presolve_none in R2. destruct R2 as [_ K2]. apply presolve_none in H0. destruct H0 as [_ K1].
      f_equal. apply pylit_of_elems; [assumption|].
      apply pnorm_bools_inj; [apply pcached_bool_elems; assumption | apply pcached_bool_elems; assumption | exact E].
  Qed.

  Definition pdenote (l : pylit) (d : option dtype) : T := if pcached l then mk l (presolve l d) else mk l d.
  Definition pentry_ok (c : pcache T) : Prop :=
    forall k t, In (k, t) c -> exists l d, pcached l = true /\ k = pkey_of l d /\ t = mk l (presolve l d).

  Lemma pfind_in (c : pcache T) k t : pfind T c k = Some t -> exists k', In (k', t) c /\ pkey_match k k' = true.
  Proof.
    induction c as [|[k' t'] r IH]; cbn; [discriminate|].
    destruct (pkey_match k k') eqn:E; intro H.
    - inversion H; subst. exists k'. split; [left; reflexivity|exact E].
    - destruct (IH H) as [k'' [I M]]. exists k''. split; [right; exact I|exact M].
  Qed.

  Lemma pget_ok c l d : pentry_ok c -> pentry_ok (fst (pget T mk c l d)) /\ snd (pget T mk c l d) = pdenote l d.
  Proof.
    intro I. unfold pget, pdenote. destruct (pcached l) eqn:C; [|split; [exact I|reflexivity]].
    destruct (pfind T c (pkey_of l d)) as [t|] eqn:F; cbn.
    - split; [exact I|]. apply pfind_in in F. destruct F as [k' [In' M]].
      destruct (I _ _ In') as [l' [d' [C' [-> ->]]]]. symmetry. apply key_match_same_creation; assumption.
    - split; [|reflexivity]. intros k t In'. apply in_app_or in In'. destruct In' as [In'|[E|[]]]; [exact (I _ _ In')|].
      inversion E; subst. exists l, d. repeat split; assumption.
  Qed.

  Lemma prun_ok : forall h c, pentry_ok c -> pentry_ok (prun T mk c h).
  Proof.
    induction h as [|[l d] t IH]; intros c I; cbn; [exact I|]. apply IH. apply pget_ok. exact I.
  Qed.

  (* whatever the history -- 1, True, 1.0, 0, False, 0.0, -0.0, NaN objects, +-inf, huge ints, tuples of them, in any order
     and at any dtypes -- a request is handed the tensor it denotes on its own *)
  Theorem pcache_never_conflates : forall h l d, snd (pget T mk (prun T mk [] h) l d) = pdenote l d.
  Proof.
    intros h l d. apply pget_ok. apply prun_ok. intros k t [].
  Qed.
End CacheProofs.

(* the creation function of the model satisfies the hypothesis *)
Lemma py_cast_norm w v d : py_cast w v d = py_cast w (pnorm v) d.
Proof.
  destruct v as [z|b|f]; cbn; try reflexivity. unfold py_cast. cbn. rewrite <- np_cast_int_bool_v. reflexivity.
Qed.

Lemma pkind_norm_default v : default_of_kind (pkind v) = default_of_kind (pkind v). Proof. reflexivity. Qed.

Theorem py_mk_norm : forall w l d, py_mk w l (Some d) = py_mk w (pnorm_lit l) (Some d).
Proof.
  intros w l d. unfold py_mk. destruct l as [v|h t]; cbn.
  - rewrite (py_cast_norm w v d). reflexivity.
  - rewrite (py_cast_norm w h d). f_equal. f_equal. rewrite map_map. apply map_ext. intro a. apply py_cast_norm.
Qed.

Theorem builder_key_never_conflates : forall w h l d,
  snd (pget _ (py_mk w) (prun _ (py_mk w) [] h) l d) = pdenote _ (py_mk w) l d.
Proof. intros w h l d. apply pcache_never_conflates. apply py_mk_norm. Qed.

(* what the key identifies and what it keeps apart *)
Definition P1 := PS (PInt 1).
Definition PTrue := PS (PBool true).
Definition P1f := PS (PFloat (FFin false 1 0)).
Definition P0f := PS (PFloat (FFin false 0 0)).
Definition Pm0f := PS (PFloat (FFin true 0 0)).
Theorem key_classes :
  (forall d, pkey_match (pkey_of P1 (Some d)) (pkey_of PTrue (Some d)) = true) /\     (* True shares with 1 at an explicit dtype *)
  pkey_match (pkey_of P1 None) (pkey_of PTrue None) = false /\                       (* INT64 vs BOOL by python type *)
  (forall d d', pkey_match (pkey_of P1 d) (pkey_of P1f d') = false) /\                 (* 1 == 1.0 but the sign entry differs *)
  (forall d d', pkey_match (pkey_of P0f d) (pkey_of Pm0f d') = false) /\               (* 0.0 == -0.0 but the sign entry differs *)
  (forall n i j d d', pkey_match (pkey_of (PS (PFloat (FNan n i))) d) (pkey_of (PS (PFloat (FNan n j))) d') = true -> i = j) /\
  (forall z f d d', pkey_match (pkey_of (PS (PInt z)) d) (pkey_of (PS (PFloat f)) d') = false).   (* 2^53 + 1 never meets float(2^53) *)
Proof.
  repeat split.
  - intro d. unfold pkey_match. cbn. unfold opt_dtype_eqb. rewrite N.eqb_refl. reflexivity.
  - intros d d'. unfold pkey_match. cbn. rewrite !andb_false_r. reflexivity.
  - intros d d'. unfold pkey_match. cbn. rewrite !andb_false_r. reflexivity.
  - intros n i j d d' H. unfold pkey_match in H. cbn in H.
    destruct (Nat.eqb i j) eqn:E; [apply Nat.eqb_eq; exact E|].
    unfold pv_match in H. cbn in H. rewrite E in H. destruct n; cbn in H; discriminate.
  - intros z f d d'. unfold pkey_match. cbn. destruct f; cbn; rewrite ?andb_false_r; reflexivity.
Qed.

(* ---- the converter's subscript constants: cached_int_consts[value], the python value alone as the key ---- *)
Theorem subscript_key_conflates_refuted :
  snd (vget _ sub_tensor (vrun _ sub_tensor [] [PInt 1]) (PBool true)) = (INT64, PInt 1) /\
  sub_tensor (PBool true) = (BOOL, PBool true) /\
  snd (vget _ sub_tensor (vrun _ sub_tensor [] [PBool true]) (PInt 1)) = (BOOL, PBool true) /\
  sub_tensor (PInt 1) = (INT64, PInt 1).
Proof. vm_compute. repeat split; reflexivity. Qed.

Section ValueKeyProofs.
  Variable T : Type.
  Variable mk : pyval -> T.
  Variable ok : pyval -> bool.            (* the keys that occur *)
  Hypothesis ok_match : forall a b, ok a = true -> ok b = true -> pv_match a b = true -> mk a = mk b.

  Definition ventry_ok (c : vcache T) : Prop := forall v t, In (v, t) c -> ok v = true /\ t = mk v.
  Lemma vfind_in (c : vcache T) v t : vfind T c v = Some t -> exists v', In (v', t) c /\ pv_match v v' = true.
  Proof.
    induction c as [|[v' t'] r IH]; cbn; [discriminate|].
    destruct (pv_match v v') eqn:E; intro H.
    - inversion H; subst. exists v'. split; [left; reflexivity|exact E].
    - destruct (IH H) as [v'' [I M]]. exists v''. split; [right; exact I|exact M].
  Qed.
  Lemma vget_ok c v : ok v = true -> ventry_ok c -> ventry_ok (fst (vget T mk c v)) /\ snd (vget T mk c v) = mk v.
  Proof.
    intros O I. unfold vget. destruct (vfind T c v) as [t|] eqn:F; cbn.
    - split; [exact I|]. apply vfind_in in F. destruct F as [v' [In' M]]. destruct (I _ _ In') as [O' ->].
      symmetry. apply ok_match; assumption.
    - split; [|reflexivity]. intros v' t In'. apply in_app_or in In'. destruct In' as [In'|[E|[]]]; [exact (I _ _ In')|].
      inversion E; subst. split; [exact O|reflexivity].
  Qed.
  Lemma vrun_ok : forall h c, ventry_ok c -> forallb ok h = true -> ventry_ok (vrun T mk c h).
  Proof.
    induction h as [|a t IH]; intros c I H; cbn; [exact I|]. cbn in H. apply andb_true_iff in H. destruct H as [Ha Ht].
    apply IH; [|exact Ht]. apply vget_ok; assumption.
  Qed.
  Theorem value_key_never_conflates : forall h v, forallb ok h = true -> ok v = true ->
    snd (vget T mk (vrun T mk [] h) v) = mk v.
  Proof.
    intros h v H O. apply vget_ok; [exact O|]. apply vrun_ok; [|exact H]. intros v' t' [].
  Qed.
End ValueKeyProofs.

Lemma pint_match a b : is_pint a = true -> is_pint b = true -> pv_match a b = true -> a = b.
Proof.
  destruct a, b; cbn; intros; try discriminate. unfold pv_match in H1. cbn in H1. apply Z.eqb_eq in H1. subst. reflexivity.
Qed.
Lemma intlike_match a b : is_intlike a = true -> is_intlike b = true -> pv_match a b = true -> pnorm a = pnorm b.
Proof.
  destruct a, b; cbn; intros; try discriminate; unfold pv_match in H1; cbn in H1; apply Z.eqb_eq in H1; subst; try reflexivity;
    f_equal; auto.
Qed.

(* as read: sound as long as no bool is used as a slice bound / index beside ints *)
Theorem subscript_key_ints_only_partial : forall (T : Type) (mk : pyval -> T) h v,
  forallb is_pint h = true -> is_pint v = true -> snd (vget T mk (vrun T mk [] h) v) = mk v.
Proof.
  intros T mk h v. apply value_key_never_conflates. intros a b A B M. f_equal. apply pint_match; assumption.
Qed.

(* repaired (value = int(value) first): sound for ints and bools in any order *)
Theorem subscript_key_fixed : forall h v, forallb is_intlike h = true -> is_intlike v = true ->
  snd (vget _ sub_tensor_int (vrun _ sub_tensor_int [] h) v) = sub_tensor_int v.
Proof.
  intros h v. apply value_key_never_conflates. intros a b A B M. unfold sub_tensor_int. f_equal. apply intlike_match; assumption.
Qed.

(* ---- initializer names: two requests whose keys differ get different names -- unless both are NaN ---- *)
Theorem name_collision_only_nan : forall a da b db,
  pkey_match (pkey_of (PS a) da) (pkey_of (PS b) db) = false ->
  name_eq a (presolve (PS a) da) b (presolve (PS b) db) = true -> is_nan a && is_nan b = true.
Proof.
  intros a da b db K N. unfold name_eq in N. apply andb_true_iff in N. destruct N as [R D].
  unfold pkey_match, pkey_of in K. cbn in K. cbn in D. rewrite D in K. rewrite andb_true_r in K.
  destruct a as [x|x|[n1 m1 e1|n1|n1 i]], b as [y|y|[n2 m2 e2|n2|n2 j]]; cbn in *; try discriminate; try reflexivity;
    unfold pv_match in K; cbn in K.
  - rewrite R in K. discriminate.
  - apply eqb_bool_eq in R. subst. destruct y; discriminate.
  - repeat (apply andb_true_iff in R; destruct R as [R ?]). rewrite R, H0, H in K. cbn in K.
    rewrite orb_true_r in K. apply eqb_bool_eq in R. subst. destruct n2; discriminate.
  - rewrite R in K. cbn in K. apply eqb_bool_eq in R. subst. destruct n2; discriminate.
Qed.

Theorem nan_name_collision_refuted : exists a b d,
  pkey_match (pkey_of (PS a) d) (pkey_of (PS b) d) = false /\ name_eq a (presolve (PS a) d) b (presolve (PS b) d) = true.
Proof. exists (PFloat (FNan false 0)), (PFloat (FNan false 1)), (Some FLOAT). vm_compute. split; reflexivity. Qed.
