(* C04 -- totality / validity of the If inlining of FoldConstantsPass when taken branches own initializers whose names clash:
   `_move_initializers_to_graph` (model coq/Opt/MoveInits.v; the shape of the source function is read by harness/c03_tables.py into
   coq/Gen/MoveInits.v on every run; observed calls of the real helper are compared with the model in Coq: family `if-initializers`,
   harness/c04_ifinits.py).  Statements only.
   Proved: the fresh-name search always ends; the chosen name is the name itself when free, else the FIRST unused name_<n>, n >= 1;
   the names given to moved initializers by any number of consecutive calls (sibling and nested constant-condition Ifs) are pairwise
   distinct and were not initializer names of the destination, which stays duplicate-free; without a clash nothing is renamed (the
   domain of Opt/Fold.v pe_if); the one-bump variant raises on a double clash.
   Not covered: values of the destination graph that are not initializers are not consulted by the helper (a node output called
   scale_1 is repaired later by NameFixPass: observed, not modelled); the uses of a renamed initializer follow the ir.Value object
   (no renaming of uses is modelled); wf_graphb of the whole result is evaluated on every real result, not proved. *)
From Coq Require Import List String Bool.
Require Import OV.Graph.Syntax OV.Rewrite.State OV.Gen.MoveInits OV.Opt.MoveInits OV.Opt.MoveInitsProofs.
Import ListNotations.
Local Open Scope string_scope.

Theorem C04_move_inits_source_is_the_loop : move_inits_src = move_inits /\ move_many_src = move_many.
Proof. exact move_inits_src_is_loop. Qed.
Print Assumptions C04_move_inits_source_is_the_loop.

Theorem C04_move_inits_total : forall srcs dst, exists r, move_many_src srcs dst = Some r.
Proof. exact move_many_src_total. Qed.
Print Assumptions C04_move_inits_total.

Theorem C04_fresh_init_name_is_first_unused : forall name dst y, fresh_init_name name dst = Some y ->
  (~ In name dst /\ y = name) \/
  (In name dst /\ exists n, 1 <= n /\ y = bumped name n /\ ~ In y dst /\ forall m, 1 <= m < n -> In (bumped name m) dst).
Proof. exact fresh_init_name_spec. Qed.
Print Assumptions C04_fresh_init_name_is_first_unused.

Theorem C04_moved_initializers_distinct_and_fresh : forall srcs dst rens d, move_many srcs dst = Some (rens, d) -> NoDup dst ->
  (NoDup d /\ d = (dst ++ flat_map (map snd) rens)%list /\ map (map fst) rens = srcs) /\
  NoDup (flat_map (map snd) rens) /\ (forall y, In y (flat_map (map snd) rens) -> ~ In y dst).
Proof. exact (fun srcs dst rens d H ND => conj (move_many_fresh srcs dst rens d H ND) (move_many_names_distinct srcs dst rens d H ND)). Qed.
Print Assumptions C04_moved_initializers_distinct_and_fresh.

Theorem C04_move_inits_no_clash_is_identity : forall src dst, NoDup src -> (forall x, In x src -> ~ In x dst) ->
  move_inits src dst = Some (map (fun x => (x, x)) src, (dst ++ src)%list).
Proof. exact move_inits_no_clash. Qed.
Print Assumptions C04_move_inits_no_clash_is_identity.

Theorem C04_one_bump_agrees_or_raises : forall name dst,
  (fresh_init_name_once name dst = None <-> (In name dst /\ In (bumped name 1) dst)) /\
  (forall y, fresh_init_name_once name dst = Some y -> fresh_init_name name dst = Some y).
Proof. exact once_agrees_or_raises. Qed.
Print Assumptions C04_one_bump_agrees_or_raises.

Theorem C04_one_bump_raises_on_double_clash_refuted :
  move_many_once [["scale"]; ["scale"]; ["scale"]] [] = None /\
  move_many_once [["scale"]; ["scale"]] ["scale"] = None /\
  move_many [["scale"]; ["scale"]; ["scale"]] []
    = Some ([[("scale", "scale")]; [("scale", "scale_1")]; [("scale", "scale_2")]], ["scale"; "scale_1"; "scale_2"]) /\
  move_many [["scale"]; ["scale"]] ["scale"; "scale_1"]
    = Some ([[("scale", "scale_2")]; [("scale", "scale_3")]], ["scale"; "scale_1"; "scale_2"; "scale_3"]).
Proof. exact move_many_once_refuted. Qed.
Print Assumptions C04_one_bump_raises_on_double_clash_refuted.

Theorem C04_observed_move_is_the_model : forall src dst raised news after, observed_ok src dst raised news after = true ->
  raised = false /\ move_inits src dst = Some (combine src news, after).
Proof. exact observed_ok_sound. Qed.
Print Assumptions C04_observed_move_is_the_model.
