(* C07 property theorems: applying a rewrite replaces only the match and leaves an equivalent graph.
   Statements only, each closed by `exact`, Print Assumptions beneath.  All theorems hold for ARBITRARY kernel
   semantics (V, sem, truth, trip, ... are universally quantified).

   Model: OV.Rewrite.Apply (apply_nodes / apply_at / apply_pass / sweep), tied to
   onnxscript/rewriter/_rewrite_rule.py + onnx_ir.convenience.replace_nodes_and_values by the correspondence in
   harness/c07.py (every application the real rewriter performs is replayed through apply_pass).

   Not covered by the theorems (checked on the real code by the harness only): initializer / opset-import /
   function registration, as_function extraction, metadata, progress ("fires when a removable instance
   exists"), patterns with several output nodes (the model has a single root; see the C07 finding): for those only
   the repair step is modelled (stable_sort, C07_sort_ordered / C07_sort_leaves_sorted), not the splice. *)
From Coq Require Import List String ZArith Bool Permutation.
Require Import OV.Graph.Syntax OV.Graph.Sem OV.Graph.Names OV.Graph.SemProofs.
Require Import OV.Rewrite.Apply OV.Rewrite.ApplyProofs OV.Rewrite.KeepProofs OV.Rewrite.PassProofs OV.Rewrite.ApplyExamples.
Require Import OV.Rewrite.Order OV.Rewrite.OrderProofs OV.Rewrite.OrderExamples.
Import ListNotations.

(* apply_one_sound: one application at any nesting level (path [] = the main graph or a function body, longer
   paths = If/Loop bodies).  Hypothesis ok_at = at the graph where the match sits, site_sound holds, i.e. either
   (splice, app_sound_at) the matched nodes are independent of the later unmatched nodes of the window
     (non-contiguous matches), the matched segment and (kept matched nodes ++ replacement) are interchangeable up to
     X (seg_equiv), and X (intermediates of the match, dead names, fresh names) is mentioned neither after the root
     nor by the graph outputs; or
   (keeping rule, keep_sound_at) the executable conditions keep_okb hold (matched nodes re-executable, dead names
     only on the root, replacement redefines the root's outputs and reads neither them nor the dead names, fresh and
     dead names unused afterwards) and the replacement is interchangeable with the matched nodes run as a segment. *)
Theorem C07_apply_one_sound :
  forall V sem truth trip of_nat of_bool limit p a X g g',
    apply_at p a g = Some g' ->
    ok_at V sem truth trip of_nat of_bool limit p a X g ->
    forall fuel outer args,
      eval_graph V sem truth trip of_nat of_bool limit fuel outer g args
      = eval_graph V sem truth trip of_nat of_bool limit fuel outer g' args.
Proof. exact apply_at_sound. Qed.
Print Assumptions C07_apply_one_sound.

(* its hypotheses are satisfiable: non-contiguous match in the main graph, inside an If branch, keeping rule *)
Theorem C07_apply_one_sound_example_main :
  forall V sem truth trip of_nat of_bool limit,
    apply_nodes ex_app ex_nodes = Some ex_after /\
    app_sound_at V sem truth trip of_nat of_bool limit ex_nodes ["o"%string] ex_app ex_X.
Proof. exact (fun V sem truth trip of_nat of_bool limit =>
                conj ex_apply (ex_sound_hyps V sem truth trip of_nat of_bool limit)). Qed.
Print Assumptions C07_apply_one_sound_example_main.

Theorem C07_apply_one_sound_example_nested :
  forall V sem truth trip of_nat of_bool limit,
    ok_at V sem truth trip of_nat of_bool limit ex_path ex_app ex_X ex_host.
Proof. exact ex_ok_nested. Qed.
Print Assumptions C07_apply_one_sound_example_nested.

Theorem C07_apply_one_sound_example_keep :
  forall V sem truth trip of_nat of_bool limit,
    apply_nodes ex_app_keep ex_nodes = Some ex_after_keep /\
    app_sound_at V sem truth trip of_nat of_bool limit ex_nodes ["o"%string] ex_app_keep ex_X_keep.
Proof. exact (fun V sem truth trip of_nat of_bool limit =>
                conj ex_apply_keep (ex_sound_hyps_keep V sem truth trip of_nat of_bool limit)). Qed.
Print Assumptions C07_apply_one_sound_example_keep.

(* keeping rule (remove_nodes=False), no commutation needed: interleaved consumers of the match's intermediates allowed *)
Theorem C07_apply_keep_sound :
  forall V sem truth trip of_nat of_bool limit a ns ns' outs X0,
    apply_nodes a ns = Some ns' ->
    keep_sound_at V sem truth trip of_nat of_bool limit ns outs a X0 ->
    forall fuel outer gi gn args,
      eval_graph V sem truth trip of_nat of_bool limit fuel outer (Graph gi gn ns outs) args
      = eval_graph V sem truth trip of_nat of_bool limit fuel outer (Graph gi gn ns' outs) args.
Proof. exact apply_nodes_keep_sound. Qed.
Print Assumptions C07_apply_keep_sound.

Theorem C07_apply_keep_sound_example :
  forall V sem truth trip of_nat of_bool limit,
    apply_nodes ex_app_keep ex_nodes_k2 = Some ex_after_k2 /\
    movableb (a_mask ex_app_keep) (firstn 3 ex_nodes_k2) = false /\
    keep_sound_at V sem truth trip of_nat of_bool limit ex_nodes_k2 ["o"%string] ex_app_keep ex_X.
Proof. exact (fun V sem truth trip of_nat of_bool limit =>
                conj ex_apply_k2 (conj ex_k2_not_movable (ex_keep_hyps_k2 V sem truth trip of_nat of_bool limit))). Qed.
Print Assumptions C07_apply_keep_sound_example.

(* the executable side-condition checker (evaluated by the harness on the real matches) implies the
   propositional side conditions; only the equivalence of the replacement remains to be supplied *)
Theorem C07_side_conditions_checkable :
  forall V sem truth trip of_nat of_bool limit a ns outs X,
    side_okb a ns outs X = true ->
    (forall f, seg_equiv V sem truth trip of_nat of_bool limit X
                 (eval_graph V sem truth trip of_nat of_bool limit f)
                 (sel (a_mask a) (firstn (List.length (a_mask a)) ns))
                 (kept_sel (a_remove a) (a_dead a) (a_mask a) (firstn (List.length (a_mask a)) ns) ++ a_new a)) ->
    app_sound_at V sem truth trip of_nat of_bool limit ns outs a X.
Proof. exact side_okb_sound. Qed.
Print Assumptions C07_side_conditions_checkable.

(* commutation lemma behind non-contiguous matches: a window whose matched nodes are independent of the
   later unmatched ones acts like (unmatched nodes ++ matched nodes) *)
Theorem C07_commutation :
  forall V sem truth trip of_nat of_bool limit ev mask ns,
    (forall X, respects V X ev) -> movableb mask ns = true ->
    nodes_equiv V sem truth trip of_nat of_bool limit ev ns (unsel mask ns ++ sel mask ns).
Proof. exact window_sorted. Qed.
Print Assumptions C07_commutation.

(* congruence lemma behind nested matches: a node whose subgraph is replaced by an equivalent one *)
Theorem C07_subgraph_congruence :
  forall V sem truth trip of_nat of_bool limit ev e d op ins outs at_ subs key sg sg',
    find_sub key subs = Some sg -> sub_equiv V ev sg sg' ->
    eval_node V sem truth trip of_nat of_bool limit ev e (Node d op ins outs at_ subs)
    = eval_node V sem truth trip of_nat of_bool limit ev e (Node d op ins outs at_ (set_sub key sg' subs)).
Proof. exact eval_node_congr. Qed.
Print Assumptions C07_subgraph_congruence.

(* apply_frame: exactly the matched nodes disappear (remove_nodes=True) ... *)
Theorem C07_apply_frame_removed : forall a ns ns', a_remove a = true -> apply_nodes a ns = Some ns' ->
  exists l1 l2, ns' = l1 ++ a_new a ++ l2 /\ l1 ++ l2 = unsel (a_mask a) ns /\
                Permutation ns (sel (a_mask a) ns ++ l1 ++ l2).
Proof. exact apply_frame_removed. Qed.
Print Assumptions C07_apply_frame_removed.

(* ... none when the rule keeps nodes; all other nodes unchanged *)
Theorem C07_apply_frame_kept : forall a ns ns', a_remove a = false -> apply_nodes a ns = Some ns' ->
  exists l1 l2, ns' = l1 ++ a_new a ++ l2 /\ List.length (l1 ++ l2) = List.length ns /\
                unsel (a_mask a) (l1 ++ l2) = unsel (a_mask a) ns /\
                (a_dead a = [] -> l1 ++ l2 = ns).
Proof. exact apply_frame_kept. Qed.
Print Assumptions C07_apply_frame_kept.

(* apply_outputs_preserved: graph input, initializer and output names unchanged, at any nesting level;
   the change sits exactly at the site the path designates *)
Theorem C07_apply_outputs_preserved : forall p a g g', apply_at p a g = Some g' ->
  g_ins g' = g_ins g /\ g_inits g' = g_inits g /\ g_outs g' = g_outs g.
Proof. exact apply_outputs_preserved. Qed.
Print Assumptions C07_apply_outputs_preserved.

Theorem C07_apply_at_site : forall p a g g', apply_at p a g = Some g' ->
  exists s s', site p g = Some s /\ apply_at [] a s = Some s' /\ site p g' = Some s'.
Proof. exact apply_at_site. Qed.
Print Assumptions C07_apply_at_site.

(* apply_pass_sound: repeated and overlapping matches = the composition of single sound applications *)
Theorem C07_apply_pass_sound :
  forall V sem truth trip of_nat of_bool limit l g g',
    apply_pass (map fst l) g = Some g' ->
    pass_ok V sem truth trip of_nat of_bool limit l g ->
    forall fuel outer args,
      eval_graph V sem truth trip of_nat of_bool limit fuel outer g args
      = eval_graph V sem truth trip of_nat of_bool limit fuel outer g' args.
Proof. exact apply_pass_sound. Qed.
Print Assumptions C07_apply_pass_sound.

Theorem C07_apply_pass_sound_example :
  forall V sem truth trip of_nat of_bool limit,
    pass_ok V sem truth trip of_nat of_bool limit [(ex_path, ex_app, ex_X)] ex_host.
Proof. exact ex_pass_ok. Qed.
Print Assumptions C07_apply_pass_sound_example.

(* the node iteration (cursor continues at the first replacement node; first applicable rule wins): whatever
   it fires, if every rule only proposes sound applications the swept graph evaluates like the original *)
Theorem C07_sweep_sound :
  forall V sem truth trip of_nat of_bool limit fuel try i ns acc ns' apps outs,
    try_sound V sem truth trip of_nat of_bool limit try outs ->
    sweep fuel try i ns acc = Some (ns', apps) ->
    forall fuel' outer gi gn args,
      eval_graph V sem truth trip of_nat of_bool limit fuel' outer (Graph gi gn ns outs) args
      = eval_graph V sem truth trip of_nat of_bool limit fuel' outer (Graph gi gn ns' outs) args.
Proof. exact sweep_sound. Qed.
Print Assumptions C07_sweep_sound.

Theorem C07_first_rule_wins_sound :
  forall V sem truth trip of_nat of_bool limit rules outs,
    Forall (fun r => try_sound V sem truth trip of_nat of_bool limit r outs) rules ->
    try_sound V sem truth trip of_nat of_bool limit (first_rule rules) outs.
Proof. exact first_rule_sound. Qed.
Print Assumptions C07_first_rule_wins_sound.

(* the graph comparison used by the replay checker decides equality (it is not part of the trusted base) *)
Theorem C07_graph_eqb_decides : forall g h, graph_eqb g h = true -> g = h.
Proof. exact graph_eqb_eq. Qed.
Print Assumptions C07_graph_eqb_decides.

(* replay_sound: what the correspondence check computes on the real data (check_host = (0, _, 0): the logged
   applications reproduce the final graph, every one inside the executable side conditions) together with the
   interchangeability of each replacement with its match gives: the graph the implementation ended with evaluates
   like the graph it started from *)
Theorem C07_replay_sound :
  forall V sem truth trip of_nat of_bool limit l i g final k,
    check_host_from i 0 l g final = (0, k, 0) ->
    equiv_hyps V sem truth trip of_nat of_bool limit l g ->
    forall fuel outer args,
      eval_graph V sem truth trip of_nat of_bool limit fuel outer g args
      = eval_graph V sem truth trip of_nat of_bool limit fuel outer final args.
Proof. exact replay_sound. Qed.
Print Assumptions C07_replay_sound.

Theorem C07_replay_sound_example :
  forall V sem truth trip of_nat of_bool limit,
    check_host [(ex_path, ex_app, ["a"%string])] ex_host ex_host_after = (0, 1, 0) /\
    equiv_hyps V sem truth trip of_nat of_bool limit [(ex_path, ex_app, ["a"%string])] ex_host.
Proof. exact (fun V sem truth trip of_nat of_bool limit =>
                conj ex_check (ex_equiv_hyps V sem truth trip of_nat of_bool limit)). Qed.
Print Assumptions C07_replay_sound_example.

Theorem C07_replay_sound_example_keep :
  forall V sem truth trip of_nat of_bool limit,
    check_host [([], ex_app_keep, ["a"%string])] ex_host_k2 ex_host_k2_after = (0, 1, 0) /\
    equiv_hyps V sem truth trip of_nat of_bool limit [([], ex_app_keep, ["a"%string])] ex_host_k2.
Proof. exact (fun V sem truth trip of_nat of_bool limit =>
                conj ex_check_k2 (ex_equiv_hyps_k2 V sem truth trip of_nat of_bool limit)). Qed.
Print Assumptions C07_replay_sound_example_keep.

(* ---- validity, order part: every container stays topologically ordered -------------------------------------- *)
(* topo_nodes vis ns: every node of the list reads only names of vis or outputs of earlier nodes; the body of an
   If/Loop is checked with what is visible at the node holding it (ONNX scoping).  order_okb: the executable
   conditions of one application -- (1) what remains of the window is ordered (removing rule: movableb, keeping rule:
   dead names on the root only), (2) the replacement placed RIGHT AFTER THE WINDOW (where apply_nodes puts it) reads only
   what is visible there and is itself ordered, (3) a name defined in the window and mentioned later is still defined.
   Not covered: patterns with several output nodes (insertion after the FIRST output node: C07_multi_output_needs_sort
   shows that the order is lost there; only the repairing sort is modelled), uniqueness of names (wf_graphb, evaluated
   on the real results). *)
Theorem C07_apply_keeps_order : forall vis a ns ns',
  order_okb vis a ns = true -> topo_nodes vis ns = true -> apply_nodes a ns = Some ns' ->
  topo_nodes vis ns' = true.
Proof. exact apply_nodes_order. Qed.
Print Assumptions C07_apply_keeps_order.

(* the first condition is a consequence of a side condition of the soundness theorem *)
Theorem C07_window_kept_ordered : forall mask win v,
  movableb mask win = true -> topo_nodes v win = true -> topo_nodes v (unsel mask win) = true.
Proof. exact unsel_ordered. Qed.
Print Assumptions C07_window_kept_ordered.

(* at any nesting level: path [] = the main graph or the body of a model-local function, longer paths = If/Loop bodies
   (of the main graph or of a function); the visible names are accumulated on the way down *)
Theorem C07_apply_at_keeps_order : forall p a vis g g',
  order_ok_at vis p a g = true -> topo_graph vis g = true -> apply_at p a g = Some g' ->
  topo_graph vis g' = true.
Proof. exact apply_at_order. Qed.
Print Assumptions C07_apply_at_keeps_order.

(* a pass over one container (ext: initializers registered by the replacements) *)
Theorem C07_pass_keeps_order : forall ext l g g',
  order_ok_pass ext l g = true -> topo_graph ext g = true -> apply_pass l g = Some g' ->
  topo_graph ext g' = true.
Proof. exact apply_pass_order. Qed.
Print Assumptions C07_pass_keeps_order.

(* a model = the main graph and the bodies of the model-local functions: whichever container each application of the
   pass falls into, all containers stay ordered *)
Theorem C07_model_pass_keeps_order : forall ext l cs cs',
  order_ok_model ext l cs = true -> model_sorted ext cs = true -> apply_model_pass l cs = Some cs' ->
  model_sorted ext cs' = true.
Proof. exact apply_model_order. Qed.
Print Assumptions C07_model_pass_keeps_order.

(* what the correspondence evaluates on every replayed sweep of the real rewriter *)
Theorem C07_check_order_sound : forall ext l g g',
  check_order ext l g = true -> apply_pass (map fst l) g = Some g' -> topo_graph ext g' = true.
Proof. exact check_order_sound. Qed.
Print Assumptions C07_check_order_sound.

(* hypotheses satisfiable: non-contiguous match, keeping rule, match in an If branch of a function body of a model *)
Theorem C07_keeps_order_example_main :
  topo_nodes ["x"; "y"]%string ex_nodes = true /\ order_okb ["x"; "y"]%string ex_app ex_nodes = true /\
  topo_nodes ["x"; "y"]%string ex_after = true.
Proof. exact ex_order_main. Qed.
Print Assumptions C07_keeps_order_example_main.

Theorem C07_keeps_order_example_keep :
  topo_nodes ["x"]%string ex_nodes_k2 = true /\ order_okb ["x"]%string ex_app_keep ex_nodes_k2 = true /\
  topo_nodes ["x"]%string ex_after_k2 = true.
Proof. exact ex_order_keep. Qed.
Print Assumptions C07_keeps_order_example_keep.

Theorem C07_keeps_order_example_model :
  model_sorted [] ex_model = true /\ order_ok_model [] ex_model_pass ex_model = true /\
  apply_model_pass ex_model_pass ex_model = Some [ex_main; ex_host_after].
Proof. exact ex_order_model. Qed.
Print Assumptions C07_keeps_order_example_model.

(* the conditions are not vacuous: a replacement reading a value defined after the window is rejected *)
Theorem C07_order_conditions_reject :
  topo_nodes ["x"; "y"]%string ex_nodes = true /\ order_okb ["x"; "y"]%string ex_app_bad ex_nodes = false.
Proof. exact ex_order_rejects. Qed.
Print Assumptions C07_order_conditions_reject.

(* patterns with several output nodes: the insertion point of the implementation (after the first output node) does not
   keep the order -- witness: b = Abs(v); c = Relu(b); a = Neg(v); w = Add(a, c) with the pattern (Neg(v), Abs(v)) -- and
   the stable topological sort the implementation runs afterwards (model.graph.sort(); function.sort() for every
   function) returns an ordered permutation, leaving ordered lists unchanged.  Partial: that the sort SUCCEEDS whenever an
   order exists is not proved; the descent of the sort into subgraphs is not modelled. *)
Theorem C07_multi_output_needs_sort :
  topo_nodes ["v"]%string ex_multi_spliced = false /\
  stable_sort 5 ["v"]%string ex_multi_spliced = Some ex_multi_sorted /\
  topo_nodes ["v"]%string ex_multi_sorted = true.
Proof. exact ex_multi_output_needs_sort. Qed.
Print Assumptions C07_multi_output_needs_sort.

Theorem C07_sort_ordered_partial : forall fuel vis ns l, stable_sort fuel vis ns = Some l ->
  topo_nodes vis l = true /\ Permutation ns l.
Proof. exact stable_sort_ordered. Qed.
Print Assumptions C07_sort_ordered_partial.

Theorem C07_sort_leaves_sorted : forall ns vis, topo_nodes vis ns = true ->
  stable_sort (List.length ns) vis ns = Some ns.
Proof. exact stable_sort_sorted_id. Qed.
Print Assumptions C07_sort_leaves_sorted.
