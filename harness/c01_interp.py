"""NumPy reading of a generated program (C01 direct oracle): the source read as ordinary Python control flow over
tensors, every operator and op call meaning the ONNX operator it is documented to map to, literals / attribute
parameters / loop variables (Python scalars) promoted to the type of the tensor operand they meet.

Also: input generation and the three real executions (eager, ModelProto on onnxruntime, one-node model calling
the FunctionProto).
"""
from __future__ import annotations

import numpy as np

from harness import c01_gen

NP = {"F": np.float32, "I": np.int64, "B": np.bool_}
ONNX2NP = {1: np.float32, 7: np.int64, 9: np.bool_}


class Inexact(Exception):
    pass


class Undefined(Exception):
    """The NumPy reading is not defined on this input (an integer index outside the extent)."""


class Interp:
    def __init__(self, prog, helpers):
        self.prog = prog
        self.helpers = helpers          # name -> prog
        self.exact = True
        self.steps = 0

    # ---- python scalars vs tensors
    @staticmethod
    def is_py(v):
        return isinstance(v, (bool, int, float)) and not isinstance(v, np.generic)

    def default_tensor(self, v):
        if isinstance(v, bool):
            return np.array(v, dtype=np.bool_)
        if isinstance(v, int):
            return np.array(v, dtype=np.int64)
        if isinstance(v, float):
            return np.array(v, dtype=np.float32)
        if isinstance(v, list):
            return np.array(v, dtype=np.int64 if all(isinstance(x, int) for x in v) else np.float32)
        return v

    def promote(self, vals, groups=None):
        """vals: operands sharing one type variable.  Python scalars take the dtype of the (last) tensor operand."""
        dt = None
        for v in vals:
            if v is not None and not self.is_py(v) and not isinstance(v, list):
                dt = v.dtype
        out = []
        for v in vals:
            if v is None:
                out.append(None)
            elif self.is_py(v):
                if dt is None:
                    out.append(self.default_tensor(v))
                else:
                    out.append(self.cast_scalar(v, dt))
            else:
                out.append(self.default_tensor(v))
        return out

    def cast_scalar(self, v, dt):
        if dt == np.bool_:
            return np.array(bool(v), dtype=np.bool_)
        if dt == np.int64:
            return np.array(int(v), dtype=np.int64)      # CastLike float -> int truncates
        return np.array(v, dtype=dt)

    def note(self, a):
        """Track exactness of float values: dyadic with 4 fractional bits, magnitude <= 2^14."""
        self.steps += 1
        if self.steps > 200000:
            raise Inexact("too many steps")
        a = np.asarray(a)
        if a.dtype == np.float32 and a.size:
            if not np.all(np.isfinite(a)) or np.any(np.abs(a) > 16384) or np.any(a * 16 != np.round(a * 16)):
                self.exact = False
        if a.dtype == np.int64 and a.size and np.any(np.abs(a) > 2 ** 40):
            self.exact = False
        return a

    # ---- expressions
    def ev(self, e, env):
        k = e[0]
        if k == "var":
            return env[e[1]]
        if k == "glob":
            return self.prog["globals"][e[1]] if e[1] in self.prog["globals"] else env[e[1]]
        if k == "lit":
            return e[1]
        if k == "un":
            v = self.ev(e[2], env)
            if e[1] == "not":
                return not bool(v)
            (v,) = self.promote([v])
            return self.note(np.negative(v))
        if k == "bin":
            a, b = self.ev(e[2], env), self.ev(e[3], env)
            return self.binop(e[1], a, b)
        if k == "cmp":
            a, b = self.promote([self.ev(e[2], env), self.ev(e[3], env)])
            f = {"<": np.less, "<=": np.less_equal, ">": np.greater, ">=": np.greater_equal, "==": np.equal, "!=": np.not_equal}[e[1]]
            return np.asarray(f(a, b))
        if k == "call":
            args = [None if a is None else self.ev(a, env) for a in e[2]]
            kws = {kw: (env[av[1]] if av[0] == "ref" else av[1]) for kw, av in e[3]}
            return self.op(e[1], args, kws)
        if k == "fcall":
            h = self.helpers[e[1]]
            args = [self.default_tensor(self.ev(a, env)) for a in e[2]]
            kws = {kw: (env[av[1]] if av[0] == "ref" else av[1]) for kw, av in e[3]}
            sub = Interp(h, self.helpers)
            res = sub.run(args, kws)
            self.exact = self.exact and sub.exact
            return res[0] if len(res) == 1 else tuple(res)
        if k == "sub":
            # NumPy basic indexing: integers and slices only (Python's slice semantics: clamping, negative = from the end)
            base = np.asarray(self.default_tensor(self.ev(e[1], env)))
            idx = []
            for it in e[2]:
                if it[0] == "i":
                    idx.append(int(it[1]))
                elif it[0] == "all":
                    idx.append(slice(None))
                else:
                    idx.append(slice(*[None if c is None else self.index_int(self.ev(c, env)) for c in it[1:4]]))
            try:
                return self.note(np.asarray(base[tuple(idx)]))
            except IndexError as err:
                raise Undefined(str(err)) from None
        raise TypeError(e)

    def index_int(self, v):
        """A slice bound: a Python int, or an INT64 scalar tensor read as one (operator.index)."""
        if isinstance(v, bool) or isinstance(v, float):
            raise TypeError(f"slice bound {v!r}")
        a = np.asarray(v)
        if a.dtype != np.int64 and not isinstance(v, int):
            raise TypeError(f"slice bound of dtype {a.dtype}")
        return int(a.reshape(()))

    def binop(self, op, a, b):
        if op == "**":
            (a,) = self.promote([a])
            (b,) = self.promote([b])
            with np.errstate(all="ignore"):
                r = np.power(a.astype(np.float64), b.astype(np.float64)) if a.dtype == np.float32 else np.power(a, b)
            return self.note(np.asarray(r).astype(a.dtype))
        a, b = self.promote([a, b])
        if op == "+":
            return self.note(np.add(a, b))
        if op == "-":
            return self.note(np.subtract(a, b))
        if op == "*":
            return self.note(np.multiply(a, b))
        if op == "/":
            if a.dtype == np.int64:
                q = np.abs(a) // np.abs(b)
                return self.note((q * np.sign(a) * np.sign(b)).astype(np.int64))     # C-style truncation
            with np.errstate(all="ignore"):
                return self.note(np.divide(a, b))
        if op == "%":
            if a.dtype == np.int64:
                return self.note(np.mod(a, b))            # fmod=0: sign of the divisor
            with np.errstate(all="ignore"):
                return self.note(np.fmod(a, b))           # float: fmod=1
        if op == "&":
            return np.logical_and(a, b)
        if op == "|":
            return np.logical_or(a, b)
        raise TypeError(op)

    def op(self, name, args, kws):
        P = self.promote
        if name in ("Add", "Sub", "Mul"):
            return self.binop({"Add": "+", "Sub": "-", "Mul": "*"}[name], args[0], args[1])
        if name in ("Max", "Min"):
            vs = P(args)
            f = np.maximum if name == "Max" else np.minimum
            r = vs[0]
            for v in vs[1:]:
                r = f(r, v)
            return self.note(np.asarray(r))
        if name in ("Less", "Greater", "Equal", "LessOrEqual", "GreaterOrEqual"):
            a, b = P(args)
            f = {"Less": np.less, "Greater": np.greater, "Equal": np.equal, "LessOrEqual": np.less_equal, "GreaterOrEqual": np.greater_equal}[name]
            return np.asarray(f(a, b))
        if name in ("And", "Or", "Xor"):
            a, b = P(args)
            return np.asarray({"And": np.logical_and, "Or": np.logical_or, "Xor": np.logical_xor}[name](a, b))
        if name == "Not":
            (a,) = P(args)
            return np.logical_not(a)
        if name in ("Neg", "Abs", "Sign", "Floor", "Ceil", "Identity", "Relu"):
            (a,) = P(args)
            f = {"Neg": np.negative, "Abs": np.abs, "Sign": np.sign, "Floor": np.floor, "Ceil": np.ceil, "Identity": lambda x: x.copy(),
                 "Relu": lambda x: np.maximum(x, np.zeros((), x.dtype))}[name]
            return self.note(np.asarray(f(a)).astype(a.dtype))
        if name == "Where":
            (c,) = P([args[0]])
            a, b = P(args[1:])
            return self.note(np.where(c, a, b).astype(a.dtype))
        if name == "Clip":
            vs = P(args + [None] * (3 - len(args)))
            r = vs[0]
            if vs[1] is not None:
                r = np.maximum(r, vs[1])
            if vs[2] is not None:
                r = np.minimum(r, vs[2])
            return self.note(np.asarray(r))
        if name == "ReduceSum":
            (a,) = P(args)
            assert kws.get("keepdims") == 0
            return self.note(np.asarray(np.sum(a, dtype=a.dtype)))
        if name == "Size":
            (a,) = P(args)
            return np.array(a.size, dtype=np.int64)
        if name == "Cast":
            (a,) = P(args)
            dt = ONNX2NP[kws["to"]]
            with np.errstate(all="ignore"):
                return self.note(a.astype(dt))
        if name == "CastLike":
            (a,) = P([args[0]])
            (b,) = P([args[1]])
            with np.errstate(all="ignore"):
                return self.note(a.astype(b.dtype))
        if name == "Expand":
            (a,) = P([args[0]])
            shp = tuple(int(x) for x in np.asarray(self.default_tensor(args[1])).reshape(-1))
            return np.broadcast_to(a, np.broadcast_shapes(a.shape, shp)).copy()
        if name == "Split":
            (a,) = P(args)
            n = kws["num_outputs"]
            return tuple(np.split(a, n, axis=0))
        if name == "TopK":
            (a,) = P([args[0]])
            kk = int(np.asarray(self.default_tensor(args[1])).reshape(-1)[0])
            largest = int(kws.get("largest", 1))
            idx = np.argsort(-a if largest else a, kind="stable")[:kk]
            return (a[idx], idx.astype(np.int64))
        if name == "LeakyRelu":
            (a,) = P(args)
            alpha = np.float32(kws.get("alpha", 0.01))
            return self.note(np.where(a < 0, a * alpha, a).astype(np.float32))
        if name == "ThresholdedRelu":
            (a,) = P(args)
            alpha = np.float32(kws.get("alpha", 1.0))
            return self.note(np.where(a > alpha, a, np.float32(0)).astype(np.float32))
        if name == "HardSigmoid":
            (a,) = P(args)
            alpha = np.float32(kws.get("alpha", 0.2))
            beta = np.float32(kws.get("beta", 0.5))
            return self.note(np.maximum(np.float32(0), np.minimum(np.float32(1), alpha * a + beta)).astype(np.float32))
        if name == "Constant":
            if "value_int" in kws:
                return np.array(kws["value_int"], dtype=np.int64)
            if "value_float" in kws:
                return np.array(kws["value_float"], dtype=np.float32)
        raise NotImplementedError(name)

    # ---- statements
    class Break(Exception):
        pass

    class Return(Exception):
        def __init__(self, vals):
            self.vals = vals

    def truth(self, v):
        return bool(v)

    def block(self, stmts, env):
        for s in stmts:
            k = s[0]
            if k == "assign":
                env[s[1]] = self.ev(s[2], env)
            elif k == "tassign":
                vals = self.ev(s[2], env)
                assert len(vals) == len(s[1])
                for n, v in zip(s[1], vals):
                    env[n] = v
            elif k == "if":
                if self.truth(self.ev(s[1], env)):
                    self.block(s[2], env)
                else:
                    self.block(s[3], env)
            elif k == "for":
                n = self.ev(s[2], env)
                n = int(n)
                try:
                    for i in range(n):
                        env[s[1]] = i
                        self.block(s[3], env)
                except Interp.Break:
                    pass
            elif k == "while":
                try:
                    while self.truth(env[s[1]]):
                        self.block(s[2], env)
                except Interp.Break:
                    pass
            elif k == "break_if":
                if self.truth(env[s[1]]):
                    raise Interp.Break()
            elif k == "return":
                raise Interp.Return([self.default_tensor(self.ev(e, env)) for e in s[1]])
            else:
                raise TypeError(s)

    def run(self, tensors, attrs):
        env = {}
        for (n, _dt, _sc), v in zip(self.prog["tparams"], tensors):
            env[n] = v
        for (n, kind, default) in self.prog["aparams"]:
            env[n] = attrs[n] if n in attrs else default
        try:
            self.block(self.prog["body"], env)
        except Interp.Return as r:
            return [np.asarray(v) for v in r.vals]
        raise RuntimeError("no return")


# ----------------------------------------------------------------------------- inputs

def gen_inputs(prog, rng, n_sets=3):
    """>= 3 input sets: (tensors, attrs).  Common shape of rank `rank` with a size-0 / size-1 / ordinary dim; edge values."""
    rank = prog["rank"]
    sets = []
    mins = prog.get("min_dims")
    for k in range(n_sets):
        if rank == 0:
            shape = ()
        elif mins is not None:
            # subscript stream: extents 2..4, never below what the constant integer indices of the program need
            dims = [max(rng.choice([2, 3, 3, 4]), mins[j]) for j in range(rank)]
            small = [j for j in range(rank) if mins[j] <= (1 if k % 3 == 1 else 0)]
            if k % 3 in (1, 2) and small:
                dims[rng.choice(small)] = 1 if k % 3 == 1 else 0
            shape = tuple(dims)
        else:
            dims = [rng.choice([2, 3]) for _ in range(rank)]
            if k % 3 == 1:
                dims[rng.randrange(rank)] = 1
            elif k % 3 == 2:
                dims[rng.randrange(rank)] = 0
            shape = tuple(dims)
        tensors = []
        for (name, dt, sc) in prog["tparams"]:
            shp = {"S": shape, "0": (), "V4": (4,), "V2": (2,)}[sc]
            size = int(np.prod(shp)) if shp else 1
            if dt == "F":
                pool = [0.0, 1.0, -1.0, 2.0, -2.0, 0.5, -1.5, 3.0, 4.0, -4.0] + ([1000.0, -1000.0] if k == 0 else [])
                vals = [rng.choice(pool) for _ in range(size)]
                if sc == "V4":
                    vals = rng.sample([0.5, 1.0, -1.0, 2.0, 3.0, -2.5, 4.0, 0.0], 4) if rng.random() < 0.7 else vals   # mostly distinct (TopK ties)
                arr = np.array(vals, dtype=np.float32).reshape(shp)
            elif dt == "I":
                if name in prog.get("bounded", []):
                    vals = [rng.choice([0, 1, 2, 3]) for _ in range(size)]
                else:
                    pool = [0, 1, -1, 2, -2, 3, 5, -7] + ([1000] if k == 0 else [])
                    vals = [rng.choice(pool) for _ in range(size)]
                arr = np.array(vals, dtype=np.int64).reshape(shp)
            else:
                arr = np.array([rng.random() < 0.5 for _ in range(size)], dtype=np.bool_).reshape(shp)
            tensors.append(arr)
        attrs = {}
        for (name, kind, default) in prog["aparams"]:
            use_default = default is not None and (k == 0 or rng.random() < 0.3)
            if use_default:
                continue
            if kind == "float":
                attrs[name] = rng.choice([0.5, 0.25, 2.0, -1.0, 1.0])
            elif kind == "int":
                role = prog.get("attr_roles", {}).get(name, "value")
                attrs[name] = rng.choice([0, 1]) if role == "binary" else rng.choice([-1, 0, 2, 3])
            else:
                attrs[name] = rng.choice([True, False])
        sets.append((tensors, attrs))
    return sets


# ----------------------------------------------------------------------------- the three real executions

def same(a, b, exact=True):
    """Compare two lists of arrays: count, dtype, shape, values."""
    if len(a) != len(b):
        return f"count {len(a)} vs {len(b)}"
    for i, (x, y) in enumerate(zip(a, b)):
        x, y = np.asarray(x), np.asarray(y)
        if x.dtype != y.dtype:
            return f"output {i}: dtype {x.dtype} vs {y.dtype}"
        if x.shape != y.shape:
            return f"output {i}: shape {x.shape} vs {y.shape}"
        if exact or x.dtype.kind in "iub":
            if not np.array_equal(x, y, equal_nan=(x.dtype.kind == "f")):
                return f"output {i}: values differ"
        elif not np.allclose(x, y, rtol=1e-5, atol=1e-6, equal_nan=True):
            return f"output {i}: values differ beyond tolerance"
    return None


def as_list(res):
    if isinstance(res, (tuple, list)):
        return [np.asarray(getattr(r, "value", r)) for r in res]
    return [np.asarray(getattr(res, "value", res))]


def run_eager(f, prog, tensors, attrs):
    res = f(*[t.copy() for t in tensors], **attrs)
    return as_list(res)


def feeds_of(prog, tensors):
    return {n: t for (n, _d, _s), t in zip(prog["tparams"], tensors)}


def call_model(f, prog, attrs, helpers_onnx):
    """A model whose graph is one node calling the FunctionProto of f (with the attribute values given)."""
    import onnx
    from onnx import TensorProto, helper
    fp = f.to_function_proto()
    T = {"F": TensorProto.FLOAT, "I": TensorProto.INT64, "B": TensorProto.BOOL}
    rank = prog["rank"]

    def shape_of(sc):
        return {"S": [None] * rank, "0": [], "V4": [4], "V2": [2]}[sc]
    ins = [helper.make_tensor_value_info(n, T[dt], shape_of(sc)) for (n, dt, sc) in prog["tparams"]]
    outs = [helper.make_tensor_value_info(f"out{i}", T[dt], None) for i, (dt, sc) in enumerate(prog["rets"])]
    kw = {}
    for (n, kind, _default) in prog["aparams"]:
        if n in attrs:
            v = attrs[n]
            kw[n] = int(v) if kind in ("int", "bool") else float(v)
    node = helper.make_node(fp.name, [n for (n, _d, _s) in prog["tparams"]], [o.name for o in outs], domain=fp.domain, **kw)
    g = helper.make_graph([node], "call", ins, outs)
    funcs = [fp] + [h.to_function_proto() for h in helpers_onnx]
    m = helper.make_model(g, opset_imports=[helper.make_opsetid("", 18), helper.make_opsetid(fp.domain, 1)], functions=funcs, ir_version=10)
    return m
