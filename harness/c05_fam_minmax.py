"""C05 family: _min_max_to_clip.py (min_min, max_max, min_max, max_min).

Model: coq/Rules/MinMax.v (+BShape.v); theorems: coq/Props/C05_minmax.v.
Correspondence: the real RewriteRuleSet applied to generated hosts; what happened (no fire / raised / fused constant(s))
is compared inside Coq with `MinMax.rule`.  Direct oracle: host vs rewritten on onnx.reference and onnxruntime.
"""
from __future__ import annotations

import itertools

import numpy as np

from harness import c05_basic_util as U
from harness import common
from harness.common import clist, cz

KINDS = {"MinMin": ("Min", "Min"), "MaxMax": ("Max", "Max"), "MaxMinClip": ("Max", "Min"), "MinMaxClip": ("Min", "Max")}


def _host(kind, cs, ds, dtype, xshape_decl, const_kind, nonconst=None):
    """cs/ds: lists of (shape tuple, int value[, vector values]) constant operands of inner/outer node."""
    from onnx import helper
    inner, outer = KINDS[kind]
    nodes, inits, inputs = [], [], [("x", dtype, xshape_decl)]
    names = [[], []]
    for which, lst in enumerate((cs, ds)):
        for j, (shp, v) in enumerate(lst):
            nm = f"c{which}_{j}"
            arr = np.full(shp, v, dtype=dtype) if not isinstance(v, (list, tuple)) else np.array(v, dtype=dtype).reshape(shp)
            if nonconst == (which, j, "input"):
                inputs.append((nm, dtype, list(shp)))
            elif nonconst == (which, j, "computed"):
                inputs.append((nm + "_src", dtype, list(shp)))
                nodes.append(helper.make_node("Neg", [nm + "_src"], [nm]))
            elif const_kind == "init":
                inits.append(U.const_arr(nm, arr))
            else:
                nodes.append(U.const_node(nm, arr))
            names[which].append(nm)
    nodes.append(helper.make_node(inner, ["x"] + names[0], ["t"]))
    nodes.append(helper.make_node(outer, ["t"] + names[1], ["y"]))
    xs_conc = [d if isinstance(d, int) else 3 for d in xshape_decl]
    out = np.broadcast_shapes(tuple(xs_conc), *[tuple(s) for s, _ in list(cs) + list(ds)])
    # symbolic where x is symbolic and the dim comes from x
    out_decl = list(out)
    off = len(out) - len(xshape_decl)
    for i, d in enumerate(xshape_decl):
        if not isinstance(d, int):
            out_decl[off + i] = d
    return U.model(nodes, inputs, [("y", dtype, out_decl)], inits=inits)


def _observe(new):
    """-> ('NoFire',) | ('Fire1', is_min, value, shape) | ('FireClip', lo, hi, shapes)"""
    ops = U.ops(new)
    c = U.consts(new)
    if ops == ["Clip"]:
        n = U.node_of(new, "Clip")[0]
        lo, hi = c[n.input[1]], c[n.input[2]]
        return ("FireClip", lo, hi)
    if ops in (["Min"], ["Max"]):
        n = U.node_of(new, ops[0])[0]
        if len(n.input) == 2 and n.input[1] in c:
            return ("Fire1", ops[0] == "Min", c[n.input[1]])
    return ("NoFire",)


def helper_mod():
    from onnx import helper
    return helper


def _konst(lst):
    return clist([f"({clist([cz(d) for d in shp])}, {cz(v)})" for shp, v in lst])


def family(ctx):
    from onnxscript.rewriter.rules.common import _min_max_to_clip as mod

    rng = ctx.rng
    vals = [-5, -1, 0, 2, 3, 7]
    shapes = [(), (), (1,), (1, 1)]
    insts = []
    # grid: 1 constant per node, every kind, all value pairs, bound shapes cycling
    for kind in sorted(KINDS):
        for i, (a, b) in enumerate(itertools.product(vals, vals)):
            if ctx.tier == "quick" and (i % 3) != (sorted(KINDS).index(kind) % 3):
                continue
            sa = shapes[i % 4] if kind.endswith("Clip") else ()
            sb = shapes[(i // 4) % 4] if kind.endswith("Clip") else ()
            insts.append((kind, [(sa, a)], [(sb, b)]))
    # variadic: 0..2 constants per node
    nrand = 60 if ctx.tier == "quick" else 400
    for _ in range(nrand):
        kind = rng.choice(sorted(KINDS))
        cs = [(rng.choice(shapes), rng.choice(vals)) for _ in range(rng.choice([0, 1, 1, 2, 3]))]
        ds = [(rng.choice(shapes), rng.choice(vals)) for _ in range(rng.choice([0, 1, 1, 2]))]
        insts.append((kind, cs, ds))
    for kind in sorted(KINDS):
        insts.append((kind, [], []))
        insts.append((kind, [((), 2)], []))
        insts.append((kind, [], [((), 2)]))

    cases, meta = [], []
    n_fired = n_raise = n_nofire = 0
    xdecls = [["N"], [2, "N"], [], [1, 3]]
    for idx, (kind, cs, ds) in enumerate(insts):
        dtype = ("float32", "int64", "int32", "float64")[idx % 4] if ctx.tier == "thorough" else ("float32", "int64")[idx % 2]
        const_kind = ("init", "node")[(idx // 2) % 2]
        xdecl = xdecls[(idx // 3) % 4]
        host = _host(kind, cs, ds, dtype, xdecl, const_kind)
        rank_exceeds = any(len(s) > len(xdecl) for s, _ in cs + ds)
        replay = {"family": "minmax", "kind": kind, "inner_constants": cs, "outer_constants": ds, "dtype": dtype,
                  "x_shape": xdecl, "const_kind": const_kind}
        ctx.case(("minmax", kind, len(cs), len(ds), tuple(sorted({len(s) for s, _ in cs + ds})), len(xdecl), rank_exceeds))
        try:
            new = U.apply_rule(host, mod.rules)
        except Exception as e:  # noqa: BLE001
            root = e
            while root.__cause__ is not None:
                root = root.__cause__
            n_raise += 1
            mixed = any(len({sh for sh, _ in l}) > 1 for l in (cs, ds))
            cls = "no-constant-operand" if (not cs or not ds) else ("mixed-shape-bounds" if (mixed and kind.endswith("Clip")) else "other")
            ctx.violation(f"C05:minmax:raises:{cls}", f"{kind} with {len(cs)}/{len(ds)} constant operands: rule set raised {type(root).__name__}: {root}",
                          dict(replay, error=f"{type(root).__name__}: {root}"))
            obs = "Raises"
            cases.append(f"({kind}, {_konst(cs)}, {_konst(ds)}, {obs})")
            meta.append((kind, cs, ds, obs))
            continue
        o = _observe(new)
        if o[0] == "NoFire":
            n_nofire += 1
            obs = "NoFire"
        elif o[0] == "Fire1":
            n_fired += 1
            if o[2].size != 1:
                ctx.tie_broken("correspondence", "minmax:fire1", f"fused constant of size {o[2].size} for scalar operands {replay}")
                continue
            obs = f"(Fire1 {common.cbool(o[1])} {cz(int(o[2].item()))})"
        else:
            n_fired += 1
            for b in (o[1], o[2]):
                if b.shape != () or str(b.dtype) != dtype:
                    ctx.violation("C05:minmax:clip-bound-shape-dtype", f"fused Clip bound has shape {b.shape} dtype {b.dtype}, expected 0-d {dtype}", replay)
            obs = f"(FireClip {cz(int(o[1].item()))} {cz(int(o[2].item()))})"
        cases.append(f"({kind}, {_konst(cs)}, {_konst(ds)}, {obs})")
        meta.append((kind, cs, ds, obs))
        # direct oracle
        feeds = []
        for k in range(3):
            conc = [d if isinstance(d, int) else (0 if k == 2 else 5) for d in xdecl]
            feeds.append({"x": U.int_data(conc, dtype, k) * (2 if k == 1 else 1)})
        key = "C05:minmax:clip-bound-rank-exceeds-input-rank" if (o[0] == "FireClip" and rank_exceeds) else f"C05:minmax:{kind}:differs"
        U.oracle(ctx, key, f"{kind} inner {cs} outer {ds} x{xdecl} {dtype}", host, new, feeds, replay)
    ctx.sample({"family": "minmax", "case": [str(x) for x in meta[len(meta) // 2]]})
    ok, vals_, raw = ctx.coq_eval(["OV.Rules.BShape", "OV.Rules.MinMax"],
                                  f"Definition cases : list case := {clist(cases)}.\nEval vm_compute in (disagreeing 0 cases).", name="minmax")
    if not ok:
        ctx.tie_broken("correspondence", "minmax:model-evaluation", raw[-800:])
        return
    bad = common.parse_nat_list(vals_[0])
    for i in bad[:5]:
        ctx.tie_broken("correspondence", f"minmax:{meta[i][0]}", f"inner {meta[i][1]} outer {meta[i][2]}: implementation gave {meta[i][3]}, model differs")
    ctx.obligation("correspondence minmax: what the real rules did (raised / fused constants) is what Rules/MinMax.v `rule` computes, on every instance where they acted", not bad)
    U.guard(ctx, "minmax", n_fired, 25)
    ctx.cover(minmax_instances=len(insts), minmax_fired=n_fired, minmax_raised=n_raise, minmax_not_fired=n_nofire, minmax_model_disagreements=len(bad))

    # near misses: exactly one conjunct of check falsified -> must not fire
    nm = 0
    for kind in sorted(KINDS):
        for which in (0, 1):
            for how in ("input", "computed"):
                host = _host(kind, [((), 1)], [((), 4)], "float32", ["N"], "init", nonconst=(which, 0, how))
                new = U.apply_rule(host, mod.rules)
                ctx.case(("minmax-near-miss", kind, which, how))
                nm += 1
                if _observe(new)[0] != "NoFire":
                    ctx.violation(f"C05:minmax:near-miss:non-constant-{how}", f"{kind}: fired although operand {which} is not a constant of the model",
                                  {"family": "minmax", "kind": kind, "operand": which, "how": how, "ops_after": U.ops(new)})
        if kind.endswith("Clip"):
            # a bound with two elements: Clip needs scalars -> must not fire (and the vector semantics must survive)
            for which in (0, 1):
                cs = [((2,), [1, 2])] if which == 0 else [((), 1)]
                ds = [((2,), [4, 5])] if which == 1 else [((), 4)]
                host = _host(kind, cs, ds, "float32", [3, 2], "init")
                new = U.apply_rule(host, mod.rules)
                ctx.case(("minmax-near-miss", kind, which, "vector-bound"))
                nm += 1
                if _observe(new)[0] != "NoFire":
                    ctx.violation("C05:minmax:near-miss:vector-bound", f"{kind}: fired with a 2-element bound", {"family": "minmax", "kind": kind, "ops_after": U.ops(new)})
    host = U.model([helper_mod().make_node("Max", ["x", "lo"], ["t"]), helper_mod().make_node("Min", ["t", "hi"], ["y"])],
                   [("x", "float32", ["N"]), ("lo", "float32", []), ("hi", "float32", [])], [("y", "float32", ["N"])],
                   inits=[U.const_arr("lo", np.array(1, np.float32)), U.const_arr("hi", np.array(4, np.float32))])
    xs = np.array([-3, 0, 2, 5, 9], np.float32)
    U.overridable_probe(ctx, "minmax", "Min(Max(x, lo), hi)", host, mod.rules,
                        [{"x": xs}, {"x": xs, "lo": np.array(-2, np.float32)}, {"x": xs, "hi": np.array(7, np.float32)}])
    # vector constants on min_min / max_max (outside the elementwise model): oracle only
    for kind in ("MinMin", "MaxMax"):
        for cs, ds, xdecl in [([((3,), [1, 5, -2])], [((2, 1), [0, 3])], [2, 3]), ([((2, 3), [1, 5, -2, 7, 0, 3])], [((), 2)], [3]),
                              ([((1, 3), [4, -4, 0])], [((3,), [1, 2, 3]), ((), 2)], ["N", 3])]:
            host = _host(kind, cs, ds, "int64", xdecl, "init")
            new = U.apply_rule(host, mod.rules)
            ctx.case(("minmax-vector", kind, len(cs), len(ds)))
            feeds = [{"x": U.int_data([d if isinstance(d, int) else n for d in xdecl], "int64", k)} for k, n in ((0, 2), (1, 4), (2, 0))]
            U.oracle(ctx, f"C05:minmax:{kind}:vector-constants", f"{kind} with tensor constants {cs} {ds}", host, new, feeds,
                     {"family": "minmax", "kind": kind, "inner_constants": cs, "outer_constants": ds, "x_shape": xdecl})
    ctx.cover(minmax_near_misses=nm)
    ctx.assume("min/max rules: broadcasting of non-scalar constants in Min(Min)/Max(Max) (associativity of NumPy broadcasting) is not in the Coq model; "
               "it is observed by the direct oracle on tensor-constant instances")
