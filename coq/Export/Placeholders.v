(* C13: the RESERVED-PLACEHOLDER variant of the emission models (repair C13_15, decided by probe in harness/c13_variants.py).

   As read, _translate_node prints an omitted node output at index i as the fixed text `_<i>` (Export/Emit.v `placeholder`,
   `out_names`), which silently overwrites a value that is literally called `_<i>` (C13_placeholder_collision_refuted).
   Repaired, the text is drawn once per index from the pool of the unique-name mapper (`reserve`): `_<i>` when that name is
   free at the first omitted output of that index, `_<i>_0`, `_<i>_1`, .. otherwise, and no value is given that name later.

   Model of the repaired variant, as a transformation in front of the unchanged emission functions: the omitted output at
   index i of a generic node becomes the output `ph_name i` -- a pseudo ONNX name no model uses (first character \001) --
   and the base renamer proposes `placeholder i` for it (`ph_base`); the unique-name model of Export/Unique.v then gives
   it exactly the name `reserve` returns, because reservation and naming use the same pool and the same suffix rule.  The
   harness places the pseudo names in the mapper's sequence where the exporter reserves them.
   Under OV.Graph.Sem the graphs differ only in that the unused result is bound to the pseudo name instead of "".
   No proofs in this file. *)
From Coq Require Import List String Ascii Bool Arith.
Require Import OV.Export.Cleanup OV.Graph.Syntax OV.Script.Syntax OV.Export.Emit.
Import ListNotations.
Local Open Scope string_scope.

Definition ph_name (i : nat) : vname := String (ascii_of_nat 1) (placeholder i).

Fixpoint ph_outs (i : nat) (outs : list vname) : list vname :=
  match outs with
  | [] => []
  | o :: t => (if is_empty o then ph_name i else o) :: ph_outs (S i) t
  end.

(* If / Loop outputs are not printed through output_names: left as they are *)
Fixpoint ph_node (n : node) : node :=
  let 'Node d o i u a subs := n in
  Node d o i (if String.eqb o "If" || String.eqb o "Loop" then u else ph_outs 0 u) a
    ((fix go (l : list (string * graph)) : list (string * graph) :=
        match l with [] => [] | (k, g) :: t => (k, ph_graph g) :: go t end) subs)
with ph_graph (g : graph) : graph :=
  let 'Graph ins inits nodes outs := g in
  Graph ins inits ((fix go (l : list node) : list node := match l with [] => [] | n :: t => ph_node n :: go t end) nodes) outs.

(* the proposal for a pseudo name is the placeholder text; output indices beyond 32 do not occur *)
Definition ph_table : list (string * string) := map (fun i => (ph_name i, placeholder i)) (seq 0 32).
Definition ph_base (base : vname -> string) : vname -> string := assoc_rename ph_table base.

(* variant switch used by the correspondence checks *)
Definition ph_variant (reserved : bool) (g : graph) : graph := if reserved then ph_graph g else g.
