(* C11 property theorems, session 6: the exact class of forms on which each front end returns NumPy's tensor (at the level of
   results, tensor indices of rank 0, 1 and >= 2 mixed with ints and slices), slice bounds that are values at run time (tensor
   expressions, attribute parameters), and the forms outside the documented ones (Ellipsis, None, boolean / float / string
   literals).  Statements only.  Models: Index/AdvSpec.v, EagerFix.v (Tensor.__getitem__ with the start clamp), DynForms.v. *)
From Coq Require Import ZArith List Bool.
Import ListNotations.
Require Import OV.Index.NumpySpec OV.Index.OnnxSlice OV.Index.ConverterIdx OV.Index.EagerIdx OV.Index.ViewProofs
               OV.Index.AdvSpec OV.Index.AdvProofs OV.Index.EagerFix OV.Index.DynForms OV.Index.DynFormsProofs.
Open Scope Z_scope.

(* ---- eager Tensor.__getitem__ with tensor-valued indices of any rank ---- *)

(* exact characterisation: a form (kinds of the components: slice | advanced index of rank r, omitted trailing axes = slices) is
   good iff on EVERY instance of it (any shape, any index values, negative ones included) whatever eager returns is NumPy's
   result.  So eager returns a different tensor on some instance of a form iff the form is not good
   (good_form: at most one tensor index of rank >= 1, in one block with the scalars or with no slice in front). *)
Theorem C11_eager_equals_numpy_iff_good_form : forall f,
  good_form f = true <->
  (forall shape aidx n, dims_nat shape -> (length aidx <= length shape)%nat -> full_form shape aidx = f ->
     eager_nest_c true shape aidx = Some n -> np_nest shape aidx = Some n).
Proof. exact eager_equals_numpy_iff_good_form. Qed.
Print Assumptions C11_eager_equals_numpy_iff_good_form.

(* on a good form eager's outcome IS NumPy's outcome, errors included (index out of range: both fail), unless the scalar -1
   goes through Slice(-1, 0) + squeeze (an error where NumPy returns: allowed) *)
Theorem C11_eager_adv_good_eq : forall shape aidx,
  dims_nat shape -> (length aidx <= length shape)%nat -> eager_minus1_ok (map flat aidx) = true ->
  good_form (full_form shape aidx) = true ->
  eager_nest_c true shape aidx = np_nest shape aidx.
Proof. exact eager_adv_good_eq. Qed.
Print Assumptions C11_eager_adv_good_eq.

(* an index (int, rank-0 tensor, entry of a tensor index) out of range, or step 0: NumPy raises, and eager fails on every form *)
Theorem C11_eager_out_of_range_is_error : forall shape aidx,
  dims_nat shape -> (length aidx <= length shape)%nat ->
  np_index shape (map flat aidx) = None -> eager_nest_c true shape aidx = None.
Proof. exact eager_out_of_range_is_error. Qed.
Print Assumptions C11_eager_out_of_range_is_error.

(* ---- the converter, same statements (outside the negative-step corner C11_converter_slice_differs_iff) ---- *)
Theorem C11_converter_equals_numpy_iff_good_form : forall f,
  good_form f = true <->
  (forall shape aidx n, dims_ok shape -> (length aidx <= length shape)%nat -> hazard_free shape (map flat aidx) = true ->
     full_form shape aidx = f -> conv_nest shape aidx = Some n -> np_nest shape aidx = Some n).
Proof. exact conv_equals_numpy_iff_good_form. Qed.
Print Assumptions C11_converter_equals_numpy_iff_good_form.

Theorem C11_converter_adv_good_eq : forall shape aidx,
  dims_ok shape -> (length aidx <= length shape)%nat -> hazard_free shape (map flat aidx) = true ->
  conv_accepts (map flat aidx) = true -> conv_minus1_ok (map flat aidx) = true ->
  good_form (full_form shape aidx) = true ->
  conv_nest shape aidx = np_nest shape aidx.
Proof. exact conv_adv_good_eq. Qed.
Print Assumptions C11_converter_adv_good_eq.

(* ---- slice bounds that are values at run time: A[i:j], A[i+1:i+2], A[:n] with n an attribute parameter ---- *)

(* refused at conversion exactly when the step is a run-time value and a bound is omitted *)
Theorem C11_converter_refuses_slice_iff : forall a b s,
  conv_bounds a b s = None <-> (exists st, s = BDyn st) /\ (a = BNone \/ b = BNone).
Proof. exact conv_refuses_slice_iff. Qed.
Print Assumptions C11_converter_refuses_slice_iff.

(* literal or run-time value: the same Slice *)
Theorem C11_converter_slice_const_or_dynamic : forall d a b s a' b' s',
  bval a = bval a' -> bval b = bval b' -> bval s = bval s' ->
  conv_bounds a b s <> None -> conv_bounds a' b' s' <> None ->
  conv_slice d a b s = conv_slice d a' b' s'.
Proof. exact conv_slice_const_or_dynamic. Qed.
Print Assumptions C11_converter_slice_const_or_dynamic.

(* start, stop and step all run-time values: clamped exactly like Python's slice.indices, for every value and both step signs
   (outside the corner: negative step, start < -d, stop < -d; step 0 fails on both sides) *)
Theorem C11_converter_dynamic_slice_eq_python : forall d x y st,
  0 <= d <= MAXI -> neg_start_hazard d (Some x) (Some y) (Some st) = false ->
  conv_slice d (BDyn x) (BDyn y) (BDyn st) = py_slice d (Some x) (Some y) (Some st).
Proof. exact conv_dynamic_slice_eq_python. Qed.
Print Assumptions C11_converter_dynamic_slice_eq_python.

(* run-time start / stop (or omitted) beside a literal or omitted step: never refused, Python's positions *)
Theorem C11_converter_dynamic_bounds_eq_python : forall d a b s,
  0 <= d <= MAXI -> (forall st, s <> BDyn st) ->
  neg_start_hazard d (bval a) (bval b) (bval s) = false ->
  conv_slice d a b s = py_slice d (bval a) (bval b) (bval s).
Proof. exact conv_dynamic_bounds_eq_python. Qed.
Print Assumptions C11_converter_dynamic_bounds_eq_python.

(* attribute parameters: a run-time value in the graph (BDyn / rank-0 Gather index), a python int in eager mode and in NumPy;
   both front ends return NumPy's per-axis view for the python ints *)
Theorem C11_attr_param_graph_sound : forall shape pidx v,
  dims_ok shape -> (length pidx <= length shape)%nat -> hazard_free shape (map eager_comp pidx) = true ->
  run_conv true shape (map graph_comp pidx) = Some v -> np_index shape (map eager_comp pidx) = Some v.
Proof. exact attr_param_graph_sound. Qed.
Print Assumptions C11_attr_param_graph_sound.

Theorem C11_attr_param_eager_sound : forall shape pidx v,
  dims_nat shape -> (length pidx <= length shape)%nat ->
  run_eager_c true shape (map eager_comp pidx) = Some v -> np_index shape (map eager_comp pidx) = Some v.
Proof. exact attr_param_eager_sound. Qed.
Print Assumptions C11_attr_param_eager_sound.

(* ---- forms outside the documented ones ---- *)

(* the extended models are conservative: on basic expressions they are the models of Props/C11*.v *)
Theorem C11_x_models_conservative : forall bf ff shape cidx,
  conv_x_ops bf (map XC cidx) = conv_ops true cidx /\ eager_x_ops ff shape (map XC cidx) = eager_ops_c true shape cidx.
Proof. exact x_models_conservative. Qed.
Print Assumptions C11_x_models_conservative.

(* "index forms that are not supported are rejected": every expression containing Ellipsis / None / a boolean / a float / a string *)
Definition C11_unsupported_rejected : bool -> bool -> Prop := unsupported_rejected.

(* holds with both repairs (proposed_fixes/C11_bool_literal_index.diff, C11_eager_non_integer_index.diff) ... *)
Theorem C11_unsupported_rejected_fixed : C11_unsupported_rejected true true.
Proof. exact x_repaired_rejects. Qed.
Print Assumptions C11_unsupported_rejected_fixed.

(* ... and fails without either: converter X[1, True] on (2,3) is X[1, 1]; eager X[1.0, 0] is X[1, 0] *)
Theorem C11_unsupported_rejected_asread_refuted : ~ C11_unsupported_rejected false true /\ ~ C11_unsupported_rejected true false.
Proof. exact unsupported_rejected_asread_refuted. Qed.
Print Assumptions C11_unsupported_rejected_asread_refuted.

(* as read, a boolean literal among ints / slices / rank-0 tensors on the Slice + Squeeze route: whenever the graph returns, its
   result has a smaller rank than NumPy's -- always a different tensor (known finding converter:bool-literal-index-read-as-int) *)
Theorem C11_converter_bool_literal_rank_differs : forall shape idx v,
  dims_ok shape -> (length idx <= length shape)%nat -> forallb x_plain idx = true -> existsb is_xbool idx = true ->
  hazard_free shape (map conv_x_read idx) = true ->
  run_conv_x false shape idx = Some v ->
  (length (view_shape v) < np_x_rank (length shape) idx)%nat.
Proof. exact conv_x_bool_rank_differs. Qed.
Print Assumptions C11_converter_bool_literal_rank_differs.
