(* C02, stage S1 of `translate_wf`: the graph the converter model (Script/Translate.v) produces for a
   straight-line script function passes the verified structural checker of Graph/Wf.v
   (wf_graphb: single assignment, definition before use, outputs distinct and defined) and returns no
   graph input directly (no_input_returned).

   The argument is the freshness invariant of `gen_unique` (gen_unique_fresh): every output name of an emitted
   node comes out of `uniq`, hence is new w.r.t. the used set, which always contains the inputs and every name
   defined so far; every input name of an emitted node is the result of an earlier translation step or is read
   from the scope, which only holds defined names.

   S1 = bodies `pre ++ [SReturn es]`, pre = assignments / tuple assignments (any expression nesting, literals
   with their static CastLike, attribute parameters promoted to Constant (+Cast), module-level constants,
   calls of operators and of other script functions, several return values with their Identity copies).
   Not covered: if / for / while (nested graphs): kept as `translate_wf_full` in Props/C02.v. *)
From Coq Require Import List String ZArith Bool Arith Lia.
Require Import OV.Graph.Syntax OV.Graph.Wf OV.Graph.WfProofs.
Require Import OV.Script.Syntax OV.Script.Sets OV.Gen.Analysis OV.Gen.ScriptTables OV.Script.Translate
               OV.Script.TranslateProofs OV.Script.TranslateExamples.
Import ListNotations.
Local Open Scope string_scope.
Local Open Scope list_scope.

(* ------------------------------------------------------------------ the checker accepts flat chains *)

Definition same (A B : list vname) : Prop := forall x, In x A <-> In x B.

(* nodes without subgraphs, each reading only names of D or outputs of earlier nodes, each defining new,
   pairwise distinct names *)
Fixpoint flat_chain (D : list vname) (ns : list node) : Prop :=
  match ns with
  | [] => True
  | Node _ _ nins nouts _ subs :: t =>
    subs = [] /\ incl (present nins) D /\ NoDup nouts /\ (forall x, In x nouts -> ~ In x D) /\
    flat_chain (nouts ++ D) t
  end.

Lemma flat_chain_ext : forall ns D D', same D D' -> flat_chain D ns -> flat_chain D' ns.
Proof.
  induction ns as [|[d o nins nouts attrs subs] t IH]; intros D D' E H; [exact I|].
  cbn [flat_chain] in *. destruct H as (H1 & H2 & H3 & H4 & H5).
  split; [exact H1|]. split; [intros x Hx; apply E; apply H2; exact Hx|]. split; [exact H3|].
  split; [intros x Hx Hd; apply (H4 x Hx); apply E; exact Hd|].
  eapply IH; [|exact H5]. intros x. rewrite !in_app_iff. rewrite (E x). tauto.
Qed.

Definition ext_by (D : list vname) (ns : list node) : list vname := defs_of ns ++ D.

Lemma defs_of_app : forall a b, defs_of (a ++ b) = defs_of a ++ defs_of b.
Proof. intros a b. unfold defs_of. apply flat_map_app. Qed.

Lemma ext_by_app : forall D a b, same (ext_by D (a ++ b)) (ext_by (ext_by D a) b).
Proof. intros D a b x. unfold ext_by. rewrite defs_of_app, !in_app_iff. tauto. Qed.

Lemma ext_by_nil : forall D, ext_by D [] = D.
Proof. reflexivity. Qed.

Lemma in_ext_base : forall D ns x, In x D -> In x (ext_by D ns).
Proof. intros D ns x H. unfold ext_by. apply in_or_app. right. exact H. Qed.

Lemma in_ext_l : forall D a b x, In x (ext_by D a) -> In x (ext_by D (a ++ b)).
Proof. intros D a b x H. apply ext_by_app. apply in_ext_base. exact H. Qed.

Lemma in_ext_r : forall D a b x, In x (ext_by (ext_by D a) b) -> In x (ext_by D (a ++ b)).
Proof. intros D a b x H. apply ext_by_app. exact H. Qed.

Lemma flat_chain_app : forall a D b, flat_chain D a -> flat_chain (ext_by D a) b -> flat_chain D (a ++ b).
Proof.
  induction a as [|[d o nins nouts attrs subs] t IH]; intros D b Ha Hb; [exact Hb|].
  cbn [flat_chain app] in *. destruct Ha as (H1 & H2 & H3 & H4 & H5).
  split; [exact H1|]. split; [exact H2|]. split; [exact H3|]. split; [exact H4|].
  apply IH; [exact H5|]. eapply flat_chain_ext; [|exact Hb].
  intros x. unfold ext_by, defs_of. cbn [flat_map n_outs]. rewrite !in_app_iff. tauto.
Qed.

Lemma add_defs_fresh : forall xs seen, NoDup xs -> (forall x, In x xs -> ~ In x seen) ->
  add_defs xs seen = Some (rev xs ++ seen).
Proof.
  induction xs as [|x t IH]; intros seen Hn Hd; [reflexivity|].
  cbn [add_defs]. inversion Hn as [|a l Hx Ht]; subst.
  destruct (mem x seen) eqn:E; [apply mem_In in E; exfalso; exact (Hd x (or_introl eq_refl) E)|].
  rewrite IH; [cbn [rev]; rewrite <- app_assoc; reflexivity | exact Ht |].
  intros y Hy [Hs|Hs]; [subst; contradiction | exact (Hd y (or_intror Hy) Hs)].
Qed.

Lemma go_nodes_flat : forall chk ns local seen, same seen local -> flat_chain local ns ->
  exists local' seen', go_nodes chk [] ns local seen = Some (local', seen') /\ same local' (ext_by local ns).
Proof.
  intros chk. induction ns as [|[d o nins nouts attrs subs] t IH]; intros local seen E H.
  - exists local, seen. split; [reflexivity|]. intros x. cbn. tauto.
  - cbn [flat_chain] in H. destruct H as (-> & H2 & H3 & H4 & H5). cbn [go_nodes].
    assert (Ha : all_in (present nins) (local ++ []) = true).
    { apply all_in_incl. intros x Hx. apply in_or_app. left. apply H2. exact Hx. }
    rewrite Ha. cbn [negb go_subs].
    rewrite add_defs_fresh; [| exact H3 | intros x Hx Hs; apply (H4 x Hx); apply E; exact Hs].
    destruct (IH (nouts ++ local) (rev nouts ++ seen)) as (l' & s' & G & S); [ | exact H5 | ].
    + intros x. rewrite !in_app_iff, <- in_rev, (E x). tauto.
    + exists l', s'. split; [exact G|]. intros x. rewrite (S x). unfold ext_by, defs_of. cbn [flat_map n_outs].
      rewrite !in_app_iff. tauto.
Qed.

Lemma flat_graph_wf : forall ins nodes outs,
  NoDup ins -> flat_chain ins nodes -> NoDup outs -> incl outs (ext_by ins nodes) ->
  wf_graphb (Graph ins [] nodes outs) = true.
Proof.
  intros ins nodes outs Hi Hc Ho Hin. unfold wf_graphb.
  destruct (depth_graph (Graph ins [] nodes outs)) as [|n] eqn:Ed; [cbn in Ed; discriminate|].
  rewrite check_graph_S. cbn [check_body nodupb negb]. unfold pure_inits. cbn [filter].
  rewrite app_nil_r.
  rewrite add_defs_fresh; [| exact Hi | intros x _ []].
  destruct (go_nodes_flat (check_graph n true) nodes ins (rev ins ++ [])) as (l' & s' & G & S).
  - intros x. rewrite app_nil_r, <- in_rev. tauto.
  - exact Hc.
  - rewrite G. replace (nodupb outs) with true by (symmetry; apply nodupb_NoDup; exact Ho). cbn [negb].
    replace (all_in outs l') with true; [reflexivity|]. symmetry. apply all_in_incl.
    intros x Hx. apply S. apply Hin. exact Hx.
Qed.

(* ------------------------------------------------------------------ one translation step *)

(* what a completed translation step guarantees, D = the names defined before it (all recorded as used) *)
Definition good (D : list vname) (ns : list node) (st' : tstate) : Prop :=
  flat_chain D ns /\ incl (ext_by D ns) (ts_used st').

Lemma good_nil : forall D st, incl D (ts_used st) -> good D [] st.
Proof. intros D st H. split; [exact I | exact H]. Qed.

Lemma good_app : forall D a b st2, flat_chain D a -> good (ext_by D a) b st2 -> good D (a ++ b) st2.
Proof.
  intros D a b st2 Ha [Hb1 Hb2]. split; [apply flat_chain_app; assumption|].
  intros x Hx. apply Hb2. apply ext_by_app. exact Hx.
Qed.

Lemma one_node : forall D dom op args r attrs c st st',
  gen_unique c st = Some (r, st') -> incl D (ts_used st) -> incl (present args) D ->
  good D [Node dom op args [r] attrs []] st' /\ In r (ext_by D [Node dom op args [r] attrs []]).
Proof.
  intros D dom op args r attrs c st st' Hu HD Ha.
  apply gen_unique_fresh in Hu. destruct Hu as (F1 & F2 & _).
  split; [split|].
  - cbn [flat_chain]. split; [reflexivity|]. split; [exact Ha|]. split; [repeat constructor; intros []|].
    split; [|exact I]. intros x [<-|[]] Hd. apply F1. apply HD. exact Hd.
  - rewrite F2. intros x Hx. unfold ext_by, defs_of in Hx. cbn in Hx. destruct Hx as [<-|Hx]; [left; reflexivity|].
    right. apply HD. exact Hx.
  - unfold ext_by, defs_of. cbn. left. reflexivity.
Qed.

Lemma mapM_uniq_wf : forall xs st names st' ns,
  mapM uniq xs st = Some (names, st', ns) ->
  ns = [] /\ NoDup names /\ (forall x, In x names -> ~ In x (ts_used st)) /\ incl (names ++ ts_used st) (ts_used st').
Proof.
  induction xs as [|x t IH]; intros st names st' ns H.
  - cbn in H. apply ret_some in H. destruct H as (-> & -> & ->). split; [reflexivity|]. split; [constructor|].
    split; [intros x []|]. apply incl_refl.
  - cbn [mapM] in H.
    apply bind_some in H. destruct H as (r & st1 & n1 & n2 & Hu & H & E1).
    apply uniq_some in Hu. destruct Hu as (Hu & E2).
    apply bind_some in H. destruct H as (rs & st2 & n3 & n4 & Ht & Hr & E3).
    apply ret_some in Hr. destruct Hr as (E4 & E5 & E6). subst ns n1 n2 names n4 st2.
    apply gen_unique_fresh in Hu. destruct Hu as (F1 & F2 & _).
    apply IH in Ht. destruct Ht as (-> & Nd & Fr & Inc). split; [reflexivity|]. split; [|split].
    + constructor; [|exact Nd]. intros Hin. apply (Fr r Hin). rewrite F2. left. reflexivity.
    + intros y [<-|Hy]; [exact F1|]. intros Hin. apply (Fr y Hy). rewrite F2. right. exact Hin.
    + intros y Hy. apply Inc. rewrite F2. cbn in Hy. destruct Hy as [<-|Hy]; [apply in_or_app; right; left; reflexivity|].
      apply in_app_or in Hy. destruct Hy as [Hy|Hy]; apply in_or_app; [left; exact Hy | right; right; exact Hy].
Qed.

Lemma emit_const_wf : forall l sugg st n st' ns D,
  emit_const l sugg st = Some (n, st', ns) -> incl D (ts_used st) ->
  good D ns st' /\ In n (ext_by D ns).
Proof.
  intros l sugg st n st' ns D H HD. unfold emit_const in H.
  apply bind_some in H. destruct H as (r & st1 & n1 & n2 & Hu & H & ->).
  apply uniq_some in Hu. destruct Hu as (Hu & ->).
  apply bind_some in H. destruct H as (u1 & st2 & n3 & n4 & Hm & H & ->).
  apply mark_castable_some in Hm. destruct Hm as (-> & ->).
  apply bind_some in H. destruct H as (u2 & st3 & n5 & n6 & He & Hr & ->).
  apply emit_some in He. destruct He as (-> & ->).
  apply ret_some in Hr. destruct Hr as (-> & -> & ->). cbn [app].
  unfold node1.
  destruct (one_node D "" "Constant" [] r [("value", lit_attr l)] _ _ _ Hu HD) as [[G1 G2] Hin]; [intros x []|].
  split; [|exact Hin]. split; [exact G1 | exact G2].
Qed.

Lemma to_onnx_var_wf : forall b x st n st' ns D,
  to_onnx_var b x st = Some (n, st', ns) -> incl D (ts_used st) -> (forall m, b = BV m -> In m D) ->
  good D ns st' /\ In n (ext_by D ns).
Proof.
  intros b x st n st' ns D H HD Hb. destruct b as [m|k]; cbn [to_onnx_var] in H.
  - apply ret_some in H. destruct H as (-> & -> & ->). split; [apply good_nil; exact HD | apply Hb; reflexivity].
  - apply bind_some in H. destruct H as (r & st1 & n1 & n2 & Hu & H & ->).
    apply uniq_some in Hu. destruct Hu as (Hu & ->).
    apply bind_some in H. destruct H as (u & st2 & n3 & n4 & He & H & ->).
    apply emit_some in He. destruct He as (-> & ->). cbn [app].
    destruct (one_node D "" "Constant" [] r [(akind_attr k, ARef x)] _ st st1 Hu HD) as [[G1 G2] Hin]; [intros y []|].
    unfold node1 in *.
    destruct k.
    + apply bind_some in H. destruct H as (u2 & st3 & n5 & n6 & Hm & Hr & ->).
      apply mark_castable_some in Hm. destruct Hm as (-> & ->).
      apply ret_some in Hr. destruct Hr as (-> & -> & ->). cbn [app].
      change (ts_used (add_castable r st1)) with (ts_used st1). split; [split; assumption | exact Hin].
    + apply bind_some in H. destruct H as (u2 & st3 & n5 & n6 & Hm & Hr & ->).
      apply mark_castable_some in Hm. destruct Hm as (-> & ->).
      apply ret_some in Hr. destruct Hr as (-> & -> & ->). cbn [app].
      change (ts_used (add_castable r st1)) with (ts_used st1). split; [split; assumption | exact Hin].
    + apply bind_some in H. destruct H as (rb & st3 & n5 & n6 & Hu2 & H & ->).
      apply uniq_some in Hu2. destruct Hu2 as (Hu2 & ->).
      apply bind_some in H. destruct H as (u2 & st4 & n7 & n8 & Hm & H & ->).
      apply mark_castable_some in Hm. destruct Hm as (-> & ->).
      apply bind_some in H. destruct H as (u3 & st5 & n9 & n10 & He & Hr & ->).
      apply emit_some in He. destruct He as (-> & ->).
      apply ret_some in Hr. destruct Hr as (-> & -> & ->). cbn [app].
      change (ts_used (add_castable rb st3)) with (ts_used st3).
      destruct (one_node (ext_by D [Node "" "Constant" [] [r] [(akind_attr AKBool, ARef x)] []]) "" "Cast" [Some r] rb [("to", AInt 9)] _ st1 st3 Hu2 G2)
        as [G3 Hin3]; [intros y [<-|[]]; exact Hin|].
      split.
      * change [Node "" "Constant" [] [r] [(akind_attr AKBool, ARef x)] []; Node "" "Cast" [Some r] [rb] [("to", AInt 9)] []]
          with ([Node "" "Constant" [] [r] [(akind_attr AKBool, ARef x)] []] ++ [Node "" "Cast" [Some r] [rb] [("to", AInt 9)] []]).
        apply good_app; assumption.
      * change [Node "" "Constant" [] [r] [(akind_attr AKBool, ARef x)] []; Node "" "Cast" [Some r] [rb] [("to", AInt 9)] []]
          with ([Node "" "Constant" [] [r] [(akind_attr AKBool, ARef x)] []] ++ [Node "" "Cast" [Some r] [rb] [("to", AInt 9)] []]).
        apply in_ext_r. exact Hin3.
Qed.

(* names bound in the scopes are defined names *)
Definition scope_ok (sc : scopes) (D : list vname) : Prop :=
  forall x n, scopes_find x sc = Some (BV n) -> In n D.

Lemma scope_ok_mono : forall sc D D', scope_ok sc D -> incl D D' -> scope_ok sc D'.
Proof. intros sc D D' H Hi x n Hx. apply Hi. eapply H. exact Hx. Qed.

Lemma scope_ok_ext : forall sc D ns, scope_ok sc D -> scope_ok sc (ext_by D ns).
Proof. intros sc D ns H. eapply scope_ok_mono; [exact H|]. intros x Hx. apply in_ext_base. exact Hx. Qed.

Lemma scope_ok_bind : forall sc D x v, scope_ok sc D -> In v D -> scope_ok (bind_var x (BV v) sc) D.
Proof.
  intros sc D x v H Hv y n Hy. rewrite scopes_find_bind in Hy. destruct (String.eqb y x).
  - inversion Hy; subst. exact Hv.
  - eapply H. exact Hy.
Qed.

Lemma scope_ok_bind_all : forall xs vs sc D, scope_ok sc D -> incl vs D -> scope_ok (bind_all xs vs sc) D.
Proof.
  induction xs as [|x t IH]; intros vs sc D H Hv; [exact H|].
  destruct vs as [|v vt]; [exact H|]. cbn [bind_all]. apply IH.
  - apply scope_ok_bind; [exact H | apply Hv; left; reflexivity].
  - intros y Hy. apply Hv. right. exact Hy.
Qed.

Section Wf.
  Variable globals : list (string * lit).

  Lemma py_var_wf : forall sc x st n st' ns D,
    py_var globals sc x st = Some (n, st', ns) -> incl D (ts_used st) -> scope_ok sc D ->
    good D ns st' /\ In n (ext_by D ns).
  Proof.
    intros sc x st n st' ns D H HD Hsc. unfold py_var in H.
    destruct (scopes_find x sc) as [b|] eqn:Ef.
    - eapply to_onnx_var_wf; [exact H | exact HD |]. intros m ->. eapply Hsc. exact Ef.
    - destruct (lookup_assoc x globals) as [l|]; [|discriminate]. eapply emit_const_wf; eassumption.
  Qed.

  Lemma nth_present : forall (all : list (option vname)) j y, nth j all None = Some y -> In y (present all).
  Proof.
    induction all as [|[a|] t IH]; intros [|j] y H; cbn in H; try discriminate.
    - inversion H; subst. left. reflexivity.
    - cbn [present]. right. eapply IH. exact H.
    - cbn [present]. eapply IH. exact H.
  Qed.

  Lemma apply_plan_wf : forall args plan all st args' st' ns D,
    apply_plan args plan all st = Some (args', st', ns) -> incl D (ts_used st) ->
    incl (present args) D -> incl (present all) D ->
    good D ns st' /\ incl (present args') (ext_by D ns).
  Proof.
    induction args as [|a t IH]; intros plan all st args' st' ns D H HD Ha Hall.
    - destruct plan; cbn in H; apply ret_some in H; destruct H as (-> & -> & ->);
        (split; [apply good_nil; exact HD | intros x []]).
    - destruct plan as [|p pt].
      + cbn in H. apply ret_some in H. destruct H as (-> & -> & ->). split; [apply good_nil; exact HD | exact Ha].
      + cbn [apply_plan] in H.
        apply bind_some in H. destruct H as (a' & st1 & n1 & n2 & Hhd & H & ->).
        apply bind_some in H. destruct H as (t' & st2 & n3 & n4 & Htl & Hr & ->).
        apply ret_some in Hr. destruct Hr as (-> & -> & ->). rewrite app_nil_r.
        assert (Hat : incl (present t) D).
        { intros x Hx. apply Ha. destruct a; cbn [present]; [right|]; exact Hx. }
        assert (Hhead : good D n1 st1 /\ incl (present [a']) (ext_by D n1)).
        { destruct a as [v|].
          - assert (Hv : In v D) by (apply Ha; left; reflexivity).
            destruct p as [j|].
            + destruct (nth j all None) as [y|] eqn:Ey.
              * apply cast_one_inv in Hhd. destruct Hhd as (r & -> & -> & Hu).
                assert (Hy : In y D) by (apply Hall; eapply nth_present; exact Ey).
                destruct (one_node D "" "CastLike" [Some v; Some y] r [] _ st st1 Hu HD) as [G Hin].
                { intros x [<-|[<-|[]]]; assumption. }
                unfold node1. split; [exact G|]. intros x [<-|[]]. exact Hin.
              * apply ret_some in Hhd. destruct Hhd as (-> & -> & ->). split; [apply good_nil; exact HD|].
                intros x [<-|[]]. exact Hv.
            + apply ret_some in Hhd. destruct Hhd as (-> & -> & ->). split; [apply good_nil; exact HD|].
              intros x [<-|[]]. exact Hv.
          - assert (E : a' = None /\ st1 = st /\ n1 = []) by (destruct p; apply ret_some in Hhd; exact Hhd).
            destruct E as (-> & -> & ->). split; [apply good_nil; exact HD | intros x []]. }
        destruct Hhead as [[G1 G2] Hh].
        destruct (IH pt all st1 t' _ n3 (ext_by D n1) Htl G2) as [G3 Ht'].
        { intros x Hx. apply in_ext_base. apply Hat. exact Hx. }
        { intros x Hx. apply in_ext_base. apply Hall. exact Hx. }
        split; [apply good_app; assumption|].
        intros x Hx. destruct a' as [w|]; cbn [present] in Hx.
        * destruct Hx as [<-|Hx]; [apply in_ext_l; apply Hh; left; reflexivity | apply in_ext_r; apply Ht'; exact Hx].
        * apply in_ext_r. apply Ht'. exact Hx.
  Qed.

  Lemma static_cast_wf : forall op args st args' st' ns D,
    static_cast op args st = Some (args', st', ns) -> incl D (ts_used st) -> incl (present args) D ->
    good D ns st' /\ incl (present args') (ext_by D ns).
  Proof.
    intros op args st args' st' ns D H HD Ha. unfold static_cast in H.
    destruct (lookup_assoc op op_typevars) as [tvs|].
    - destruct (cast_plan tvs (map (option_map (fun v => mem v (ts_castable st))) args)) as [plan|]; [|discriminate].
      eapply apply_plan_wf; eassumption.
    - apply ret_some in H. destruct H as (-> & -> & ->). split; [apply good_nil; exact HD | exact Ha].
  Qed.

  (* ---- expressions *)

  Definition expr_wf (e : expr) : Prop :=
    forall sc target st n st' ns D,
    tr_expr globals sc target e st = Some (n, st', ns) -> incl D (ts_used st) -> scope_ok sc D ->
    good D ns st' /\ In n (ext_by D ns).

  Lemma finish_wf : forall dom opname args' attrs cand st n st' ns D,
    (res <- uniq cand ;; emit (Node dom opname args' [res] attrs []) ;;; ret res) st = Some (n, st', ns) ->
    incl D (ts_used st) -> incl (present args') D ->
    good D ns st' /\ In n (ext_by D ns).
  Proof.
    intros dom opname args' attrs cand st n st' ns D H HD Ha.
    apply finish_inv in H. destruct H as (Hu & ->). eapply one_node; eassumption.
  Qed.

  Lemma tr_args_wf : forall args,
    Forall (fun o => match o with Some a => expr_wf a | None => True end) args ->
    forall sc st vals st' ns D,
    tr_args globals sc args st = Some (vals, st', ns) -> incl D (ts_used st) -> scope_ok sc D ->
    good D ns st' /\ incl (present vals) (ext_by D ns).
  Proof.
    induction args as [|[a|] t IH]; intros HF sc st vals st' ns D H HD Hsc.
    - cbn in H. apply ret_some in H. destruct H as (-> & -> & ->). split; [apply good_nil; exact HD | intros x []].
    - inversion HF as [|x l Ha Ht]; subst. cbn [tr_args] in H.
      apply bind_some in H. destruct H as (v & st1 & n1 & n2 & Hta & H & ->).
      apply bind_some in H. destruct H as (vs & st2 & n3 & n4 & Htt & Hr & ->).
      apply ret_some in Hr. destruct Hr as (-> & -> & ->). rewrite app_nil_r.
      destruct (Ha sc None st v st1 n1 D Hta HD Hsc) as [[G1 G2] Hv].
      destruct (IH Ht sc st1 vs _ n3 (ext_by D n1) Htt G2 (scope_ok_ext _ _ _ Hsc)) as [G3 Hvs].
      split; [apply good_app; assumption|].
      intros x [<-|Hx]; [apply in_ext_l; exact Hv | apply in_ext_r; apply Hvs; exact Hx].
    - inversion HF as [|x l Ha Ht]; subst. cbn [tr_args] in H.
      apply bind_some in H. destruct H as (vs & st2 & n3 & n4 & Htt & Hr & ->).
      apply ret_some in Hr. destruct Hr as (-> & -> & ->). rewrite app_nil_r.
      cbn [present]. eapply IH; eassumption.
  Qed.

  Theorem tr_expr_wf : forall e, expr_wf e.
  Proof.
    apply expr_ind'; unfold expr_wf.
    - (* EVar *)
      intros x sc target st n st' ns D H HD Hsc. cbn [tr_expr] in H. eapply py_var_wf; eassumption.
    - (* ELit *)
      intros l sc target st n st' ns D H HD Hsc. cbn [tr_expr] in H. eapply emit_const_wf; eassumption.
    - (* EUn *)
      intros op a IHa sc target st n st' ns D H HD Hsc. cbn [tr_expr] in H.
      destruct (lookup_assoc op primop_map) as [opname|]; [|discriminate].
      apply bind_some in H. destruct H as (v & st1 & n1 & n2 & Hta & H & ->).
      destruct (IHa sc None st v st1 n1 D Hta HD Hsc) as [[G1 G2] Hv].
      unfold node1 in H.
      destruct (finish_wf _ _ _ _ _ _ _ _ _ (ext_by D n1) H G2) as [G3 Hn]; [intros x [<-|[]]; exact Hv|].
      split; [apply good_app; assumption | apply in_ext_r; exact Hn].
    - (* EBin *)
      intros op a b IHa IHb sc target st n st' ns D H HD Hsc. cbn [tr_expr] in H.
      destruct (lookup_assoc op primop_map) as [opname|]; [|discriminate]. cbv zeta in H.
      apply bind_some in H. destruct H as (vl & st1 & n1 & n2 & Hta & H & ->).
      apply bind_some in H. destruct H as (vr & st2 & n3 & n4 & Htb & H & ->).
      apply bind_some in H. destruct H as (args' & st3 & n5 & n6 & Hsc' & H & ->).
      destruct (IHa sc None st vl st1 n1 D Hta HD Hsc) as [[G1 G2] Hl].
      destruct (IHb sc None st1 vr st2 n3 (ext_by D n1) Htb G2 (scope_ok_ext _ _ _ Hsc)) as [[G3 G4] Hr].
      destruct (static_cast_wf opname _ st2 args' st3 n5 (ext_by (ext_by D n1) n3) Hsc' G4) as [[G5 G6] Hargs].
      { intros x [<-|[<-|[]]]; [apply in_ext_base; exact Hl | exact Hr]. }
      unfold node1 in H.
      destruct (finish_wf _ _ _ _ _ _ _ _ _ _ H G6 Hargs) as [G7 Hn].
      split.
      + apply good_app; [exact G1|]. apply good_app; [exact G3|]. apply good_app; [exact G5 | exact G7].
      + apply in_ext_r, in_ext_r, in_ext_r. exact Hn.
    - (* ECmp *)
      intros op a b IHa IHb sc target st n st' ns D H HD Hsc. cbn [tr_expr] in H.
      destruct (lookup_assoc op primop_map) as [opname|]; [|discriminate].
      apply bind_some in H. destruct H as (vl & st1 & n1 & n2 & Hta & H & ->).
      apply bind_some in H. destruct H as (vr & st2 & n3 & n4 & Htb & H & ->).
      destruct (IHa sc None st vl st1 n1 D Hta HD Hsc) as [[G1 G2] Hl].
      destruct (IHb sc None st1 vr st2 n3 (ext_by D n1) Htb G2 (scope_ok_ext _ _ _ Hsc)) as [[G3 G4] Hr].
      assert (Hlr : incl (present [Some vl; Some vr]) (ext_by (ext_by D n1) n3)).
      { intros x [<-|[<-|[]]]; [apply in_ext_base; exact Hl | exact Hr]. }
      destruct (String.eqb opname "NotEqual").
      + apply bind_some in H. destruct H as (args' & st3 & n5 & n6 & Hsc' & H & ->).
        apply bind_some in H. destruct H as (tmp & st4 & n7 & n8 & Hu1 & H & ->).
        apply uniq_some in Hu1. destruct Hu1 as (Hu1 & ->).
        apply bind_some in H. destruct H as (u & st5 & n9 & n10 & He & H & ->).
        apply emit_some in He. destruct He as (-> & ->).
        destruct (static_cast_wf "Equal" _ st2 args' st3 n5 _ Hsc' G4 Hlr) as [[G5 G6] Hargs].
        unfold node1 in *.
        destruct (one_node _ "" "Equal" args' tmp [] _ st3 st4 Hu1 G6 Hargs) as [[G7 G8] Ht].
        destruct (finish_wf _ _ _ _ _ _ _ _ _ _ H G8) as [G9 Hn]; [intros x [<-|[]]; exact Ht|].
        cbn [app]. split.
        * apply good_app; [exact G1|]. apply good_app; [exact G3|]. apply good_app; [exact G5|].
          change (Node "" "Equal" args' [tmp] [] [] :: n10) with ([Node "" "Equal" args' [tmp] [] []] ++ n10).
          apply good_app; [exact G7 | exact G9].
        * apply in_ext_r, in_ext_r, in_ext_r.
          change (Node "" "Equal" args' [tmp] [] [] :: n10) with ([Node "" "Equal" args' [tmp] [] []] ++ n10).
          apply in_ext_r. exact Hn.
      + apply bind_some in H. destruct H as (args' & st3 & n5 & n6 & Hsc' & H & ->).
        destruct (static_cast_wf opname _ st2 args' st3 n5 _ Hsc' G4 Hlr) as [[G5 G6] Hargs].
        unfold node1 in H.
        destruct (finish_wf _ _ _ _ _ _ _ _ _ _ H G6 Hargs) as [G7 Hn].
        split.
        * apply good_app; [exact G1|]. apply good_app; [exact G3|]. apply good_app; [exact G5 | exact G7].
        * apply in_ext_r, in_ext_r, in_ext_r. exact Hn.
    - (* ECall *)
      intros f args kws HF sc target st n st' ns D H HD Hsc.
      rewrite tr_expr_call_eq in H.
      apply bind_some in H. destruct H as (vals & st1 & n1 & n2 & Hta & H & ->).
      destruct (tr_args_wf args HF sc st vals st1 n1 D Hta HD Hsc) as [[G1 G2] Hvals].
      destruct f as [name|name].
      + apply bind_some in H. destruct H as (args' & st2 & n3 & n4 & Hsc' & H & ->).
        destruct (static_cast_wf name _ st1 args' st2 n3 _ Hsc' G2 Hvals) as [[G3 G4] Hargs].
        destruct (finish_wf _ _ _ _ _ _ _ _ _ _ H G4 Hargs) as [G5 Hn].
        split.
        * apply good_app; [exact G1|]. apply good_app; [exact G3 | exact G5].
        * apply in_ext_r, in_ext_r. exact Hn.
      + destruct (finish_wf _ _ _ _ _ _ _ _ _ _ H G2 Hvals) as [G5 Hn].
        split; [apply good_app; assumption | apply in_ext_r; exact Hn].
  Qed.

  (* ---- tuple assignment *)

  Lemma tr_call_multi_wf : forall f args kws sc xs st names st' ns D,
    tr_call_multi globals sc (ECall f args kws) xs st = Some (names, st', ns) ->
    incl D (ts_used st) -> scope_ok sc D ->
    good D ns st' /\ incl names (ext_by D ns).
  Proof.
    intros f args kws sc xs st names st' ns D H HD Hsc.
    rewrite tr_call_multi_eq in H.
    apply bind_some in H. destruct H as (vals & st1 & n1 & n2 & Hta & H & ->).
    apply bind_some in H. destruct H as (vals' & st2 & n3 & n4 & Hsc' & H & ->).
    apply bind_some in H. destruct H as (nm & st3 & n5 & n6 & Hm & H & ->).
    apply bind_some in H. destruct H as (u & st4 & n7 & n8 & He & Hr & ->).
    apply emit_some in He. destruct He as (-> & ->).
    apply ret_some in Hr. destruct Hr as (-> & -> & ->).
    assert (HF : Forall (fun o => match o with Some a => expr_wf a | None => True end) args).
    { clear. induction args as [|[a|] t IH]; constructor; auto. apply tr_expr_wf. }
    destruct (tr_args_wf args HF sc st vals st1 n1 D Hta HD Hsc) as [[G1 G2] Hvals].
    assert (Hc : good (ext_by D n1) n3 st2 /\ incl (present vals') (ext_by (ext_by D n1) n3)).
    { destruct f as [name|name].
      - eapply static_cast_wf; eassumption.
      - apply ret_some in Hsc'. destruct Hsc' as (-> & -> & ->). split; [apply good_nil; exact G2 | exact Hvals]. }
    destruct Hc as [[G3 G4] Hargs].
    apply mapM_uniq_wf in Hm. destruct Hm as (-> & Nd & Fr & Inc).
    cbn [app]. rewrite ?app_nil_r.
    set (N := Node (match f with COp _ => "" | CFun _ => "this" end) (match f with COp n => n | CFun n => n end)
                   vals' nm (map kw_attr kws) []).
    assert (GN : good (ext_by (ext_by D n1) n3) [N] st3 /\ incl nm (ext_by (ext_by (ext_by D n1) n3) [N])).
    { split; [split|].
      - unfold N. cbn [flat_chain]. split; [reflexivity|]. split; [exact Hargs|]. split; [exact Nd|].
        split; [|exact I]. intros x Hx Hd. apply (Fr x Hx). apply G4. exact Hd.
      - intros x Hx. apply Inc. unfold ext_by at 1, defs_of in Hx. unfold N in Hx. cbn [flat_map n_outs] in Hx.
        rewrite app_nil_r in Hx. apply in_app_or in Hx. apply in_or_app.
        destruct Hx as [Hx|Hx]; [left; exact Hx | right; apply G4; exact Hx].
      - intros x Hx. unfold ext_by at 1, defs_of. unfold N. cbn [flat_map n_outs]. rewrite app_nil_r.
        apply in_or_app. left. exact Hx. }
    destruct GN as [G5 Hn].
    split.
    - apply good_app; [exact G1|]. apply good_app; [exact G3 | exact G5].
    - intros x Hx. apply in_ext_r, in_ext_r. apply Hn. exact Hx.
  Qed.

  (* ---- return *)

  Lemma maybe_copy_wf : forall (b : bool) cand v st v' st' ns D,
    (if b then c <- uniq cand ;; emit (identity v c) ;;; ret c else ret v) st = Some (v', st', ns) ->
    incl D (ts_used st) -> In v D ->
    good D ns st' /\ In v' (ext_by D ns) /\ (if b then ~ In v' (ts_used st) else v' = v).
  Proof.
    intros b cand v st v' st' ns D H HD Hv. destruct b.
    - unfold identity, node1 in H. apply finish_inv in H. destruct H as (Hu & ->).
      destruct (one_node D "" "Identity" [Some v] v' [] _ st st' Hu HD) as [G Hin]; [intros x [<-|[]]; exact Hv|].
      split; [exact G|]. split; [exact Hin|]. apply gen_unique_fresh in Hu. apply Hu.
    - apply ret_some in H. destruct H as (-> & -> & ->). split; [apply good_nil; exact HD|]. split; [exact Hv | reflexivity].
  Qed.

  Variable inputs : list vname.

  Lemma tr_returns_wf : forall es sc tuple i outs st outs' st' ns D,
    tr_returns globals false inputs sc tuple i es outs st = Some (outs', st', ns) ->
    incl D (ts_used st) -> scope_ok sc D -> incl inputs D ->
    NoDup outs -> incl outs D -> (forall o, In o outs -> ~ In o inputs) ->
    good D ns st' /\ NoDup outs' /\ incl outs' (ext_by D ns) /\ (forall o, In o outs' -> ~ In o inputs).
  Proof.
    induction es as [|e t IH]; intros sc tuple i outs st outs' st' ns D H HD Hsc Hin Nd Ho Hni.
    - cbn in H. apply ret_some in H. destruct H as (-> & -> & ->).
      split; [apply good_nil; exact HD|]. split; [exact Nd|]. split; [exact Ho | exact Hni].
    - cbn [tr_returns] in H. cbv zeta in H.
      apply bind_some in H. destruct H as (v & st1 & n1 & n2 & Hte & H & ->).
      apply bind_some in H. destruct H as (v1 & st2 & n3 & n4 & Hc1 & H & ->).
      apply bind_some in H. destruct H as (v2 & st3 & n5 & n6 & Hc2 & H & ->).
      destruct (tr_expr_wf e sc _ st v st1 n1 D Hte HD Hsc) as [[G1 G2] Hv].
      destruct (maybe_copy_wf _ _ v st1 v1 st2 n3 _ Hc1 G2 Hv) as ([G3 G4] & Hv1 & F1).
      destruct (maybe_copy_wf _ _ v1 st2 v2 st3 n5 _ Hc2 G4 Hv1) as ([G5 G6] & Hv2 & F2).
      set (D3 := ext_by (ext_by (ext_by D n1) n3) n5) in *.
      assert (HDD3 : incl D D3).
      { intros x Hx. unfold D3. apply in_ext_base, in_ext_base, in_ext_base. exact Hx. }
      (* v1 is not an input *)
      assert (Hv1i : ~ In v1 inputs).
      { destruct (mem v inputs) eqn:Em.
        - intros Hi. apply F1. apply G2. apply in_ext_base. apply Hin. exact Hi.
        - subst v1. apply mem_false_not_In. exact Em. }
      assert (Hv2n : ~ In v2 outs /\ ~ In v2 inputs).
      { destruct (mem v1 outs) eqn:Em.
        - split; intros Hi; apply F2; apply G4; apply in_ext_base, in_ext_base; [apply Ho | apply Hin]; exact Hi.
        - subst v2. split; [apply mem_false_not_In; exact Em | exact Hv1i]. }
      destruct Hv2n as [Hv2o Hv2i].
      destruct (IH sc tuple (S i) (outs ++ [v2]) st3 outs' st' n6 D3 H G6) as (G7 & Nd' & Ho' & Hni').
      + eapply scope_ok_mono; [exact Hsc | exact HDD3].
      + eapply incl_tran; [exact Hin | exact HDD3].
      + apply NoDup_app_intro; [exact Nd | repeat constructor; intros [] |]. intros x Hx [<-|[]]. exact (Hv2o Hx).
      + intros x Hx. apply in_app_or in Hx. destruct Hx as [Hx|[<-|[]]]; [apply HDD3, Ho; exact Hx | exact Hv2].
      + intros x Hx. apply in_app_or in Hx. destruct Hx as [Hx|[<-|[]]]; [apply Hni; exact Hx | exact Hv2i].
      + split; [|split; [exact Nd'|split; [|exact Hni']]].
        * apply good_app; [exact G1|]. apply good_app; [exact G3|]. apply good_app; [exact G5 | exact G7].
        * intros x Hx. apply in_ext_r, in_ext_r, in_ext_r. apply Ho'. exact Hx.
  Qed.

  (* ---- straight-line blocks *)

  Variable cic : expr -> option bool.
  Variable afuel : nat.

  (* the statements before the final return: assignments and tuple assignments, nothing else *)
  Fixpoint straight (ss : list stmt) : bool :=
    match ss with
    | [] => true
    | SAssign _ _ :: t => straight t
    | STuple _ _ :: t => straight t
    | _ => false
    end.

  Lemma assigns_ok_straight : forall ss, assigns_ok ss = true -> straight ss = true.
  Proof.
    induction ss as [|s t IH]; intros H; [reflexivity|].
    destruct s as [x e|xs e| | | | |]; try discriminate H; cbn [assigns_ok straight] in *.
    - apply andb_true_iff in H. apply IH. apply H.
    - destruct e; try discriminate H. apply andb_true_iff in H. apply IH. apply H.
  Qed.

  Notation tr_stmts := (Translate.tr_stmts globals cic afuel false inputs).

  Lemma straight_block_wf : forall pre, straight pre = true -> forall es fu lo sc outs st sc' outs' st' ns D,
    tr_stmts (S fu) true (pre ++ [SReturn es]) lo sc outs st = Some ((sc', outs'), st', ns) ->
    incl D (ts_used st) -> scope_ok sc D -> incl inputs D ->
    NoDup outs -> incl outs D -> (forall o, In o outs -> ~ In o inputs) ->
    flat_chain D ns /\ NoDup outs' /\ incl outs' (ext_by D ns) /\ (forall o, In o outs' -> ~ In o inputs).
  Proof.
    induction pre as [|s t IH]; intros Hpre es fu lo sc outs st sc' outs' st' ns D H HD Hsc Hin Nd Ho Hni.
    - cbn [app] in H. rewrite tr_stmts_return in H.
      apply bind_some in H. destruct H as (lo_s & st1 & n1 & n2 & Hlift & H & ->).
      apply lift_some in Hlift. destruct Hlift as (_ & -> & ->).
      apply bind_some in H. destruct H as (r & st2 & n3 & n4 & Hret & H & ->).
      rewrite tr_stmts_nil in H. apply ret_some in H. destruct H as (E1 & -> & ->).
      apply bind_some in Hret. destruct Hret as (u & st3 & n5 & n6 & Hg & Hret & ->).
      assert (Hg' : st3 = st /\ n5 = []).
      { unfold guard in Hg. destruct (negb (is_nil es)); [apply ret_some in Hg; tauto | discriminate]. }
      destruct Hg' as (-> & ->).
      apply bind_some in Hret. destruct Hret as (o & st4 & n7 & n8 & Hrs & Hret & ->).
      apply ret_some in Hret. destruct Hret as (-> & -> & ->). inversion E1; subst.
      cbn [app]. rewrite ?app_nil_r.
      destruct (tr_returns_wf _ _ _ _ _ _ _ _ _ D Hrs HD Hsc Hin Nd Ho Hni) as ([G1 _] & R).
      split; [exact G1 | exact R].
    - destruct s as [x e|xs e| | | | |]; try discriminate Hpre; cbn [straight] in Hpre.
      + cbn [app] in H. rewrite tr_stmts_assign in H.
        apply bind_some in H. destruct H as (lo_s & st1 & n1 & n2 & Hlift & H & ->).
        apply lift_some in Hlift. destruct Hlift as (_ & -> & ->).
        apply bind_some in H. destruct H as (r & st2 & n3 & n4 & Has & H & ->).
        apply bind_some in Has. destruct Has as (v & st3 & n5 & n6 & Hte & Hret & ->).
        apply ret_some in Hret. destruct Hret as (-> & -> & ->). cbn [fst snd] in H.
        destruct (tr_expr_wf e _ _ _ _ _ _ D Hte HD Hsc) as [[G1 G2] Hv].
        destruct (IH Hpre _ _ _ _ _ _ _ _ _ _ (ext_by D n5) H G2) as (G3 & Nd' & Ho' & Hni').
        * apply scope_ok_bind; [apply scope_ok_ext; exact Hsc | exact Hv].
        * intros y Hy. apply in_ext_base, Hin. exact Hy.
        * exact Nd.
        * intros y Hy. apply in_ext_base, Ho. exact Hy.
        * exact Hni.
        * cbn [app]. rewrite ?app_nil_r.
          split; [apply flat_chain_app; assumption|]. split; [exact Nd'|]. split; [|exact Hni'].
          intros y Hy. apply in_ext_r. apply Ho'. exact Hy.
      + cbn [app] in H. rewrite tr_stmts_tuple in H.
        apply bind_some in H. destruct H as (lo_s & st1 & n1 & n2 & Hlift & H & ->).
        apply lift_some in Hlift. destruct Hlift as (_ & -> & ->).
        apply bind_some in H. destruct H as (r & st2 & n3 & n4 & Has & H & ->).
        apply bind_some in Has. destruct Has as (nm & st3 & n5 & n6 & Htm & Hret & ->).
        apply ret_some in Hret. destruct Hret as (-> & -> & ->). cbn [fst snd] in H.
        destruct e as [| | | | |f args kws]; try discriminate Htm.
        destruct (tr_call_multi_wf _ _ _ _ _ _ _ _ _ D Htm HD Hsc) as [[G1 G2] Hnm].
        destruct (IH Hpre _ _ _ _ _ _ _ _ _ _ (ext_by D n5) H G2) as (G3 & Nd' & Ho' & Hni').
        * apply scope_ok_bind_all; [apply scope_ok_ext; exact Hsc | exact Hnm].
        * intros y Hy. apply in_ext_base, Hin. exact Hy.
        * exact Nd.
        * intros y Hy. apply in_ext_base, Ho. exact Hy.
        * exact Hni.
        * cbn [app]. rewrite ?app_nil_r.
          split; [apply flat_chain_app; assumption|]. split; [exact Nd'|]. split; [|exact Hni'].
          intros y Hy. apply in_ext_r. apply Ho'. exact Hy.
  Qed.
End Wf.

(* ------------------------------------------------------------------ the theorem *)

Lemma scope_find_in : forall x s b, scope_find x s = Some b -> In (x, b) s.
Proof.
  induction s as [|[y c] t IH]; intros b H; [discriminate|]. cbn [scope_find] in H.
  destruct (String.eqb x y) eqn:E.
  - inversion H; subst. apply String.eqb_eq in E. subst. left. reflexivity.
  - right. apply IH. exact H.
Qed.

Lemma init_scope_ok : forall f, scope_ok [rev (init_scope f)] (f_tparams f).
Proof.
  intros f x n H. cbn [scopes_find] in H.
  destruct (scope_find x (rev (init_scope f))) as [b|] eqn:E; [|discriminate]. inversion H; subst b.
  apply scope_find_in in E. apply in_rev in E. unfold init_scope in E. apply in_app_or in E.
  destruct E as [E|E]; apply in_map_iff in E; destruct E as (y & Ey & Hy).
  - inversion Ey; subst. exact Hy.
  - discriminate Ey.
Qed.

(* S1: a straight-line body (assignments / tuple assignments, then one return) *)
Theorem translate_wf_straight : forall globals cic afuel orders f g pre es,
  f_body f = pre ++ [SReturn es] -> straight pre = true -> NoDup (f_tparams f) ->
  translate false globals cic afuel orders f = Some g ->
  wf_graphb g = true /\ no_input_returned g = true.
Proof.
  intros globals cic afuel orders f g pre es Hbody Hpre Hnd Htr.
  rewrite (translate_eq globals), Hbody in Htr.
  destruct (Translate.tr_stmts globals cic afuel false (f_tparams f) (S 11) true (pre ++ [SReturn es]) [] [rev (init_scope f)] [] (init_state f orders))
    as [[[[sc' outs] st'] nodes]|] eqn:Et; [|discriminate]. inversion Htr; subst g. clear Htr.
  destruct (straight_block_wf globals (f_tparams f) cic afuel pre Hpre es 11 [] _ [] _ sc' outs st' nodes (f_tparams f) Et)
    as (G & Nd & Ho & Hni).
  - cbn [init_state ts_used]. intros x Hx. apply -> in_rev. exact Hx.
  - apply init_scope_ok.
  - apply incl_refl.
  - constructor.
  - intros x [].
  - intros o [].
  - split.
    + apply flat_graph_wf; assumption.
    + apply no_input_returned_spec. cbn [g_outs g_ins]. exact Hni.
Qed.

(* the same, for the syntactic class of translate_straightline_correct (C01, stage S1) *)
Theorem translate_wf_straightline : forall globals cic afuel orders f g pre es,
  f_body f = pre ++ [SReturn es] -> assigns_ok pre = true -> forallb expr_ok es = true -> NoDup (f_tparams f) ->
  translate false globals cic afuel orders f = Some g ->
  wf_graphb g = true /\ no_input_returned g = true.
Proof.
  intros globals cic afuel orders f g pre es Hbody Hpre _ Hnd Htr.
  eapply translate_wf_straight; [exact Hbody | apply assigns_ok_straight; exact Hpre | exact Hnd | exact Htr].
Qed.

(* the hypothesis NoDup (f_tparams f) is necessary in the model (Python itself refuses `def f(x, x)` with a
   SyntaxError before the decorator runs) *)
Example translate_wf_needs_distinct_parameters :
  exists f g, f_body f = [] ++ [SReturn [EUn "USub" (EVar "x")]] /\
    translate false [] (fun _ => None) 5 [] f = Some g /\ wf_graphb g = false.
Proof.
  exists {| f_name := "f"; f_tparams := ["x"; "x"]; f_aparams := []; f_body := [SReturn [EUn "USub" (EVar "x")]] |}.
  eexists. split; [reflexivity|]. split; vm_compute; reflexivity.
Qed.

(* non-vacuity: the instance of Script/TranslateExamples.v (11 nodes, literal operands with casts, re-assigned
   parameter, tuple assignment, duplicate return, a parameter named like a generated name) and one with attribute
   parameters (Constant of a referenced attribute, + Cast to bool), a module-level constant and a returned input *)
Definition ex_attr : func :=
  {| f_name := "g"; f_tparams := ["x"; "alpha_0"]; f_aparams := [("alpha", AKFloat, true); ("flag", AKBool, false)];
     f_body := [SAssign "y" (EBin "Mult" (EVar "x") (EVar "alpha"));
                SAssign "alpha_0" (ECall (COp "Where") [Some (EVar "flag"); Some (EVar "y"); Some (EVar "K")] []);
                SReturn [EVar "x"; EVar "alpha_0"; EVar "y"; EVar "y"]] |}.

Example translate_wf_nonvacuous :
  (exists g pre es, f_body ex_f = pre ++ [SReturn es] /\ assigns_ok pre = true /\ forallb expr_ok es = true /\
     NoDup (f_tparams ex_f) /\ translate false [] (fun _ => None) 5 [] ex_f = Some g /\ List.length (g_nodes g) = 11) /\
  (exists g pre es, f_body ex_attr = pre ++ [SReturn es] /\ assigns_ok pre = true /\ forallb expr_ok es = true /\
     NoDup (f_tparams ex_attr) /\ translate false [("K", LFloat 1065353216)] (fun _ => None) 5 [] ex_attr = Some g /\
     List.length (g_nodes g) = 10).
Proof.
  split.
  - eexists. exists (removelast (f_body ex_f)), [EVar "tmp"; EVar "tmp"; EVar "t"; EVar "q"].
    split; [reflexivity|]. split; [reflexivity|]. split; [reflexivity|].
    split; [repeat constructor; cbn; intuition discriminate|]. split; vm_compute; reflexivity.
  - eexists. exists (removelast (f_body ex_attr)), [EVar "x"; EVar "alpha_0"; EVar "y"; EVar "y"].
    split; [reflexivity|]. split; [reflexivity|]. split; [reflexivity|].
    split; [repeat constructor; cbn; intuition discriminate|]. split; vm_compute; reflexivity.
Qed.
