(* Lemmas about the string helpers: decimal rendering is injective and made of digits; a dotted
   pair with a dot-free head decomposes uniquely. *)
From Coq Require Import String Ascii List Bool Arith Lia DecimalString DecimalNat Decimal.
Require Import OV.Builder.Strings.
Import ListNotations.
Local Open Scope string_scope.

Lemma dec_inj : forall a b, dec a = dec b -> a = b.
Proof.
  unfold dec; intros a b H.
  assert (E : Some (Nat.to_uint a) = Some (Nat.to_uint b)).
  { rewrite <- (NilEmpty.usu (Nat.to_uint a)), <- (NilEmpty.usu (Nat.to_uint b)). now rewrite H. }
  inversion E as [E'].
  rewrite <- (Unsigned.of_to a), <- (Unsigned.of_to b). now rewrite E'.
Qed.

Lemma uint_digits : forall d, all_chars is_digit (NilEmpty.string_of_uint d) = true.
Proof. induction d; simpl; auto. Qed.

Lemma dec_digits : forall n, all_chars is_digit (dec n) = true.
Proof. intro; apply uint_digits. Qed.

Lemma all_chars_not : forall p c s, all_chars p s = true -> p c = false -> has_char c s = false.
Proof.
  induction s; simpl; intros; auto.
  apply andb_true_iff in H as [H1 H2].
  destruct (Ascii.eqb c a) eqn:E.
  - apply Ascii.eqb_eq in E; subst. congruence.
  - simpl; auto.
Qed.

Lemma dec_dotfree : forall n, dotfree (dec n) = true.
Proof.
  intro n. unfold dotfree. rewrite (all_chars_not is_digit "."%char (dec n)); auto using dec_digits.
Qed.

Lemma to_uint_nonnil : forall n, Nat.to_uint n <> Nil.
Proof.
  intros n H.
  pose proof (Unsigned.to_of (Nat.to_uint n)) as E. rewrite Unsigned.of_to in E.
  rewrite H in E at 1. unfold unorm in E. destruct (nzhead (Nat.to_uint n)); discriminate.
Qed.

Lemma dec_nonempty : forall n, nonempty (dec n) = true.
Proof.
  intro n. unfold dec, nonempty.
  pose proof (to_uint_nonnil n). destruct (Nat.to_uint n); simpl; auto; congruence.
Qed.

Lemma dec_keyok : forall n, keyok (dec n) = true.
Proof. intro; unfold keyok; now rewrite dec_dotfree, dec_nonempty. Qed.

Lemma has_char_app : forall c a b, has_char c (a ++ b) = has_char c a || has_char c b.
Proof. induction a; simpl; intros; auto. rewrite IHa. now rewrite orb_assoc. Qed.

Lemma dot_has_dot : forall a b, dotfree (dot a b) = false.
Proof.
  intros; unfold dotfree, dot. rewrite has_char_app. simpl. now rewrite orb_true_r.
Qed.

(* a dotted pair with dot-free heads decomposes uniquely *)
Lemma dot_inj : forall a a' b b',
  dotfree a = true -> dotfree a' = true -> dot a b = dot a' b' -> a = a' /\ b = b'.
Proof.
  unfold dot, dotfree.
  induction a as [|c a IH]; destruct a' as [|c' a']; simpl; intros b b' Ha Ha' E.
  - inversion E; auto.
  - inversion E; subst. simpl in Ha'. discriminate.
  - inversion E; subst. simpl in Ha. discriminate.
  - inversion E; subst.
    apply negb_true_iff in Ha, Ha'. apply orb_false_iff in Ha as [_ Ha]. apply orb_false_iff in Ha' as [_ Ha'].
    destruct (IH a' b b') as [-> ->]; auto; now apply negb_true_iff.
Qed.

Lemma dotfree_neq_dot : forall x a b, dotfree x = true -> x <> dot a b.
Proof. intros x a b H E. subst. rewrite dot_has_dot in H. discriminate. Qed.

Lemma dot_inj_r : forall a b b', dot a b = dot a b' -> b = b'.
Proof.
  unfold dot. induction a; simpl; intros b b' E; inversion E; auto.
Qed.

Lemma app_assoc_str : forall a b c : string, (a ++ b) ++ c = a ++ (b ++ c).
Proof. induction a; simpl; intros; auto. now rewrite IHa. Qed.

Lemma dot_assoc : forall a b c, dot (dot a b) c = dot a (dot b c).
Proof. intros. unfold dot. rewrite !app_assoc_str. reflexivity. Qed.

Lemma mem_str_In : forall x l, mem_str x l = true <-> In x l.
Proof.
  unfold mem_str; intros; rewrite existsb_exists; split.
  - intros [y [Hy E]]. apply String.eqb_eq in E; subst; auto.
  - intro H; exists x; split; auto. apply String.eqb_refl.
Qed.

Lemma nodup_strb_NoDup : forall l, nodup_strb l = true <-> NoDup l.
Proof.
  induction l as [|a l IH]; simpl.
  - split; intros; [constructor | reflexivity].
  - split; intro H.
    + apply andb_true_iff in H as [H1 H2]. constructor; [|now apply IH].
      intro Hin. apply mem_str_In in Hin. rewrite Hin in H1. discriminate.
    + inversion H; subst. apply andb_true_iff; split; [|now apply IH].
      apply negb_true_iff. destruct (mem_str a l) eqn:E; auto. apply mem_str_In in E. contradiction.
Qed.

Lemma list_str_eqb_eq : forall a b, list_str_eqb a b = true <-> a = b.
Proof.
  induction a as [|x a IH]; destruct b as [|y b]; simpl; split; intro H; try discriminate; auto.
  - apply andb_true_iff in H as [H1 H2]. apply String.eqb_eq in H1. apply IH in H2. subst; auto.
  - inversion H; subst. rewrite String.eqb_refl. simpl. now apply IH.
Qed.

(* ------------------------------------------------------------------ generic list lemmas *)
Lemma NoDup_app' : forall A (a b : list A),
  NoDup a -> NoDup b -> (forall x, In x a -> ~ In x b) -> NoDup (a ++ b).
Proof.
  induction a as [|x a IH]; simpl; intros b Ha Hb Hd; auto.
  inversion Ha; subst. constructor.
  - intro Hin. apply in_app_or in Hin as [Hin|Hin]; [contradiction|]. exact (Hd x (or_introl eq_refl) Hin).
  - apply IH; auto.
Qed.

Lemma NoDup_flat_map : forall A B (g : A -> list B) (l : list A),
  (forall a, In a l -> NoDup (g a)) ->
  ForallOrdPairs (fun a b => forall x, In x (g a) -> ~ In x (g b)) l ->
  NoDup (flat_map g l).
Proof.
  induction l as [|a r IH]; simpl; intros Hn Hp; [constructor|].
  inversion Hp; subst.
  apply NoDup_app'; auto.
  intros x Hx Hy. apply in_flat_map in Hy as [b [Hb Hxb]].
  rewrite Forall_forall in H1. exact (H1 b Hb x Hx Hxb).
Qed.


Lemma NoDup_app_l : forall A (a b : list A), NoDup (a ++ b) -> NoDup a.
Proof.
  induction a as [|x a IH]; simpl; intros b H; [constructor|].
  inversion H; subst. constructor.
  - intro Hin. apply H2. apply in_or_app. now left.
  - eapply IH; eauto.
Qed.

Lemma NoDup_app_r : forall A (a b : list A), NoDup (a ++ b) -> NoDup b.
Proof.
  induction a as [|x a IH]; simpl; intros b H; auto. inversion H; subst. auto.
Qed.
