(* C07: the imports of an extracted function versus the nodes of its body (finding
   C07:as_function:copied-constant:function-lacks-default-domain-import). *)
From Coq Require Import List String ZArith Bool.
Require Import OV.Graph.Syntax OV.Rewrite.Apply OV.Rewrite.State OV.Rewrite.StateProofs.
Import ListNotations.
Local Open Scope string_scope.
Local Open Scope list_scope.

(* every node of the body of the function is in a domain the function imports *)
Definition fn_imports_ok (fd : fdef) : bool := forallb (fun n => mem (n_dom n) (map fst (fd_imports fd))) (fd_body fd).

(* the matched node is custom.CustomScale(x, c) with c a constant that is not passed to the call: _copy_for_function puts a
   Constant node (default domain) in front, the imports are filtered by the domains of the MATCHED nodes only *)
Definition ex_fn_const_imports : list (gkey * Z) := [((0, ""), 18%Z); ((0, "custom"), 1%Z)].
Definition ex_fn_const_req : fnreq :=
  FnReq "verif.fn" "Fused" ["custom"] ["x"]
        (fn_body [("c", "%fnconst1")] [[("value", AStr "T:float32:[1]")]] [Node "custom" "CustomScale" [Some "x"; Some "c"] ["o"] [] []])
        ["o"].

Theorem fn_constant_import_refuted :
  exists ov fs fd, add_function 0 false ex_fn_const_imports ex_fn_const_req [] = Some (ov, fs) /\
                   dget fkey_eqb ("verif.fn", "Fused", ov) fs = Some fd /\ fn_imports_ok fd = false.
Proof. do 3 eexists. split; [vm_compute; reflexivity|]. split; vm_compute; reflexivity. Qed.

(* the repair (proposed_fixes/ready/C07_04_as_function_constant_default_domain_import.diff): filter by the domains of the nodes of
   the function body; then the function imports every domain its body uses that the parent imports *)
Theorem fn_constant_import_fixed : forall site isfn i q fs ov fs' fd,
  add_function site isfn i q fs = Some (ov, fs') ->
  dget fkey_eqb (fq_dom q, fq_name q, ov) fs' = Some fd ->
  fq_used q = map n_dom (fq_body q) ->
  (forall d, In d (fq_used q) -> In d (map fst (parent_imports site isfn i))) ->
  fn_imports_ok fd = true.
Proof.
  intros site isfn i q fs ov fs' fd A G U P. unfold fn_imports_ok. apply forallb_forall. intros n Hn. apply mem_In.
  pose proof (add_function_frame _ _ _ _ _ _ _ A) as [_ [[fd' [G' [B _]]] _]].
  rewrite G in G'. inversion G'; subst fd'. rewrite B in Hn.
  assert (In (n_dom n) (fq_used q)) by (rewrite U; apply in_map; exact Hn).
  eapply add_function_imports_cover; eauto.
Qed.
