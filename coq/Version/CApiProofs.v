(* C10 -- call_onnx_api restores the graph for every outcome of the C call *)
From Coq Require Import ZArith List Bool String Lia.
Import ListNotations.
Require Import OV.Version.CApi.
Local Open Scope Z_scope.

Lemma prepare_inputs : forall limit saved g, exists extra, g_inputs (prepare limit saved g) = (g_inputs g ++ extra)%list.
Proof.
  intros limit. induction saved as [|[k v] r IH]; intros g; cbn [prepare].
  - exists []. now rewrite app_nil_r.
  - destruct (IH (GSig (if smemb k (map fst (g_inputs g)) then g_inputs g else (g_inputs g ++ [(k, t_ty v)])%list) (g_outputs g)
                       (if t_size v >? limit then remove_key k (g_inits g) else g_inits g))) as (extra & E).
    rewrite E. cbn [g_inputs]. destruct (smemb k (map fst (g_inputs g))); [eauto|]. rewrite <- app_assoc. eauto.
Qed.
Lemma prepare_outputs : forall limit saved g, g_outputs (prepare limit saved g) = g_outputs g.
Proof. intros limit. induction saved as [|[k v] r IH]; intros g; cbn [prepare]; [reflexivity|]. now rewrite IH. Qed.

Lemma lookup_remove_none : forall k k' l, lookup_init k l = None -> lookup_init k (remove_key k' l) = None.
Proof.
  intros k k'. induction l as [|[a v] r IH]; intros H; [reflexivity|]. cbn in *.
  destruct (String.eqb a k) eqn:E; [discriminate|]. destruct (String.eqb a k'); [now apply IH|]. cbn. rewrite E. now apply IH.
Qed.
Lemma prepare_lookup_none : forall limit k saved g,
  lookup_init k (g_inits g) = None -> lookup_init k (g_inits (prepare limit saved g)) = None.
Proof.
  intros limit k. induction saved as [|[a v] r IH]; intros g H; cbn [prepare]; [exact H|].
  apply IH. cbn [g_inits]. destruct (t_size v >? limit); [now apply lookup_remove_none|exact H].
Qed.

Lemma lookup_assign : forall k k' v l,
  lookup_init k (assign_key k' v l) = if String.eqb k' k then Some v else lookup_init k l.
Proof.
  intros k k' v. induction l as [|[a w] r IH]; cbn.
  - reflexivity.
  - destruct (String.eqb a k') eqn:E.
    + apply String.eqb_eq in E. subst a. cbn [lookup_init]. destruct (String.eqb k' k); reflexivity.
    + cbn [lookup_init]. destruct (String.eqb a k) eqn:E2.
      * apply String.eqb_eq in E2. subst a. rewrite String.eqb_sym in E. now rewrite E.
      * exact IH.
Qed.

Lemma lookup_none_notin : forall k l, ~ In k (keys l) -> lookup_init k l = None.
Proof.
  intros k. induction l as [|[a v] r IH]; intros H; [reflexivity|]. cbn in *.
  destruct (String.eqb a k) eqn:E; [apply String.eqb_eq in E; subst; tauto|]. apply IH. tauto.
Qed.

Lemma lookup_fold : forall k src base, NoDup (keys src) ->
  lookup_init k (fold_left (fun its kv => assign_key (fst kv) (snd kv) its) src base)
  = match lookup_init k src with Some v => Some v | None => lookup_init k base end.
Proof.
  intros k. induction src as [|[a v] r IH]; intros base Hn; [reflexivity|].
  cbn [keys map fst] in Hn. inversion Hn as [|? ? Hnotin Hr]; subst. cbn [fold_left fst snd lookup_init].
  rewrite (IH _ Hr), lookup_assign. destruct (String.eqb a k) eqn:E.
  - apply String.eqb_eq in E. subst a. now rewrite (lookup_none_notin k r Hnotin).
  - reflexivity.
Qed.

(* the graph after call_onnx_api, whatever func did: same inputs in the same order, same outputs, and the initializer
   table is the same MAP (every name has the tensor it had; no name added or lost) *)
Theorem call_onnx_api_restores : forall limit g, NoDup (keys (g_inits g)) ->
  let g2 := snd (call_onnx_api true limit g) in
  g_inputs g2 = g_inputs g /\ g_outputs g2 = g_outputs g /\
  forall k, lookup_init k (g_inits g2) = lookup_init k (g_inits g).
Proof.
  intros limit g Hn. cbn. repeat split.
  - destruct (prepare_inputs limit (g_inits g) g) as (extra & E). rewrite E.
    rewrite firstn_app, Nat.sub_diag, firstn_all. cbn. now rewrite app_nil_r.
  - apply prepare_outputs.
  - intros k. rewrite (lookup_fold k _ _ Hn). destruct (lookup_init k (g_inits g)) eqn:E; [reflexivity|].
    now apply prepare_lookup_none.
Qed.

(* while it runs, func sees every initializer as a graph input and only the small ones with a value *)
Lemma assign_same : forall k v l, NoDup (keys l) -> In (k, v) l -> assign_key k v l = l.
Proof.
  intros k v. induction l as [|[a w] r IH]; intros Hn Hin; [contradiction|].
  cbn [keys map fst] in Hn. inversion Hn as [|? ? Hnotin Hr]; subst. cbn.
  destruct Hin as [E|Hin].
  - inversion E; subst. now rewrite String.eqb_refl.
  - destruct (String.eqb a k) eqn:E.
    + apply String.eqb_eq in E. subst a. exfalso. apply Hnotin. apply in_map_iff. exists (k, v). auto.
    + now rewrite (IH Hr Hin).
Qed.

Lemma prepare_small : forall limit saved g, Forall (fun kv => t_size (snd kv) <= limit) saved ->
  g_inits (prepare limit saved g) = g_inits g.
Proof.
  intros limit. induction saved as [|[k v] r IH]; intros g H; cbn [prepare]; [reflexivity|].
  inversion H as [|? ? Hv Hr]; subst. rewrite (IH _ Hr). cbn in *.
  assert (E : (t_size v >? limit) = false) by (rewrite Z.gtb_ltb; apply Z.ltb_ge; lia). now rewrite E.
Qed.

(* no initializer above the size limit: the table is restored exactly, order included *)
Theorem call_onnx_api_restores_exactly_small : forall limit g, NoDup (keys (g_inits g)) ->
  Forall (fun kv => t_size (snd kv) <= limit) (g_inits g) ->
  g_inits (snd (call_onnx_api true limit g)) = g_inits g.
Proof.
  intros limit g Hn Hs. cbn. rewrite (prepare_small limit _ g Hs).
  assert (G : forall src l, NoDup (keys l) -> (forall kv, In kv src -> In kv l) ->
              fold_left (fun its kv => assign_key (fst kv) (snd kv) its) src l = l).
  { induction src as [|[k v] r IH]; intros l Hl Hsub; [reflexivity|]. cbn [fold_left fst snd].
    rewrite (assign_same k v l Hl (Hsub _ (or_introl eq_refl))). apply IH; auto. intros kv H. apply Hsub. now right. }
  apply G; auto.
Qed.

(* REFUTED: the ORDER of the table is not restored when a big initializer precedes a small one (it is popped and
   re-registered at the end); harmless for ONNX (the initializer list is a set), replayed by the harness *)
Lemma call_onnx_api_order_refuted :
  NoDup (keys (g_inits w_capi)) /\
  keys (g_inits (snd (call_onnx_api true 1000 w_capi))) = ["w_small"%string; "w_big"%string] /\
  keys (g_inits w_capi) = ["w_big"%string; "w_small"%string] /\
  map fst (g_inputs (fst (call_onnx_api true 1000 w_capi))) = ["x"%string; "w_big"%string; "w_small"%string] /\
  keys (g_inits (fst (call_onnx_api true 1000 w_capi))) = ["w_small"%string].
Proof. split; [repeat constructor; cbn; intuition discriminate|]. vm_compute. repeat split; reflexivity. Qed.

(* the seeded variant (restore loop over the current table) loses the big initializer: the model separates them *)
Lemma call_onnx_api_seeded_variant_refuted :
  lookup_init "w_big" (g_inits (snd (call_onnx_api false 1000 w_capi))) = None /\
  lookup_init "w_big" (g_inits (snd (call_onnx_api true 1000 w_capi))) = Some big.
Proof. vm_compute. split; reflexivity. Qed.
