(* C19 proofs: gathering row position_ids[b,s] of the precomputed cos/sin cache is the pattern's Cos/Sin of the
   position's frequencies; with the rotate-half theorem this is RotaryEmbedding(x, position_ids, cos_cache, sin_cache). *)
From Coq Require Import List Field Ring Bool Arith Lia ZArith.
Require Import OV.Fusion.Field OV.Fusion.Rotary OV.Fusion.RotaryProofs OV.Fusion.CosSin.
Import ListNotations.

Section Laws.
  Variable F : Type.
  Variable o : fops F.
  Hypothesis Fth : is_field o.
  Variable cosf sinf : F -> F.
  Variable cast : nat -> F.
  Add Field FF : (Fth : field_theory (f0 o) (f1 o) (fadd o) (fmul o) (fsub o) (fopp o) (fdiv o) (finv o) (@eq F)).

  (* for every cache length and every position inside it *)
  Theorem cache_gather : forall (fn : F -> F) inv_freq max_pos p, p <= max_pos ->
    gather F (cache F o cast fn inv_freq max_pos) p = map fn (freqs_row F o cast inv_freq p).
  Proof.
    intros. unfold gather, cache, freqs_row.
    set (f := fun r => map (fun w => fn (fmul o (cast r) w)) inv_freq).
    rewrite (nth_indep _ [] (f 0)) by (rewrite map_length, seq_length; lia).
    rewrite (map_nth f), seq_nth by lia. unfold f. simpl. rewrite map_map. apply map_ext. intro w. f_equal. ring.
  Qed.

  (* a position beyond the cache reads nothing: max_pos_id must bound the position ids (the rewrite derives it from
     ReduceMax(position_ids), a constant position_ids, or the model's configured maximum) *)
  Lemma cache_gather_out_of_range : forall (fn : F -> F) inv_freq max_pos p, max_pos < p ->
    gather F (cache F o cast fn inv_freq max_pos) p = [].
  Proof. intros. unfold gather, cache. apply nth_overflow. rewrite map_length, seq_length. lia. Qed.

  (* head size 2h, x = x1 ++ x2, h = |inv_freq| *)
  Theorem cos_sin_cache_identity : forall (x1 x2 inv_freq : list F) p max_pos e2,
    let x := x1 ++ x2 in let h := length inv_freq in
    length x1 = h -> length x2 = h -> length x <= e2 -> p <= max_pos ->
    cs_pattern F o cosf sinf cast x inv_freq p 0 (length x / 2) (length x / 2) e2 = cs_spec F o cosf sinf cast x inv_freq p max_pos.
  Proof.
    intros x1 x2 inv_freq p max_pos e2 x h H1 H2 He Hp. unfold cs_pattern, cs_spec.
    rewrite !cache_gather by auto.
    apply (rotary_half_rotation F o Fth x1 x2 (map cosf (freqs_row F o cast inv_freq p)) (map sinf (freqs_row F o cast inv_freq p)) e2);
      unfold freqs_row; rewrite ?map_length; auto.
  Qed.
End Laws.

Theorem cs_check_sound : forall i u, cs_check i = Some u -> cs_const_freqs i = false ->
  exists e, cs_inv_freq_shape i = Some [1; e; 1]%Z /\ cs_inv_freq_const i = true
  /\ ((cs_pos_rank i = Some 2%nat /\ cs_extra_dims i = Some [1%Z] /\ u = false)
      \/ (cs_pos_rank i = Some 1%nat /\ cs_extra_dims i = Some [0; 1]%Z /\ u = true)).
Proof.
  intros i u H C. unfold cs_check in H. rewrite C in H.
  destruct (cs_inv_freq_shape i) as [[|a [|e [|c [|]]]]|]; try discriminate.
  match type of H with (if ?c then _ else _) = _ => destruct c eqn:E; [|discriminate] end.
  destruct (andb_prop _ _ E) as [E1 Hc]. destruct (andb_prop _ _ E1) as [E2 Ha].
  destruct (andb_prop _ _ E2) as [E3 Hconst]. destruct (andb_prop _ _ E3) as [Hpos Hexp].
  apply Z.eqb_eq in Ha, Hc. subst. exists e. split; auto. split; auto.
  destruct (cs_pos_rank i) as [[|[|[|r]]]|]; simpl in Hpos; try discriminate.
  - right. destruct (cs_extra_dims i) as [l|]; [|discriminate].
    destruct l as [|x [|y [|]]]; simpl in Hpos; try discriminate.
    all: apply andb_prop in Hpos; destruct Hpos as [A B]; rewrite ?andb_false_r in B; try discriminate.
    apply andb_prop in B. destruct B as [B _].
    apply Z.eqb_eq in A, B. subst. inversion H. auto.
  - left. destruct (cs_extra_dims i) as [[|d [|]]|]; try discriminate.
    apply Z.eqb_eq in Hpos. subst. inversion H. auto.
Qed.

(* ---- the run-time cache length (fix / ready C19_05) ---------------------------------------------------------------- *)
Lemma list_max_ge : forall l p, In p l -> p <= list_max l.
Proof. intros l p H. pose proof (proj1 (list_max_le l (list_max l)) (le_n _)) as F. rewrite Forall_forall in F. auto. Qed.
(* repaired: every id indexes a row and the cache has at least S rows -- for ALL ids (repeated, padded, unordered) and S *)
Theorem cache_rows_fixed : forall ids S, rotary_cache_ok (cache_rows true ids S) ids S = true.
Proof.
  intros ids S. unfold rotary_cache_ok, cache_rows. apply andb_true_intro. split.
  - apply Nat.leb_le. lia.
  - apply forallb_forall. intros p Hp. apply Nat.ltb_lt. pose proof (list_max_ge _ _ Hp). lia.
Qed.
(* as read: acceptable iff the largest id is at least S - 1 (true for ids past .. past+S-1, false for repeated / padded ids) *)
Theorem cache_rows_as_read_ok_iff : forall ids S, rotary_cache_ok (cache_rows false ids S) ids S = true <-> S <= list_max ids + 1.
Proof.
  intros ids S. unfold rotary_cache_ok, cache_rows. rewrite andb_true_iff, Nat.leb_le. split; [tauto|].
  intro H. split; auto. apply forallb_forall. intros p Hp. apply Nat.ltb_lt. pose proof (list_max_ge _ _ Hp). lia.
Qed.
Theorem cache_rows_as_read_refuted : exists ids S, S = length ids
  /\ rotary_cache_ok (cache_rows false ids S) ids S = false /\ rotary_cache_ok (cache_rows true ids S) ids S = true.
Proof. exists [1; 1; 1; 0; 1; 2], 6. repeat split; vm_compute; reflexivity. Qed.
(* the gather of C19_cache_gather stays inside the cache for either variant *)
Theorem cache_rows_cover_ids : forall g ids S p, In p ids -> p <= cache_rows g ids S - 1.
Proof. intros g ids S p Hp. pose proof (list_max_ge _ _ Hp). unfold cache_rows. destruct g; lia. Qed.

(* ---- position_ids batch: EXACT characterisation of the known finding C19:cos_sin_cache:position-ids-batch-broadcast ---- *)
(* position_ids has 1 or B rows (the pattern's broadcast is well-formed).  Some batch row is read differently by the fused
   operator (or is out of range = rejected) iff position_ids does not have B rows, i.e. iff it has 1 row and B > 1. *)
Theorem cs_position_batch_differs_iff : forall (ids : list (list nat)) B, 0 < B -> (length ids = 1 \/ length ids = B) ->
  ((exists b, b < B /\ cs_fused_row ids b <> cs_pattern_row ids b) <-> length ids <> B).
Proof.
  intros ids B HB HL. unfold cs_fused_row, cs_pattern_row. split.
  - intros (b & Hb & N) E. apply N. destruct (Nat.eqb (length ids) 1) eqn:E1; auto.
    apply Nat.eqb_eq in E1. assert (b = 0) by lia. subst. reflexivity.
  - intro N. destruct HL as [L1|L]; [|contradiction]. exists 1. split; [lia|].
    rewrite L1. simpl. destruct ids as [|r [|? ?]]; simpl in L1; try discriminate; try (simpl; discriminate).
Qed.
Theorem cs_batch_differs_spec : forall (ids : list (list nat)) B, 0 < B -> (length ids = 1 \/ length ids = B) ->
  (cs_batch_differs (length ids) B = true <-> exists b, b < B /\ cs_fused_row ids b <> cs_pattern_row ids b).
Proof.
  intros ids B HB HL. rewrite (cs_position_batch_differs_iff ids B HB HL). unfold cs_batch_differs.
  rewrite negb_true_iff, Nat.eqb_neq. tauto.
Qed.
Example cs_batch_witness : cs_batch_differs 1 2 = true /\ cs_fused_row [[0; 1; 2]] 1 = None /\ cs_pattern_row [[0; 1; 2]] 1 = Some [0; 1; 2]
  /\ cs_batch_differs 2 2 = false.
Proof. repeat split; reflexivity. Qed.
