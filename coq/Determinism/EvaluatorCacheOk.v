(* The memo tables found by the translator in the current sources (Gen/EvaluatorCache.v, rewritten by
   every ./check C14 run): each key contains every parameter the memoizing method uses. *)
From Coq Require Import List String Bool Arith.
Require Import OV.Determinism.KeyedCache OV.Determinism.KeyedCacheProofs OV.Gen.EvaluatorCache.
Import ListNotations.

Lemma memos_all_ok : forallb memo_ok EvaluatorCache.memos = true.
Proof. vm_compute. reflexivity. Qed.

Theorem source_memos_history_independent : forall m, In m EvaluatorCache.memos ->
  forall (V : Type) (f : env -> V), depends_only_on f (m_fun_params m) ->
  forall (h : list env) (x : env),
    answer_after (list_eq_dec Nat.eq_dec) (project (m_key_params m)) f h x = f x.
Proof.
  intros m Hin. apply memo_site_history_independent.
  pose proof memos_all_ok as H. rewrite forallb_forall in H. apply H, Hin.
Qed.
