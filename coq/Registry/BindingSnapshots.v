(* C16 -- pinned snapshots of registry entries whose binding was found defective, in two variants each:
     <x>_sig_as_read   the function signature as first read (does not bind: kept as the refutation witness)
     <x>_sig_repaired  the signature after the proposed repair (proposed_fixes/ready/C16_*.diff)
   One representative per signature family (root cause).  The live registry (Gen/TorchRegistry.v,
   regenerated on every run) is what the registry theorem speaks about; these snapshots only record
   the two forms so that the harness can say which one the checked tree is in (variant_of) and so that
   the as-read behaviour stays refuted by a machine-checked witness after the repair has landed.
   Literals were produced from the translator's output on the unrepaired and on the repaired tree.
   No proofs in this file. *)
From Coq Require Import String List Bool Arith.
Require Import OV.Registry.Binding.
Import ListNotations.
Local Open Scope string_scope.

(* aten::amin *)
Definition amin_schema : schema := [mkA "self" BTensor false false false false; mkA "dim" BInt true false false true; mkA "keepdim" BBool false false false true].
Definition amin_sig_as_read : fn_sig := mkF [mkP "self" PInput true; mkP "dim" PInput true; mkP "keepdim" (PAttr AInt) false] false.
Definition amin_sig_repaired : fn_sig := mkF [mkP "self" PInput true; mkP "dim" PInput false; mkP "keepdim" (PAttr AInt) false] false.
(* aten::bernoulli *)
Definition bernoulli_schema : schema := [mkA "self" BTensor false false false false; mkA "generator" BGenerator false true true true].
Definition bernoulli_sig_as_read : fn_sig := mkF [mkP "self" PInput true] true.
Definition bernoulli_sig_repaired : fn_sig := mkF [mkP "self" PInput true; mkP "generator" PInput false] true.
(* aten::normal.float_float *)
Definition normal_float_float_schema : schema := [mkA "mean" BFloat false false false false; mkA "std" BFloat false false false false; mkA "size" BSymInt true false false false; mkA "generator" BGenerator false true true true; mkA "dtype" BScalarType false true true true; mkA "layout" BLayout false true true true; mkA "device" BDevice false true true true; mkA "pin_memory" BBool false true true true].
Definition normal_float_float_sig_as_read : fn_sig := mkF [mkP "mean" (PAttr AFloat) true; mkP "std" (PAttr AFloat) true; mkP "size" PInput true; mkP "dtype" (PAttr AInt) false; mkP "layout" (PAttr AString) false; mkP "device" (PAttr AString) false; mkP "pin_memory" (PAttr AInt) false] true.
Definition normal_float_float_sig_repaired : fn_sig := mkF [mkP "mean" (PAttr AFloat) true; mkP "std" (PAttr AFloat) true; mkP "size" PInput true; mkP "dtype" (PAttr AInt) false; mkP "layout" (PAttr AString) false; mkP "device" (PAttr AString) false; mkP "pin_memory" (PAttr AInt) false; mkP "generator" PInput false] true.
(* aten::tensor.bool *)
Definition tensor_bool_schema : schema := [mkA "t" BBool false false false false; mkA "dtype" BScalarType false true true true; mkA "device" BDevice false true true true; mkA "requires_grad" BBool false false true true].
Definition tensor_bool_sig_as_read : fn_sig := mkF [mkP "self" (PAttr AInt) true; mkP "dtype" (PAttr AInt) true] true.
Definition tensor_bool_sig_repaired : fn_sig := mkF [mkP "self" (PAttr AInt) true; mkP "dtype" (PAttr AInt) false; mkP "device" (PAttr AString) false; mkP "requires_grad" (PAttr AInt) false] true.
(* aten::stft *)
Definition stft_schema : schema := [mkA "self" BTensor false false false false; mkA "n_fft" BInt false false false false; mkA "hop_length" BInt false true false true; mkA "win_length" BInt false true false true; mkA "window" BTensor false true false true; mkA "normalized" BBool false false false true; mkA "onesided" BBool false true false true; mkA "return_complex" BBool false true false true; mkA "align_to_window" BBool false true false true].
Definition stft_sig_as_read : fn_sig := mkF [mkP "self" PInput true; mkP "n_fft" (PAttr AInt) true; mkP "hop_length" PInput false; mkP "win_length" PInput false; mkP "window" PInput false; mkP "normalized" (PAttr AInt) false; mkP "onesided" PInput false; mkP "return_complex" PInput false] true.
Definition stft_sig_repaired : fn_sig := mkF [mkP "self" PInput true; mkP "n_fft" (PAttr AInt) true; mkP "hop_length" PInput false; mkP "win_length" PInput false; mkP "window" PInput false; mkP "normalized" (PAttr AInt) false; mkP "onesided" PInput false; mkP "return_complex" PInput false; mkP "align_to_window" PInput false] true.
(* prims::device_put *)
Definition device_put_schema : schema := [mkA "a" BTensor false false false false; mkA "device" BDevice false false false false; mkA "non_blocking" BBool false false false true].
Definition device_put_sig_as_read : fn_sig := mkF [mkP "a" PInput true; mkP "device" (PAttr AString) false] false.
Definition device_put_sig_repaired : fn_sig := mkF [mkP "a" PInput true; mkP "device" (PAttr AString) false; mkP "non_blocking" (PAttr AInt) false] false.
(* prims::var *)
Definition prims_var_schema : schema := [mkA "inp" BTensor false false false false; mkA "dims" BInt true true false false; mkA "correction" BFloat false true false true; mkA "output_dtype" BScalarType false true true true].
Definition prims_var_sig_as_read : fn_sig := mkF [mkP "inp" PInput true; mkP "dims" PInput true; mkP "correction" (PAttr AInt) true; mkP "output_dtype" PInput false] true.
Definition prims_var_sig_repaired : fn_sig := mkF [mkP "inp" PInput true; mkP "dims" PInput true; mkP "correction" (PAttr AFloat) false; mkP "output_dtype" PInput false] true.
(* aten::repeat_interleave.Tensor *)
Definition repeat_interleave_schema : schema := [mkA "repeats" BTensor false false false false; mkA "output_size" BSymInt false true true true].
Definition repeat_interleave_sig_as_read : fn_sig := mkF [mkP "self" PInput true; mkP "repeats" PInput false; mkP "dim" PInput false] true.
Definition repeat_interleave_sig_repaired : fn_sig := mkF [mkP "self" PInput true; mkP "repeats" PInput false; mkP "dim" PInput false; mkP "output_size" PInput false] true.
(* aten::mean (complex) *)
Definition mean_complex_schema : schema := [mkA "self" BTensor false false false false; mkA "dtype" BScalarType false true true true].
Definition mean_complex_sig_as_read : fn_sig := mkF [mkP "self" PInput true] true.
Definition mean_complex_sig_repaired : fn_sig := mkF [mkP "self" PInput true; mkP "dtype" (PAttr AInt) false] true.
(* quantized_decomposed::quantize_per_tensor.tensor2 *)
Definition quantize_per_tensor_tensor2_schema : schema := [mkA "input" BTensor false false false false; mkA "scale" BTensor false false false false; mkA "zero_point" BTensor false false false false; mkA "quant_min" BTensor false false false false; mkA "quant_max" BTensor false false false false; mkA "dtype" BScalarType false false false false].
Definition quantize_per_tensor_tensor2_sig_as_read : fn_sig := mkF [mkP "input" PInput true; mkP "scale" (PAttr AFloat) true; mkP "zero_point" (PAttr AInt) true; mkP "quant_min" (PAttr AInt) true; mkP "quant_max" (PAttr AInt) true; mkP "dtype" (PAttr AInt) true] true.
Definition quantize_per_tensor_tensor2_sig_repaired : fn_sig := mkF [mkP "input" PInput true; mkP "scale" PInput true; mkP "zero_point" PInput true; mkP "quant_min" PInput true; mkP "quant_max" PInput true; mkP "dtype" (PAttr AInt) true] true.
(* quantized_decomposed::dequantize_per_tensor.tensor *)
Definition dequantize_per_tensor_tensor_schema : schema := [mkA "input" BTensor false false false false; mkA "scale" BTensor false false false false; mkA "zero_point" BTensor false false false false; mkA "quant_min" BInt false false false false; mkA "quant_max" BInt false false false false; mkA "dtype" BScalarType false false false false; mkA "out_dtype" BScalarType false true true true].
Definition dequantize_per_tensor_tensor_sig_as_read : fn_sig := mkF [mkP "input" PInput true; mkP "scale" (PAttr AFloat) true; mkP "zero_point" (PAttr AInt) true; mkP "quant_min" (PAttr AInt) true; mkP "quant_max" (PAttr AInt) true; mkP "dtype" (PAttr AInt) true; mkP "out_dtype" (PAttr AInt) false] true.
Definition dequantize_per_tensor_tensor_sig_repaired : fn_sig := mkF [mkP "input" PInput true; mkP "scale" PInput true; mkP "zero_point" PInput true; mkP "quant_min" PInput true; mkP "quant_max" PInput true; mkP "dtype" (PAttr AInt) true; mkP "out_dtype" (PAttr AInt) false] true.

(* ------------------------------------------------------------------------------------ the families *)

Record family := mkFam {
  fam_name : string;        (* qualified name of the representative entry *)
  fam_complex : bool;
  fam_schema : schema;
  fam_as_read : fn_sig;
  fam_repaired : fn_sig }.

Definition families : list family :=
  [ mkFam "aten::amin" false amin_schema amin_sig_as_read amin_sig_repaired;
    mkFam "aten::bernoulli" false bernoulli_schema bernoulli_sig_as_read bernoulli_sig_repaired;
    mkFam "aten::normal.float_float" false normal_float_float_schema normal_float_float_sig_as_read normal_float_float_sig_repaired;
    mkFam "aten::tensor.bool" false tensor_bool_schema tensor_bool_sig_as_read tensor_bool_sig_repaired;
    mkFam "aten::stft" false stft_schema stft_sig_as_read stft_sig_repaired;
    mkFam "prims::device_put" false device_put_schema device_put_sig_as_read device_put_sig_repaired;
    mkFam "prims::var" false prims_var_schema prims_var_sig_as_read prims_var_sig_repaired;
    mkFam "aten::repeat_interleave.Tensor" false repeat_interleave_schema repeat_interleave_sig_as_read repeat_interleave_sig_repaired;
    mkFam "aten::mean" true mean_complex_schema mean_complex_sig_as_read mean_complex_sig_repaired;
    mkFam "quantized_decomposed::quantize_per_tensor.tensor2" false quantize_per_tensor_tensor2_schema
          quantize_per_tensor_tensor2_sig_as_read quantize_per_tensor_tensor2_sig_repaired;
    mkFam "quantized_decomposed::dequantize_per_tensor.tensor" false dequantize_per_tensor_tensor_schema
          dequantize_per_tensor_tensor_sig_as_read dequantize_per_tensor_tensor_sig_repaired ].

(* the as-read form does not bind: some call shape named by `diagnose` conforms to the schema and its
   binding fails or violates a clause of the property *)
Definition refuting_calls (s : schema) (f : fn_sig) : list call :=
  filter (fun c => conformsb s c && negb (call_goodb s f c)) (map snd (diagnose s f)).
Definition as_read_refutedb (fam : family) : bool :=
  match refuting_calls (fam_schema fam) (fam_as_read fam) with [] => false | _ => true end.
Definition repaired_bindsb (fam : family) : bool := binds_ok (fam_schema fam) (fam_repaired fam).

(* ------------------------------------------------- which variant a live registry entry is in (harness) *)

Definition abase_eqb (a b : abase) : bool :=
  match a, b with
  | BTensor, BTensor | BScalar, BScalar | BInt, BInt | BSymInt, BSymInt | BBool, BBool | BFloat, BFloat
  | BStr, BStr | BScalarType, BScalarType | BLayout, BLayout | BDevice, BDevice | BMemoryFormat, BMemoryFormat
  | BGenerator, BGenerator | BPyObj, BPyObj => true
  | _, _ => false end.
Definition sarg_eqb (a b : sarg) : bool :=
  String.eqb (a_name a) (a_name b) && abase_eqb (a_base a) (a_base b) && Bool.eqb (a_list a) (a_list b) &&
  Bool.eqb (a_opt a) (a_opt b) && Bool.eqb (a_kwonly a) (a_kwonly b) && Bool.eqb (a_default a) (a_default b).
Definition attr_ty_eqb (a b : attr_ty) : bool :=
  match a, b with
  | AInt, AInt | AFloat, AFloat | AString, AString | AInts, AInts | AFloats, AFloats | AStrings, AStrings
  | ATensor, ATensor | ATensors, ATensors | AGraph, AGraph | AGraphs, AGraphs => true
  | _, _ => false end.
Definition pkind_eqb (a b : pkind) : bool :=
  match a, b with PInput, PInput => true | PAttr t, PAttr u => attr_ty_eqb t u | _, _ => false end.
Definition param_eqb (p q : param) : bool :=
  String.eqb (p_name p) (p_name q) && pkind_eqb (p_kind p) (p_kind q) && Bool.eqb (p_required p) (p_required q).
Definition sig_eqb (f g : fn_sig) : bool :=
  list_eqb param_eqb (f_params f) (f_params g) && Bool.eqb (f_traced f) (f_traced g).

Inductive variant := VAsRead | VRepaired | VOther | VAbsent.
(* (variant of the live entry registered under the family's name, does the installed PyTorch's schema
   equal the snapshot's, does the live entry bind) *)
Definition variant_of (es : list entry) (fam : family) : variant * bool * bool :=
  match find (fun e => key_eqb (e_name e, e_complex e) (fam_name fam, fam_complex fam)) es with
  | None => (VAbsent, false, false)
  | Some e =>
      (if sig_eqb (e_sig e) (fam_as_read fam) then VAsRead
       else if sig_eqb (e_sig e) (fam_repaired fam) then VRepaired else VOther,
       match e_schema e with Some s => list_eqb sarg_eqb s (fam_schema fam) | None => false end,
       entry_ok e)
  end.
