(* C10 -- models of the three registered adapters (_version_converter.py l.157-237) and of the
   tensor algebra they rely on.  No proofs in this file.

   Variants.  Three defects of the code as it stands are repaired by small patches
   (proposed_fixes/C10_*.diff); the model carries one flag per repair so that the correspondence
   follows whichever variant /repo implements, and the theorems say which variant is sound:
     fx_dft_axis  : dft_19_20 materialises the opset-19 default axis=1 when the attribute is absent
     fx_gn_eps    : groupnormalization_20_21 copies `epsilon` to the new node
   (the third flag, copy_imports, belongs to the ModelProto wrapper in Model.v). *)
From Coq Require Import ZArith List Bool String.
Import ListNotations.
Require Import OV.Version.Model.
Open Scope Z_scope.

Record flags := Flags { fx_dft_axis : bool; fx_gn_eps : bool }.
Definition flags_current := Flags false false.
Definition flags_fixed := Flags true true.

(* ---------------------------------------------------------------- attribute access *)
Fixpoint lookup (name : string) (a : list (string * attrv)) : option attrv :=
  match a with
  | [] => None
  | (k, v) :: r => if String.eqb k name then Some v else lookup name r
  end.
(* _get_int_attribute: present and int -> value; present, other type -> None; absent -> default *)
Definition get_int (n : node) (name : string) (default : option Z) : option Z :=
  match lookup name (n_attrs n) with
  | Some (AInt z) => Some z
  | Some _ => None
  | None => default
  end.
Definition get_str (n : node) (name : string) (default : option string) : option string :=
  match lookup name (n_attrs n) with
  | Some (AStr s) => Some s
  | Some _ => None
  | None => default
  end.
Definition opt_attr {A} (name : string) (mk : A -> attrv) (v : option A) : list (string * attrv) :=
  match v with Some x => [(name, mk x)] | None => [] end.   (* the builder omits attributes that are None *)
Definition present (i : nat) (n : node) : bool := nth i (n_ins n) false.

Definition mk (op : string) (attrs : list (string * attrv)) (ins : list bool) : node :=
  Node op true None false attrs ins [] [].
Definition const_int (z : Z) := mk "Constant" [("value_int"%string, AInt z)] [].
Definition const_ints (l : list Z) := mk "Constant" [("value_ints"%string, AInts l)] [].

(* ---------------------------------------------------------------- DFT 19 -> 20 *)
Definition dft_19_20 (fx : flags) (n : node) : aresult :=
  match n_ins n with
  | [] => ARaiseOther                                   (* node.inputs[0]: IndexError *)
  | _ =>
    let inverse := get_int n "inverse" (Some 0) in
    let onesided := get_int n "onesided" (Some 0) in
    match get_int n "axis" (if fx_dft_axis fx then Some 1 else None) with
    | Some a =>
      AReplace [ const_int a;
                 mk "DFT" (opt_attr "inverse" AInt inverse ++ opt_attr "onesided" AInt onesided)
                    [present 0 n; present 1 n; true] ]
    | None => ANone
    end
  end.

(* ---------------------------------------------------------------- GridSample 19 -> 20 *)
Definition gs_rename (mode : string) : option string :=
  if String.eqb mode "bilinear" then Some "linear"%string
  else if String.eqb mode "bicubic" then Some "cubic"%string
  else None.

Definition gridsample_19_20 (n : node) : aresult :=
  match n_ins n with
  | _ :: _ :: _ =>
    let ac := get_int n "align_corners" (Some 0) in
    let mode := get_str n "mode" (Some "linear"%string) in
    let pm := get_str n "padding_mode" (Some "zeros"%string) in
    match mode with
    | Some m =>
      match gs_rename m with
      | Some m' =>
        AReplace [ mk "GridSample" (opt_attr "align_corners" AInt ac ++ [("mode"%string, AStr m')]
                                    ++ opt_attr "padding_mode" AStr pm) [present 0 n; present 1 n] ]
      | None => ANone
      end
    | None => ANone
    end
  | _ => ARaiseOther
  end.

(* ---------------------------------------------------------------- GroupNormalization 20 -> 21 *)
(* the decision part, also used by the theorems *)
Inductive gn_decision := GnRaise | GnKeep | GnCrash | GnExpand (g c_div : Z).

Definition gn_decide (n : node) : gn_decision :=
  if negb (present 0 n && present 1 n && present 2 n) then GnRaise
  else
    match n_shp n with
    | [xc; s0; b0] =>
      match xc with
      | DMissing => GnRaise                         (* x.shape is None *)
      | DSym => GnKeep                              (* num_channels not an int *)
      | DStatic c =>
        match s0, b0 with
        | DStatic sg, DStatic bg =>
          match get_int n "num_groups" None with
          | None => GnRaise
          | Some g =>
            if negb (g =? c) && (g =? sg) && (g =? bg)
            then (if g =? 0 then GnCrash else GnExpand g (c / g))    (* int(c / g) *)
            else GnKeep
          end
        | _, _ => GnKeep                            (* shape missing or first dim symbolic *)
        end
      end
    | _ => GnCrash                                  (* harness never builds this *)
    end.

Definition gn_new_nodes (fx : flags) (n : node) (g c_div : Z) : list node :=
  let eps := if fx_gn_eps fx then
               match lookup "epsilon" (n_attrs n) with Some v => [("epsilon"%string, v)] | None => [] end
             else [] in
  [ const_ints [-1; 1]; const_ints [-1]; const_ints [1; c_div];
    mk "Reshape" [] [true; true]; mk "Expand" [] [true; true]; mk "Reshape" [] [true; true];
    mk "Reshape" [] [true; true]; mk "Expand" [] [true; true]; mk "Reshape" [] [true; true];
    mk "GroupNormalization" (eps ++ [("num_groups"%string, AInt g)]) [true; true; true] ].

Definition groupnormalization_20_21 (fx : flags) (n : node) : aresult :=
  match gn_decide n with
  | GnRaise => ARaiseVCE
  | GnKeep => ANone
  | GnCrash => ARaiseOther
  | GnExpand g c_div => AReplace (gn_new_nodes fx n g c_div)
  end.

(* ---------------------------------------------------------------- the registry *)
(* the adapters this file models, keyed like registry.op_adapters (default domain, up-conversion) *)
Definition modelled (fx : flags) (op : string) (k : Z) : option (node -> aresult) :=
  if String.eqb op "DFT" && (k =? 19) then Some (dft_19_20 fx)
  else if String.eqb op "GridSample" && (k =? 19) then Some gridsample_19_20
  else if String.eqb op "GroupNormalization" && (k =? 20) then Some (groupnormalization_20_21 fx)
  else None.

Definition key_is (op : string) (k : Z) (key : string * string * Z * bool) : bool :=
  let '(d, o, v, up) := key in String.eqb d "" && String.eqb o op && (v =? k) && up.

(* registry.lookup_adapters(node.domain, node.op_type, from_version, True)(node, ctx) for a registry
   given by its keys; a registered key without a model is reported as ARaiseOther and excluded by
   the theorem registry_modelled over the generated table *)
Definition adapt_of (keys : list (string * string * Z * bool)) (fx : flags) : adapter :=
  fun op k n =>
    if existsb (key_is op k) keys then
      match modelled fx op k with Some f => f n | None => ARaiseOther end
    else ANone.

(* ---------------------------------------------------------------- tensor algebra of the GroupNormalization adapter *)
Section Lists.
  Context {A : Type}.
  (* Reshape(s, [-1, 1]) of a vector: one row per element *)
  Definition reshape_col (s : list A) : list (list A) := map (fun x => [x]) s.
  (* Expand(m, [1, d]) of a [g,1] tensor: numpy broadcasting repeats the single column d times *)
  Definition expand_row (d : nat) (r : list A) : list A :=
    match r with [x] => repeat x d | _ => r end.
  Definition expand_cols (d : nat) (m : list (list A)) : list (list A) := map (expand_row d) m.
  (* Reshape(m, [-1]): row-major flattening *)
  Definition flatten (m : list (list A)) : list A := List.concat m.
  Definition expand_scale (d : nat) (s : list A) : list A := flatten (expand_cols d (reshape_col s)).
End Lists.

(* GroupNormalization: after normalisation per group, opset 18-20 scale/bias are indexed by the
   group of the channel, opset 21 by the channel.  xhat = the normalised input (it depends on
   epsilon and on the group statistics only, which both versions compute alike). *)
Section GroupNorm.
  Variable xhat : Z (* epsilon token *) -> nat (* channel *) -> nat (* position *) -> Z.
  Definition gn18 (g c : nat) (eps : Z) (scale bias : list Z) (ch pos : nat) : Z :=
    nth (ch / (c / g)) scale 0 * xhat eps ch pos + nth (ch / (c / g)) bias 0.
  Definition gn21 (eps : Z) (scale bias : list Z) (ch pos : nat) : Z :=
    nth ch scale 0 * xhat eps ch pos + nth ch bias 0.
End GroupNorm.
Definition eps_default : Z := 0.     (* token of the default epsilon 1e-5, the same in both versions *)
Definition eps_of (attrs : list (string * attrv)) : Z :=
  match lookup "epsilon" attrs with Some (AFlt b) => b | _ => eps_default end.

(* ---------------------------------------------------------------- DFT axis semantics *)
(* opset 17-19: attribute axis, default 1; opset 20: input axis, default -2; negative = from the end *)
Definition norm_axis (rank a : Z) : Z := if a <? 0 then a + rank else a.
Definition dft19_axis (rank : Z) (n : node) : option Z :=
  option_map (norm_axis rank) (get_int n "axis" (Some 1)).
(* the axis a replacement [Constant; DFT] computes along; a lone DFT-20 node without axis input: -2 *)
Definition dft20_axis (rank : Z) (r : aresult) (orig : node) : option Z :=
  match r with
  | AReplace [c; d] =>
    if nth 2 (n_ins d) false then option_map (norm_axis rank) (get_int c "value_int" None)
    else Some (norm_axis rank (-2))
  | ANone => Some (norm_axis rank (-2))               (* node re-stamped as it is *)
  | _ => None
  end.

(* ---------------------------------------------------------------- GridSample modes *)
Inductive interp := Linear | Nearest | Cubic.
Definition gs_mode16 (m : string) : option interp :=
  if String.eqb m "bilinear" then Some Linear else if String.eqb m "nearest" then Some Nearest
  else if String.eqb m "bicubic" then Some Cubic else None.
Definition gs_mode20 (m : string) : option interp :=
  if String.eqb m "linear" then Some Linear else if String.eqb m "nearest" then Some Nearest
  else if String.eqb m "cubic" then Some Cubic else None.
(* mode a node runs with: attribute or the version's default *)
Definition gs_node_mode16 (n : node) : option interp :=
  match lookup "mode" (n_attrs n) with Some (AStr m) => gs_mode16 m | Some _ => None | None => Some Linear end.
Definition gs_node_mode20 (n : node) : option interp :=
  match lookup "mode" (n_attrs n) with Some (AStr m) => gs_mode20 m | Some _ => None | None => Some Linear end.
(* the node(s) that stand where n stood after the 19->20 step *)
Definition gs_after (n : node) : option node :=
  match gridsample_19_20 n with
  | AReplace [m] => Some m
  | ANone => Some n
  | _ => None
  end.
