From Coq Require Import List String Bool Arith.
Require Import OV.Determinism.KeyedCache OV.Determinism.KeyedCacheProofs OV.Determinism.ProcessState OV.Determinism.ProcessStateProofs.
Require Import OV.Determinism.StateClasses.
Import ListNotations.
Local Open Scope list_scope.

Section ClassFacts.
  Variables T X K V R C L : Type.
  Variable T_eq_dec : forall a b : T, {a = b} + {a <> b}.
  Variable K_eq_dec : forall a b : K, {a = b} + {a <> b}.
  Variable C_eq_dec : forall a b : C, {a = b} + {a <> b}.
  Variable L_eq_dec : forall a b : L, {a = b} + {a <> b}.
  Variable k : T -> X -> K.
  Variable f : T -> X -> V.
  Variable reset_value : C -> option V.
  Variable dflt : C -> V.

  Notation cop := (cop T X V R C L).
  Notation cstate := (cstate T K V C L).
  Notation exec := (exec T X K V R C L T_eq_dec K_eq_dec C_eq_dec L_eq_dec k f).
  Notation crun := (crun T X K V R C L T_eq_dec K_eq_dec C_eq_dec L_eq_dec k f reset_value).
  Notation cafter := (cafter T X K V R C L T_eq_dec K_eq_dec C_eq_dec L_eq_dec k f reset_value).
  Notation tabs_ok := (all_ok T X K V K_eq_dec k f).

  (* every operation of the language -- well behaved or not -- leaves the memo tables consistent *)
  Lemma exec_keeps_tabs_ok : forall (o : cop) (s : cstate), tabs_ok (tabs _ _ _ _ _ s) -> tabs_ok (tabs _ _ _ _ _ (snd (exec o s))).
  Proof.
    induction o as [r | t x cont IH | c cont IH | c v cont IH | l v cont IH]; intros s Hs; cbn [StateClasses.exec].
    - exact Hs.
    - apply IH. cbn [tabs]. apply upd_ok; auto. apply request_keeps_ok. apply Hs.
    - apply IH. exact Hs.
    - apply IH. exact Hs.
    - apply IH. exact Hs.
  Qed.

  Lemma after_keeps_tabs_ok : forall (h : list cop) (s : cstate), tabs_ok (tabs _ _ _ _ _ s) -> tabs_ok (tabs _ _ _ _ _ (cafter h s)).
  Proof.
    induction h as [|o r IH]; intros s Hs; cbn [StateClasses.cafter]; auto.
    apply IH. unfold StateClasses.crun. apply exec_keeps_tabs_ok. exact Hs.
  Qed.

  (* two states with consistent tables that agree on the cells known to be defined give the same result *)
  Lemma exec_agree : all_keyed_completely k f ->
    forall (o : cop) (defd : C -> bool) (s1 s2 : cstate),
      defined_before_read T X V R C L C_eq_dec defd o ->
      tabs_ok (tabs _ _ _ _ _ s1) -> tabs_ok (tabs _ _ _ _ _ s2) ->
      (forall c, defd c = true -> cells _ _ _ _ _ s1 c = cells _ _ _ _ _ s2 c) ->
      fst (exec o s1) = fst (exec o s2).
  Proof.
    intros Hk. induction o as [r | t x cont IH | c cont IH | c v cont IH | l v cont IH]; intros defd s1 s2 Hd H1 H2 Hc;
      cbn [StateClasses.exec]; cbn [defined_before_read] in Hd.
    - reflexivity.
    - rewrite (request_answer T X K V K_eq_dec k f t (Hk t) _ x (H1 t)).
      rewrite (request_answer T X K V K_eq_dec k f t (Hk t) _ x (H2 t)).
      apply (IH (f t x) defd); auto; cbn [tabs cells].
      + apply upd_ok; auto. apply request_keeps_ok. apply H1.
      + apply upd_ok; auto. apply request_keeps_ok. apply H2.
    - destruct Hd as [Hdc Hd]. rewrite (Hc c Hdc). apply (IH _ defd); auto.
    - apply (IH (fun c' => if C_eq_dec c' c then true else defd c')); auto. cbn [cells]. intros c' Hc'.
      destruct (C_eq_dec c' c); [reflexivity | apply Hc, Hc'].
    - apply (IH defd); auto.
  Qed.

  (* the generic lemma: if every piece of long-lived state is in one of the four classes -- tables keyed completely, cells reset
     when an operation starts or written before they are read, logs never read -- then a well-behaved operation gives the same
     result after every history of arbitrary operations as in a fresh process *)
  Theorem four_classes_history_independent : all_keyed_completely k f ->
    four_class_history_independent T X K V R C L T_eq_dec K_eq_dec C_eq_dec L_eq_dec k f reset_value dflt.
  Proof.
    intros Hk h o Ho. unfold StateClasses.crun.
    apply (exec_agree Hk o (reset_cells V C reset_value)); auto.
    - cbn [cbegin tabs]. apply after_keeps_tabs_ok. cbn. apply fresh_ok.
    - cbn. apply fresh_ok.
    - intros c Hc. unfold reset_cells in Hc. cbn [cbegin cells]. destruct (reset_value c); [reflexivity | discriminate].
  Qed.
End ClassFacts.

(* the classes are needed: a cell that is neither reset nor written before it is read makes the result depend on the history *)
Definition unit_dec : forall a b : unit, {a = b} + {a <> b}.
Proof. decide equality. Defined.

Theorem unclassified_cell_refuted :
  exists (h : list (cop unit unit nat nat unit unit)),
    fst (crun unit unit unit nat nat unit unit unit_dec unit_dec unit_dec unit_dec (fun _ _ => tt) (fun _ _ => 0) (fun _ => None) leak_get
              (cafter unit unit unit nat nat unit unit unit_dec unit_dec unit_dec unit_dec (fun _ _ => tt) (fun _ _ => 0) (fun _ => None) h
                      (cfresh unit unit nat unit unit (fun _ => 0)))) <>
    fst (crun unit unit unit nat nat unit unit unit_dec unit_dec unit_dec unit_dec (fun _ _ => tt) (fun _ _ => 0) (fun _ => None) leak_get
              (cfresh unit unit nat unit unit (fun _ => 0))).
Proof. exists [leak_put 7]. vm_compute. discriminate. Qed.

(* ... while the same read is history independent as soon as the cell is of class "reset" *)
Example reset_cell_fixed : forall h,
    fst (crun unit unit unit nat nat unit unit unit_dec unit_dec unit_dec unit_dec (fun _ _ => tt) (fun _ _ => 0) (fun _ => Some 0) leak_get
              (cafter unit unit unit nat nat unit unit unit_dec unit_dec unit_dec unit_dec (fun _ _ => tt) (fun _ _ => 0) (fun _ => Some 0) h
                      (cfresh unit unit nat unit unit (fun _ => 0)))) =
    fst (crun unit unit unit nat nat unit unit unit_dec unit_dec unit_dec unit_dec (fun _ _ => tt) (fun _ _ => 0) (fun _ => Some 0) leak_get
              (cfresh unit unit nat unit unit (fun _ => 0))).
Proof.
  intros h. apply (four_classes_history_independent unit unit unit nat nat unit unit unit_dec unit_dec unit_dec unit_dec
                     (fun _ _ => tt) (fun _ _ => 0) (fun _ => Some 0) (fun _ => 0)).
  all: try (intros t x y _; reflexivity).
  all: try (cbn; split; [reflexivity | intros; exact I]).
Qed.

(* translator data: a site the inventory accepts without an experiment is in one of the classes of the theorem
   (keyed with a covering key: ProcessStateProofs.keyed_site_complete applies to it) *)
Theorem inventory_ok_classes : forall l, bad_inventory l = [] ->
  forall s, In s l -> in_four_classes s = true \/ exists ops, iv_class s = SExperiment ops /\ ops <> [].
Proof.
  intros l H s Hin. unfold bad_inventory in H. apply map_eq_nil in H.
  assert (Hs : inv_ok s = true).
  { destruct (inv_ok s) eqn:E; [reflexivity|].
    assert (In s (filter (fun s => negb (inv_ok s)) l)) as F by (apply filter_In; split; [exact Hin | rewrite E; reflexivity]).
    rewrite H in F. destruct F. }
  unfold inv_ok in Hs. unfold in_four_classes. destruct (iv_class s) as [kp fp| | | | |ops|] eqn:E; auto; try discriminate.
  right. exists ops. split; [reflexivity|]. destruct ops; [discriminate | discriminate].
Qed.

Theorem inventory_keyed_complete : forall s kp fp, iv_class s = SKeyed kp fp -> inv_ok s = true ->
  forall (V : Type) (g : env -> V), depends_only_on g fp -> factors_through_key (project kp) g.
Proof.
  intros s kp fp Hd Hc V g Hg. unfold inv_ok in Hc. rewrite Hd in Hc.
  eapply key_params_cover_factor; [|exact Hg].
  intros p Hp. rewrite forallb_forall in Hc. specialize (Hc p Hp). unfold smem in Hc.
  rewrite existsb_exists in Hc. destruct Hc as (q & Hq & E). apply String.eqb_eq in E. now subst.
Qed.
