(* C08 (third group of families) -- PyTorch's semantics (ATen's shape functions / ReduceOps.cpp / ScatterGatherChecks.h /
   ConvUtils.h transcribed) of all / any (dim, dims, no dim), argmax / argmin, prod.dim_int, logsumexp, var / std
   (correction, dim lists, keepdim), scatter / scatter_add / scatter_reduce, convolution attribute lists.
   `None` = PyTorch raises.  No proofs in this file. *)
From Coq Require Import ZArith List Bool QArith.
Require Import OV.Torch.Onnx OV.Torch.Spec OV.Torch.Spec2.
Import ListNotations.
Local Open Scope Z_scope.

(* ------------------------------------------------------------------ all / any (ReduceOps.cpp, allany_meta: make_dim_mask with
   allow_empty_dims = true): dim = None reduces every dimension, dim = [] reduces NOTHING, otherwise the listed
   dimensions (wrapped, no duplicates) *)
Definition torch_allany_shape (s : list Z) (dims : option (list Z)) (keepdim : bool) : option (list Z) :=
  let r := zlen s in
  match dims with
  | None => Some (reduce_dims s 0 (iota r) keepdim)
  | Some ds => obind (omap_all (wrap_dim r) ds) (fun ds' =>
               if nodupZ ds' then Some (reduce_dims s 0 ds' keepdim) else None)
  end.
(* one fiber (the elements along the reduced dimension, any element type converted to bool by != 0) *)
Definition truthy (v : Z) : bool := negb (v =? 0).
Definition torch_all_fiber (l : list Z) : bool := forallb truthy l.      (* all of nothing = True *)
Definition torch_any_fiber (l : list Z) : bool := existsb truthy l.      (* any of nothing = False *)

(* ------------------------------------------------------------------ argmax / argmin (ReduceOps.cpp, argmax_argmin_impl / meta)
   dim = None: the flattened tensor (numel must be > 0); keepdim gives a tensor of the input's rank with all extents 1.
   dim given: wrapped; the reduced extent must be non-zero; a 0-d tensor gives a 0-d result. *)
Definition torch_argmax_shape (s : list Z) (dim : option Z) (keepdim : bool) : option (list Z) :=
  let r := zlen s in
  match dim with
  | None => if prodZ s =? 0 then None else Some (if keepdim then repeat 1 (length s) else [])
  | Some d => obind (wrap_dim r d) (fun a =>
      if r =? 0 then Some []
      else match nthZ s a with
           | Some n => if n =? 0 then None else Some (reduce_dims s 0 [a] keepdim)
           | None => None
           end)
  end.

(* ------------------------------------------------------------------ prod.dim_int: one wrapped dim (a 0-d tensor accepts 0 and -1);
   element types as ONNX TensorProto codes: 1 float, 2 uint8, 3 int8, 4 uint16, 5 int16, 6 int32, 7 int64, 9 bool, 10 float16, 11 double, 12 uint32, 13 uint64.
   Integral inputs (bool included) are promoted to int64 unless dtype is given. *)
Definition torch_reduce1_shape (s : list Z) (dim : Z) (keepdim : bool) : option (list Z) :=
  obind (wrap_dim (zlen s) dim) (fun a => Some (reduce_dims s 0 [a] keepdim)).
Definition is_integral (t : Z) : bool := has t [2; 3; 4; 5; 6; 7; 9; 12; 13].
Definition torch_prod_dtype (t : Z) (dtype : option Z) : Z :=
  match dtype with Some d => d | None => if is_integral t then 7 else t end.

(* ------------------------------------------------------------------ logsumexp(self, int[1] dim, keepdim): like sum.dim_IntList
   (dim = [] on a tensor of rank >= 1 is outside the modelled domain: torch 2.14 eager raises for keepdim = False) *)
Definition torch_logsumexp_shape (s : list Z) (dims : list Z) (keepdim : bool) : option (list Z) :=
  match dims with
  | [] => if zlen s =? 0 then Some [] else None
  | _ => torch_reduce_shape s (Some dims) keepdim
  end.

(* ------------------------------------------------------------------ var / std / var_mean / std_mean (ReduceOps.cpp, std_var_out)
   dim = None or []: every dimension.  N = number of reduced elements per output element; result =
   sum((x - mean)^2) / max(0, N - correction) in floating point: a zero divisor gives inf (positive numerator) or nan. *)
Definition torch_var_count (s : list Z) (dims : option (list Z)) : option Z :=
  match dims with
  | None | Some [] => Some (prodZ s)
  | Some ds => obind (omap_all (wrap_dim (zlen s)) ds) (fun ds' =>
               if nodupZ ds' then option_map prodZ (omap_all (fun a => if zlen s =? 0 then Some 1 else nthZ s a) ds') else None)
  end.
Inductive fval := Fin (q : Q) | Inf (negative : bool) | NaN.
Definition qzero (q : Q) : bool := Qnum q =? 0.
Definition qneg (q : Q) : bool := Qnum q <? 0.
Definition qpos (q : Q) : bool := 0 <? Qnum q.
(* IEEE division of two finite numbers (rounding aside) *)
Definition fdiv (a b : Q) : fval :=
  if qzero b then (if qzero a then NaN else Inf (qneg a)) else Fin (a / b).
Definition qmax0 (q : Q) : Q := if qneg q then 0%Q else q.
(* ssd = sum of squared deviations from the mean (>= 0), n = N, c = correction *)
Definition torch_var_val (ssd : Q) (n : Z) (c : Q) : fval := fdiv ssd (qmax0 (inject_Z n - c)).

(* ------------------------------------------------------------------ scatter / scatter_add / scatter_reduce (ScatterGatherChecks.h,
   scatter_shape_check): dim wrapped against self's rank; self, index, src have the same rank where a 0-d tensor counts as
   1-d; index.size(d) <= src.size(d) for every d and index.size(d) <= self.size(d) for d != dim (an empty index: no
   check, self is returned); the result has self's shape.  `src = None`: the scatter.value overload. *)
Definition ensure1 (s : list Z) : list Z := match s with [] => [1] | _ => s end.
Fixpoint all_le (a b : list Z) : bool :=
  match a, b with
  | [], [] => true
  | x :: a', y :: b' => (x <=? y) && all_le a' b'
  | _, _ => false
  end.
Fixpoint all_le_except (skip i : Z) (a b : list Z) : bool :=
  match a, b with
  | [], [] => true
  | x :: a', y :: b' => ((i =? skip) || (x <=? y)) && all_le_except skip (i + 1) a' b'
  | _, _ => false
  end.
Definition torch_scatter_shape (s : list Z) (dim : Z) (idx : list Z) (src : option (list Z)) : option (list Z) :=
  obind (wrap_dim (zlen s) dim) (fun a =>
    if prodZ idx =? 0 then Some s
    else if negb (zlen (ensure1 s) =? zlen (ensure1 idx)) then None
    else if negb (all_le_except a 0 (ensure1 idx) (ensure1 s)) then None
    else match src with
         | None => Some s
         | Some sr => if all_le (ensure1 idx) (ensure1 sr) then Some s else None
         end).

(* ------------------------------------------------------------------ convolution attribute lists (ConvUtils.h, expand_param_if_needed):
   stride / padding / dilation / output_padding hold one entry (repeated for every spatial dimension) or one entry per
   spatial dimension; e = number of spatial dimensions *)
Definition torch_conv_param (e : Z) (l : list Z) : option (list Z) :=
  match l with
  | [v] => Some (repeat v (Z.to_nat e))
  | _ => if zlen l =? e then Some l else None
  end.
(* (strides, padding per spatial dimension, dilations, output_padding) as the kernels receive them *)
Definition torch_conv_params (e : Z) (stride padding dilation output_padding : list Z) :=
  obind (torch_conv_param e stride) (fun st =>
  obind (torch_conv_param e padding) (fun pd =>
  obind (torch_conv_param e dilation) (fun dl =>
  obind (torch_conv_param e output_padding) (fun op => Some (st, pd, dl, op))))).
(* output extents: conv_output_size / conv_input_size (ConvUtils.h) *)
Definition torch_conv_out (n k s p d : Z) : Z := (n + 2 * p - d * (k - 1) - 1) / s + 1.
Definition torch_convT_out (n k s p d op : Z) : Z := (n - 1) * s - 2 * p + d * (k - 1) + op + 1.

(* ------------------------------------------------------------------ prims.var(inp, dims, correction): dims are plain indices in [0, rank) without duplicates
   (no wrapping of negative values); an empty list reduces every dimension; keepdim is always false *)
Definition prims_dims_ok (r : Z) (dims : list Z) : bool := forallb (fun d => (0 <=? d) && (d <? r)) dims && nodupZ dims.
Definition torch_prims_var_shape (s : list Z) (dims : list Z) : option (list Z) :=
  if prims_dims_ok (zlen s) dims then Some (reduce_dims s 0 (match dims with [] => iota (zlen s) | _ => dims end) false) else None.
Definition torch_prims_var_count (s : list Z) (dims : list Z) : option Z :=
  if prims_dims_ok (zlen s) dims
  then match dims with [] => Some (prodZ s) | _ => option_map prodZ (omap_all (nthZ s) dims) end
  else None.
