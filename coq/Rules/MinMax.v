(* Model of onnxscript/rewriter/rules/common/_min_max_to_clip.py (C05).
   Elementwise view over Z (the content is order-theoretic); constants carry their shape because
   `check` only demands np.size(v) == 1 for the Clip fusions.  No proofs in this file. *)
From Coq Require Import ZArith List Bool.
Require Import OV.Rules.BShape.
Import ListNotations.
Local Open Scope Z_scope.

Inductive kind :=
| MinMin        (* FuseSuccessiveMin : Min(Min(x, cs..), ds..)  -> Min(x, c)        *)
| MaxMax        (* FuseSuccessiveMax : Max(Max(x, cs..), ds..)  -> Max(x, c)        *)
| MaxMinClip    (* FuseMaxMinToClip  : Min(Max(x, lbs..), ubs..) -> Clip(x, lb, ub) *)
| MinMaxClip.   (* FuseMinMaxToClip  : Max(Min(x, ubs..), lbs..) -> Clip(x, lb, ub), needs lb <= ub *)

Definition konst := (list Z * Z)%type.      (* (shape, value at the element under consideration) *)
Definition vals (l : list konst) : list Z := map snd l.
Definition shapes (l : list konst) : list (list Z) := map fst l.

(* ONNX variadic Min / Max, elementwise *)
Definition minl (x : Z) (cs : list Z) : Z := fold_left Z.min cs x.
Definition maxl (x : Z) (cs : list Z) : Z := fold_left Z.max cs x.
Definition clip (x lo hi : Z) : Z := Z.min (Z.max x lo) hi.

(* functools.reduce(op, values) / np.max([..]) : raises on an empty list *)
Definition red (op : Z -> Z -> Z) (vs : list Z) : option Z :=
  match vs with [] => None | v :: t => Some (fold_left op t v) end.

Inductive outcome :=
| NoFire
| Raises                       (* check passed or was being evaluated and numpy raised *)
| Fire1 (is_min : bool) (c : Z)
| FireClip (lo hi : Z).

(* _is_scalar: np.size(v) == 1 *)
Definition scalars (l : list konst) : bool := forallb (fun c => size (fst c) =? 1) l.

(* np.max([v1, v2, ..]) first builds np.array([v1, v2, ..]): it raises ("inhomogeneous shape") unless all shapes agree *)
Definition homog (l : list konst) : bool :=
  match l with [] => true | c :: t => forallb (fun d => shape_eqb (fst c) (fst d)) t end.

(* check + rewrite of the four rules; cs = constant operands of the inner node, ds = of the outer node *)
(* stack = true: np.max([...]) on the bounds as they are (shipped); stack = false: every bound reshaped to 0-d first (proposed fix) *)
Definition rule_gen (stack : bool) (k : kind) (cs ds : list konst) : outcome :=
  match k with
  | MinMin => match red Z.min (vals cs ++ vals ds) with Some v => Fire1 true v | None => Raises end
  | MaxMax => match red Z.max (vals cs ++ vals ds) with Some v => Fire1 false v | None => Raises end
  | MaxMinClip =>
      if scalars (cs ++ ds) then
        if negb stack || (homog cs && homog ds) then
          match red Z.max (vals cs), red Z.min (vals ds) with
          | Some lo, Some hi => FireClip lo hi
          | _, _ => Raises
          end
        else Raises
      else NoFire
  | MinMaxClip =>
      if scalars (cs ++ ds) then
        if negb stack || (homog cs && homog ds) then
          match red Z.min (vals cs), red Z.max (vals ds) with
          | Some ub, Some lb => if lb <=? ub then FireClip lb ub else NoFire
          | _, _ => Raises
          end
        else Raises
      else NoFire
  end.

Definition rule := rule_gen true.

(* the same rule without the lb <= ub test (what `check_bounds = False` would give) *)
Definition rule_minmax_unchecked (cs ds : list konst) : outcome :=
  match red Z.min (vals cs), red Z.max (vals ds) with
  | Some ub, Some lb => FireClip lb ub
  | _, _ => Raises
  end.

Definition lhs (k : kind) (cs ds : list konst) (x : Z) : Z :=
  match k with
  | MinMin => minl (minl x (vals cs)) (vals ds)
  | MaxMax => maxl (maxl x (vals cs)) (vals ds)
  | MaxMinClip => minl (maxl x (vals cs)) (vals ds)
  | MinMaxClip => maxl (minl x (vals cs)) (vals ds)
  end.

Definition rhs (o : outcome) (x : Z) : option Z :=
  match o with
  | Fire1 true c => Some (Z.min x c)
  | Fire1 false c => Some (Z.max x c)
  | FireClip lo hi => Some (clip x lo hi)
  | _ => None
  end.

Definition fired (o : outcome) : bool := match o with Fire1 _ _ | FireClip _ _ => true | _ => false end.

(* result shapes: the pattern side broadcasts x with every constant, Clip(x, lo, hi) with 0-d bounds keeps x's shape *)
Definition lhs_shape (xs : list Z) (cs ds : list konst) : option (list Z) := bcast_all xs (shapes cs ++ shapes ds).
Definition clip_shape (xs : list Z) : option (list Z) := Some xs.

(* the side condition the proposed fix adds: every bound has size 1 and rank <= rank of x *)
Definition scalars_fit (xs : list Z) (l : list konst) : bool :=
  forallb (fun c => all_ones (fst c) && (Nat.leb (length (fst c)) (length xs))) l.

(* --- correspondence: a case is (kind, cs, ds, observed) with observed = outcome read off the real rewritten model *)
Definition outcome_eqb (a b : outcome) : bool :=
  match a, b with
  | NoFire, NoFire | Raises, Raises => true
  | Fire1 m c, Fire1 m' c' => Bool.eqb m m' && (c =? c')
  | FireClip l h, FireClip l' h' => (l =? l') && (h =? h')
  | _, _ => false
  end.
Definition case := (kind * list konst * list konst * outcome)%type.
(* correspondence is one-directional, as the property is: what the implementation did must be permitted by the model;
   not firing is always permitted (a stricter check is never a C05 violation) *)
Definition permits (m o : outcome) : bool := match o with NoFire => true | _ => outcome_eqb m o end.
Definition agrees (c : case) : bool := let '(k, cs, ds, o) := c in permits (rule k cs ds) o || permits (rule_gen false k cs ds) o.
Fixpoint disagreeing (i : nat) (l : list case) : list nat :=
  match l with [] => [] | c :: t => (if agrees c then [] else [i]) ++ disagreeing (S i) t end.
