(* Facts about the wrapper model (C15).  The "alike" statements hold by construction of the model -- their content is
   the correspondence check that the model (with the disciplines regenerated from the source) matches the code --
   except for the fields-only copy-back of convert_version, which is characterised exactly. *)
From Coq Require Import List Bool.
Require Import OV.Serde.Wrappers OV.Gen.C15Wrappers.
Import ListNotations.

Section Proofs.
  Variables G Fs O R IR : Type.
  Variable no_funcs : Fs.
  Variables (ser : IR -> proto G Fs O R) (deser : proto G Fs O R -> IR).
  Notation runp := (run_proto G Fs O R no_funcs IR ser deser).
  Notation runi := (run_ir IR).
  Notation res := (result_of G Fs O R).

  Definition total (w : copyback) : bool := match w with NewProto | ClearCopyFrom => true | FieldsOnly _ _ => false end.

  (* proto(f) M = ser (ir(f) (deser M)) for the whole-model disciplines *)
  Lemma alike_total : forall w other r f M, total w = true ->
    res (runp w other f M) = ser (iarg_after IR (runi r f (deser M))).
  Proof. intros [| |cf co] [|] r f M H; try discriminate; reflexivity. Qed.

  Lemma functional_pure : forall other f M,
    arg_after _ _ _ _ (runp NewProto other f M) = M /\ returned _ _ _ _ (runp NewProto other f M) = RetNew (ser (f (deser M))).
  Proof. intros; split; reflexivity. Qed.

  Lemma inplace_mutates : forall other f M,
    arg_after _ _ _ _ (runp ClearCopyFrom other f M) = ser (f (deser M)) /\
    returned _ _ _ _ (runp ClearCopyFrom other f M) = (if other then RetOther else RetNone).
  Proof. intros; split; reflexivity. Qed.

  Lemma ir_form_mutates : forall r f m, iarg_after IR (runi r f m) = f m /\ ireturned IR (runi r f m) = r.
  Proof. intros; split; reflexivity. Qed.

  (* rewrite(model, []) returns its argument in both forms; alike up to the normalisation N = ser o deser *)
  Lemma empty_rules_alike : forall M,
    returned _ _ _ _ (run_empty_rules G Fs O R M) = RetArg /\ res (run_empty_rules G Fs O R M) = M /\
    N G Fs O R IR ser deser (res (run_empty_rules G Fs O R M)) = ser (iarg_after IR (run_ir_empty_rules IR (deser M))).
  Proof. intros; repeat split; reflexivity. Qed.

  (* fields-only copy-back: what the caller's proto holds afterwards *)
  Lemma fields_only_result : forall cf co other f M,
    res (runp (FieldsOnly cf co) other f M) =
    {| p_graph := p_graph _ _ _ _ (ser (f (deser M)));
       p_funcs := if cf then p_funcs _ _ _ _ (ser (f (deser M))) else no_funcs;
       p_opset := if co then p_opset _ _ _ _ (ser (f (deser M))) else p_opset _ _ _ _ M;
       p_rest := p_rest _ _ _ _ M |}.
  Proof. intros; destruct other; reflexivity. Qed.

  Lemma proto_eta : forall p : proto G Fs O R,
    p = {| p_graph := p_graph _ _ _ _ p; p_funcs := p_funcs _ _ _ _ p; p_opset := p_opset _ _ _ _ p; p_rest := p_rest _ _ _ _ p |}.
  Proof. intros []; reflexivity. Qed.

  (* ... and exactly when that equals the serialised IR result *)
  Lemma fields_only_alike_iff : forall cf co other f M,
    res (runp (FieldsOnly cf co) other f M) = ser (f (deser M)) <->
    (p_rest _ _ _ _ M = p_rest _ _ _ _ (ser (f (deser M))) /\
     (co = true \/ p_opset _ _ _ _ M = p_opset _ _ _ _ (ser (f (deser M)))) /\
     (cf = true \/ no_funcs = p_funcs _ _ _ _ (ser (f (deser M))))).
  Proof.
    intros cf co other f M. rewrite fields_only_result. destruct (ser (f (deser M))) as [g fs o r]. cbn [p_graph p_funcs p_opset p_rest]. split.
    - intro H. injection H as H2 H3 H1. repeat split.
      + assumption.
      + destruct co; [left; reflexivity | right; assumption].
      + destruct cf; [left; reflexivity | right; assumption].
    - intros (H1 & H2 & H3). f_equal.
      + destruct cf; [reflexivity | destruct H3; [discriminate | assumption]].
      + destruct co; [reflexivity | destruct H2; [discriminate | assumption]].
      + assumption.
  Qed.

  (* sufficient, in the form the property uses: normalised input, a pass that leaves the remaining fields alone *)
  Lemma fields_only_alike : forall other f M,
    N G Fs O R IR ser deser M = M -> (forall m, p_rest _ _ _ _ (ser (f m)) = p_rest _ _ _ _ (ser m)) ->
    res (runp (FieldsOnly true true) other f M) = ser (f (deser M)).
  Proof.
    intros other f M HN Hf. apply fields_only_alike_iff. repeat split; [|left; reflexivity|left; reflexivity].
    rewrite Hf. unfold N in HN. rewrite HN. reflexivity.
  Qed.
End Proofs.

(* the statement "convert_version's proto form is alike" for a given copy-back, over all instantiations *)
Definition alike_statement (w : copyback) : Prop :=
  forall (G Fs O R IR : Type) (no_funcs : Fs) (ser : IR -> proto G Fs O R) (deser : proto G Fs O R -> IR)
         (f : IR -> IR) (M : proto G Fs O R),
    N G Fs O R IR ser deser M = M -> (forall m, p_rest _ _ _ _ (ser (f m)) = p_rest _ _ _ _ (ser m)) ->
    result_of _ _ _ _ (run_proto G Fs O R no_funcs IR ser deser w false f M) = ser (f (deser M)).
(* true for whole-model copy-back and for graph+functions+opset_import; false as soon as functions or opset_import
   are left behind *)
Definition copies_enough (w : copyback) : bool :=
  match w with FieldsOnly cf co => cf && co | _ => true end.
Definition cv_statement (w : copyback) : Prop := if copies_enough w then alike_statement w else ~ alike_statement w.

Lemma cv_statement_holds : forall w, cv_statement w.
Proof.
  intros [| |cf co]; unfold cv_statement; cbn [copies_enough].
  - intros G Fs O R IR nf ser deser f M _ _. reflexivity.
  - intros G Fs O R IR nf ser deser f M _ _. reflexivity.
  - destruct cf, co; cbn [andb].
    + intros G Fs O R IR nf ser deser f M HN Hf. apply fields_only_alike; assumption.
    + intro H. (* opset_import left behind: the pass bumps the opset from 18 to 19 *)
      specialize (H nat nat nat nat nproto O (fun p => p) (fun p => p)
                    (fun p => np (p_graph _ _ _ _ p) (p_funcs _ _ _ _ p) 19 (p_rest _ _ _ _ p)) (np 1 0 18 7) eq_refl (fun m => eq_refl)).
      cbn in H. discriminate H.
    + intro H. (* functions left behind (deleted): the pass keeps a function *)
      specialize (H nat nat nat nat nproto O (fun p => p) (fun p => p) (fun p => p) (np 1 5 18 7) eq_refl (fun m => eq_refl)).
      cbn in H. discriminate H.
    + intro H.
      specialize (H nat nat nat nat nproto O (fun p => p) (fun p => p)
                    (fun p => np (p_graph _ _ _ _ p) (p_funcs _ _ _ _ p) 19 (p_rest _ _ _ _ p)) (np 1 0 18 7) eq_refl (fun m => eq_refl)).
      cbn in H. discriminate H.
Qed.

(* ---------------------------------------------------------------- instantiated with the disciplines found in the source *)
Section Source.
  Variables G Fs O R IR : Type.
  Variable no_funcs : Fs.
  Variables (ser : IR -> proto G Fs O R) (deser : proto G Fs O R -> IR).
  Notation runp := (run_proto G Fs O R no_funcs IR ser deser).

  Lemma src_alike : forall w, In w [src_optimize; src_fold_constants; src_remove_unused_nodes; src_remove_unused_functions;
                                    src_rewrite; src_replace_functions] ->
    forall other r f M, result_of _ _ _ _ (runp w other f M) = ser (iarg_after IR (run_ir IR r f (deser M))).
  Proof.
    intros w H other r f M. apply alike_total.
    cbn in H. destruct H as [<-|[<-|[<-|[<-|[<-|[<-|[]]]]]]]; reflexivity.
  Qed.

  (* the others leave their argument unchanged and hand back a new proto *)
  Lemma src_functional_pure : forall w, In w [src_optimize; src_rewrite; src_replace_functions] ->
    forall other f M, arg_after _ _ _ _ (runp w other f M) = M /\
                      returned _ _ _ _ (runp w other f M) = RetNew (ser (f (deser M))).
  Proof.
    intros w H other f M. cbn in H. destruct H as [<-|[<-|[<-|[]]]]; apply functional_pure.
  Qed.

  (* in-place variants mutate the object they were given *)
  Lemma src_inplace_mutates : forall w, In w [src_fold_constants; src_remove_unused_nodes; src_remove_unused_functions] ->
    forall other f M, arg_after _ _ _ _ (runp w other f M) = ser (f (deser M)) /\
                      returned _ _ _ _ (runp w other f M) = (if other then RetOther else RetNone).
  Proof.
    intros w H other f M. cbn in H. destruct H as [<-|[<-|[<-|[]]]]; apply inplace_mutates.
  Qed.

  (* convert_version mutates its argument too (graph at least), never returns a proto *)
  Lemma src_convert_version_inplace : forall other f M,
    p_graph _ _ _ _ (arg_after _ _ _ _ (runp src_convert_version other f M)) = p_graph _ _ _ _ (ser (f (deser M))) /\
    returned _ _ _ _ (runp src_convert_version other f M) = (if other then RetOther else RetNone).
  Proof. intros; split; reflexivity. Qed.
End Source.

Lemma src_convert_version_statement : cv_statement src_convert_version.
Proof. apply cv_statement_holds. Qed.
