"""C18 models B/C helpers: random traces of GraphBuilder/OpBuilder calls.

A *trace* is a Python structure (generated first, independent of the implementation):

    {"inputs": [(name, dtype, shape)...], "steps": [step...], "outputs": [value id...]}
    step = {"kind": "op",   "scope": [...], "op": str, "args": [arg...], "attrs": {...}, "outs": int | [names],
            "subs": [(attr_name, sub)...], "ids": [value ids defined]}
         | {"kind": "fn",   "scope": [...], "fn": index into FUNCTIONS, "args": [arg...], "attrs": {...},
            "outs": None | [names], "prefix": str, "ids": [...]}          executed as op.call or op.call_inline
    arg  = ("v", id) | ("lit", python value) | ("none",)
    sub  = {"ins": [(name, dtype, shape, id)...], "body": [step...], "rets": [ids], "decl": [names]}

`execute` replays it on the real GraphBuilder, `np_replay` reads it directly with NumPy, `trace_lit`
prints it as a Coq term of OV.Builder.Trace.
"""
from __future__ import annotations

import itertools
import math

import numpy as np

from harness import graphlit
from harness.common import cbool, clist, cnat, copt, cstr, cz

OPSET = 21

# --------------------------------------------------------------------------- dtypes

F, I, Bo = "f", "i", "b"
NPD = {F: np.float32, I: np.int64, Bo: np.bool_}


def _irdt(d):
    import onnx_ir as ir
    return {F: ir.DataType.FLOAT, I: ir.DataType.INT64, Bo: ir.DataType.BOOL}[d]


# --------------------------------------------------------------------------- operator table
# each entry: name -> dict(gen=callable(rng, pool) -> (args, attrs, nouts, [(dtype, shape, bounded)...]) | None,
#                          np=callable(attrs, *values) -> value | tuple)


def _erf(x):
    return np.vectorize(math.erf, otypes=[np.float32])(x).astype(np.float32) if x.size else x


def _softmax(x, axis):
    m = np.max(x, axis=axis, keepdims=True)
    e = np.exp(x - m)
    return (e / np.sum(e, axis=axis, keepdims=True)).astype(np.float32)


def _logsoftmax(x, axis):
    m = np.max(x, axis=axis, keepdims=True)
    return (x - m - np.log(np.sum(np.exp(x - m), axis=axis, keepdims=True))).astype(np.float32)


def py_lit_array(value):
    """A Python literal with the dtype of its own Python type (int -> int64, float -> float32, bool -> bool):
    what a literal denotes where no tensor operand binds its type -- in particular at every position of a
    HETEROGENEOUS variadic input (Loop v_initial, Scan initial_state_and_scan_inputs) after the first."""
    el = value[0] if isinstance(value, (list, tuple)) else value
    dt = np.bool_ if isinstance(el, bool) else (np.int64 if isinstance(el, int) else np.float32)
    return np.asarray(value, dtype=dt)


def py_lit_type(value):
    a = py_lit_array(value)
    return ({np.dtype(np.bool_): Bo, np.dtype(np.int64): I, np.dtype(np.float32): F}[a.dtype], tuple(a.shape))


def _coerce(xs):
    """Operands of a HOMOGENEOUS variadic input: literals take the dtype of the first tensor operand."""
    isarr = lambda x: isinstance(x, (np.ndarray, np.generic))
    dt = next(np.asarray(x).dtype for x in xs if isarr(x))
    return [np.asarray(x) if isarr(x) else np.asarray(x, dtype=dt) for x in xs]


def _pick(rng, pool, dtype=None, rank_min=0, pred=None):
    c = [v for v in pool if (dtype is None or v["dtype"] == dtype) and len(v["shape"]) >= rank_min and (pred is None or pred(v))]
    return rng.choice(c) if c else None


def _same(rng, pool, v, n=1):
    c = [w for w in pool if w["dtype"] == v["dtype"] and w["shape"] == v["shape"]]
    return [rng.choice(c) for _ in range(n)]


def _lit_f(rng):
    return rng.choice([1.0, 2.0, 0.5, -1.5, 3.0, 0.25, 1, 2, -1])


NEED_BOUNDED = {"Softplus", "Sin", "Cos", "Erf"}


def _unary(name, fn, bounded=False):
    def gen(rng, pool):
        v = _pick(rng, pool, F, pred=(lambda v: v["bounded"]) if name in NEED_BOUNDED else None)
        if v is None:
            return None
        return [("v", v["id"])], {}, 1, [(F, v["shape"], bounded or (v["bounded"] and name in KEEP_BOUNDED))]
    return dict(gen=gen, np=lambda attrs, x: fn(x).astype(np.float32))


KEEP_BOUNDED = {"Relu", "Neg", "Abs", "Floor", "Ceil", "Sign", "Identity", "Round", "Softsign", "Erf", "Sin", "Cos"}

OPS = {}
for _n, _f, _b in [
    ("Relu", lambda x: np.maximum(x, 0), False), ("Neg", lambda x: -x, False), ("Abs", np.abs, False),
    ("Sigmoid", lambda x: 1 / (1 + np.exp(-x.astype(np.float64))), True), ("Tanh", np.tanh, True),
    ("Floor", np.floor, False), ("Ceil", np.ceil, False), ("Sign", np.sign, True), ("Identity", lambda x: x, False),
    ("Softplus", lambda x: np.logaddexp(0, x.astype(np.float64)), False), ("Erf", _erf, True),
    ("Sin", np.sin, True), ("Cos", np.cos, True), ("Round", np.round, False),
    ("Softsign", lambda x: x / (1 + np.abs(x)), True),
]:
    OPS[_n] = _unary(_n, _f, _b)


def _attr_unary(name, attrs_gen, fn):
    def gen(rng, pool):
        v = _pick(rng, pool, F)
        if v is None:
            return None
        return [("v", v["id"])], attrs_gen(rng), 1, [(F, v["shape"], False)]
    return dict(gen=gen, np=lambda attrs, x: fn(attrs, x).astype(np.float32))


OPS["LeakyRelu"] = _attr_unary("LeakyRelu", lambda r: {"alpha": r.choice([0.1, 0.25, 0.5])},
                               lambda a, x: np.where(x >= 0, x, np.float32(a["alpha"]) * x))
OPS["Elu"] = _attr_unary("Elu", lambda r: {"alpha": r.choice([1.0, 0.5])},
                         lambda a, x: np.where(x >= 0, x, np.float32(a["alpha"]) * (np.exp(np.minimum(x, 0)) - 1)))
OPS["HardSigmoid"] = _attr_unary("HardSigmoid", lambda r: {"alpha": 0.25, "beta": 0.5},
                                 lambda a, x: np.clip(np.float32(a["alpha"]) * x + np.float32(a["beta"]), 0, 1))
OPS["ThresholdedRelu"] = _attr_unary("ThresholdedRelu", lambda r: {"alpha": r.choice([0.5, 1.0])},
                                     lambda a, x: np.where(x > np.float32(a["alpha"]), x, 0))


def _gen_softmax(rng, pool):
    v = _pick(rng, pool, F, rank_min=1)
    if v is None:
        return None
    return [("v", v["id"])], {"axis": rng.choice([-1, 0, len(v["shape"]) - 1])}, 1, [(F, v["shape"], True)]


OPS["Softmax"] = dict(gen=_gen_softmax, np=lambda a, x: _softmax(x, a["axis"]))
OPS["LogSoftmax"] = dict(gen=lambda r, p: (lambda g: None if g is None else (g[0], g[1], 1, [(F, g[3][0][1], False)]))(_gen_softmax(r, p)),
                         np=lambda a, x: _logsoftmax(x, a["axis"]))


def _binary(name, fn, out=F, lit_ok=True, dt=F):
    def gen(rng, pool):
        v = _pick(rng, pool, dt)
        if v is None:
            return None
        r = rng.random()
        if lit_ok and dt == F and r < 0.3:
            lit = ("lit", _lit_f(rng))
            args = [("v", v["id"]), lit] if rng.random() < 0.7 else [lit, ("v", v["id"])]
        else:
            w = _same(rng, pool, v)[0]
            args = [("v", v["id"]), ("v", w["id"])]
        return args, {}, 1, [(out, v["shape"], False)]
    return dict(gen=gen, np=lambda attrs, a, b: fn(a, b))


def _f32(fn):
    """Binary arithmetic in the dtype of the tensor operand (a literal operand is cast to it: type variable T)."""
    def f(a, b):
        a, b = _coerce([a, b])
        return fn(a, b).astype(a.dtype)
    return f


OPS["Add"] = _binary("Add", _f32(np.add))
OPS["Sub"] = _binary("Sub", _f32(np.subtract))
OPS["Mul"] = _binary("Mul", _f32(np.multiply))
OPS["Less"] = _binary("Less", lambda a, b: np.less(np.float32(a), np.float32(b)), out=Bo)
OPS["Greater"] = _binary("Greater", lambda a, b: np.greater(np.float32(a), np.float32(b)), out=Bo)
OPS["LessOrEqual"] = _binary("LessOrEqual", lambda a, b: np.less_equal(np.float32(a), np.float32(b)), out=Bo)
OPS["GreaterOrEqual"] = _binary("GreaterOrEqual", lambda a, b: np.greater_equal(np.float32(a), np.float32(b)), out=Bo)
OPS["Equal"] = _binary("Equal", lambda a, b: np.equal(np.float32(a), np.float32(b)), out=Bo)
OPS["And"] = _binary("And", np.logical_and, out=Bo, lit_ok=False, dt=Bo)
OPS["Or"] = _binary("Or", np.logical_or, out=Bo, lit_ok=False, dt=Bo)
OPS["Xor"] = _binary("Xor", np.logical_xor, out=Bo, lit_ok=False, dt=Bo)


def _gen_div(rng, pool):
    v = _pick(rng, pool, F)
    if v is None:
        return None
    return [("v", v["id"]), ("lit", rng.choice([2.0, 4.0, -0.5, 2]))], {}, 1, [(F, v["shape"], False)]


OPS["Div"] = dict(gen=_gen_div, np=lambda a, x, y: _f32(np.divide)(x, y))
OPS["Pow"] = dict(gen=lambda r, p: (lambda v: None if v is None else ([("v", v["id"]), ("lit", r.choice([2.0, 3.0]))], {}, 1, [(F, v["shape"], False)]))(_pick(r, p, F, pred=lambda v: v["bounded"])),
                  np=lambda a, x, y: np.power(x, np.float32(y)).astype(np.float32))
OPS["Mod"] = dict(gen=lambda r, p: (lambda v: None if v is None else ([("v", v["id"]), ("lit", r.choice([2.0, 1.5]))], {"fmod": 1}, 1, [(F, v["shape"], False)]))(_pick(r, p, F, pred=lambda v: v["bounded"])),
                  np=lambda a, x, y: np.fmod(x, np.float32(y)).astype(np.float32))


def _gen_not(rng, pool):
    v = _pick(rng, pool, Bo)
    return None if v is None else ([("v", v["id"])], {}, 1, [(Bo, v["shape"], False)])


OPS["Not"] = dict(gen=_gen_not, np=lambda a, x: np.logical_not(x))


def _variadic(name, fn):
    def gen(rng, pool):
        allow_int = name in ("Max", "Min")
        v = _pick(rng, pool, None, pred=lambda v: v["dtype"] == F or (allow_int and v["dtype"] == I))
        if v is None:
            return None
        n = rng.choice([2, 3, 3, 4])
        args = [("v", w["id"]) for w in [v] + _same(rng, pool, v, n - 1)]
        if rng.random() < 0.45:
            # Python literals at any position (also the first) next to a tensor of another Python-type dtype
            lits = [2, 0.5, True, -1.5, 3, False] if v["dtype"] == F else [3, True, -2, 0]
            for pos in rng.sample(range(n), rng.randrange(1, n)):
                args[pos] = ("lit", rng.choice(lits))
        return args, {}, 1, [(v["dtype"], v["shape"], False)]
    return dict(gen=gen, np=lambda attrs, *xs: (lambda ys: fn(ys).astype(ys[0].dtype))(_coerce(xs)))


def _bc(xs):
    sh = np.broadcast_shapes(*[np.shape(y) for y in xs])
    return [np.broadcast_to(x, sh) for x in xs]


OPS["Max"] = _variadic("Max", lambda xs: np.maximum.reduce(_bc(xs)))
OPS["Min"] = _variadic("Min", lambda xs: np.minimum.reduce(_bc(xs)))
OPS["Sum"] = _variadic("Sum", lambda xs: np.add.reduce(_bc(xs)))
OPS["Mean"] = _variadic("Mean", lambda xs: np.add.reduce(_bc(xs)) / np.float32(len(xs)))


def _gen_where(rng, pool):
    c = _pick(rng, pool, Bo)
    if c is None:
        return None
    xs = [w for w in pool if w["dtype"] == F and w["shape"] == c["shape"]]
    if not xs:
        return None
    x = rng.choice(xs)
    y = ("lit", _lit_f(rng)) if rng.random() < 0.4 else ("v", rng.choice(xs)["id"])
    return [("v", c["id"]), ("v", x["id"]), y], {}, 1, [(F, c["shape"], False)]


OPS["Where"] = dict(gen=_gen_where, np=lambda a, c, x, y: np.where(c, x, np.float32(y)).astype(np.float32))


def _gen_clip(rng, pool):
    v = _pick(rng, pool, F)
    if v is None:
        return None
    k = rng.choice(["both", "lo", "hi", "none_lo"])
    lo, hi = rng.choice([-1.0, 0.0, -2]), rng.choice([1.0, 6.0, 2])
    args = [("v", v["id"])]
    if k == "both":
        args += [("lit", lo), ("lit", hi)]
    elif k == "lo":
        args += [("lit", lo)]
    elif k == "hi":
        args += [("none",), ("lit", hi)]
    else:
        args += [("none",), ("lit", hi)]
    return args, {}, 1, [(F, v["shape"], k in ("both",))]


def _np_clip(a, x, lo=None, hi=None):
    y = x
    if lo is not None:
        y = np.maximum(y, np.float32(lo))
    if hi is not None:
        y = np.minimum(y, np.float32(hi))
    return y.astype(np.float32)


OPS["Clip"] = dict(gen=_gen_clip, np=_np_clip)


def _gen_cast(rng, pool):
    v = _pick(rng, pool, None, pred=lambda v: v["dtype"] != F or v["bounded"])
    if v is None:
        return None
    to = rng.choice([d for d in (F, I, Bo) if d != v["dtype"]])
    import onnx
    code = {F: onnx.TensorProto.FLOAT, I: onnx.TensorProto.INT64, Bo: onnx.TensorProto.BOOL}[to]
    return [("v", v["id"])], {"to": code}, 1, [(to, v["shape"], True)]


def _np_cast(a, x):
    import onnx
    to = {onnx.TensorProto.FLOAT: np.float32, onnx.TensorProto.INT64: np.int64, onnx.TensorProto.BOOL: np.bool_}[a["to"]]
    return x.astype(to)


OPS["Cast"] = dict(gen=_gen_cast, np=_np_cast)


def _gen_reshape(rng, pool):
    v = _pick(rng, pool, None, rank_min=1)
    if v is None:
        return None
    n = int(np.prod(v["shape"]))
    cands = [[-1], [n], [1, n], [n, 1]] + ([[v["shape"][1], v["shape"][0]]] if len(v["shape"]) == 2 else [])
    tgt = rng.choice(cands)
    shape = tuple(np.empty(v["shape"]).reshape(tgt).shape)
    return [("v", v["id"]), ("lit", tgt)], {}, 1, [(v["dtype"], shape, v["bounded"])]


OPS["Reshape"] = dict(gen=_gen_reshape, np=lambda a, x, s: x.reshape(s))


def _gen_transpose(rng, pool):
    v = _pick(rng, pool, None, rank_min=2)
    if v is None:
        return None
    perm = list(range(len(v["shape"])))
    rng.shuffle(perm)
    return [("v", v["id"])], {"perm": perm}, 1, [(v["dtype"], tuple(v["shape"][p] for p in perm), v["bounded"])]


OPS["Transpose"] = dict(gen=_gen_transpose, np=lambda a, x: np.transpose(x, a["perm"]))


def _gen_unsqueeze(rng, pool):
    v = _pick(rng, pool, None, pred=lambda v: len(v["shape"]) <= 2)
    if v is None:
        return None
    ax = rng.choice(list(range(len(v["shape"]) + 1)))
    return [("v", v["id"]), ("lit", [ax])], {}, 1, [(v["dtype"], tuple(np.expand_dims(np.empty(v["shape"]), ax).shape), v["bounded"])]


OPS["Unsqueeze"] = dict(gen=_gen_unsqueeze, np=lambda a, x, ax: np.expand_dims(x, tuple(ax)))


def _gen_squeeze(rng, pool):
    v = _pick(rng, pool, None, pred=lambda v: 1 in v["shape"])
    if v is None:
        return None
    ax = list(v["shape"]).index(1)
    shape = tuple(d for i, d in enumerate(v["shape"]) if i != ax)
    return [("v", v["id"]), ("lit", [ax])], {}, 1, [(v["dtype"], shape, v["bounded"])]


OPS["Squeeze"] = dict(gen=_gen_squeeze, np=lambda a, x, ax: np.squeeze(x, tuple(ax)))


def _gen_flatten(rng, pool):
    v = _pick(rng, pool, None, rank_min=1)
    if v is None:
        return None
    ax = rng.choice(list(range(len(v["shape"]) + 1)))
    a = int(np.prod(v["shape"][:ax])) if ax else 1
    b = int(np.prod(v["shape"][ax:])) if ax < len(v["shape"]) else 1
    return [("v", v["id"])], {"axis": ax}, 1, [(v["dtype"], (a, b), v["bounded"])]


OPS["Flatten"] = dict(gen=_gen_flatten, np=lambda a, x: x.reshape((int(np.prod(x.shape[:a["axis"]])) if a["axis"] else 1, -1)))


def _gen_concat(rng, pool):
    if rng.random() < 0.3:
        # 1-d tensor(s) and Python list literals at any position (cast to the tensor's dtype: homogeneous variadic)
        v = _pick(rng, pool, None, pred=lambda v: len(v["shape"]) == 1 and v["dtype"] in (F, I))
        if v is not None:
            n = rng.choice([2, 3, 4])
            args = [("v", w["id"]) for w in [v] + _same(rng, pool, v, n - 1)]
            lits = [[1, 2], [0.5], [True, False], [3], [1.5, -2.0, 0.25]] if v["dtype"] == F else [[1, 2], [7], [True, False]]
            total = 0
            for pos in rng.sample(range(n), rng.randrange(1, n)):
                args[pos] = ("lit", rng.choice(lits))
            for a in args:
                total += v["shape"][0] if a[0] == "v" else len(a[1])
            return args, {"axis": 0}, 1, [(v["dtype"], (total,), False)]
    v = _pick(rng, pool, None, rank_min=1)
    if v is None:
        return None
    ws = [v] + _same(rng, pool, v, rng.choice([1, 2]))
    ax = rng.choice(list(range(len(v["shape"]))))
    shape = list(v["shape"])
    shape[ax] *= len(ws)
    return [("v", w["id"]) for w in ws], {"axis": ax}, 1, [(v["dtype"], tuple(shape), all(w["bounded"] for w in ws))]


OPS["Concat"] = dict(gen=_gen_concat, np=lambda a, *xs: np.concatenate(_coerce(xs), axis=a["axis"]))


def _gen_slice(rng, pool):
    v = _pick(rng, pool, None, rank_min=1, pred=lambda v: v["shape"][0] >= 2)
    if v is None:
        return None
    s, e = rng.choice([(0, 1), (1, 2), (0, 2), (-1, 9)])
    shape = tuple(np.empty(v["shape"])[s:e].shape)
    args = [("v", v["id"]), ("lit", [s]), ("lit", [e])]
    if rng.random() < 0.6:
        args.append(("lit", [0]))
    return args, {}, 1, [(v["dtype"], shape, v["bounded"])]


OPS["Slice"] = dict(gen=_gen_slice, np=lambda a, x, s, e, ax=None: x[s[0]:e[0]])


def _gen_gather(rng, pool):
    v = _pick(rng, pool, None, rank_min=1, pred=lambda v: v["shape"][0] >= 2)
    if v is None:
        return None
    idx = rng.choice([[1, 0], [0, 0, 1], [1]])
    return [("v", v["id"]), ("lit", idx)], {"axis": 0}, 1, [(v["dtype"], (len(idx),) + tuple(v["shape"][1:]), v["bounded"])]


OPS["Gather"] = dict(gen=_gen_gather, np=lambda a, x, i: np.take(x, np.asarray(i), axis=a["axis"]))


def _reduce(name, fn):
    def gen(rng, pool):
        v = _pick(rng, pool, F, rank_min=1)
        if v is None:
            return None
        ax = rng.choice(list(range(len(v["shape"]))))
        kd = rng.choice([0, 1])
        shape = tuple(fn(np.empty(v["shape"], dtype=np.float32), axis=ax, keepdims=bool(kd)).shape)
        return [("v", v["id"]), ("lit", [ax])], {"keepdims": kd}, 1, [(F, shape, False)]
    return dict(gen=gen, np=lambda a, x, ax: fn(x, axis=tuple(ax), keepdims=bool(a["keepdims"])).astype(np.float32))


OPS["ReduceSum"] = _reduce("ReduceSum", np.sum)
OPS["ReduceMax"] = _reduce("ReduceMax", np.max)
OPS["ReduceMean"] = _reduce("ReduceMean", np.mean)


def _gen_shape(rng, pool):
    v = _pick(rng, pool, None, rank_min=1)
    return None if v is None else ([("v", v["id"])], {}, 1, [(I, (len(v["shape"]),), True)])


OPS["Shape"] = dict(gen=_gen_shape, np=lambda a, x: np.array(x.shape, dtype=np.int64))


def _gen_expand(rng, pool):
    v = _pick(rng, pool, None, pred=lambda v: len(v["shape"]) <= 2)
    if v is None:
        return None
    tgt = [2] + list(v["shape"])
    return [("v", v["id"]), ("lit", tgt)], {}, 1, [(v["dtype"], tuple(tgt), v["bounded"])]


OPS["Expand"] = dict(gen=_gen_expand, np=lambda a, x, s: np.broadcast_to(x, s).copy())


def _gen_matmul(rng, pool):
    v = _pick(rng, pool, F, pred=lambda v: len(v["shape"]) == 2)
    if v is None:
        return None
    ws = [w for w in pool if w["dtype"] == F and len(w["shape"]) == 2 and w["shape"][0] == v["shape"][1]]
    if not ws:
        return None
    w = rng.choice(ws)
    return [("v", v["id"]), ("v", w["id"])], {}, 1, [(F, (v["shape"][0], w["shape"][1]), False)]


OPS["MatMul"] = dict(gen=_gen_matmul, np=lambda a, x, y: np.matmul(x, y).astype(np.float32))


def _gen_gemm(rng, pool):
    v = _pick(rng, pool, F, pred=lambda v: len(v["shape"]) == 2)
    if v is None:
        return None
    w = _same(rng, pool, v)[0]
    attrs = {"transB": 1}
    if rng.random() < 0.5:
        attrs["alpha"] = rng.choice([0.5, 2.0])
    return [("v", v["id"]), ("v", w["id"]), ("none",)], attrs, 1, [(F, (v["shape"][0], v["shape"][0]), False)]


OPS["Gemm"] = dict(gen=_gen_gemm, np=lambda a, x, y, c=None: (np.float32(a.get("alpha", 1.0)) * np.matmul(x, y.T)).astype(np.float32))


def _gen_split(rng, pool):
    v = _pick(rng, pool, None, rank_min=1, pred=lambda v: v["shape"][-1] in (2, 3, 4, 6))
    if v is None:
        return None
    n = rng.choice([k for k in (2, 3) if v["shape"][-1] % k == 0])
    shape = tuple(v["shape"][:-1]) + (v["shape"][-1] // n,)
    return [("v", v["id"])], {"axis": -1, "num_outputs": n}, n, [(v["dtype"], shape, v["bounded"])] * n


OPS["Split"] = dict(gen=_gen_split, np=lambda a, x: tuple(np.split(x, a["num_outputs"], axis=a["axis"])))


def _gen_topk(rng, pool):
    v = _pick(rng, pool, F, rank_min=1, pred=lambda v: v["shape"][-1] >= 2)
    if v is None:
        return None
    k = rng.choice([1, 2])
    shape = tuple(v["shape"][:-1]) + (k,)
    return [("v", v["id"]), ("lit", [k])], {}, 2, [(F, shape, v["bounded"]), (I, shape, True)]


def _np_topk(a, x, k):
    k = k[0]
    idx = np.argsort(-x, axis=-1, kind="stable")[..., :k]
    return np.take_along_axis(x, idx, axis=-1), idx.astype(np.int64)


OPS["TopK"] = dict(gen=_gen_topk, np=_np_topk)

OP_NAMES = sorted(OPS)

# Bit-reproducibility between onnxruntime and NumPy: an op in EXACT_OPS applied to exact inputs gives the same
# float32 bits in both (IEEE elementwise arithmetic, selections, data movement).  Everything else (transcendental
# functions, reductions, matrix products, means) may differ in the last bits, so its results never feed an op in
# DISCONTINUOUS (comparisons, rounding, casts to int/bool, ...), where a last-bit difference flips the result.
EXACT_OPS = {"Relu", "Neg", "Abs", "Floor", "Ceil", "Sign", "Identity", "Round", "Add", "Sub", "Mul", "Div", "Max", "Min",
             "Less", "Greater", "LessOrEqual", "GreaterOrEqual", "Equal", "And", "Or", "Xor", "Not", "Where", "Clip", "Cast",
             "Reshape", "Transpose", "Unsqueeze", "Squeeze", "Flatten", "Concat", "Slice", "Gather", "Shape", "Expand", "Split",
             "TopK", "LeakyRelu", "ThresholdedRelu", "Mod", "ReduceMax"}
DISCONTINUOUS = {"Less", "Greater", "LessOrEqual", "GreaterOrEqual", "Equal", "Floor", "Ceil", "Round", "Sign", "Cast", "TopK",
                 "Mod", "ThresholdedRelu"}
EXACT_FNS = {"mul_add_relu", "add_mul", "leaky", "twice_minus", "neg_abs"}


# --------------------------------------------------------------------------- functions (script / IR)

_FUNCS = None


def functions():
    """Pool of functions: (kind, callable object, numpy reading, n_inputs, n_outputs, attribute spec)."""
    global _FUNCS
    if _FUNCS is not None:
        return _FUNCS
    import onnx_ir as ir
    from onnxscript import opset21 as op21
    from onnxscript import script
    from onnxscript._internal import builder as B
    from onnxscript.values import Opset

    dom = Opset("c18.fn", 1)

    @script(dom)
    def mul_add_relu(X, Y):
        tmp = op21.Mul(X, Y)
        tmp2 = op21.Add(tmp, X)
        return op21.Relu(tmp2)

    @script(dom)
    def add_mul(X, Y):
        a = op21.Add(X, Y)
        b = op21.Mul(X, a)
        return a, b

    @script(dom)
    def scaled(X, alpha: float):
        a = op21.Constant(value_float=alpha)
        t = op21.Mul(X, a)
        return op21.Tanh(t)

    @script(dom)
    def leaky(X, slope: float):
        return op21.LeakyRelu(X, alpha=slope)

    irf = B.build_function(lambda op, x, y: op.Sub(op.Mul(x, 2.0), y), [B.make_value("x"), B.make_value("y")],
                           domain="c18.fn", name="twice_minus", opset_imports={"": OPSET})
    irf2 = B.build_function(lambda op, x: (op.Neg(x), op.Abs(x)), [B.make_value("x")],
                            domain="c18.fn", name="neg_abs", opset_imports={"": OPSET})
    f32 = np.float32
    _FUNCS = [
        dict(name="mul_add_relu", obj=mul_add_relu, nin=2, nout=1, attrs=None, np=lambda a, x, y: (np.maximum(x * y + x, 0).astype(f32),)),
        dict(name="add_mul", obj=add_mul, nin=2, nout=2, attrs=None, np=lambda a, x, y: ((x + y).astype(f32), (x * (x + y)).astype(f32))),
        dict(name="scaled", obj=scaled, nin=1, nout=1, attrs=("alpha", [0.5, 2.0, 1.5]), np=lambda a, x: (np.tanh(x * f32(a["alpha"])).astype(f32),)),
        dict(name="leaky", obj=leaky, nin=1, nout=1, attrs=("slope", [0.1, 0.3]), np=lambda a, x: (np.where(x >= 0, x, f32(a["slope"]) * x).astype(f32),)),
        dict(name="twice_minus", obj=irf, nin=2, nout=1, attrs=None, np=lambda a, x, y: ((x * f32(2.0)) - y,)),
        dict(name="neg_abs", obj=irf2, nin=1, nout=2, attrs=None, np=lambda a, x: (-x, np.abs(x))),
    ]
    return _FUNCS


# --------------------------------------------------------------------------- generator

SCOPES = ["", "enc", "layers.0", "self_attn", "mlp", "blk_1", "a.b"]


class Gen:
    def __init__(self, rng, n_steps=8, p_sub=0.12, p_fn=0.12, p_named=0.15, p_scope=0.25, max_depth=2, loop_scan_outputs=True):
        self.rng = rng
        self.loop_scan_outputs = loop_scan_outputs
        self.n_steps = n_steps
        self.p_sub, self.p_fn, self.p_named, self.p_scope, self.max_depth = p_sub, p_fn, p_named, p_scope, max_depth
        self.ids = itertools.count()
        self.names = itertools.count()
        self.vals = {}      # id -> dict(id, dtype, shape, bounded)

    def new(self, dtype, shape, bounded=False, exact=False):
        i = next(self.ids)
        self.vals[i] = dict(id=i, dtype=dtype, shape=tuple(shape), bounded=bounded, exact=exact)
        return self.vals[i]

    def all_exact(self, args):
        return all(self.vals[a[1]]["exact"] for a in args if a[0] == "v")

    def trace(self):
        rng = self.rng
        shapes = rng.choice([[(2, 3), (2, 3)], [(3,), (3,), (2, 3)], [(2, 2), (2, 2)], [(2, 3), (3, 2)], [(4,), (4,)]])
        inputs = []
        pool = []
        for k, sh in enumerate(shapes):
            v = self.new(F, sh, bounded=True, exact=True)
            inputs.append((f"x{k}", F, sh, v["id"]))
            pool.append(v)
        steps = self.steps(pool, [], self.n_steps, 0)
        # outputs: the last few defined values of the root graph + one of each dtype
        root_defined = [i for s in steps for i in s["ids"]]
        outs = []
        for i in reversed(root_defined):
            if len(outs) >= 3:
                break
            outs.append(i)
        if not outs:
            outs = [inputs[0][3]]
        outs = list(reversed(outs))
        for st in steps:        # results of literals in heterogeneous variadic positions are always observed
            for i in st.get("force_out", []):
                if i not in outs:
                    outs.append(i)
        return {"inputs": inputs, "steps": steps, "outputs": outs}

    def steps(self, pool, scope, n, depth):
        rng = self.rng
        out = []
        scope = list(scope)
        floor = len(scope)      # a body never pops below the scope its builder started from
        for _ in range(n):
            if rng.random() < self.p_scope:
                if len(scope) > floor and rng.random() < 0.5:
                    scope = scope[:-1]
                else:
                    scope = scope + [rng.choice(SCOPES)]
            r = rng.random()
            st = None
            if r < self.p_sub and depth < self.max_depth:
                q = rng.random()
                st = (self.gen_if(pool, scope, depth) if q < 0.45 else
                      self.gen_loop(pool, scope, depth) if q < 0.8 else self.gen_scan(pool, scope, depth))
            elif r < self.p_sub + self.p_fn:
                st = self.gen_fn(pool, scope)
            if st is None:
                st = self.gen_op(pool, scope)
            if st is None:
                continue
            out.append(st)
        return out

    def outs_spec(self, n):
        if self.rng.random() < self.p_named:
            return [f"t{next(self.names)}" for _ in range(n)]
        return n

    def gen_op(self, pool, scope):
        rng = self.rng
        for _ in range(8):
            name = rng.choice(OP_NAMES)
            g = OPS[name]["gen"](rng, pool)
            if g is None:
                continue
            args, attrs, nouts, types = g
            ex = self.all_exact(args)
            if name in DISCONTINUOUS and not ex:
                continue
            ids = []
            for (dt, sh, bd) in types:
                v = self.new(dt, sh, bd, exact=ex and name in EXACT_OPS)
                ids.append(v["id"])
                pool.append(v)
            return dict(kind="op", scope=list(scope), op=name, args=args, attrs=attrs, outs=self.outs_spec(nouts), subs=[], ids=ids)
        return None

    def gen_fn(self, pool, scope):
        rng = self.rng
        fi = rng.randrange(len(functions()))
        f = functions()[fi]
        v = _pick(rng, pool, F)
        if v is None:
            return None
        ws = [v] + _same(rng, pool, v, f["nin"] - 1)
        attrs = {}
        if f["attrs"]:
            attrs[f["attrs"][0]] = rng.choice(f["attrs"][1])
        ids = []
        ex = all(w["exact"] for w in ws[:f["nin"]]) and f["name"] in EXACT_FNS
        for _ in range(f["nout"]):
            w = self.new(F, v["shape"], False, exact=ex)
            ids.append(w["id"])
            pool.append(w)
        outs = [f"t{next(self.names)}" for _ in range(f["nout"])] if rng.random() < 0.3 else None
        return dict(kind="fn", scope=list(scope), fn=fi, args=[("v", w["id"]) for w in ws[:f["nin"]]], attrs=attrs, outs=outs,
                    prefix=rng.choice(["", "", "inl", "layer1"]), ids=ids)

    def scalar_bool(self, pool, scope, pre):
        """Steps producing a 0-d bool from some float value: ReduceSum(x) > literal."""
        rng = self.rng
        v = _pick(rng, pool, F, rank_min=1, pred=lambda v: v["exact"])
        if v is None:
            return None
        r = self.new(F, (), False, exact=True)
        ax = list(range(len(v["shape"])))
        pre.append(dict(kind="op", scope=list(scope), op="ReduceMax", args=[("v", v["id"]), ("lit", ax)], attrs={"keepdims": 0}, outs=1, subs=[], ids=[r["id"]]))
        c = self.new(Bo, (), False, exact=True)
        pre.append(dict(kind="op", scope=list(scope), op="Greater", args=[("v", r["id"]), ("lit", rng.choice([0.0, 1.0, -2.0]))], attrs={}, outs=1, subs=[], ids=[c["id"]]))
        return c

    def gen_branch(self, pool, scope, depth, want):
        """A subgraph without inputs returning one value of dtype/shape `want`, produced inside."""
        rng = self.rng
        local = list(pool)
        body = self.steps(local, scope, rng.choice([1, 2, 3]), depth + 1)
        cands = [self.vals[i] for s in body for i in s["ids"] if (self.vals[i]["dtype"], self.vals[i]["shape"]) == want]
        if cands:
            ret = rng.choice(cands)
        else:
            src = rng.choice([v for v in local if (v["dtype"], v["shape"]) == want])
            ret = self.new(want[0], want[1], src["bounded"], exact=src["exact"])
            body.append(dict(kind="op", scope=list(scope), op="Identity", args=[("v", src["id"])], attrs={}, outs=1, subs=[], ids=[ret["id"]]))
        decl = f"br{next(self.names)}" if rng.random() < 0.7 else ""
        return dict(ins=[], body=body, rets=[ret["id"]], decl=[decl])

    def gen_if(self, pool, scope, depth):
        rng = self.rng
        pre = []
        c = self.scalar_bool(pool, scope, pre)
        if c is None:
            return None
        v = _pick(rng, pool, F)
        want = (F, v["shape"])
        tb = self.gen_branch(pool, scope, depth, want)
        eb = self.gen_branch(pool, scope, depth, want)
        o = self.new(F, v["shape"], False)
        pool.append(o)
        st = dict(kind="op", scope=list(scope), op="If", args=[("v", c["id"])], attrs={}, outs=self.outs_spec(1),
                  subs=[("then_branch", tb), ("else_branch", eb)], ids=[o["id"]], pre=pre)
        return st

    def carried_literals(self, scope, n, counter):
        """Extra loop-carried / scan state values given as Python literals.  Returns a list of
        (literal, body input tuple, body-input value, update(kind) -> (steps, returned value))."""
        rng = self.rng
        out = []
        for j in range(rng.choice([0, 1, 1, 2, 3])):
            lit = rng.choice([0, 3, 1.5, 0.25, True, False, [1, 2], [0.5, 2.0], 7])
            dt, sh = py_lit_type(lit)
            vin = self.new(dt, sh, True, exact=True)
            out.append((lit, (f"st{n}_{j}", dt, sh, vin["id"]), vin))
        return out

    def update_step(self, scope, vin, counter):
        """One body step updating a literal-initialised state: int += counter|1, float *= 0.5, bool = not."""
        dt, sh = vin["dtype"], vin["shape"]
        r = self.new(dt, sh, True, exact=True)
        if dt == I:
            other = ("v", counter["id"]) if counter is not None else ("lit", 1)
            st = dict(kind="op", scope=list(scope), op="Add", args=[("v", vin["id"]), other], attrs={}, outs=1, subs=[], ids=[r["id"]])
        elif dt == F:
            st = dict(kind="op", scope=list(scope), op="Mul", args=[("v", vin["id"]), ("lit", 0.5)], attrs={}, outs=1, subs=[], ids=[r["id"]])
        else:
            st = dict(kind="op", scope=list(scope), op="Not", args=[("v", vin["id"])], attrs={}, outs=1, subs=[], ids=[r["id"]])
        return st, r

    def gen_loop(self, pool, scope, depth):
        rng = self.rng
        v = _pick(rng, pool, F)
        if v is None:
            return None
        trip = rng.choice([0, 1, 2, 3])
        n = next(self.names)
        it = self.new(I, (), True, exact=True)
        ci = self.new(Bo, (), True, exact=True)
        carried = self.new(F, v["shape"], False)
        extras = self.carried_literals(scope, n, it) if rng.random() < 0.6 else []
        local = list(pool) + [carried]
        body = self.steps(local, scope, rng.choice([1, 2]), depth + 1)
        cands = [self.vals[i] for s in body for i in s["ids"] if (self.vals[i]["dtype"], self.vals[i]["shape"]) == (F, v["shape"])]
        if cands:
            ret = rng.choice(cands)
        else:
            ret = self.new(F, v["shape"], False)
            body.append(dict(kind="op", scope=list(scope), op="Neg", args=[("v", carried["id"])], attrs={}, outs=1, subs=[], ids=[ret["id"]]))
        co = self.new(Bo, (), True, exact=True)
        body.append(dict(kind="op", scope=list(scope), op="Identity", args=[("v", ci["id"])], attrs={}, outs=1, subs=[], ids=[co["id"]]))
        # the carried values, in the order of the v_initial actuals: the tensor and the literals at any position
        slots = [("t", None)] + [("l", e) for e in extras]
        if extras and rng.random() < 0.4:
            rng.shuffle(slots)
        args, ins, rets, decl, out_ids, forced = [("lit", trip), ("none",)], [(f"iter{n}", I, (), it["id"]), (f"cond{n}", Bo, (), ci["id"])], [co["id"]], [f"cond_out{n}"], [], []
        for kind, e in slots:
            if kind == "t":
                args.append(("v", v["id"]))
                ins.append((f"acc{n}", F, v["shape"], carried["id"]))
                rets.append(ret["id"])
                decl.append(f"acc_out{n}" if rng.random() < 0.7 else "")
                o = self.new(F, v["shape"], False)
            else:
                lit, tin, vin = e
                args.append(("lit", lit))
                ins.append(tin)
                st, r = self.update_step(scope, vin, it if vin["shape"] == () or vin["dtype"] == I else None)
                body.append(st)
                rets.append(r["id"])
                decl.append("")
                o = self.new(vin["dtype"], vin["shape"], True, exact=True)
                forced.append(o["id"])
            out_ids.append(o["id"])
            pool.append(o)
        # scan outputs: the body returns K more values after the loop-carried ones; the Loop node gets K more outputs
        # holding one row per iteration (trip is a literal and cond_out = cond_in, so there are exactly `trip` rows)
        nscan = rng.choice([0, 0, 1, 1, 2]) if self.loop_scan_outputs else 0
        for j in range(nscan):
            src = rng.choice([carried, ret])
            so = self.new(F, v["shape"], False)
            lit = rng.choice([2.0, -1, 0.5])
            body.append(dict(kind="op", scope=list(scope), op="Mul", args=[("v", src["id"]), ("lit", lit)], attrs={}, outs=1, subs=[], ids=[so["id"]]))
            rets.append(so["id"])
            decl.append(f"row{n}_{j}" if rng.random() < 0.6 else "")
            o = self.new(F, (trip,) + tuple(v["shape"]), False)
            out_ids.append(o["id"])
            forced.append(o["id"])
            if trip > 0 and len(v["shape"]) <= 1:
                pool.append(o)
        sub = dict(ins=ins, body=body, rets=rets, decl=decl)
        return dict(kind="op", scope=list(scope), op="Loop", args=args, attrs={}, outs=self.outs_spec(len(out_ids)),
                    subs=[("body", sub)], ids=out_ids, pre=[], force_out=forced, vlit=bool(extras), nscan=nscan)

    def gen_scan(self, pool, scope, depth):
        """Scan(states..., scan input; body): a tensor state, Python literals as further states (heterogeneous
        variadic input, so each literal keeps its own Python-type dtype), one scan input."""
        rng = self.rng
        x = _pick(rng, pool, F, rank_min=1)
        w = _pick(rng, pool, F)
        if x is None or w is None:
            return None
        n = next(self.names)
        state = self.new(F, w["shape"], False)
        elem = self.new(F, x["shape"][1:], False, exact=x["exact"])
        extras = self.carried_literals(scope, n, None)
        local = list(pool) + [state, elem]
        body = self.steps(local, scope, rng.choice([0, 1, 2]), depth + 1)
        cands = [self.vals[i] for s in body for i in s["ids"] if (self.vals[i]["dtype"], self.vals[i]["shape"]) == (F, w["shape"])]
        if cands:
            sret = rng.choice(cands)
        else:
            sret = self.new(F, w["shape"], False)
            body.append(dict(kind="op", scope=list(scope), op="Neg", args=[("v", state["id"])], attrs={}, outs=1, subs=[], ids=[sret["id"]]))
        slots = [("t", None)] + [("l", e) for e in extras]
        if extras and rng.random() < 0.4:
            rng.shuffle(slots)
        args, ins, rets, decl, out_ids, forced = [], [], [], [], [], []
        for kind, e in slots:
            if kind == "t":
                args.append(("v", w["id"]))
                ins.append((f"state{n}", F, w["shape"], state["id"]))
                rets.append(sret["id"])
                decl.append(f"state_out{n}" if rng.random() < 0.5 else "")
                o = self.new(F, w["shape"], False)
            else:
                lit, tin, vin = e
                args.append(("lit", lit))
                ins.append(tin)
                st, r = self.update_step(scope, vin, None)
                body.append(st)
                rets.append(r["id"])
                decl.append("")
                o = self.new(vin["dtype"], vin["shape"], True, exact=True)
                forced.append(o["id"])
            out_ids.append(o["id"])
            pool.append(o)
        args.append(("v", x["id"]))
        ins.append((f"elem{n}", F, x["shape"][1:], elem["id"]))
        so = self.new(F, x["shape"][1:], False)
        body.append(dict(kind="op", scope=list(scope), op="Mul", args=[("v", elem["id"]), ("lit", rng.choice([2.0, -1, 0.5]))], attrs={}, outs=1, subs=[], ids=[so["id"]]))
        rets.append(so["id"])
        decl.append(f"scan_out{n}")
        o = self.new(F, x["shape"], False)
        out_ids.append(o["id"])
        pool.append(o)
        sub = dict(ins=ins, body=body, rets=rets, decl=decl)
        return dict(kind="op", scope=list(scope), op="Scan", args=args, attrs={"num_scan_inputs": 1}, outs=self.outs_spec(len(out_ids)),
                    subs=[("body", sub)], ids=out_ids, pre=[], force_out=forced, vlit=bool(extras))


def flatten_pre(steps):
    """`pre` steps (the condition of an If) are ordinary steps executed just before; splice them in."""
    out = []
    for s in steps:
        for p in s.get("pre", []):
            out.append(p)
        s2 = dict(s)
        s2.pop("pre", None)
        s2["subs"] = [(k, dict(sb, body=flatten_pre(sb["body"]))) for k, sb in s2.get("subs", [])]
        out.append(s2)
    return out


def gen_trace(rng, **kw):
    g = Gen(rng, **kw)
    t = g.trace()
    # the If-condition steps were generated after the ids of ... no: ids are allocated in generation order, and the
    # real builder creates values in execution order; renumber ids in execution order
    t["steps"] = flatten_pre(t["steps"])
    return renumber(t, g.vals)


def directed_traces():
    """Hand-written traces aimed at the naming scheme: consecutive multi-output calls of the same operator
    (v_<op>_<count>_<i> against v_<op>_<count'>), the same operator under scope stacks with the same
    dotted rendering, multi-output next to single-output calls."""
    def op(scope, name, args, attrs, outs, ids):
        return dict(kind="op", scope=scope, op=name, args=args, attrs=attrs, outs=outs, subs=[], ids=ids)
    t1 = {"inputs": [("x0", F, (2, 6), 0)],
          "steps": [op([], "Split", [("v", 0)], {"axis": -1, "num_outputs": 3}, 3, [1, 2, 3]),
                    op([], "Split", [("v", 1)], {"axis": -1, "num_outputs": 2}, 2, [4, 5]),
                    op([], "Split", [("v", 2)], {"axis": -1, "num_outputs": 2}, 2, [6, 7]),
                    op([], "TopK", [("v", 0), ("lit", [2])], {}, 2, [8, 9]),
                    op([], "TopK", [("v", 8), ("lit", [1])], {}, 2, [10, 11]),
                    op([], "Relu", [("v", 10)], {}, 1, [12])],
          "outputs": [4, 7, 12, 11],
          "types": {0: (F, (2, 6)), 1: (F, (2, 2)), 2: (F, (2, 2)), 3: (F, (2, 2)), 4: (F, (2, 1)), 5: (F, (2, 1)), 6: (F, (2, 1)),
                    7: (F, (2, 1)), 8: (F, (2, 2)), 9: (I, (2, 2)), 10: (F, (2, 1)), 11: (I, (2, 1)), 12: (F, (2, 1))}}
    t2 = {"inputs": [("x0", F, (3,), 0)],
          "steps": [op(["a.b"], "Relu", [("v", 0)], {}, 1, [1]),
                    op(["a", "b"], "Relu", [("v", 1)], {}, 1, [2]),
                    op(["a", "", "b"], "Relu", [("v", 2)], {}, 1, [3]),
                    op([], "Add", [("v", 3), ("lit", 1.0)], {}, 1, [4]),
                    op(["a.b"], "Add", [("v", 4), ("lit", 1)], {}, ["sum"], [5])],
          "outputs": [5], "types": {i: (F, (3,)) for i in range(6)}}
    # Python literals as later actuals of a heterogeneous variadic input (Loop v_initial): the int literal 0
    # carried next to a float tensor keeps int64, the sum 0+0+1+2 stays the integer 3
    body = [op([], "Add", [("v", 3), ("lit", 0.125)], {}, 1, [5]),
            op([], "Add", [("v", 4), ("v", 1)], {}, 1, [6]),
            op([], "Identity", [("v", 2)], {}, 1, [7])]
    loop = dict(kind="op", scope=[], op="Loop", args=[("lit", 3), ("none",), ("v", 0), ("lit", 0)], attrs={}, outs=2,
                subs=[("body", dict(ins=[("it", I, (), 1), ("cnd", Bo, (), 2), ("acc", F, (3,), 3), ("k", I, (), 4)],
                                    body=body, rets=[7, 5, 6], decl=["cnd_out", "", ""]))], ids=[8, 9], vlit=True)
    t3 = {"inputs": [("x0", F, (3,), 0)], "steps": [loop, op([], "Max", [("lit", 2), ("v", 8), ("lit", True)], {}, 1, [10])],
          "outputs": [8, 9, 10],
          "types": {0: (F, (3,)), 1: (I, ()), 2: (Bo, ()), 3: (F, (3,)), 4: (I, ()), 5: (F, (3,)), 6: (I, ()), 7: (Bo, ()),
                    8: (F, (3,)), 9: (I, ()), 10: (F, (3,))}}
    # every control-flow form with rows: a Loop with a loop-carried tensor, a literal-initialised counter and one scan
    # output, then a Scan over that scan output with a literal state; the Scan body captures a root value
    body4 = [op([], "Add", [("v", 3), ("lit", 0.125)], {}, 1, [5]),
             op([], "Add", [("v", 4), ("v", 1)], {}, 1, [6]),
             op([], "Identity", [("v", 2)], {}, 1, [7]),
             op([], "Mul", [("v", 3), ("lit", 2.0)], {}, 1, [8])]
    loop4 = dict(kind="op", scope=[], op="Loop", args=[("lit", 3), ("none",), ("v", 0), ("lit", 0)], attrs={}, outs=3,
                 subs=[("body", dict(ins=[("it", I, (), 1), ("cnd", Bo, (), 2), ("acc", F, (3,), 3), ("k", I, (), 4)],
                                     body=body4, rets=[7, 5, 6, 8], decl=["cnd_out", "", "", "row"]))], ids=[9, 10, 11], vlit=True, nscan=1)
    sbody = [op(["blk"], "ReduceMax", [("v", 13), ("lit", [0])], {"keepdims": 0}, 1, [14]),
             op(["blk"], "Add", [("v", 12), ("v", 14)], {}, 1, [15]),
             op(["blk"], "Mul", [("v", 13), ("v", 0)], {}, 1, [16])]
    scan4 = dict(kind="op", scope=["blk"], op="Scan", args=[("lit", 0.5), ("v", 11)], attrs={"num_scan_inputs": 1}, outs=["s_fin", "ys"],
                 subs=[("body", dict(ins=[("st", F, (), 12), ("el", F, (3,), 13)], body=sbody, rets=[15, 16], decl=["", "srow"]))],
                 ids=[17, 18], vlit=True)
    t4 = {"inputs": [("x0", F, (3,), 0)], "steps": [loop4, scan4], "outputs": [9, 10, 11, 17, 18],
          "types": {0: (F, (3,)), 1: (I, ()), 2: (Bo, ()), 3: (F, (3,)), 4: (I, ()), 5: (F, (3,)), 6: (I, ()), 7: (Bo, ()), 8: (F, (3,)),
                    9: (F, (3,)), 10: (I, ()), 11: (F, (3, 3)), 12: (F, ()), 13: (F, (3,)), 14: (F, ()), 15: (F, ()), 16: (F, (3,)),
                    17: (F, ()), 18: (F, (3, 3))}}
    return [t1, t2, t3, t4]


def renumber(t, vals):
    """Value ids in the order the real builder creates the ir.Values: inputs, then per step: values of its
    subgraphs (inputs, body), then its own outputs."""
    order = []

    def walk_steps(steps):
        for s in steps:
            for _k, sb in s.get("subs", []):
                for (_n, _d, _s, i) in sb["ins"]:
                    order.append(i)
                walk_steps(sb["body"])
            order.extend(s["ids"])
    for (_n, _d, _s, i) in t["inputs"]:
        order.append(i)
    walk_steps(t["steps"])
    assert len(set(order)) == len(order)
    m = {old: new for new, old in enumerate(order)}

    def rarg(a):
        return ("v", m[a[1]]) if a[0] == "v" else a

    def rsteps(steps):
        out = []
        for s in steps:
            s2 = dict(s)
            s2["args"] = [rarg(a) for a in s["args"]]
            s2["ids"] = [m[i] for i in s["ids"]]
            s2["subs"] = [(k, dict(ins=[(n, d, sh, m[i]) for (n, d, sh, i) in sb["ins"]], body=rsteps(sb["body"]),
                                   rets=[m[i] for i in sb["rets"]], decl=list(sb["decl"]))) for k, sb in s.get("subs", [])]
            out.append(s2)
        return out
    t2 = {"inputs": [(n, d, sh, m[i]) for (n, d, sh, i) in t["inputs"]], "steps": rsteps(t["steps"]),
          "outputs": [m[i] for i in t["outputs"]]}
    t2["types"] = {m[i]: (v["dtype"], v["shape"]) for i, v in vals.items() if i in m}
    return t2


# --------------------------------------------------------------------------- literal promotion (independent rule)

_SCHEMA_CACHE = {}


def _schema(op):
    import onnx
    if op not in _SCHEMA_CACHE:
        _SCHEMA_CACHE[op] = onnx.defs.get_schema(op, OPSET, "")
    return _SCHEMA_CACHE[op]


class LitState:
    """The harness's reading of how a literal operand is named when it is promoted
    (builder._get_or_create_constant + tape_builder._constant_name).  WHICH literals share one cache entry
    is C12's question (literal promotion / constant cache): it is observed on the real builder (the
    initializer the operand resolved to) and given to the model as the cache key."""

    def describe(self, value, dtype, observed_name):
        import onnx_ir as ir
        if isinstance(value, (list, tuple)):
            el = type(value[0])
            if dtype is None:
                dtype = {int: ir.DataType.INT64, float: ir.DataType.FLOAT}.get(el)
            name = ("idx", "const_1d_")
        else:
            if dtype is None:
                dtype = {int: ir.DataType.INT64, float: ir.DataType.FLOAT}.get(type(value))
            if isinstance(value, str):
                name = ("idx", "const_str_")
            else:
                suffix = dtype.short_name() if dtype is not None else ""
                name = ("fixed", f"const_{value}_{suffix}" if suffix else f"const_{value}")
        npd = dtype.numpy() if dtype is not None else None
        arr = np.array(value, dtype=npd) if npd is not None else np.array(value)
        valid = f"{arr.dtype}:{arr.shape}:{arr.tobytes().hex()}"
        return dict(key=observed_name, name=name, val=valid, array=arr)


def literal_dtypes(op, args, typed, dtype_of):
    """For each literal operand of `op`: (dtype or None, like id or None when a CastLike is needed)."""
    res = {}
    try:
        schema = _schema(op)
    except Exception:
        schema = None
    if schema is None:
        return {i: (None, None) for i, a in enumerate(args) if a[0] == "lit"}
    formals = schema.inputs
    bind = {}
    tv = []
    for i, a in enumerate(args):
        if i < len(formals):
            f = formals[i]
        elif formals and str(formals[-1].option).endswith("Variadic"):
            f = formals[-1]
            if not f.is_homogeneous:
                tv.append(None)
                continue
        else:
            tv.append(None)
            continue
        t = f.type_str
        if "(" not in t and t not in bind and a[0] == "v":
            bind[t] = a[1]
        tv.append(t)
    for i, a in enumerate(args):
        if a[0] != "lit":
            continue
        t = tv[i]
        if t is None or t not in bind:
            res[i] = (None, None)
        else:
            like = bind[t]
            if typed.get(like, False):
                res[i] = (dtype_of[like], None)
            else:
                res[i] = (None, like)
    return res


# --------------------------------------------------------------------------- execution on the real builder


def execute(trace, mode="call", shared_probe=None):
    """Replay on the real GraphBuilder.  mode: how "fn" steps are executed ("call" | "inline").
    Returns dict(model=ModelProto, graph=ir.Graph, cases info...)."""
    import onnx_ir as ir
    from onnxscript._internal import builder as B

    g = ir.Graph(name="main", inputs=[], outputs=[], nodes=[], opset_imports={"": OPSET, "c18.fn": 1})
    gb = B.GraphBuilder(g)
    vals = {}           # id -> ir.Value
    typed = {}          # id -> bool (dtype known to the builder when the value was created)
    dts = {}            # id -> ir.DataType | None
    lits = LitState()
    info = {"steps": [], "error": None}

    def note(i, v):
        vals[i] = v
        typed[i] = v.type is not None
        dts[i] = v.type.dtype if v.type is not None else None

    for (name, dt, sh, i) in trace["inputs"]:
        v = gb.input(name, dtype=_irdt(dt), shape=list(sh))
        note(i, v)

    def run_steps(steps, builder, out_steps):
        op = builder.op
        depth = len(builder._scope_stack)
        cur = []    # scope pushed by us on this builder

        def set_scope(target):
            nonlocal cur
            while cur and cur != target[:len(cur)]:
                builder.pop_module()
                cur = cur[:-1]
            for s in target[len(cur):]:
                builder.push_module(s, "Gen")
                cur = cur + [s]

        base = [n for n, _ in builder._scope_stack]
        for s in steps:
            target = s["scope"]
            assert target[:len(base)] == base, (target, base)
            set_scope(target[len(base):])
            rec = dict(s)
            if s["kind"] == "op":
                subs_built = []
                rec_subs = []
                for k, sb in s["subs"]:
                    ins = []
                    for (n, d, sh, i) in sb["ins"]:
                        iv = ir.Value(name=n, type=ir.TensorType(_irdt(d)), shape=ir.Shape(list(sh)))
                        ins.append((i, iv))
                    sub_rec = {"body": []}

                    def tf(op_, *a, _sb=sb, _ins=ins, _rec=sub_rec):
                        for (i, iv) in _ins:
                            note(i, iv)
                        run_steps(_sb["body"], op_.builder, _rec["body"])
                        rets = [vals[i] for i in _sb["rets"]]
                        return rets if len(rets) != 1 else rets[0]
                    outs_decl = [ir.Value(name=(d or None)) for d in sb["decl"]]
                    sg = builder.subgraph(tf, [iv for _, iv in ins], outs_decl, name=f"{s['op']}_{k}")
                    # types for the declared outputs help onnxruntime
                    for i, ov in zip(sb["rets"], sg.outputs):
                        d_, sh_ = trace["types"][i]
                        if ov.type is None:
                            ov.type = ir.TensorType(_irdt(d_))
                        if ov.shape is None:
                            ov.shape = ir.Shape(list(sh_))
                    subs_built.append((k, sg))
                    rec_subs.append((k, dict(sb, body=sub_rec["body"])))
                rec["subs"] = rec_subs
                # literal descriptors by the independent rule, from what the builder knows now
                ld = literal_dtypes(s["op"], s["args"], typed, dts)
                cargs = []
                for i, a in enumerate(s["args"]):
                    cargs.append(vals[a[1]] if a[0] == "v" else (None if a[0] == "none" else a[1]))
                kwargs = dict(s["attrs"])
                for k, sg in subs_built:
                    kwargs[k] = sg
                kwargs["_outputs"] = s["outs"]
                res = getattr(op, s["op"])(*cargs, **kwargs)
                res = list(res) if isinstance(res, (list, tuple)) else [res]
                assert len(res) == len(s["ids"]), (s["op"], len(res), s["ids"])
                node = res[0].producer()
                rargs = []
                for i, a in enumerate(s["args"]):
                    if a[0] != "lit":
                        rargs.append(a)
                        continue
                    dt, like = ld[i]
                    got = node.inputs[i]
                    if got is not None and got.producer() is not None and got.producer().op_type == "CastLike":
                        got = got.producer().inputs[0]
                    rargs.append(("lit", a[1], lits.describe(a[1], dt, got.name if got is not None else "?none"), like))
                rec["args"] = rargs
                for i, v in zip(s["ids"], res):
                    note(i, v)
            else:
                f = functions()[s["fn"]]
                cargs = [vals[a[1]] for a in s["args"]]
                rec["args"] = list(s["args"])
                if mode == "call":
                    res = op.call(f["obj"], *cargs, _outputs=s["outs"], **s["attrs"])
                    rec["exec"] = "call"
                else:
                    before = builder.graph.num_nodes()
                    kw = {k: ir.AttrFloat32(k, v) for k, v in s["attrs"].items()}
                    res = op.call_inline(f["obj"], *cargs, _outputs=s["outs"], _prefix=s["prefix"], **kw)
                    rec["exec"] = "inline"
                    rec["raw_nodes"] = list(builder.graph)[before:]
                res = list(res) if isinstance(res, (list, tuple)) else [res]
                for i, v in zip(s["ids"], res):
                    note(i, v)
                rec["domain"] = f["obj"].function_ir.domain if hasattr(f["obj"], "function_ir") else f["obj"].domain
            out_steps.append(rec)
        set_scope([])

    run_steps(trace["steps"], gb, info["steps"])
    for i in trace["outputs"]:
        v = vals[i]
        d, sh = trace["types"][i]
        if v.type is None:
            v.type = ir.TensorType(_irdt(d))
        if v.shape is None:
            v.shape = ir.Shape(list(sh))
        g.outputs.append(v)
    info["graph"] = g
    info["builder"] = gb
    info["vals"] = vals
    info["typed"] = typed
    return info


def serialize(info):
    import onnx_ir as ir
    model = ir.Model(info["graph"], ir_version=10, functions=list(info["builder"].functions.values()))
    return ir.serde.serialize_model(model)


def uniquify_for_execution(info):
    """For the numeric oracle only: give every ir.Value object whose name is already taken by another object a
    fresh name (the builder's value-name collisions are reported separately; a graph refers to objects)."""
    seen = {}
    n = itertools.count()

    def visit_graph(gr):
        for v in list(gr.inputs) + list(gr.initializers.values()):
            claim(v)
        for node in gr:
            for a in node.attributes.values():
                if a.type.name == "GRAPH":
                    pass
            for o in node.outputs:
                claim(o)
            for a in node.attributes.values():
                if a.type.name == "GRAPH":
                    visit_graph(a.value)

    def claim(v):
        if v.name in seen and seen[v.name] is not v:
            v.name = f"{v.name}__dup{next(n)}"
        seen[v.name] = v
    visit_graph(info["graph"])
    return next(n)


# --------------------------------------------------------------------------- NumPy reading of a trace


def np_replay(trace, feeds):
    env = {}
    for (name, dt, sh, i) in trace["inputs"]:
        env[i] = feeds[name]

    def arg(a, env):
        if a[0] == "v":
            return env[a[1]]
        if a[0] == "none":
            return None
        return a[1]

    def run(steps, env):
        for s in steps:
            if s["kind"] == "fn":
                f = functions()[s["fn"]]
                res = f["np"](s["attrs"], *[arg(a, env) for a in s["args"]])
            elif s["op"] == "If":
                c = bool(arg(s["args"][0], env))
                sb = dict(s["subs"])["then_branch" if c else "else_branch"]
                e2 = dict(env)
                run(sb["body"], e2)
                res = tuple(e2[i] for i in sb["rets"])
            elif s["op"] == "Loop":
                sb = dict(s["subs"])["body"]
                trip = arg(s["args"][0], env)
                # v_initial is a heterogeneous variadic input: a literal keeps the dtype of its Python type
                carried = [(lambda z: np.asarray(z) if isinstance(z, (np.ndarray, np.generic)) else py_lit_array(z))(arg(a, env)) for a in s["args"][2:]]
                cond = True
                k = 0
                nst = len(carried)
                rows = [[] for _ in range(len(sb["rets"]) - 1 - nst)]      # scan outputs: one row per iteration
                while cond and k < trip:
                    e2 = dict(env)
                    ins = [np.array(k, dtype=np.int64), np.array(cond)] + carried
                    for (n, d, sh, i), v in zip(sb["ins"], ins):
                        e2[i] = v
                    run(sb["body"], e2)
                    outs = [e2[i] for i in sb["rets"]]
                    cond = bool(outs[0])
                    carried = outs[1:1 + nst]
                    for r, x in zip(rows, outs[1 + nst:]):
                        r.append(np.asarray(x))
                    k += 1
                stacked = []
                for j, r in enumerate(rows):
                    d_, sh_ = trace["types"][s["ids"][nst + j]]
                    stacked.append(np.stack(r, axis=0) if r else np.zeros(tuple(sh_), dtype={F: np.float32, I: np.int64, Bo: np.bool_}[d_]))
                res = tuple(carried) + tuple(stacked)
            elif s["op"] == "Scan":
                sb = dict(s["subs"])["body"]
                actual = [(lambda z: np.asarray(z) if isinstance(z, (np.ndarray, np.generic)) else py_lit_array(z))(arg(a, env)) for a in s["args"]]
                states, seq = actual[:-1], actual[-1]
                scan_rows = []
                for k in range(seq.shape[0]):
                    e2 = dict(env)
                    for (n, d, sh, i), v in zip(sb["ins"], states + [seq[k]]):
                        e2[i] = v
                    run(sb["body"], e2)
                    outs = [e2[i] for i in sb["rets"]]
                    states = outs[:-1]
                    scan_rows.append(outs[-1])
                res = tuple(states) + (np.stack(scan_rows, axis=0),)
            else:
                vals = [arg(a, env) for a in s["args"]]
                while vals and vals[-1] is None:
                    vals.pop()
                res = OPS[s["op"]]["np"](s["attrs"], *vals)
            res = res if isinstance(res, tuple) else (res,)
            assert len(res) == len(s["ids"]), (s, len(res))
            for i, v in zip(s["ids"], res):
                env[i] = np.asarray(v)
                if env[i].dtype.kind == "f" and env[i].size:
                    fin = np.abs(env[i][np.isfinite(env[i])])
                    if fin.size:
                        scale[0] = max(scale[0], float(fin.max()))
    scale = [1.0]
    run(trace["steps"], env)
    LAST_SCALE[0] = scale[0]
    return [env[i] for i in trace["outputs"]]


LAST_SCALE = [1.0]   # largest finite intermediate magnitude of the last np_replay (error propagation bound for `close`)


def make_feeds(trace, k):
    feeds = {}
    rs = np.random.RandomState(1000 + k)
    for (name, dt, sh, i) in trace["inputs"]:
        if k == 0:
            a = rs.uniform(-2, 2, size=sh)
        elif k == 1:
            a = rs.randint(-3, 4, size=sh) * 0.5
        else:
            a = rs.uniform(-0.9, 0.9, size=sh) + (k - 2)
        feeds[name] = a.astype(np.float32)
    return feeds


def ort_session(model_proto):
    import onnxruntime as ort
    so = ort.SessionOptions()
    so.graph_optimization_level = ort.GraphOptimizationLevel.ORT_DISABLE_ALL
    so.log_severity_level = 4
    so.intra_op_num_threads = 1
    so.inter_op_num_threads = 1
    return ort.InferenceSession(model_proto.SerializeToString(), so, providers=["CPUExecutionProvider"])


def ort_run(model_proto, feeds):
    return ort_session(model_proto).run(None, feeds)


def close(a, b, scale=None):
    """Integer / bool outputs exactly; float outputs within rtol 2e-4 and an absolute tolerance of 2e-5 times the
    largest intermediate magnitude of the NumPy reading (last-bit differences of transcendental kernels and
    reductions propagate through cancellations in proportion to the operands)."""
    a, b = np.asarray(a), np.asarray(b)
    if a.shape != b.shape or a.dtype != b.dtype:
        return False
    if a.dtype.kind in "iub":
        return bool(np.array_equal(a, b))
    scale = LAST_SCALE[0] if scale is None else scale
    return bool(np.allclose(a, b, rtol=2e-4, atol=2e-5 * max(1.0, scale), equal_nan=True))


# --------------------------------------------------------------------------- Coq printers

def attr_value_lit(v):
    """The harness's own rendering of a Python attribute value (independent of the builder)."""
    if isinstance(v, bool):
        return f"(AInt {cz(int(v))})"
    if isinstance(v, int):
        return f"(AInt {cz(v)})"
    if isinstance(v, float):
        return f"(AFloat {cz(graphlit._f32_bits(v))})"
    if isinstance(v, str):
        return f"(AStr {cstr(v)})"
    if isinstance(v, (list, tuple)) and all(isinstance(x, int) for x in v):
        return f"(AInts {clist(v, cz)})"
    if isinstance(v, (list, tuple)) and all(isinstance(x, float) for x in v):
        return f"(AFloats {clist([graphlit._f32_bits(x) for x in v], cz)})"
    raise ValueError(v)


def lit_lit(d):
    kind, txt = d["name"]
    nm = f"(LNFixed {cstr(txt)})" if kind == "fixed" else f"(LNIndexed {cstr(txt)})"
    return f"(Lit {cstr(d['key'])} {nm} {cstr(d['val'])})"


def node_lit_sorted(n):
    """Like graphlit.node_lit, with attributes and subgraphs sorted by name (attribute order is not observable
    in ONNX and is outside the model) -- except that subgraphs are listed in creation order then/else/body."""
    ins = clist(n.input, lambda x: "None" if x == "" else f"(Some {cstr(x)})")
    outs = clist([o for o in n.output if o != ""], cstr)
    attrs, subs = [], []
    for a in sorted(n.attribute, key=lambda a: a.name):
        kind, txt = graphlit.attr_lit(a)
        if kind == "attr":
            attrs.append(f"({cstr(a.name)}, {txt})")
        elif kind == "graph":
            subs.append((a.name, f"({cstr(a.name)}, {graph_lit_sorted(a.g)})"))
    order = {"then_branch": 0, "else_branch": 1, "body": 2}
    subs = [t for _k, t in sorted(subs, key=lambda kt: order.get(kt[0], 9))]
    dom = n.domain if n.domain != "ai.onnx" else ""
    return f"(Node {cstr(dom)} {cstr(n.op_type)} {ins} {outs} {clist(attrs)} {clist(subs)})"


def graph_lit_sorted(g):
    ins = clist([i.name for i in g.input], cstr)
    inits = clist([i.name for i in g.initializer], cstr)
    nodes = clist([node_lit_sorted(n) for n in g.node])
    outs = clist([o.name for o in g.output], cstr)
    return f"(Graph {ins} {inits} {nodes} {outs})"


def node_names_creation_order(g):
    """Post-order: the nodes of a node's subgraphs (then, else, body) were created before the node itself."""
    out = []
    order = {"then_branch": 0, "else_branch": 1, "body": 2}
    for n in g.node:
        for a in sorted([a for a in n.attribute if a.type == a.GRAPH], key=lambda a: order.get(a.name, 9)):
            out.extend(node_names_creation_order(a.g))
        out.append(n.name)
    return out


def steps_lit(steps, proto_nodes_by_step=None):
    out = []
    for s in steps:
        st = clist(s["scope"], cstr)
        if s["kind"] == "op":
            args = []
            for a in s["args"]:
                if a[0] == "v":
                    args.append(f"(OVal {cnat(a[1])})")
                elif a[0] == "none":
                    args.append("ONone")
                else:
                    _t, _v, d, like = a
                    args.append(f"(OLit {lit_lit(d)})" if like is None else f"(OLitCast {lit_lit(d)} {cnat(like)})")
            attrs = clist([f"({cstr(k)}, {attr_value_lit(v)})" for k, v in sorted(s["attrs"].items())])
            subs = clist([f"({cstr(k)}, {sub_lit(sb)})" for k, sb in s["subs"]])
            outs = f"(ODefault {cnat(s['outs'])})" if isinstance(s["outs"], int) else f"(ONamed {clist(s['outs'], cstr)})"
            out.append(f"(COp {st} {cstr('')} {cstr(s['op'])} {clist(args)} {attrs} {subs} {outs})")
        elif s["exec"] == "call":
            f = functions()[s["fn"]]
            args = clist([f"(OVal {cnat(a[1])})" for a in s["args"]])
            attrs = clist([f"({cstr(k)}, {attr_value_lit(v)})" for k, v in sorted(s["attrs"].items())])
            outs = f"(ODefault {cnat(f['nout'])})" if s["outs"] is None else f"(ONamed {clist(s['outs'], cstr)})"
            out.append(f"(COp {st} {cstr(s['domain'])} {cstr(f['name'])} {args} {attrs} [] {outs})")
        else:
            import onnx_ir as ir
            protos = [ir.serde.serialize_node(n) for n in s["raw_nodes"]]
            nodes = clist([node_lit_sorted(p) for p in protos])
            nn = clist([p.name for p in protos], cstr)
            newvals = clist(s["ret_names"], cstr)
            out.append(f"(CRaw {nodes} {nn} {newvals})")
    return clist(out)


def sub_lit(sb):
    return (f"(Sub {clist([n for (n, _d, _s, _i) in sb['ins']], cstr)} {steps_lit(sb['body'])} "
            f"{clist(sb['rets'], cnat)} {clist(sb['decl'], cstr)})")


def trace_case_lit(trace, info, proto):
    """(inputs, trace, outputs, observed graph, observed node names in creation order)"""
    # names of the values returned by inlined functions (observed)
    def fill(steps):
        for s in steps:
            if s["kind"] == "fn" and s.get("exec") == "inline":
                s["ret_names"] = [info["vals"][i].name for i in s["ids"]]
            for _k, sb in s.get("subs", []):
                fill(sb["body"])
    fill(info["steps"])
    ins = clist([n for (n, _d, _s, _i) in trace["inputs"]], cstr)
    return (f"({ins}, {steps_lit(info['steps'])}, {clist(trace['outputs'], cnat)}, {graph_lit_sorted(proto.graph)}, "
            f"{clist(node_names_creation_order(proto.graph), cstr)})")


# --------------------------------------------------------------------------- name checks on the proto


def name_report(g):
    """Value-name facts of a GraphProto: a name defined twice in one graph, a name of an enclosing graph defined
    again in a subgraph, a name used in two disjoint subgraphs; duplicate node names within one graph."""
    rep = {"same_graph_dups": [], "redefines_visible": [], "disjoint_dups": [], "node_dups": [], "all_value_names": 0}
    seen_anywhere = {}

    def walk(gr, visible, path):
        local = set()
        nn = [n.name for n in gr.node if n.name]
        if len(set(nn)) != len(nn):
            rep["node_dups"].append((path, sorted({x for x in nn if nn.count(x) > 1})))
        defs = [i.name for i in gr.input] + [i.name for i in gr.initializer if i.name not in {x.name for x in gr.input}]
        for d in defs:
            define(d, visible, local, path)
        for n in gr.node:
            for a in n.attribute:
                if a.type == a.GRAPH:
                    walk(a.g, visible | local, path + (n.name + ":" + a.name,))
            for o in n.output:
                if o:
                    define(o, visible, local, path)

    def define(d, visible, local, path):
        rep["all_value_names"] += 1
        if d in local:
            rep["same_graph_dups"].append((path, d))
        elif d in visible:
            rep["redefines_visible"].append((path, d))
        elif d in seen_anywhere:
            rep["disjoint_dups"].append((path, d))
        seen_anywhere[d] = path
        local.add(d)
    walk(g, set(), ())
    return rep


# --------------------------------------------------------------------------- toy-kernel reading (tie for TraceCF.creplay)

TOY_P = 1000003


class NoReading(Exception):
    pass


def _str_hash(s, k=1):
    h = 0
    for i in range(len(s) - 1, -1, -1):
        h = (ord(s[i]) * (k + i) + h) % TOY_P
    return h


def _toy_mix(vs, j=1):
    h = 0
    for i in range(len(vs) - 1, -1, -1):
        h = ((j + i) * (17 if vs[i] is None else vs[i]) + h) % TOY_P
    return h


def toy_sem(op, attrs, vs):
    n = attrs.get("num_outputs")
    if not isinstance(n, int) or isinstance(n, bool):
        n = 2 if op in ("TopK", "add_mul", "neg_abs") else 1
    h = (_str_hash(op) + _toy_mix(vs)) % TOY_P
    return [(h + 7919 * i) % TOY_P for i in range(n)]


def toy_stack(l):
    return (_toy_mix(l, 3) + 5) % TOY_P


def toy_unstack(z):
    return [(z * 31 + i) % TOY_P for i in range(z % 3)]


def toy_replay(trace, info, lim=5):
    """The harness's own reading of an executed trace (call mode) under the toy kernels of OV.Builder.TraceCF:
    the Python trace function run on integers -- an If reads the branch its condition selects, a Loop iterates the
    body (loop-carried values and scan outputs), a Scan iterates the body over the slices of its scan inputs, bodies see the
    enclosing values; None = no reading (a value used outside the scope it was made in, a body returning the wrong number
    of values).  Mirrors OV.Builder.TraceCFX.creplay_x under toy_sem / toy_stack / toy_unstack."""
    env = {i: 1001 + k for k, (_n, _d, _s, i) in enumerate(trace["inputs"])}

    def arg(a, env):
        if a[0] == "v":
            if a[1] not in env:
                raise NoReading()
            return env[a[1]]
        if a[0] == "none":
            return None
        _t, _v, d, like = a
        base = _str_hash(d["val"])
        if like is None:
            return base
        if like not in env:
            raise NoReading()
        return toy_sem("CastLike", {}, [base, env[like]])[0]

    def body(sb, outer, args):
        if len(sb["ins"]) != len(args):
            raise NoReading()
        e2 = dict(outer)
        for (_n, _d, _s, i), v in zip(sb["ins"], args):
            e2[i] = v
        run(sb["body"], e2)
        if any(i not in e2 for i in sb["rets"]):
            raise NoReading()
        return [e2[i] for i in sb["rets"]]

    def first_sub(s, key):
        for k, sb in s["subs"]:
            if k == key:
                return sb
        raise NoReading()

    def run(steps, env):
        for s in steps:
            vs = [arg(a, env) for a in s["args"]]
            if s["kind"] == "fn":
                if s.get("exec") != "call":
                    raise NoReading()
                f = functions()[s["fn"]]
                res = toy_sem(f["name"], {}, vs)
                n = f["nout"] if s["outs"] is None else len(s["outs"])
            else:
                n = s["outs"] if isinstance(s["outs"], int) else len(s["outs"])
                if s["op"] == "If":
                    if len(vs) != 1 or vs[0] is None:
                        raise NoReading()
                    res = body(first_sub(s, "then_branch" if vs[0] % 2 == 1 else "else_branch"), env, [])
                elif s["op"] == "Loop":
                    if len(vs) < 2:
                        raise NoReading()
                    sb = first_sub(s, "body")
                    st = [v for v in vs[2:] if v is not None]
                    bounded = vs[0] is not None
                    k = vs[0] % 4 if bounded else lim
                    c = (vs[1] % 2 == 1) if vs[1] is not None else True
                    i = 0
                    acc = [[] for _ in range(max(0, n - len(st)))]
                    while c:
                        if k == 0:
                            if bounded:
                                break
                            raise NoReading()
                        r = body(sb, env, [i, 1 if c else 0] + st)
                        if not r or len(r) - 1 != len(st) + len(acc):
                            raise NoReading()
                        c, st, acc = (r[0] % 2 == 1), r[1:1 + len(st)], [a + [x] for a, x in zip(acc, r[1 + len(st):])]
                        k -= 1
                        i += 1
                    res = st + [toy_stack(a) for a in acc]
                elif s["op"] == "Scan":
                    sb = first_sub(s, "body")
                    m = s["attrs"].get("num_scan_inputs")
                    if not isinstance(m, int) or isinstance(m, bool) or any(v is None for v in vs) or not 1 <= m <= len(vs):
                        raise NoReading()
                    ns = len(vs) - m
                    st, xss = vs[:ns], [toy_unstack(v) for v in vs[ns:]]
                    T = len(xss[0])
                    if any(len(x) != T for x in xss):
                        raise NoReading()
                    acc = [[] for _ in range(max(0, n - ns))]
                    for t in range(T):
                        r = body(sb, env, st + [x[t] for x in xss])
                        if len(r) != len(st) + len(acc):
                            raise NoReading()
                        st, acc = r[:len(st)], [a + [x] for a, x in zip(acc, r[len(st):])]
                    res = st + [toy_stack(a) for a in acc]
                else:
                    res = toy_sem(s["op"], s["attrs"], vs)
            if len(res) != n or len(s["ids"]) != n:
                raise NoReading()
            for i, v in zip(s["ids"], res):
                env[i] = v
    try:
        run(info["steps"], env)
        return [env[i] for i in trace["outputs"]]
    except (NoReading, KeyError):
        return None
