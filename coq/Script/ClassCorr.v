(* Which syntactic classes of the C01 theorems a generated program belongs to, and which control-flow features it
   has: evaluated by harness/c01.py on every generated program so that the evidence records that the classes the
   theorems quantify over are inhabited by the programs of the correspondence.  No proofs in this file. *)
From Coq Require Import List String Bool Arith ZArith.
Require Import OV.Graph.Syntax OV.Script.Syntax OV.Script.Sets OV.Gen.Analysis OV.Script.AnalysisAux OV.Script.Translate
               OV.Script.Corr OV.Script.TranslateProofs OV.Script.TranslateIfProofs OV.Script.TranslateForDefs
               OV.Script.TranslateForProofs OV.Script.TranslateNestDefs.
Import ListNotations.

Definition split_ret (body : list stmt) : option (list stmt * list expr) :=
  match rev body with SReturn es :: r => Some (rev r, es) | _ => None end.

Definition has_break (body : list stmt) : bool := existsb (fun s => is_some (is_break_if s)) body.

(* feature codes: 5 if inside loop, 6 loop inside if, 7 loop inside loop, 8 for, 9 for+break, 10 while, 11 while+break, 12 if *)
Fixpoint feats (n : nat) (in_loop in_if : bool) (ss : list stmt) : list nat :=
  match n with
  | O => []
  | S m =>
    flat_map (fun s =>
      match s with
      | SIf c t f =>
        match is_break_if s with
        | Some _ => []
        | None => [12] ++ (if in_loop then [5] else []) ++ feats m in_loop true t ++ feats m in_loop true f
        end
      | SFor _ _ body =>
        [8] ++ (if in_if then [6] else []) ++ (if in_loop then [7] else []) ++ (if has_break body then [9] else []) ++ feats m true in_if body
      | SWhile _ body =>
        [10] ++ (if in_if then [6] else []) ++ (if in_loop then [7] else []) ++ (if has_break body then [11] else []) ++ feats m true in_if body
      | _ => []
      end) ss
  end.

Definition mask (l : list nat) : nat :=
  fold_right (fun b acc => acc + (if existsb (Nat.eqb b) l then 2 ^ b else 0)) 0 (seq 0 16).

(* class codes: 0 S1 (assigns_ok), 1 S2 (s2_stmt), 2 S3 first part (s3_pre), 3 S3 complete without while+break
   (pre_ok wb=false), 4 S3 complete (pre_ok wb=true) *)
Definition class_of (c : tcase) : nat :=
  let '(f, consts, truth, orders, _) := c in
  let cic := cic_of (f_body f) truth in
  let afuel := fuel_of (f_body f) in
  match split_ret (f_body f) with
  | None => 0
  | Some (pre, es) =>
    if negb (forallb expr_ok es && is_nil (f_aparams f)) then mask (feats 12 false false pre)
    else
      mask ((if assigns_ok pre then [0] else []) ++
            (if forallb (s2_stmt consts cic) pre then [1] else []) ++
            (if s3_pre consts cic afuel pre [SReturn es] [] then [2] else []) ++
            (if pre_ok consts cic afuel false 11 pre [SReturn es] [] then [3] else []) ++
            (if pre_ok consts cic afuel true 11 pre [SReturn es] [] then [4] else []) ++
            feats 12 false false pre)
  end.
