(* Soundness of the initializer passes (Opt/Inits.v) for arbitrary kernels.  A model = graph + table of initializer tokens;
   its meaning is eval_graph in the environment that binds every table name to the value its token denotes (tok_val).
   The Constant kernel is tied to tok_val by the hypothesis `const_oracle`. *)
From Coq Require Import List String ZArith Bool Lia.
Require Import OV.Graph.Syntax OV.Graph.Sem OV.Graph.Names OV.Graph.SemProofs OV.Opt.Fold OV.Opt.SemLemmas.
Require Import OV.Opt.Dce OV.Opt.DceProofs OV.Opt.Cse OV.Opt.CseProofs OV.Opt.Use OV.Opt.UseProofs OV.Opt.Inits.
Import ListNotations.
Local Open Scope list_scope.

Lemma token_eqb_eq a b : token_eqb a b = true -> a = b.
Proof.
  destruct a as [k x], b as [k' y]. unfold token_eqb. cbn. intro E. apply andb_true_iff in E. destruct E as [E1 E2].
  apply String.eqb_eq in E1. apply attr_eqb_eq in E2. subst. reflexivity.
Qed.

Lemma const_shape_spec gouts n y k a : const_shape gouts n = Some (y, (k, a)) ->
  exists ins, n = Node "" "Constant" ins [y] [(k, a)] [].
Proof.
  destruct n as [d o ins outs attrs subs]. unfold const_shape. cbn [n_outs n_attrs n_subs n_dom n_op].
  destruct outs as [|y0 [|? ?]]; try discriminate. destruct attrs as [|[k0 a0] [|? ?]]; try discriminate.
  destruct subs; try discriminate.
  destruct (String.eqb d "" && String.eqb o "Constant" && negb (mem y0 gouts)) eqn:E; [|discriminate].
  intro H; inversion H; subst. apply andb_true_iff in E. destruct E as [E _]. apply andb_true_iff in E. destruct E as [E1 E2].
  apply String.eqb_eq in E1, E2. subst. exists ins. reflexivity.
Qed.

Lemma nodupb_app_r (a b : list string) : nodupb (a ++ b) = true -> nodupb b = true.
Proof. induction a as [|x t IH]; cbn; [auto|]. intro H. apply andb_true_iff in H. apply IH, H. Qed.

Section P.
  Variable V : Type.
  Variable sem : string -> string -> list (string * attrv) -> list (option V) -> option (list V).
  Variable truth : V -> option bool.
  Variable trip : V -> option nat.
  Variable of_nat : nat -> V.
  Variable of_bool : bool -> V.
  Variable limit : nat.
  Variable tok_val : token -> option V.

  Notation env := (list (vname * V)).
  Notation eval_node := (eval_node V sem truth trip of_nat of_bool limit).
  Notation run := (run V sem truth trip of_nat of_bool limit).
  Notation eval_graph := (eval_graph V sem truth trip of_nat of_bool limit).
  Notation sub_env := (sub_env V).

  Fixpoint init_env (t : itab) : env :=
    match t with
    | [] => []
    | (x, k) :: r => match tok_val k with Some v => (x, v) :: init_env r | None => init_env r end
    end.
  Definition eval_model (F : nat) (outer : env) (g : graph) (t : itab) (args : list V) : option (list V) :=
    eval_graph F (init_env t ++ outer) g args.

  (* a Constant node returns exactly the tensor its attribute denotes *)
  Definition const_oracle : Prop := forall k a vs rs, sem "" "Constant" [(k, a)] vs = Some rs -> exists c, rs = [c] /\ tok_val (k, a) = Some c.

  (* ---- nested graphs replaced by refined ones, same environment *)
  Definition same_env_ok (rec : graph -> graph) (ev ev' : env -> graph -> list V -> option (list V)) : Prop :=
    forall e g args r, ev e g args = Some r -> ev' e (rec g) args = Some r.

  Lemma find_sub_map rec name subs sg : find_sub name subs = Some sg -> find_sub name (lift_subs rec subs) = Some (rec sg).
  Proof.
    unfold lift_subs. induction subs as [|[k h] t IH]; cbn; [discriminate|].
    destruct (String.eqb k name); [intro H; inversion H; reflexivity|exact IH].
  Qed.

  (* ================================================================ lift *)
  Section Lift.
    Variable t : itab.
    Hypothesis Hc : const_oracle.

    Definition cov (e' : env) : Prop := forall y k c, tab_get y t = Some k -> tok_val k = Some c -> lookup e' y = Some c.
    Definition fresh (B : list vname) : Prop := forall b, In b B -> tab_get b t = None.

    Lemma cov_bind outs : fresh outs -> forall vals (e' a' : env), cov e' -> bind outs vals e' = Some a' -> cov a'.
    Proof.
      intros Fr. induction outs as [|o ot IH]; intros [|v vt] e' a' C; cbn; try discriminate.
      - intro H; inversion H; subst. exact C.
      - destruct (bind ot vt e') as [r|] eqn:B; cbn; [|discriminate]. intro H; inversion H; subst.
        assert (C' : cov r) by (apply (IH (fun b Hb => Fr b (or_intror Hb)) vt e' r C B)).
        intros y k c Hy Hk. cbn. destruct (String.eqb y o) eqn:E; [|exact (C' y k c Hy Hk)].
        apply String.eqb_eq in E. subst. rewrite (Fr o (or_introl eq_refl)) in Hy. discriminate.
    Qed.

    Definition lift_ok (F : nat) (rec : graph -> graph) : Prop := forall e e' g args r,
      sub_env e e' -> cov e' -> fresh (binds_graph (rec g)) ->
      eval_graph F e g args = Some r -> eval_graph F e' (rec g) args = Some r.

    Lemma binds_lift_subs rec name subs sg : find_sub name subs = Some sg -> incl (binds_graph (rec sg)) (binds_subs (lift_subs rec subs)).
    Proof.
      unfold lift_subs. induction subs as [|[k h] r IH]; cbn; [discriminate|].
      destruct (String.eqb k name); [intro H; inversion H; subst; apply incl_appl, incl_refl|intro H; apply incl_appr, IH, H].
    Qed.

    Lemma lift_nodes_sound F rec gouts : lift_ok F rec -> forall ns ns' ys, lift_nodes t rec gouts ns = (ns', ys) ->
      fresh (binds_nodes ns') -> forall e e' a, sub_env e e' -> cov e' -> run (eval_graph F) e ns = Some a ->
      exists a', run (eval_graph F) e' ns' = Some a' /\ sub_env a a' /\ cov a'.
    Proof.
      intros R. induction ns as [|n r IH]; intros ns' ys; cbn [lift_nodes].
      - intro H; inversion H; subst. intros _ e e' a S C H1. cbn in H1. inversion H1; subst. exists e'. cbn. auto.
      - destruct (lift_nodes t rec gouts r) as [r' ys'] eqn:L.
        destruct (lifted t gouts n) as [y|] eqn:Lf.
        + intro H; inversion H; subst. intros Fr e e' a S C. cbn [Sem.run].
          unfold lifted in Lf. destruct (const_shape gouts n) as [[y0 k0]|] eqn:CS; [|discriminate].
          destruct (tab_get y0 t) as [k'|] eqn:TG; [|discriminate]. destruct (token_eqb k0 k') eqn:TE; [|discriminate].
          inversion Lf; subst y0. apply token_eqb_eq in TE. subst k'. destruct k0 as [k a0].
          destruct (const_shape_spec gouts n y k a0 CS) as [ins ->].
          destruct (eval_node (eval_graph F) e (Node "" "Constant" ins [y] [(k, a0)] [])) as [a1|] eqn:E; [|discriminate].
          unfold Sem.eval_node in E. cbn [is_if is_loop String.eqb Ascii.eqb Bool.eqb andb] in E.
          destruct (lookup_opts e ins) as [vs|]; [|discriminate].
          destruct (sem "" "Constant" [(k, a0)] vs) as [rs|] eqn:Sm; [|discriminate].
          destruct (Hc k a0 vs rs Sm) as [c [-> Tv]]. cbn in E. inversion E; subst a1.
          apply (IH ns' ys' eq_refl Fr); [|exact C].
          intros x v. cbn. destruct (String.eqb x y) eqn:Exy.
          * apply String.eqb_eq in Exy. subst. intro H1; inversion H1; subst. exact (C y (k, a0) v TG Tv).
          * apply S.
        + destruct n as [d o i u at_ s]. intro H; inversion H; subst. cbn [binds_nodes]. intros Fr e e' a S C. cbn [Sem.run].
          destruct (eval_node (eval_graph F) e (Node d o i u at_ s)) as [a1|] eqn:E; [|discriminate]. intro H1.
          assert (Frn : fresh (binds_node (Node d o i u at_ (lift_subs rec s)))) by (intros b Hb; apply Fr, in_or_app; left; exact Hb).
          rewrite binds_node_eq in Frn.
          destruct (eval_node_refines V sem truth trip of_nat of_bool limit (eval_graph F) (eval_graph F) e e' (fun x => x)
                      d o i u at_ s (lift_subs rec s) a1 S) as [vals [B [a1' [E' B']]]].
          * intros name sg Fs. exists (rec sg). split; [apply find_sub_map; exact Fs|]. intros args r0 Hr.
            apply (R e e' sg args r0 S C); [|exact Hr]. intros b Hb. apply Frn, in_or_app. right.
            exact (binds_lift_subs rec name s sg Fs b Hb).
          * exact E.
          * rewrite map_option_id in E'. rewrite E'.
            apply (IH r' ys eq_refl (fun b Hb => Fr b (in_or_app _ _ _ (or_intror Hb))) a1 a1' a); [| |exact H1].
            -- exact (sub_bind V u vals e e' a1 a1' S B B').
            -- apply (cov_bind u (fun b Hb => Frn b (in_or_app _ _ _ (or_introl Hb))) vals e' a1' C B').
    Qed.

    Lemma lift_graph_with_ok F rec : lift_ok F rec -> lift_ok (S F) (lift_graph_with t rec).
    Proof.
      intros R e e' g args r S C. destruct g as [gi ii ns go]. cbn [lift_graph_with].
      destruct (lift_nodes t rec go ns) as [ns' ys] eqn:L. rewrite binds_graph_eq. intro Fr.
      cbn [Sem.eval_graph]. unfold Sem.eval_body. cbn [g_ins g_nodes g_outs].
      destruct (bind gi args e) as [e0|] eqn:B; [|discriminate].
      destruct (bind_both V gi args e e' e0 B) as [e0' B']. rewrite B'.
      destruct (run (eval_graph F) e0 ns) as [a|] eqn:Rn; [|discriminate].
      destruct (lift_nodes_sound F rec go R ns ns' ys L (fun b Hb => Fr b (in_or_app _ _ _ (or_intror Hb))) e0 e0' a
                  (sub_bind V gi args e e' e0 e0' S B B')
                  (cov_bind gi (fun b Hb => Fr b (in_or_app _ _ _ (or_introl Hb))) args e' e0' C B') Rn) as [a' [Rn' [Sa _]]].
      rewrite Rn'. intro Ho. exact (sub_lookups V a a' go r Sa Ho).
    Qed.

    Lemma lift_graph_ok : forall d F, lift_ok F (lift_graph t d).
    Proof.
      induction d as [|d IH]; intro F.
      - intros e e' g args r S _ _ H. cbn [lift_graph]. exact (eval_graph_mono V sem truth trip of_nat of_bool limit F e e' g args r S H).
      - destruct F as [|f]; [intros e e' g args r _ _ _ H; discriminate|].
        cbn [lift_graph]. apply lift_graph_with_ok. apply IH.
    Qed.
  End Lift.

  Lemma lookup_init_none t x : tab_get x t = None -> lookup (init_env t) x = None.
  Proof.
    induction t as [|[y k] r IH]; cbn; [reflexivity|]. destruct (String.eqb x y) eqn:E; [discriminate|].
    intro H. destruct (tok_val k); cbn; [rewrite E|]; apply IH; exact H.
  Qed.
  Lemma lookup_app_l (a b : env) x v : lookup a x = Some v -> lookup (a ++ b) x = Some v.
  Proof. induction a as [|[y w] r IH]; cbn; [discriminate|]. destruct (String.eqb x y); auto. Qed.
  Lemma lookup_app_none (a b : env) x : lookup a x = None -> lookup (a ++ b) x = lookup b x.
  Proof. induction a as [|[y w] r IH]; cbn; [reflexivity|]. destruct (String.eqb x y); [discriminate|exact IH]. Qed.
  Lemma lookup_init_nodup t x k v : nodupb (map fst t) = true -> tab_get x t = Some k -> tok_val k = Some v -> lookup (init_env t) x = Some v.
  Proof.
    induction t as [|[y k0] r IH]; cbn; [discriminate|]. intro N. apply andb_true_iff in N. destruct N as [N1 N2].
    destruct (String.eqb x y) eqn:E.
    - intro H; inversion H; subst. intro Tv. rewrite Tv. cbn. rewrite E. reflexivity.
    - intros H Tv. destruct (tok_val k0); cbn; [rewrite E|]; apply IH; assumption.
  Qed.

  Lemma tab_get_notin t x : mem x (map fst t) = false -> tab_get x t = None.
  Proof.
    induction t as [|[y k] r IH]; cbn; [reflexivity|]. intro H. apply orb_false_iff in H. destruct H as [H1 H2].
    rewrite H1. apply IH, H2.
  Qed.
  Lemma lookup_init_novalue t x k : nodupb (map fst t) = true -> tab_get x t = Some k -> tok_val k = None -> lookup (init_env t) x = None.
  Proof.
    induction t as [|[y k0] r IH]; cbn; [discriminate|]. intro N. apply andb_true_iff in N. destruct N as [N1 N2].
    destruct (String.eqb x y) eqn:E.
    - intro H; inversion H; subst. intro Tv. rewrite Tv. apply String.eqb_eq in E. subst.
      apply lookup_init_none, tab_get_notin. apply negb_true_iff. exact N1.
    - intros H Tv. destruct (tok_val k0); cbn; [rewrite E|]; apply IH; assumption.
  Qed.

  (* lifting every Constant node: the new table entries are the tokens of the dropped nodes; names must be new *)
  Lemma tab_get_app_l (a b : itab) x k : tab_get x a = Some k -> tab_get x (a ++ b) = Some k.
  Proof. induction a as [|[y k0] r IH]; cbn; [discriminate|]. destruct (String.eqb x y); auto. Qed.

  Theorem lift_sound : const_oracle -> forall g t g' t', lift g t = Some (g', t') ->
    nodupb (map fst t') = true -> (forall b, In b (binds_graph g') -> tab_get b (collect (depth_graph g) g) = None) ->
    forall F outer args r, (forall x k, tab_get x t' = Some k -> lookup outer x = None) ->
      eval_model F outer g t args = Some r -> eval_model F outer g' t' args = Some r.
  Proof.
    intros Hc g t g' t'. unfold lift. destruct (any_unsupported _ g); [discriminate|].
    destruct (existsb _ (collect (depth_graph g) g)) eqn:Ex; [discriminate|]. intro H; inversion H; subst; clear H.
    intros N Fr F outer args r Ho. unfold eval_model.
    apply (lift_graph_ok (collect (depth_graph g) g) Hc (depth_graph g) F); [| |exact Fr].
    - (* the old environment is contained in the new one: the old table is a suffix with the same (distinct) names *)
      intros x v L.
      destruct (tab_get x t) as [k|] eqn:TG.
      + assert (TG' : tab_get x (collect (depth_graph g) g ++ t) = Some k).
        { clear - TG Ex. induction (collect (depth_graph g) g) as [|[y k0] c IH]; [exact TG|]. cbn in *.
          apply orb_false_iff in Ex. destruct Ex as [E1 E2].
          destruct (String.eqb x y) eqn:E; [apply String.eqb_eq in E; subst; rewrite TG in E1; discriminate|apply IH; exact E2]. }
        destruct (tok_val k) as [w|] eqn:Tv.
        * assert (Nt : nodupb (map fst t) = true) by (rewrite map_app in N; exact (nodupb_app_r _ _ N)).
          rewrite (lookup_app_l _ outer x w (lookup_init_nodup t x k w Nt TG Tv)) in L.
          rewrite (lookup_app_l _ outer x w (lookup_init_nodup _ x k w N TG' Tv)). exact L.
        * (* an entry without a value: only the caller's environment could have bound x, and it does not *)
          exfalso. assert (Nt : nodupb (map fst t) = true) by (rewrite map_app in N; exact (nodupb_app_r _ _ N)).
          rewrite (lookup_app_none _ outer x (lookup_init_novalue t x k Nt TG Tv)) in L. rewrite (Ho x k TG') in L. discriminate.
      + rewrite (lookup_app_none _ outer x (lookup_init_none t x TG)) in L.
        destruct (tab_get x (collect (depth_graph g) g ++ t)) as [k|] eqn:TG'.
        * rewrite (Ho x k TG') in L. discriminate.
        * rewrite (lookup_app_none _ outer x (lookup_init_none _ x TG')). exact L.
    - intros y k c TG Tv. apply lookup_app_l. exact (lookup_init_nodup _ y k c N (tab_get_app_l _ t y k TG) Tv).
  Qed.

  (* ================================================================ hoist *)
  Lemma node_subs_same F rec e d o i u at_ sb a : same_env_ok rec (eval_graph F) (eval_graph F) ->
    eval_node (eval_graph F) e (Node d o i u at_ sb) = Some a -> eval_node (eval_graph F) e (Node d o i u at_ (lift_subs rec sb)) = Some a.
  Proof.
    intros R E.
    destruct (eval_node_refines V sem truth trip of_nat of_bool limit (eval_graph F) (eval_graph F) e e (fun x => x)
                d o i u at_ sb (lift_subs rec sb) a (fun x v H => H)) as [vals [B [a' [E' B']]]].
    - intros name sg Fs. exists (rec sg). split; [apply find_sub_map; exact Fs|]. intros args r Hr. exact (R e sg args r Hr).
    - exact E.
    - rewrite map_option_id in E'. rewrite B in B'. inversion B'; subst. exact E'.
  Qed.

  Lemma run_subs_same F rec : same_env_ok rec (eval_graph F) (eval_graph F) -> forall ns e a, run (eval_graph F) e ns = Some a ->
    run (eval_graph F) e (map_subs_nodes rec ns) = Some a.
  Proof.
    intros R. unfold map_subs_nodes. induction ns as [|n t IH]; intros e a; cbn [Sem.run map]; [auto|].
    destruct (eval_node (eval_graph F) e n) as [a1|] eqn:E; [|discriminate]. destruct n as [d o i u at_ sb].
    rewrite (node_subs_same F rec e d o i u at_ sb a1 R E). apply IH.
  Qed.

  Lemma keep_inits_ok F rec : same_env_ok rec (eval_graph F) (eval_graph F) -> same_env_ok (keep_inits rec) (eval_graph (S F)) (eval_graph (S F)).
  Proof.
    intros R e g args r. destruct g as [gi ii ns go]. cbn [keep_inits Sem.eval_graph]. unfold Sem.eval_body. cbn [g_ins g_nodes g_outs].
    destruct (bind gi args e) as [e0|]; [|discriminate].
    destruct (run (eval_graph F) e0 ns) as [a|] eqn:Rn; [|discriminate]. rewrite (run_subs_same F rec R ns e0 a Rn). auto.
  Qed.

  Lemma hoist_nested_ok : forall d F, same_env_ok (hoist_nested d) (eval_graph F) (eval_graph F).
  Proof.
    induction d as [|d IH]; intro F; [intros e g args r H; exact H|].
    destruct F as [|f]; [intros e g args r H; discriminate|]. cbn [hoist_nested]. apply keep_inits_ok, IH.
  Qed.

  (* moving initializers between the lists of nested graphs and the main graph changes nothing: every initializer is bound
     in the outermost environment (names unique) *)
  Theorem hoist_sound : forall g g', hoist g = Some g' -> forall F e args r,
    eval_graph F e g args = Some r -> eval_graph F e g' args = Some r.
  Proof.
    intros [gi ii ns go] g'. unfold hoist. remember (depth_graph (Graph gi ii ns go)) as d.
    destruct (_ || _); [discriminate|]. intro H; inversion H; subst g'; clear H.
    intros [|f] e args r; [discriminate|]. cbn [Sem.eval_graph]. unfold Sem.eval_body. cbn [g_ins g_nodes g_outs].
    destruct (bind gi args e) as [e0|]; [|discriminate].
    destruct (run (eval_graph f) e0 ns) as [a|] eqn:Rn; [|discriminate].
    rewrite (run_subs_same f _ (hoist_nested_ok d f) ns e0 a Rn). auto.
  Qed.

  (* ================================================================ dedup *)
  Lemma ren_notin ps x : ~ In x (map fst ps) -> ren ps x = x.
  Proof.
    induction ps as [|[a b] t IH]; cbn; [reflexivity|]. intro H.
    destruct (String.eqb x a) eqn:E; [apply String.eqb_eq in E; subst; tauto|apply IH; tauto].
  Qed.
  Lemma ren_in ps x : In x (map fst ps) -> In (x, ren ps x) ps.
  Proof.
    induction ps as [|[a b] t IH]; cbn; [tauto|]. intro H.
    destruct (String.eqb x a) eqn:E; [apply String.eqb_eq in E; subst; left; reflexivity|].
    right. apply IH. destruct H as [H|H]; [subst; rewrite String.eqb_refl in E; discriminate|exact H].
  Qed.
  Lemma ren_range' ps x : ren ps x = x \/ In (ren ps x) (map snd ps).
  Proof.
    induction ps as [|[a b] t IH]; cbn; [auto|]. destruct (String.eqb x a); [right; left; reflexivity|].
    destruct IH as [H|H]; auto.
  Qed.
  Lemma tab_get_filter (f : vname -> bool) t x : tab_get x (filter (fun p => f (fst p)) t) = if f x then tab_get x t else None.
  Proof.
    induction t as [|[y k] r IH]; cbn; [destruct (f x); reflexivity|].
    destruct (f y) eqn:Fy; cbn; destruct (String.eqb x y) eqn:E.
    - apply String.eqb_eq in E. subst. rewrite Fy. reflexivity.
    - exact IH.
    - apply String.eqb_eq in E. subst. rewrite IH, Fy. reflexivity.
    - exact IH.
  Qed.
  Lemma nodupb_filter (f : vname -> bool) (t : itab) : nodupb (map fst t) = true -> nodupb (map fst (filter (fun p => f (fst p)) t)) = true.
  Proof.
    induction t as [|[y k] r IH]; cbn; [auto|]. intro N. apply andb_true_iff in N. destruct N as [N1 N2].
    destruct (f y); cbn; [|apply IH, N2]. rewrite (IH N2), andb_true_r.
    apply negb_true_iff. apply negb_true_iff in N1.
    destruct (mem y (map fst (filter (fun p => f (fst p)) r))) eqn:M; [|reflexivity].
    apply mem_true_iff in M. apply in_map_iff in M. destruct M as [[z kz] [Ez Hz]]. cbn in Ez. subst.
    apply filter_In in Hz. destruct Hz as [Hz _].
    assert (In y (map fst r)) as Hi by (apply in_map_iff; exists (y, kz); auto).
    apply mem_true_iff in Hi. congruence.
  Qed.
  Lemma mem_false_notin x l : mem x l = false -> ~ In x l.
  Proof. intros H Hi. apply mem_true_iff in Hi. congruence. Qed.

  Theorem dedup_sound : forall g t g' t', dedup g t = (g', t') -> forall F outer args r,
    (forall x k, tab_get x t = Some k -> lookup outer x = None) ->
    eval_model F outer g t args = Some r -> eval_model F outer g' t' args = Some r.
  Proof.
    intros [gi ii ns go] t g' t'. unfold dedup.
    destruct (dedup_walk t (gi ++ go) [] ii) as [kept pairs].
    destruct (dedup_guard (Graph gi ii ns go) t pairs) eqn:G; intro H; inversion H; subst; clear H; [|auto].
    intros F outer args r Ho. unfold eval_model.
    unfold dedup_guard in G. apply andb_true_iff in G as [G G4]. apply andb_true_iff in G as [G G3]. apply andb_true_iff in G as [G1 G2].
    apply disjointb_ok in G3, G4. cbn [g_outs] in G4.
    set (rho := ren pairs).
    set (t' := filter (fun p => negb (mem (fst p) (map fst pairs))) t).
    assert (N' : nodupb (map fst t') = true) by (apply (nodupb_filter (fun x => negb (mem x (map fst pairs)))); exact G2).
    assert (R : rel V rho (init_env t ++ outer) (init_env t' ++ outer)).
    { intros x v L. unfold rho.
      destruct (tab_get x t) as [k|] eqn:TG.
      - pose proof (Ho x k TG) as Ox.
        destruct (tok_val k) as [w|] eqn:Tv.
        + rewrite (lookup_app_l _ outer x w (lookup_init_nodup t x k w G2 TG Tv)) in L. inversion L; subst w.
          destruct (mem x (map fst pairs)) eqn:M.
          * apply mem_true_iff in M. pose proof (ren_in pairs x M) as Hp.
            rewrite forallb_forall in G1. specialize (G1 _ Hp). cbn [fst snd] in G1. rewrite TG in G1.
            destruct (tab_get (ren pairs x) t) as [k1|] eqn:TG1; [|discriminate].
            apply andb_true_iff in G1. destruct G1 as [Te Nm]. apply token_eqb_eq in Te. subst k1.
            apply lookup_app_l. apply (lookup_init_nodup t' _ k v N'); [|exact Tv].
            unfold t'. rewrite (tab_get_filter (fun z => negb (mem z (map fst pairs)))). rewrite Nm. exact TG1.
          * rewrite (ren_notin pairs x (mem_false_notin _ _ M)).
            apply lookup_app_l. apply (lookup_init_nodup t' _ k v N'); [|exact Tv].
            unfold t'. rewrite (tab_get_filter (fun z => negb (mem z (map fst pairs)))). rewrite M. exact TG.
        + rewrite (lookup_app_none _ outer x (lookup_init_novalue t x k G2 TG Tv)), Ox in L. discriminate.
      - rewrite (lookup_app_none _ outer x (lookup_init_none t x TG)) in L.
        assert (M : mem x (map fst pairs) = false).
        { destruct (mem x (map fst pairs)) eqn:M; [|reflexivity]. apply mem_true_iff in M. pose proof (ren_in pairs x M) as Hp.
          rewrite forallb_forall in G1. specialize (G1 _ Hp). cbn [fst snd] in G1. rewrite TG in G1. discriminate. }
        rewrite (ren_notin pairs x (mem_false_notin _ _ M)).
        rewrite (lookup_app_none _ outer x); [exact L|]. apply lookup_init_none.
        unfold t'. rewrite (tab_get_filter (fun z => negb (mem z (map fst pairs)))). rewrite M. exact TG. }
    assert (S : stable rho (binds_graph (Graph gi ii ns go))).
    { intros b Hb. pose proof (G3 b Hb) as Nb. split.
      - apply ren_notin. intro Hi. apply Nb, in_or_app. left. exact Hi.
      - intros x Hx. destruct (ren_range' pairs x) as [E|E]; unfold rho in Hx; [congruence|].
        rewrite Hx in E. exfalso. apply Nb, in_or_app. right. exact E. }
    intro Hev. pose proof (use_graph_sound V sem truth trip of_nat of_bool limit rho F _ _ _ args r R S Hev) as H'.
    rewrite use_graph_eq in H'.
    assert (Eo : map rho go = go).
    { clear Hev H' Ho R S. revert G4. unfold rho. generalize go. intros l G4. induction l as [|o t0 IH]; [reflexivity|]. cbn.
      rewrite (ren_notin pairs o (G4 o (or_introl eq_refl))). f_equal. apply IH. intros z Hz. apply G4. right. exact Hz. }
    rewrite Eo in H'. rewrite (eval_graph_inits_irrelevant V sem truth trip of_nat of_bool limit F _ gi kept ii _ go args). exact H'.
  Qed.
End P.
